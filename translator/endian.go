package main

// The byte-order probe of assembler.go (how the library learns the byte order of the machine it runs on): recognised only
// in its exact shape
//
//	buf := [2]byte{}
//	*(*uint16)(unsafe.Pointer(&buf[0])) = uint16(V)
//	switch buf { case [2]byte{a, b}: nativeEndian = binary.X ... default: panic(...) }
//
// and emitted as data (V and the cases) for a theorem that evaluates it for both byte orders. Any other way of setting
// nativeEndian is emitted as None with the source text, which makes the theorem fail.

import (
	"bytes"
	"fmt"
	"go/ast"
	"go/parser"
	"go/printer"
	"go/token"
	"os"
	"path/filepath"
	"strconv"
	"strings"
)

func intLit(e ast.Expr) (uint64, bool) {
	for {
		if c, ok := e.(*ast.CallExpr); ok && len(c.Args) == 1 { // uint16(0xABCD), byte(0xCD)
			e = c.Args[0]
			continue
		}
		if p, ok := e.(*ast.ParenExpr); ok {
			e = p.X
			continue
		}
		break
	}
	lit, ok := e.(*ast.BasicLit)
	if !ok || lit.Kind != token.INT {
		return 0, false
	}
	v, err := strconv.ParseUint(strings.ReplaceAll(lit.Value, "_", ""), 0, 64)
	return v, err == nil
}

func genEndian() string {
	fset := token.NewFileSet()
	// every non-test file of the root package except the hook files of this verification (build tag verif)
	var files []*ast.File
	ents, err := os.ReadDir(*repo)
	if err != nil {
		die("read %s: %v", *repo, err)
	}
	for _, e := range ents {
		n := e.Name()
		if e.IsDir() || !strings.HasSuffix(n, ".go") || strings.HasSuffix(n, "_test.go") {
			continue
		}
		src, err := os.ReadFile(filepath.Join(*repo, n))
		if err != nil {
			die("read %s: %v", n, err)
		}
		if bytes.Contains(src, []byte("//go:build verif")) || bytes.Contains(src, []byte("// +build verif")) {
			continue
		}
		pf, err := parser.ParseFile(fset, filepath.Join(*repo, n), src, 0)
		if err != nil {
			die("parse %s: %v", n, err)
		}
		files = append(files, pf)
	}
	show := func(n ast.Node) string {
		var b bytes.Buffer
		printer.Fprint(&b, fset, n)
		return b.String()
	}
	var assigners []ast.Node // every function body / declaration that assigns nativeEndian
	for _, f := range files {
		ast.Inspect(f, func(n ast.Node) bool {
			switch d := n.(type) {
			case *ast.FuncDecl:
				found := false
				ast.Inspect(d, func(m ast.Node) bool {
					if as, ok := m.(*ast.AssignStmt); ok {
						for _, l := range as.Lhs {
							if id, ok := l.(*ast.Ident); ok && id.Name == "nativeEndian" {
								found = true
							}
						}
					}
					return true
				})
				if found {
					assigners = append(assigners, d)
				}
				return false
			case *ast.ValueSpec:
				for i, nm := range d.Names {
					if nm.Name == "nativeEndian" && i < len(d.Values) {
						assigners = append(assigners, d)
					}
				}
			}
			return true
		})
	}
	none := func(why string) string {
		var src []string
		for _, a := range assigners {
			src = append(src, show(a))
		}
		return fmt.Sprintf("(* byte-order probe not recognised (%s):\n%s\n*)\nDefinition endian_probe : option (N * list (N * N * string)) := None.\n", why,
			strings.ReplaceAll(strings.Join(src, "\n"), "*)", "* )"))
	}
	if len(assigners) != 1 {
		return none(fmt.Sprintf("%d places assign nativeEndian", len(assigners)))
	}
	fd, ok := assigners[0].(*ast.FuncDecl)
	if !ok || fd.Name.Name != "init" || fd.Recv != nil || fd.Body == nil || len(fd.Body.List) != 3 {
		return none("not a three-statement init function")
	}
	// buf := [2]byte{}
	s1, ok := fd.Body.List[0].(*ast.AssignStmt)
	if !ok || s1.Tok != token.DEFINE || len(s1.Lhs) != 1 || show(s1.Rhs[0]) != "[2]byte{}" {
		return none("first statement is not buf := [2]byte{}")
	}
	buf := show(s1.Lhs[0])
	// *(*uint16)(unsafe.Pointer(&buf[0])) = uint16(V)
	s2, ok := fd.Body.List[1].(*ast.AssignStmt)
	if !ok || s2.Tok != token.ASSIGN || len(s2.Lhs) != 1 || show(s2.Lhs[0]) != "*(*uint16)(unsafe.Pointer(&"+buf+"[0]))" {
		return none("second statement is not the uint16 store through unsafe.Pointer(&buf[0])")
	}
	if c, ok := s2.Rhs[0].(*ast.CallExpr); !ok || show(c.Fun) != "uint16" {
		return none("the stored value is not a uint16 conversion of a literal")
	}
	v, ok := intLit(s2.Rhs[0])
	if !ok || v > 0xffff {
		return none("the stored value is not a 16-bit literal")
	}
	// switch buf { case [2]byte{a, b}: nativeEndian = binary.X; ...; default: panic }
	s3, ok := fd.Body.List[2].(*ast.SwitchStmt)
	if !ok || s3.Init != nil || s3.Tag == nil || show(s3.Tag) != buf {
		return none("third statement is not switch buf")
	}
	var cases []string
	sawDefault := false
	for _, st := range s3.Body.List {
		cc := st.(*ast.CaseClause)
		if cc.List == nil {
			if len(cc.Body) != 1 || !strings.HasPrefix(show(cc.Body[0]), "panic(") {
				return none("the default case does not panic")
			}
			sawDefault = true
			continue
		}
		if len(cc.List) != 1 || len(cc.Body) != 1 {
			return none("a case with several values or statements")
		}
		cl, ok := cc.List[0].(*ast.CompositeLit)
		if !ok || show(cl.Type) != "[2]byte" || len(cl.Elts) != 2 {
			return none("a case value that is not a [2]byte literal")
		}
		a, ok1 := intLit(cl.Elts[0])
		b, ok2 := intLit(cl.Elts[1])
		as, ok3 := cc.Body[0].(*ast.AssignStmt)
		if !ok1 || !ok2 || !ok3 || as.Tok != token.ASSIGN || len(as.Lhs) != 1 || show(as.Lhs[0]) != "nativeEndian" || !strings.HasPrefix(show(as.Rhs[0]), "binary.") {
			return none("a case that does not assign a binary.* byte order to nativeEndian")
		}
		cases = append(cases, fmt.Sprintf("(%d%%N, %d%%N, %s)", a, b, coqString(strings.TrimPrefix(show(as.Rhs[0]), "binary."))))
	}
	if !sawDefault {
		return none("no default case")
	}
	return fmt.Sprintf("(* the byte-order probe of assembler.go: a uint16 with this value is stored at &buf[0]; (buf[0], buf[1], byte order chosen) per case *)\nDefinition endian_probe : option (N * list (N * N * string)) := Some (%d%%N, [%s]).\n", v, strings.Join(cases, "; "))
}
