package main

// GenAmbient.v: which parts of the world, besides its arguments, the library's code can read. The properties speak
// about policy values (and, for the loader, the kernel's answers): a reference to the process environment, the file
// system, the clock, the machine name or the scheduler's configuration in the compiler, the tables or the loader is
// an input the model does not have. The list is regenerated from the sources of the CURRENT tree for every target the
// library has tables for; C13 proves it empty.

import (
	"fmt"
	"go/ast"
	"go/build"
	"go/parser"
	"go/token"
	"os"
	"path/filepath"
	"sort"
	"strconv"
	"strings"
)

// every exported name of these packages is an ambient input (or output)
var ambientPackages = map[string]bool{
	"os": true, "os/exec": true, "os/user": true, "os/signal": true, "io/ioutil": true, "io/fs": true, "net": true, "net/http": true,
	"time": true, "math/rand": true, "math/rand/v2": true, "crypto/rand": true, "path/filepath": true, "plugin": true,
	"runtime/debug": true, "log": true, "log/slog": true, "flag": true, "embed": true,
}

// of these packages only the listed names
var ambientNames = map[string]map[string]bool{
	"syscall": set("Uname", "Getenv", "Environ", "Setenv", "Open", "Openat", "Readlink", "Getwd", "Sysinfo", "Getrlimit", "Setrlimit",
		"Getpid", "Getppid", "Getuid", "Geteuid", "Getgid", "Getegid", "Gettimeofday", "Time", "Stat", "Lstat", "Access", "Getpagesize", "Getcwd"),
	"golang.org/x/sys/unix": set("Uname", "Getenv", "Environ", "Setenv", "Open", "Openat", "Readlink", "Getwd", "Sysinfo", "Getrlimit", "Setrlimit",
		"Getpid", "Getppid", "Getuid", "Geteuid", "Getgid", "Getegid", "Gettimeofday", "Time", "Stat", "Lstat", "Access", "Getpagesize", "Getcwd",
		"ClockGettime", "Personality", "SchedGetaffinity", "Gettid", "Prlimit"),
	"runtime": set("NumCPU", "GOMAXPROCS", "NumGoroutine", "GOROOT", "Version", "Caller", "Callers", "Stack", "ReadMemStats", "NumCgoCall",
		"GC", "SetFinalizer", "Compiler"),
	"internal/cpu": set(),
}

func set(xs ...string) map[string]bool {
	m := map[string]bool{}
	for _, x := range xs {
		m[x] = true
	}
	return m
}

type ambientRef struct{ pkg, file, name string }

// what the sandbox command may not consult to decide WHICH policy it loads or what it runs: the environment and
// "well-known places" (the documented inputs are the flags, the policy file they name and the command line)
var sandboxNames = map[string]map[string]bool{
	"os": set("Getenv", "LookupEnv", "ExpandEnv", "Expand", "Environ", "Executable", "Getwd", "UserHomeDir", "UserConfigDir", "UserCacheDir",
		"TempDir", "Hostname", "Getuid", "Geteuid", "Getgid", "Getegid", "Getpid", "Getppid", "ReadDir", "Readlink", "DirFS"),
	"path/filepath": set("Abs", "Glob", "EvalSymlinks", "Walk", "WalkDir"),
	"os/user":       nil, // every name
	"syscall":       set("Getenv", "Environ", "Uname", "Getwd", "Getuid", "Geteuid"),
	"runtime":       set("NumCPU", "GOMAXPROCS", "GOROOT", "Caller"),
	"time":          nil,
	"math/rand":     nil,
	"net":           nil,
	"net/http":      nil,
}

var ambientOverride map[string]map[string]bool // when set: replaces ambientPackages/ambientNames (nil entry = every name)

func collectAmbient(dir string, goos, goarch string) []ambientRef {
	ctx := build.Default
	ctx.GOOS, ctx.GOARCH, ctx.CgoEnabled = goos, goarch, false
	ctx.BuildTags = nil
	ents, err := os.ReadDir(filepath.Join(*repo, dir))
	if err != nil {
		die("read %s: %v", dir, err)
	}
	var out []ambientRef
	fset := token.NewFileSet()
	for _, e := range ents {
		n := e.Name()
		if e.IsDir() || !strings.HasSuffix(n, ".go") || strings.HasSuffix(n, "_test.go") {
			continue
		}
		if ok, err := ctx.MatchFile(filepath.Join(*repo, dir), n); err != nil || !ok {
			continue
		}
		f, err := parser.ParseFile(fset, filepath.Join(*repo, dir, n), nil, 0)
		if err != nil {
			die("parse %s: %v", n, err)
		}
		imports := map[string]string{} // local name -> path
		for _, im := range f.Imports {
			p, _ := strconv.Unquote(im.Path.Value)
			local := p[strings.LastIndex(p, "/")+1:]
			if local == "v2" {
				local = "rand"
			}
			if im.Name != nil {
				local = im.Name.Name
			}
			if local == "_" {
				continue
			}
			if local == "." {
				// dot import of an ambient package: every name of it may be meant
				if ambientPackages[p] || ambientNames[p] != nil {
					out = append(out, ambientRef{dir, n, p + ".*"})
				}
				continue
			}
			imports[local] = p
		}
		ast.Inspect(f, func(nd ast.Node) bool {
			se, ok := nd.(*ast.SelectorExpr)
			if !ok {
				return true
			}
			id, ok := se.X.(*ast.Ident)
			if !ok || id.Obj != nil { // a local object shadows the package name
				return true
			}
			p, ok := imports[id.Name]
			if !ok {
				return true
			}
			if ambientOverride != nil {
				if names, listed := ambientOverride[p]; listed && (names == nil || names[se.Sel.Name]) {
					out = append(out, ambientRef{dir, n, p + "." + se.Sel.Name})
				}
				return true
			}
			if ambientPackages[p] || (ambientNames[p] != nil && ambientNames[p][se.Sel.Name]) {
				out = append(out, ambientRef{dir, n, p + "." + se.Sel.Name})
			}
			return true
		})
	}
	return out
}

func genAmbient() {
	seen := map[ambientRef]bool{}
	var refs []ambientRef
	for _, t := range [][2]string{{"linux", "amd64"}, {"linux", "386"}, {"linux", "arm"}, {"linux", "arm64"}, {"darwin", "arm64"}, {"windows", "amd64"}} {
		for _, dir := range []string{".", "arch", "internal/unix"} {
			if _, err := os.Stat(filepath.Join(*repo, dir)); err != nil {
				continue
			}
			for _, r := range collectAmbient(dir, t[0], t[1]) {
				if !seen[r] {
					seen[r] = true
					refs = append(refs, r)
				}
			}
		}
	}
	sort.Slice(refs, func(i, j int) bool {
		if refs[i].pkg != refs[j].pkg {
			return refs[i].pkg < refs[j].pkg
		}
		if refs[i].file != refs[j].file {
			return refs[i].file < refs[j].file
		}
		return refs[i].name < refs[j].name
	})
	var sb strings.Builder
	sb.WriteString("(* GENERATED by /verif/translator (ambient.go) from the sources of the current tree. Do not edit. *)\n")
	sb.WriteString("From Coq Require Import String List NArith.\nImport ListNotations.\nOpen Scope string_scope.\n\n")
	sb.WriteString("(* (package directory, file, qualified name): references, in the non-test files of the library packages that are\n   built for a target with tables or a stub target, to the process environment, the file system, the clock, the\n   machine, the scheduler's configuration *)\n")
	sb.WriteString("Definition ambient_refs : list (string * string * string) := [")
	for i, r := range refs {
		if i > 0 {
			sb.WriteString(";")
		}
		fmt.Fprintf(&sb, "\n  (%s, %s, %s)", coqString(r.pkg), coqString(r.file), coqString(r.name))
	}
	sb.WriteString("].\n\n")
	// the sandbox command
	ambientOverride = sandboxNames
	var srefs []ambientRef
	if _, err := os.Stat(filepath.Join(*repo, "cmd/sandbox")); err == nil {
		srefs = collectAmbient("cmd/sandbox", "linux", "amd64")
	}
	ambientOverride = nil
	sort.Slice(srefs, func(i, j int) bool {
		if srefs[i].file != srefs[j].file {
			return srefs[i].file < srefs[j].file
		}
		return srefs[i].name < srefs[j].name
	})
	sb.WriteString("(* references of cmd/sandbox to the environment, to well-known places (executable's directory, working directory,\n   home, temporary directory), to the clock, to the network: inputs besides the flags, the policy file and the command line *)\n")
	sb.WriteString("Definition sandbox_ambient_refs : list (string * string * string) := [")
	for i, r := range srefs {
		if i > 0 {
			sb.WriteString(";")
		}
		fmt.Fprintf(&sb, "\n  (%s, %s, %s)", coqString(r.pkg), coqString(r.file), coqString(r.name))
	}
	sb.WriteString("].\n\n")
	// the command-line interfaces: every flag a command registers (package flag, directly or through a FlagSet)
	for _, c := range [][2]string{{"cmd/seccomp-profiler", "profiler_flags"}, {"cmd/sandbox", "sandbox_flags"}} {
		names := collectFlags(c[0])
		sb.WriteString("(* the flags " + c[0] + " registers (name, kind of registration), sorted: what a caller can pass besides the positional arguments *)\n")
		sb.WriteString("Definition " + c[1] + " : list (string * string) := [")
		for i, n := range names {
			if i > 0 {
				sb.WriteString("; ")
			}
			fmt.Fprintf(&sb, "(%s, %s)", coqString(n[0]), coqString(n[1]))
		}
		sb.WriteString("].\n\n")
	}
	sb.WriteString(genEndian())
	writeFile("GenAmbient.v", sb.String())
}

// collectFlags lists the flags registered in the non-test files of a command: calls X.String / Bool / Int / ... ("name" first)
// and X.StringVar / BoolVar / ... / Var (name second) with a string literal for the name, on package flag or on any value
// (a FlagSet). A name that is not a literal is listed as "?".
func collectFlags(dir string) [][2]string {
	ents, err := os.ReadDir(filepath.Join(*repo, dir))
	if err != nil {
		return nil
	}
	direct := set("String", "Bool", "Int", "Int64", "Uint", "Uint64", "Float64", "Duration")
	var out [][2]string
	fset := token.NewFileSet()
	for _, e := range ents {
		n := e.Name()
		if e.IsDir() || !strings.HasSuffix(n, ".go") || strings.HasSuffix(n, "_test.go") {
			continue
		}
		f, err := parser.ParseFile(fset, filepath.Join(*repo, dir, n), nil, 0)
		if err != nil {
			die("parse %s: %v", n, err)
		}
		usesFlag := false
		for _, im := range f.Imports {
			if p, _ := strconv.Unquote(im.Path.Value); p == "flag" || strings.HasSuffix(p, "/pflag") {
				usesFlag = true
			}
		}
		if !usesFlag {
			continue
		}
		ast.Inspect(f, func(nd ast.Node) bool {
			call, ok := nd.(*ast.CallExpr)
			if !ok {
				return true
			}
			se, ok := call.Fun.(*ast.SelectorExpr)
			if !ok {
				return true
			}
			m := se.Sel.Name
			idx := -1
			switch {
			case direct[m]:
				idx = 0
			case m == "Var" || m == "Func" || m == "BoolFunc" || m == "TextVar" || (strings.HasSuffix(m, "Var") && direct[strings.TrimSuffix(m, "Var")]):
				idx = 1
				if m == "Func" || m == "BoolFunc" {
					idx = 0
				}
			}
			if idx < 0 || len(call.Args) <= idx || len(call.Args) < 2 {
				return true
			}
			name := "?"
			if lit, ok := call.Args[idx].(*ast.BasicLit); ok && lit.Kind == token.STRING {
				name, _ = strconv.Unquote(lit.Value)
			} else if idx == 0 && !direct[m] {
				return true
			} else if _, isLit := call.Args[idx].(*ast.BasicLit); !isLit {
				// not a literal: only count it when the receiver is package flag itself
				if id, ok := se.X.(*ast.Ident); !ok || id.Name != "flag" {
					return true
				}
			}
			out = append(out, [2]string{name, m})
			return true
		})
	}
	sort.Slice(out, func(i, j int) bool { return out[i][0] < out[j][0] || (out[i][0] == out[j][0] && out[i][1] < out[j][1]) })
	return out
}
