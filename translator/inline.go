package main

// Inlining of extracted helpers. The templates of codegen.go are read off the bodies of a handful of functions of
// filter.go. When a maintainer moves a few statements of such a function into a NEW helper function (the most common
// behaviour-preserving refactoring), the body no longer has the shape the templates are read from. Before the templates
// are extracted, calls to helpers - functions and methods of the package that are not part of the vocabulary the models
// are written in (knownFuncs) - are therefore expanded in place, when the helper is simple enough for the expansion to
// be obviously meaning-preserving:
//
//   - the helper's body is straight-line code whose `return`s are the last statement or the sole statement of a
//     top-level guard `if c { return ... }` (no defer, go, goto, labels, loops containing return, closures);
//   - the call is the whole right-hand side of an assignment / definition (also as the init statement of an `if`),
//     or - for a helper that consists of one `return <expr>` - any expression;
//   - every argument is evaluated exactly once: an argument that is not an identifier, a selector chain or a literal is
//     bound to a fresh variable (named like the parameter) first; the helper's own locals are renamed when they clash.
//
// Anything else is left alone (and the templates then say "unknown", as before). After the expansion two local
// clean-ups restore the usual shapes: `var x T; if c { x = nil } else { S }` becomes `var x T; if !c { S }`, and a
// definition `a, b := e, v` whose second value is a plain variable drops that pair and uses v for b.

import (
	"bytes"
	"fmt"
	"go/ast"
	"go/parser"
	"go/printer"
	"go/token"
	"reflect"
	"strings"
)

// the functions the models and templates speak about (filter.go, assembler.go of the modelled source)
var knownFuncs = map[string]bool{
	"String": true, "MarshalText": true, "Unpack": true, "Validate": true, "valid": true, "Assemble": true, "assemble": true,
	"Dump": true, "getSyscall": true, "toSyscallsWithConditions": true, "init": true, "NewProgram": true, "JmpIfTrue": true,
	"JmpIf": true, "Jmp": true, "SetLabel": true, "Ret": true, "returnValue": true, "LdHi": true, "LdLo": true, "NewLabel": true,
	"bridgeLongBranches": true, "insertBridge": true, "updateIndices": true, "destination": true, "computeSkipN": true, "currentIndex": true,
}

type inliner struct {
	fset    *token.FileSet
	helpers map[string]*ast.FuncDecl // name -> declaration (functions and methods; a name used twice is not a helper)
	changed bool
	caller  *ast.FuncDecl
	used    map[string]bool // identifiers used in the caller
	scope   map[string]bool // variables (and local types) visible at the statement being processed
}

func nodeText(fset *token.FileSet, n ast.Node) string {
	var buf bytes.Buffer
	if err := printer.Fprint(&buf, fset, n); err != nil {
		return "?"
	}
	return buf.String()
}

func parseStmts(text string) ([]ast.Stmt, bool) {
	fs := token.NewFileSet()
	f, err := parser.ParseFile(fs, "x.go", "package p\nfunc _() {\n"+text+"\n}\n", 0)
	if err != nil {
		return nil, false
	}
	return f.Decls[0].(*ast.FuncDecl).Body.List, true
}

func parseExpr(text string) (ast.Expr, bool) {
	e, err := parser.ParseExpr(text)
	return e, err == nil
}

func hasReturn(n ast.Node) bool {
	found := false
	ast.Inspect(n, func(x ast.Node) bool {
		switch x.(type) {
		case *ast.ReturnStmt:
			found = true
		case *ast.FuncLit:
			return false
		}
		return !found
	})
	return found
}

func unsupported(n ast.Node) bool {
	bad := false
	ast.Inspect(n, func(x ast.Node) bool {
		switch x.(type) {
		case *ast.DeferStmt, *ast.GoStmt, *ast.LabeledStmt, *ast.FuncLit, *ast.SelectStmt:
			bad = true
		case *ast.BranchStmt:
			if x.(*ast.BranchStmt).Tok == token.GOTO {
				bad = true
			}
		}
		return !bad
	})
	return bad
}

// guardReturn recognises `if c { return ... }` (no init, no else).
func guardReturn(s ast.Stmt) (*ast.IfStmt, *ast.ReturnStmt) {
	ifs, ok := s.(*ast.IfStmt)
	if !ok || ifs.Init != nil || ifs.Else != nil || len(ifs.Body.List) != 1 {
		return nil, nil
	}
	rs, ok := ifs.Body.List[0].(*ast.ReturnStmt)
	if !ok {
		return nil, nil
	}
	return ifs, rs
}

// simpleBody: returns only as guards at the top level or as the last statement.
func simpleBody(fd *ast.FuncDecl) bool {
	if fd.Body == nil || len(fd.Body.List) == 0 || unsupported(fd.Body) {
		return false
	}
	n := len(fd.Body.List)
	for i, s := range fd.Body.List {
		if i == n-1 {
			_, ok := s.(*ast.ReturnStmt)
			if !ok {
				return fd.Type.Results == nil && !hasReturn(s)
			}
			continue
		}
		if g, _ := guardReturn(s); g != nil {
			continue
		}
		if hasReturn(s) {
			return false
		}
	}
	return true
}

func simpleArg(e ast.Expr) bool {
	switch v := e.(type) {
	case *ast.Ident, *ast.BasicLit:
		return true
	case *ast.SelectorExpr:
		return simpleArg(v.X)
	case *ast.ParenExpr:
		return simpleArg(v.X)
	}
	return false
}

func (in *inliner) helperOf(call *ast.CallExpr) *ast.FuncDecl {
	switch f := call.Fun.(type) {
	case *ast.Ident:
		if h := in.helpers[f.Name]; h != nil && h.Recv == nil {
			return h
		}
	case *ast.SelectorExpr:
		if h := in.helpers[f.Sel.Name]; h != nil && h.Recv != nil {
			return h
		}
	}
	return nil
}

// bind returns the substitution of the helper's parameters (and receiver) by the call's arguments, the binding
// statements for arguments that are not simple, and whether the call can be expanded.
func (in *inliner) bind(h *ast.FuncDecl, call *ast.CallExpr, lhs []string, tok token.Token) (map[string]string, []string, bool) {
	// A parameter the helper assigns to is the helper's own copy: its argument may be used in its place only when the
	// caller's variable is overwritten by the call's result anyway (x = h(x, ...)); otherwise it gets a fresh variable.
	overwritten := func(arg ast.Expr) bool {
		id, ok := arg.(*ast.Ident)
		if !ok || tok != token.ASSIGN {
			return false
		}
		for _, l := range lhs {
			if l == id.Name {
				return true
			}
		}
		return false
	}
	subst := map[string]string{}
	var binds []string
	var params []string
	if h.Type.Params != nil {
		for _, f := range h.Type.Params.List {
			if _, variadic := f.Type.(*ast.Ellipsis); variadic {
				return nil, nil, false
			}
			if len(f.Names) == 0 {
				params = append(params, "_")
			}
			for _, n := range f.Names {
				params = append(params, n.Name)
			}
		}
	}
	if len(params) != len(call.Args) {
		return nil, nil, false
	}
	if h.Recv != nil {
		sel, ok := call.Fun.(*ast.SelectorExpr)
		if !ok || len(h.Recv.List) != 1 {
			return nil, nil, false
		}
		if len(h.Recv.List[0].Names) == 1 {
			if !simpleArg(sel.X) || assignedLater(h.Body.List, h.Recv.List[0].Names[0].Name) {
				return nil, nil, false
			}
			subst[h.Recv.List[0].Names[0].Name] = nodeText(in.fset, sel.X)
		}
	}
	for i, p := range params {
		if p == "_" {
			continue
		}
		a := call.Args[i]
		if simpleArg(a) && (!assignedLater(h.Body.List, p) || overwritten(a)) {
			subst[p] = nodeText(in.fset, a)
		} else {
			name := p
			if in.used[name] {
				name = p + "_" + h.Name.Name
			}
			in.used[name] = true
			binds = append(binds, fmt.Sprintf("%s := %s", name, nodeText(in.fset, a)))
			if name != p {
				subst[p] = name
			}
		}
	}
	return subst, binds, true
}

// freshBody returns a copy of the helper's body with parameters substituted and clashing locals renamed.
func (in *inliner) freshBody(h *ast.FuncDecl, subst map[string]string) ([]ast.Stmt, bool) {
	text := nodeText(in.fset, h.Body)
	text = strings.TrimSpace(text)
	text = strings.TrimSuffix(strings.TrimPrefix(text, "{"), "}")
	stmts, ok := parseStmts(text)
	if !ok {
		return nil, false
	}
	// locals of the helper
	locals := map[string]bool{}
	for _, s := range stmts {
		ast.Inspect(s, func(n ast.Node) bool {
			switch x := n.(type) {
			case *ast.AssignStmt:
				if x.Tok == token.DEFINE {
					for _, l := range x.Lhs {
						if id, ok := l.(*ast.Ident); ok && id.Name != "_" {
							locals[id.Name] = true
						}
					}
				}
			case *ast.ValueSpec:
				for _, id := range x.Names {
					locals[id.Name] = true
				}
			case *ast.RangeStmt:
				if x.Tok == token.DEFINE {
					for _, e := range []ast.Expr{x.Key, x.Value} {
						if id, ok := e.(*ast.Ident); ok && id.Name != "_" {
							locals[id.Name] = true
						}
					}
				}
			}
			return true
		})
	}
	ren := map[string]string{}
	for l := range locals {
		if _, isParam := subst[l]; isParam {
			return nil, false // a parameter that is redefined: leave the call alone
		}
		if in.used[l] {
			ren[l] = l + "_" + h.Name.Name
		}
		in.used[l] = true
	}
	exprSubst := map[string]ast.Expr{}
	for p, a := range subst {
		e, ok := parseExpr(a)
		if !ok {
			return nil, false
		}
		exprSubst[p] = e
	}
	holder := &ast.BlockStmt{List: stmts}
	renameIdents(holder, ren)
	replaceIdents(holder, exprSubst)
	return holder.List, true
}

// replaceIdents replaces every USE of an identifier (not a selector's field, not a composite-literal key) by an expression.
func replaceIdents(node ast.Node, subst map[string]ast.Expr) {
	if len(subst) == 0 {
		return
	}
	rep := func(e ast.Expr) ast.Expr {
		if id, ok := e.(*ast.Ident); ok {
			if to, ok := subst[id.Name]; ok {
				return to
			}
		}
		return e
	}
	ast.Inspect(node, func(n ast.Node) bool {
		switch x := n.(type) {
		case *ast.CallExpr:
			x.Fun = rep(x.Fun)
			for i := range x.Args {
				x.Args[i] = rep(x.Args[i])
			}
		case *ast.BinaryExpr:
			x.X, x.Y = rep(x.X), rep(x.Y)
		case *ast.UnaryExpr:
			x.X = rep(x.X)
		case *ast.StarExpr:
			x.X = rep(x.X)
		case *ast.ParenExpr:
			x.X = rep(x.X)
		case *ast.SelectorExpr:
			x.X = rep(x.X)
		case *ast.IndexExpr:
			x.X, x.Index = rep(x.X), rep(x.Index)
		case *ast.SliceExpr:
			x.X, x.Low, x.High, x.Max = rep(x.X), repOpt(rep, x.Low), repOpt(rep, x.High), repOpt(rep, x.Max)
		case *ast.KeyValueExpr:
			x.Value = rep(x.Value)
		case *ast.CompositeLit:
			for i := range x.Elts {
				if _, kv := x.Elts[i].(*ast.KeyValueExpr); !kv {
					x.Elts[i] = rep(x.Elts[i])
				}
			}
		case *ast.AssignStmt:
			for i := range x.Rhs {
				x.Rhs[i] = rep(x.Rhs[i])
			}
			if x.Tok != token.DEFINE {
				for i := range x.Lhs {
					x.Lhs[i] = rep(x.Lhs[i])
				}
			}
		case *ast.ReturnStmt:
			for i := range x.Results {
				x.Results[i] = rep(x.Results[i])
			}
		case *ast.IfStmt:
			x.Cond = rep(x.Cond)
		case *ast.RangeStmt:
			x.X = rep(x.X)
		case *ast.ExprStmt:
			x.X = rep(x.X)
		case *ast.SwitchStmt:
			if x.Tag != nil {
				x.Tag = rep(x.Tag)
			}
		case *ast.CaseClause:
			for i := range x.List {
				x.List[i] = rep(x.List[i])
			}
		case *ast.IncDecStmt:
			x.X = rep(x.X)
		case *ast.SendStmt:
			x.Chan, x.Value = rep(x.Chan), rep(x.Value)
		}
		return true
	})
}

func repOpt(rep func(ast.Expr) ast.Expr, e ast.Expr) ast.Expr {
	if e == nil {
		return nil
	}
	return rep(e)
}

// freeIdents: identifiers a helper uses that are neither its parameters, receiver, results nor locals - package-level
// names (functions, constants, imported packages, types). Selected fields and composite-literal keys do not count.
func freeIdents(h *ast.FuncDecl) map[string]bool {
	bound := map[string]bool{}
	addFields := func(fl *ast.FieldList) {
		if fl != nil {
			for _, f := range fl.List {
				for _, n := range f.Names {
					bound[n.Name] = true
				}
			}
		}
	}
	addFields(h.Recv)
	addFields(h.Type.Params)
	addFields(h.Type.Results)
	ast.Inspect(h.Body, func(n ast.Node) bool {
		switch x := n.(type) {
		case *ast.AssignStmt:
			if x.Tok == token.DEFINE {
				for _, l := range x.Lhs {
					if id, ok := l.(*ast.Ident); ok {
						bound[id.Name] = true
					}
				}
			}
		case *ast.ValueSpec:
			for _, id := range x.Names {
				bound[id.Name] = true
			}
		case *ast.RangeStmt:
			if x.Tok == token.DEFINE {
				for _, e := range []ast.Expr{x.Key, x.Value} {
					if id, ok := e.(*ast.Ident); ok {
						bound[id.Name] = true
					}
				}
			}
		}
		return true
	})
	free := map[string]bool{}
	var visit func(n ast.Node) bool
	visit = func(n ast.Node) bool {
		switch x := n.(type) {
		case *ast.SelectorExpr:
			ast.Inspect(x.X, visit)
			return false
		case *ast.KeyValueExpr:
			ast.Inspect(x.Value, visit)
			return false
		case *ast.Ident:
			if !bound[x.Name] && x.Name != "_" {
				free[x.Name] = true
			}
		}
		return true
	}
	ast.Inspect(h.Body, visit)
	return free
}

// captured: would a free identifier of the helper be captured by a variable visible at the call site?
func (in *inliner) captured(h *ast.FuncDecl) bool {
	for name := range freeIdents(h) {
		if in.scope[name] {
			return true
		}
	}
	return false
}

func declaredBy(s ast.Stmt, into map[string]bool) {
	switch x := s.(type) {
	case *ast.AssignStmt:
		if x.Tok == token.DEFINE {
			for _, l := range x.Lhs {
				if id, ok := l.(*ast.Ident); ok {
					into[id.Name] = true
				}
			}
		}
	case *ast.DeclStmt:
		if gd, ok := x.Decl.(*ast.GenDecl); ok {
			for _, sp := range gd.Specs {
				switch v := sp.(type) {
				case *ast.ValueSpec:
					for _, id := range v.Names {
						into[id.Name] = true
					}
				case *ast.TypeSpec:
					into[v.Name.Name] = true
				}
			}
		}
	}
}

func copyScope(m map[string]bool) map[string]bool {
	n := map[string]bool{}
	for k := range m {
		n[k] = true
	}
	return n
}

func resultTypes(h *ast.FuncDecl, fset *token.FileSet) []string {
	var ts []string
	if h.Type.Results != nil {
		for _, f := range h.Type.Results.List {
			n := len(f.Names)
			if n == 0 {
				n = 1
			}
			for i := 0; i < n; i++ {
				ts = append(ts, nodeText(fset, f.Type))
			}
		}
	}
	return ts
}

// expandAssign: lhs tok h(args)  ->  statements
func (in *inliner) expandAssign(lhs []ast.Expr, tok token.Token, call *ast.CallExpr, h *ast.FuncDecl) ([]ast.Stmt, bool) {
	if !simpleBody(h) || in.captured(h) {
		return nil, false
	}
	types := resultTypes(h, in.fset)
	if len(types) != len(lhs) || (tok != token.DEFINE && tok != token.ASSIGN) {
		return nil, false
	}
	if h.Type.Results != nil {
		for _, f := range h.Type.Results.List {
			if len(f.Names) > 0 {
				return nil, false // named results: not handled
			}
		}
	}
	var lhsNames []string
	for _, l := range lhs {
		lhsNames = append(lhsNames, nodeText(in.fset, l))
	}
	subst, binds, ok := in.bind(h, call, lhsNames, tok)
	if !ok {
		return nil, false
	}
	body, ok := in.freshBody(h, subst)
	if !ok {
		return nil, false
	}
	var lhsText []string
	for _, l := range lhs {
		lhsText = append(lhsText, nodeText(in.fset, l))
	}
	guards := false
	for _, s := range body {
		if g, _ := guardReturn(s); g != nil {
			guards = true
		}
	}
	var pre []string
	pre = append(pre, binds...)
	atok := tok
	if guards && tok == token.DEFINE {
		for i, l := range lhsText {
			if l != "_" {
				pre = append(pre, fmt.Sprintf("var %s %s", l, types[i]))
			}
		}
		atok = token.ASSIGN
	}
	assign := func(rs *ast.ReturnStmt) (string, bool) {
		if len(rs.Results) != len(lhsText) {
			return "", false // `return f()` with several results: not handled
		}
		var ls, rsx []string
		for i := range lhsText {
			r := nodeText(in.fset, rs.Results[i])
			// a, b := e, v  with v a plain variable: use v for b (only for variables the expansion itself introduced or
			// defines: the pair is dropped and b renamed in the statements that follow, see dropAliases)
			ls = append(ls, lhsText[i])
			rsx = append(rsx, r)
		}
		return fmt.Sprintf("%s %s %s", strings.Join(ls, ", "), atok.String(), strings.Join(rsx, ", ")), true
	}
	var render func(list []ast.Stmt) (string, bool)
	render = func(list []ast.Stmt) (string, bool) {
		var sb strings.Builder
		for i, s := range list {
			if g, rs := guardReturn(s); g != nil {
				a, ok := assign(rs)
				if !ok {
					return "", false
				}
				rest, ok := render(list[i+1:])
				if !ok {
					return "", false
				}
				fmt.Fprintf(&sb, "if %s {\n%s\n} else {\n%s\n}\n", nodeText(in.fset, g.Cond), a, rest)
				return sb.String(), true
			}
			if rs, ok := s.(*ast.ReturnStmt); ok {
				a, ok := assign(rs)
				if !ok {
					return "", false
				}
				sb.WriteString(a + "\n")
				return sb.String(), true
			}
			sb.WriteString(nodeText(in.fset, s) + "\n")
		}
		return sb.String(), true
	}
	text, ok := render(body)
	if !ok {
		return nil, false
	}
	stmts, ok := parseStmts(strings.Join(pre, "\n") + "\n" + text)
	if !ok {
		return nil, false
	}
	in.changed = true
	return stmts, true
}

// exprHelper: a helper that is one `return <expr>`; returns the expression for a call, or nil.
func (in *inliner) exprHelper(call *ast.CallExpr) ast.Expr {
	h := in.helperOf(call)
	if h == nil || h.Body == nil || len(h.Body.List) != 1 || unsupported(h.Body) {
		return nil
	}
	rs, ok := h.Body.List[0].(*ast.ReturnStmt)
	if !ok || len(rs.Results) != 1 || in.captured(h) {
		return nil
	}
	subst, binds, ok := in.bind(h, call, nil, token.ILLEGAL)
	if !ok || len(binds) > 0 {
		return nil
	}
	e, ok := parseExpr(nodeText(in.fset, rs.Results[0]))
	if !ok {
		return nil
	}
	exprSubst := map[string]ast.Expr{}
	for p, a := range subst {
		x, ok := parseExpr(a)
		if !ok {
			return nil
		}
		exprSubst[p] = x
	}
	holder := &ast.ParenExpr{X: e}
	replaceIdents(&ast.ExprStmt{X: holder}, exprSubst)
	in.changed = true
	return holder
}

func (in *inliner) inlineExprs(s ast.Stmt) {
	subst := func(e ast.Expr) ast.Expr {
		if c, ok := e.(*ast.CallExpr); ok {
			if x := in.exprHelper(c); x != nil {
				return x
			}
		}
		return e
	}
	ast.Inspect(s, func(n ast.Node) bool {
		switch x := n.(type) {
		case *ast.BlockStmt:
			return false // nested statement lists are visited by inlineList
		case *ast.CallExpr:
			for i := range x.Args {
				x.Args[i] = subst(x.Args[i])
			}
		case *ast.BinaryExpr:
			x.X, x.Y = subst(x.X), subst(x.Y)
		case *ast.UnaryExpr:
			x.X = subst(x.X)
		case *ast.ParenExpr:
			x.X = subst(x.X)
		case *ast.AssignStmt:
			for i := range x.Rhs {
				x.Rhs[i] = subst(x.Rhs[i])
			}
		case *ast.ReturnStmt:
			for i := range x.Results {
				x.Results[i] = subst(x.Results[i])
			}
		case *ast.IfStmt:
			x.Cond = subst(x.Cond)
		case *ast.KeyValueExpr:
			x.Value = subst(x.Value)
		case *ast.ExprStmt:
			x.X = subst(x.X)
		}
		return true
	})
}

func (in *inliner) callOf(s ast.Stmt) (*ast.AssignStmt, *ast.CallExpr, *ast.FuncDecl) {
	as, ok := s.(*ast.AssignStmt)
	if !ok || len(as.Rhs) != 1 {
		return nil, nil, nil
	}
	call, ok := as.Rhs[0].(*ast.CallExpr)
	if !ok {
		return nil, nil, nil
	}
	h := in.helperOf(call)
	if h == nil {
		return nil, nil, nil
	}
	return as, call, h
}

func (in *inliner) inlineList(list []ast.Stmt) []ast.Stmt {
	saved := in.scope
	in.scope = copyScope(saved)
	defer func() { in.scope = saved }()
	nested := func(l []ast.Stmt, extra ...ast.Stmt) []ast.Stmt {
		outer := in.scope
		in.scope = copyScope(outer)
		for _, e := range extra {
			if e != nil {
				declaredBy(e, in.scope)
			}
		}
		r := in.inlineList(l)
		in.scope = outer
		return r
	}
	var out []ast.Stmt
	for _, s := range list {
		if as, call, h := in.callOf(s); as != nil {
			if st, ok := in.expandAssign(as.Lhs, as.Tok, call, h); ok {
				st = in.inlineListSameScope(st)
				out = append(out, st...)
				continue
			}
		}
		switch x := s.(type) {
		case *ast.IfStmt:
			first := true
			var inits []ast.Stmt
			for cur := x; cur != nil; {
				if cur.Init != nil && first {
					if as, call, h := in.callOf(cur.Init); as != nil {
						if st, ok := in.expandAssign(as.Lhs, as.Tok, call, h); ok {
							st = in.inlineListSameScope(st)
							out = append(out, st...)
							cur.Init = nil
						}
					}
				}
				first = false
				if cur.Init != nil {
					inits = append(inits, cur.Init)
				}
				cur.Body.List = nested(cur.Body.List, inits...)
				switch e := cur.Else.(type) {
				case *ast.IfStmt:
					cur = e
				case *ast.BlockStmt:
					e.List = nested(e.List, inits...)
					cur = nil
				default:
					cur = nil
				}
			}
		case *ast.RangeStmt:
			var decl ast.Stmt
			if x.Tok == token.DEFINE {
				decl = &ast.AssignStmt{Lhs: nonNil(x.Key, x.Value), Tok: token.DEFINE}
			}
			x.Body.List = nested(x.Body.List, decl)
		case *ast.ForStmt:
			x.Body.List = nested(x.Body.List, x.Init)
		case *ast.BlockStmt:
			x.List = nested(x.List)
		case *ast.SwitchStmt:
			for _, cc := range x.Body.List {
				if c, ok := cc.(*ast.CaseClause); ok {
					c.Body = nested(c.Body, x.Init)
				}
			}
		}
		in.inlineExprs(s)
		declaredBy(s, in.scope)
		out = append(out, s)
	}
	return out
}

// inlineListSameScope processes statements produced by an expansion: they belong to the list being processed.
func (in *inliner) inlineListSameScope(st []ast.Stmt) []ast.Stmt {
	var out []ast.Stmt
	for _, s := range st {
		r := in.inlineListNoCopy([]ast.Stmt{s})
		out = append(out, r...)
	}
	return out
}

func (in *inliner) inlineListNoCopy(list []ast.Stmt) []ast.Stmt {
	// same as inlineList for one statement, but declarations stay visible to the statements that follow
	scope := in.scope
	r := in.inlineList(list)
	for _, s := range r {
		declaredBy(s, scope)
	}
	in.scope = scope
	return r
}

func nonNil(es ...ast.Expr) []ast.Expr {
	var out []ast.Expr
	for _, e := range es {
		if e != nil {
			out = append(out, e)
		}
	}
	return out
}

func negate(e ast.Expr) ast.Expr {
	switch v := e.(type) {
	case *ast.ParenExpr:
		return negate(v.X)
	case *ast.UnaryExpr:
		if v.Op == token.NOT {
			return v.X
		}
	case *ast.BinaryExpr:
		opp := map[token.Token]token.Token{token.EQL: token.NEQ, token.NEQ: token.EQL, token.LSS: token.GEQ, token.GEQ: token.LSS,
			token.GTR: token.LEQ, token.LEQ: token.GTR}
		if o, ok := opp[v.Op]; ok {
			return &ast.BinaryExpr{X: v.X, Op: o, Y: v.Y}
		}
	}
	return &ast.UnaryExpr{Op: token.NOT, X: &ast.ParenExpr{X: e}}
}

// cleanList applies the two local clean-ups to a statement list (recursively).
func cleanList(fset *token.FileSet, list []ast.Stmt) []ast.Stmt {
	isNilAssign := func(b *ast.BlockStmt, name string) bool {
		if b == nil || len(b.List) != 1 {
			return false
		}
		as, ok := b.List[0].(*ast.AssignStmt)
		return ok && as.Tok == token.ASSIGN && len(as.Lhs) == 1 && len(as.Rhs) == 1 && nodeText(fset, as.Lhs[0]) == name && nodeText(fset, as.Rhs[0]) == "nil"
	}
	var out []ast.Stmt
	for i := 0; i < len(list); i++ {
		s := list[i]
		// var x T; if c { x = nil } else { S }   ->   var x T; if !c { S }     (and the mirrored form)
		if ds, ok := s.(*ast.DeclStmt); ok && i+1 < len(list) {
			if gd, ok := ds.Decl.(*ast.GenDecl); ok && gd.Tok == token.VAR && len(gd.Specs) == 1 {
				vs := gd.Specs[0].(*ast.ValueSpec)
				if len(vs.Names) == 1 && len(vs.Values) == 0 {
					if ifs, ok := list[i+1].(*ast.IfStmt); ok && ifs.Init == nil {
						if eb, ok := ifs.Else.(*ast.BlockStmt); ok {
							name := vs.Names[0].Name
							if isNilAssign(ifs.Body, name) {
								ifs.Cond, ifs.Body, ifs.Else = negate(ifs.Cond), eb, nil
							} else if isNilAssign(eb, name) {
								ifs.Else = nil
							}
						}
					}
				}
			}
		}
		switch x := s.(type) {
		case *ast.IfStmt:
			for cur := x; cur != nil; {
				cur.Body.List = cleanList(fset, cur.Body.List)
				switch e := cur.Else.(type) {
				case *ast.IfStmt:
					cur = e
				case *ast.BlockStmt:
					e.List = cleanList(fset, e.List)
					cur = nil
				default:
					cur = nil
				}
			}
		case *ast.RangeStmt:
			x.Body.List = cleanList(fset, x.Body.List)
		case *ast.ForStmt:
			x.Body.List = cleanList(fset, x.Body.List)
		case *ast.BlockStmt:
			x.List = cleanList(fset, x.List)
		}
		// a, b = a, b  (what is left of `a, b = h(a, b)` once h's body has been spliced in): nothing
		if as, ok := s.(*ast.AssignStmt); ok && as.Tok == token.ASSIGN && len(as.Lhs) == len(as.Rhs) {
			same := true
			for k := range as.Lhs {
				l, lok := as.Lhs[k].(*ast.Ident)
				r, rok := as.Rhs[k].(*ast.Ident)
				if !lok || !rok || l.Name != r.Name {
					same = false
				}
			}
			if same {
				continue
			}
		}
		// a, b := e, v  (v a plain variable, b new): drop the pair, use v for b in what follows
		if as, ok := s.(*ast.AssignStmt); ok && as.Tok == token.DEFINE && len(as.Lhs) >= 2 && len(as.Lhs) == len(as.Rhs) {
			var keepL, keepR []ast.Expr
			ren := map[string]string{}
			for k := range as.Lhs {
				l, lok := as.Lhs[k].(*ast.Ident)
				r, rok := as.Rhs[k].(*ast.Ident)
				if lok && rok && l.Name != "_" && r.Name != "nil" && r.Name != "true" && r.Name != "false" && !assignedLater(list[i+1:], l.Name) && !assignedLater(list[i+1:], r.Name) {
					ren[l.Name] = r.Name
					continue
				}
				keepL, keepR = append(keepL, as.Lhs[k]), append(keepR, as.Rhs[k])
			}
			if len(ren) > 0 {
				for _, later := range list[i+1:] {
					renameIdents(later, ren)
				}
				if len(keepL) == 0 {
					continue
				}
				as.Lhs, as.Rhs = keepL, keepR
			}
		}
		out = append(out, s)
	}
	return out
}

func assignedLater(list []ast.Stmt, name string) bool {
	found := false
	for _, s := range list {
		ast.Inspect(s, func(n ast.Node) bool {
			switch x := n.(type) {
			case *ast.AssignStmt:
				for _, l := range x.Lhs {
					if id, ok := l.(*ast.Ident); ok && id.Name == name {
						found = true
					}
				}
			case *ast.IncDecStmt:
				if id, ok := x.X.(*ast.Ident); ok && id.Name == name {
					found = true
				}
			case *ast.UnaryExpr:
				if x.Op == token.AND {
					if id, ok := x.X.(*ast.Ident); ok && id.Name == name {
						found = true
					}
				}
			}
			return !found
		})
	}
	return found
}

// inlineHelpers expands helper calls in the functions of the given files and returns the files re-parsed from the
// rewritten source (so that every node has consistent positions), together with their file set.
func inlineHelpers(fset *token.FileSet, files []*ast.File, names []string) (*token.FileSet, []*ast.File, bool) {
	in := &inliner{fset: fset, helpers: map[string]*ast.FuncDecl{}}
	count := map[string]int{}
	for _, f := range files {
		for _, d := range f.Decls {
			if fd, ok := d.(*ast.FuncDecl); ok {
				count[fd.Name.Name]++
				if !knownFuncs[fd.Name.Name] && fd.Body != nil {
					in.helpers[fd.Name.Name] = fd
				}
			}
		}
	}
	for n := range in.helpers {
		if count[n] != 1 {
			delete(in.helpers, n)
		}
	}
	if len(in.helpers) == 0 {
		return fset, files, false
	}
	// helpers calling helpers: expand inside the helpers first (a bounded number of rounds; recursion is never expanded
	// into itself because a helper's own name is removed while its body is processed)
	for round := 0; round < 3; round++ {
		for name, h := range in.helpers {
			saved := in.helpers[name]
			delete(in.helpers, name)
			in.caller = h
			in.used = identsOf(h)
			in.scope = funcScope(h)
			h.Body.List = in.inlineList(h.Body.List)
			in.helpers[name] = saved
		}
	}
	for _, f := range files {
		for _, d := range f.Decls {
			fd, ok := d.(*ast.FuncDecl)
			if !ok || fd.Body == nil || in.helpers[fd.Name.Name] == fd {
				continue
			}
			in.caller = fd
			in.used = identsOf(fd)
			in.scope = funcScope(fd)
			fd.Body.List = in.inlineList(fd.Body.List)
		}
	}
	if !in.changed {
		return fset, files, false
	}
	for _, f := range files {
		for _, d := range f.Decls {
			if fd, ok := d.(*ast.FuncDecl); ok && fd.Body != nil {
				fd.Body.List = cleanList(fset, fd.Body.List)
			}
		}
	}
	nfset := token.NewFileSet()
	var nfiles []*ast.File
	for i, f := range files {
		f.Comments = nil
		// forget every source position: the printer then lays the (partly spliced) tree out canonically
		clearPositions(f)
		pfset := token.NewFileSet()
		pfset.AddFile(names[i], -1, 16)
		text := nodeText(pfset, f)
		nf, err := parser.ParseFile(nfset, names[i], text, 0)
		if err != nil {
			return fset, files, false
		}
		nfiles = append(nfiles, nf)
	}
	return nfset, nfiles, true
}

func funcScope(fd *ast.FuncDecl) map[string]bool {
	m := map[string]bool{}
	for _, fl := range []*ast.FieldList{fd.Recv, fd.Type.Params, fd.Type.Results} {
		if fl != nil {
			for _, f := range fl.List {
				for _, n := range f.Names {
					m[n.Name] = true
				}
			}
		}
	}
	return m
}

// normalizeComparisons brings two spellings of the same test to one: an if/else whose condition is `a > b`, `a >= b`,
// `a != b` or `!c` becomes the negated condition with the branches exchanged (the modelled source writes its two-way
// decisions with `<=`, `<`, `==`), and `x + k == y` (k an integer literal) becomes `x == y - k`.
func normalizeComparisons(files []*ast.File) {
	for _, f := range files {
		ast.Inspect(f, func(n ast.Node) bool {
			switch x := n.(type) {
			case *ast.IfStmt:
				eb, ok := x.Else.(*ast.BlockStmt)
				if !ok || x.Init != nil {
					return true
				}
				flip := false
				switch c := x.Cond.(type) {
				case *ast.BinaryExpr:
					flip = c.Op == token.GTR || c.Op == token.GEQ || c.Op == token.NEQ
				case *ast.UnaryExpr:
					flip = c.Op == token.NOT
				}
				if flip {
					x.Cond, x.Body, x.Else = negate(x.Cond), eb, x.Body
				}
			case *ast.BinaryExpr:
				if x.Op == token.EQL {
					if l, ok := x.X.(*ast.BinaryExpr); ok && l.Op == token.ADD {
						if k, ok := l.Y.(*ast.BasicLit); ok && k.Kind == token.INT {
							x.X, x.Y = l.X, &ast.BinaryExpr{X: x.Y, Op: token.SUB, Y: k}
						}
					}
				}
			}
			return true
		})
	}
}

func clearPositions(root ast.Node) {
	posType := reflect.TypeOf(token.NoPos)
	ast.Inspect(root, func(n ast.Node) bool {
		if n == nil {
			return false
		}
		v := reflect.ValueOf(n)
		if v.Kind() == reflect.Ptr && !v.IsNil() {
			e := v.Elem()
			if e.Kind() == reflect.Struct {
				for i := 0; i < e.NumField(); i++ {
					f := e.Field(i)
					// a valid position stays valid (an ellipsis, an alias `=`, a parenthesised declaration are
					// recorded as valid positions), but all of them become the same place
					if f.Type() == posType && f.CanSet() && f.Int() != 0 {
						f.SetInt(1)
					}
				}
			}
		}
		return true
	})
}

func identsOf(fd *ast.FuncDecl) map[string]bool {
	m := map[string]bool{}
	ast.Inspect(fd, func(n ast.Node) bool {
		if id, ok := n.(*ast.Ident); ok {
			m[id.Name] = true
		}
		return true
	})
	return m
}
