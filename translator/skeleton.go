// Effect skeletons: the orchestrating functions of the repository re-emitted in the statement language of
// coq/theories/Skeleton.v (gen/GenSkeletons.v). Only go/parser, go/ast, go/printer, go/build.
//
// Rules (see Skeleton.v for the semantics):
//   - a call at statement level, on the right of an assignment, in an if-init, in a return or nested in the
//     arguments of such a call becomes its own SCall (nested calls are hoisted, in evaluation order, into
//     temporaries $t1, $t2, ...); builtins and conversions (len, uint16, uintptr, unsafe.Pointer, make, ...)
//     stay expressions (EConv);
//   - a condition that contains a call, and every statement or expression form not listed here, becomes
//     SUnknown "<source>" / EOther "<source>": the interpreter is stuck on them, so a dependent theorem
//     fails to check instead of ignoring code.
package main

import (
	"bytes"
	"fmt"
	"go/ast"
	"go/build"
	"go/printer"
	"go/token"
	"path/filepath"
	"sort"
	"strconv"
	"strings"
)

var convNames = map[string]bool{
	"len": true, "cap": true, "make": true, "new": true, "append": true,
	"uint8": true, "uint16": true, "uint32": true, "uint64": true, "uint": true, "uintptr": true,
	"int8": true, "int16": true, "int32": true, "int64": true, "int": true,
	"string": true, "byte": true, "rune": true, "bool": true, "float32": true, "float64": true,
	"unsafe.Pointer": true, "[]byte": true,
}

type skGen struct {
	fset  *token.FileSet
	ntmp  int
	nres  int // number of results of the function being translated
	known map[string]bool
	lits  map[string]ast.Expr // package-level `const X = <literal>` of the file(s) being translated
	// local variables of the function being translated whose address is handed to flag.StringVar / BoolVar / ...: after
	// flag.Parse they hold whatever the command line says, so they are left unbound (an unbound name is an opaque value
	// named after the variable - exactly how a package-level flag variable is read)
	flagVars map[string]bool
}

// literalConsts collects the package-level constants that are defined by a literal (number or string).
func literalConsts(files []*ast.File) map[string]ast.Expr {
	m := map[string]ast.Expr{}
	for _, f := range files {
		for _, d := range f.Decls {
			gd, ok := d.(*ast.GenDecl)
			if !ok || gd.Tok != token.CONST {
				continue
			}
			for _, sp := range gd.Specs {
				vs, ok := sp.(*ast.ValueSpec)
				if !ok || len(vs.Names) != len(vs.Values) {
					continue
				}
				for i, n := range vs.Names {
					if lit, ok := vs.Values[i].(*ast.BasicLit); ok {
						m[n.Name] = lit
					}
				}
			}
		}
	}
	return m
}

func (g *skGen) src(n ast.Node) string {
	var buf bytes.Buffer
	if err := printer.Fprint(&buf, g.fset, n); err != nil {
		return fmt.Sprintf("<%T>", n)
	}
	s := strings.Join(strings.Fields(buf.String()), " ")
	if len(s) > 240 {
		s = s[:240] + "..."
	}
	return s
}

func (g *skGen) tmp() string {
	g.ntmp++
	return fmt.Sprintf("$t%d", g.ntmp)
}

// path returns the dotted path of an identifier / selector chain.
func path(e ast.Expr) (string, bool) {
	switch x := e.(type) {
	case *ast.Ident:
		return x.Name, true
	case *ast.SelectorExpr:
		p, ok := path(x.X)
		if !ok {
			return "", false
		}
		return p + "." + x.Sel.Name, true
	case *ast.ParenExpr:
		return path(x.X)
	}
	return "", false
}

// convName: the call is a builtin or a conversion that stays an expression.
func (g *skGen) convName(c *ast.CallExpr) (string, bool) {
	switch f := c.Fun.(type) {
	case *ast.ArrayType, *ast.StarExpr, *ast.MapType, *ast.InterfaceType, *ast.FuncType, *ast.ChanType:
		return g.src(f), true
	case *ast.ParenExpr:
		return g.src(f.X), true
	}
	if p, ok := path(c.Fun); ok && convNames[p] {
		return p, true
	}
	return "", false
}

func hasCall(g *skGen, e ast.Expr) bool {
	found := false
	ast.Inspect(e, func(n ast.Node) bool {
		if c, ok := n.(*ast.CallExpr); ok {
			if _, isConv := g.convName(c); !isConv {
				found = true
			}
		}
		if _, ok := n.(*ast.FuncLit); ok {
			found = true
		}
		return !found
	})
	return found
}

func coqList(items []string) string {
	return "[" + strings.Join(items, "; ") + "]"
}

func coqStrList(items []string) string {
	var q []string
	for _, s := range items {
		q = append(q, coqString(s))
	}
	return coqList(q)
}

// expr translates an expression; nested effectful calls are hoisted into *pre when pre != nil, otherwise
// (pre == nil) an expression containing one is EOther.
func (g *skGen) expr(e ast.Expr, pre *[]string) string {
	switch x := e.(type) {
	case *ast.Ident:
		switch x.Name {
		case "nil":
			return "ENil"
		case "true":
			return "ETrue"
		case "false":
			return "EFalse"
		}
		if lit, ok := g.lits[x.Name]; ok { // a named constant of the command's own file stands for its literal
			return g.expr(lit, pre)
		}
		return "EId " + coqString(x.Name)
	case *ast.BasicLit:
		switch x.Kind {
		case token.INT:
			if v, err := strconv.ParseUint(strings.ReplaceAll(x.Value, "_", ""), 0, 64); err == nil {
				return fmt.Sprintf("ENum %d", v)
			}
		case token.STRING:
			if s, err := strconv.Unquote(x.Value); err == nil {
				return "EStr " + coqString(s)
			}
		}
		return "EOther " + coqString(g.src(e))
	case *ast.ParenExpr:
		return g.expr(x.X, pre)
	case *ast.SelectorExpr:
		return fmt.Sprintf("ESel (%s) %s", g.expr(x.X, pre), coqString(x.Sel.Name))
	case *ast.StarExpr:
		return fmt.Sprintf("EUn %s (%s)", coqString("*"), g.expr(x.X, pre))
	case *ast.UnaryExpr:
		if x.Op == token.ARROW {
			return "EOther " + coqString(g.src(e))
		}
		return fmt.Sprintf("EUn %s (%s)", coqString(x.Op.String()), g.expr(x.X, pre))
	case *ast.BinaryExpr:
		if (x.Op == token.LAND || x.Op == token.LOR) && hasCall(g, e) {
			return "EOther " + coqString(g.src(e)) // hoisting would break short-circuit evaluation
		}
		l := g.expr(x.X, pre)
		r := g.expr(x.Y, pre)
		return fmt.Sprintf("EBin %s (%s) (%s)", coqString(x.Op.String()), l, r)
	case *ast.IndexExpr:
		return fmt.Sprintf("EIdx (%s) (%s)", g.expr(x.X, pre), g.expr(x.Index, pre))
	case *ast.CompositeLit:
		if x.Type == nil {
			return "EOther " + coqString(g.src(e))
		}
		var fields []string
		for _, el := range x.Elts {
			kv, ok := el.(*ast.KeyValueExpr)
			if !ok {
				return "EOther " + coqString(g.src(e))
			}
			k, ok := kv.Key.(*ast.Ident)
			if !ok {
				return "EOther " + coqString(g.src(e))
			}
			fields = append(fields, fmt.Sprintf("(%s, %s)", coqString(k.Name), g.expr(kv.Value, pre)))
		}
		// keyed fields in a canonical (alphabetical) order: the order in which a keyed literal lists its fields carries no
		// meaning (calls inside the values have been hoisted in source order already)
		sort.Strings(fields)
		return fmt.Sprintf("EStruct %s %s", coqString(g.src(x.Type)), coqList(fields))
	case *ast.CallExpr:
		if name, ok := g.convName(x); ok {
			if x.Ellipsis != token.NoPos {
				return "EOther " + coqString(g.src(e))
			}
			var args []string
			for _, a := range x.Args {
				if _, isType := a.(*ast.ArrayType); isType {
					args = append(args, "EOther "+coqString(g.src(a)))
					continue
				}
				args = append(args, g.expr(a, pre))
			}
			return fmt.Sprintf("EConv %s %s", coqString(name), coqList(args))
		}
		if pre == nil {
			return "EOther " + coqString(g.src(e))
		}
		callee, args, ok := g.call(x, pre)
		if !ok {
			return "EOther " + coqString(g.src(e))
		}
		t := g.tmp()
		*pre = append(*pre, fmt.Sprintf("SCall true %s (%s) %s", coqStrList([]string{t}), callee, coqList(args)))
		return "EId " + coqString(t)
	}
	return "EOther " + coqString(g.src(e))
}

// call translates callee and arguments of an effectful call (hoisting nested calls into pre).
func (g *skGen) call(c *ast.CallExpr, pre *[]string) (string, []string, bool) {
	var callee string
	if _, ok := path(c.Fun); ok {
		callee = g.expr(c.Fun, nil)
	} else if sel, ok := c.Fun.(*ast.SelectorExpr); ok {
		// method call on the result of a call: hoist the receiver
		if inner, ok := sel.X.(*ast.CallExpr); ok {
			if _, isConv := g.convName(inner); !isConv {
				r := g.expr(inner, pre)
				if strings.HasPrefix(r, "EOther") {
					return "", nil, false
				}
				callee = fmt.Sprintf("ESel (%s) %s", r, coqString(sel.Sel.Name))
			}
		}
	}
	if callee == "" {
		return "", nil, false
	}
	var args []string
	for i, a := range c.Args {
		if c.Ellipsis != token.NoPos && i == len(c.Args)-1 {
			args = append(args, "EOther "+coqString(g.src(a)+"..."))
			continue
		}
		args = append(args, g.expr(a, pre))
	}
	return callee, args, true
}

func (g *skGen) unknown(n ast.Node) []string {
	return []string{"SUnknown " + coqString(g.src(n))}
}

func (g *skGen) block(b *ast.BlockStmt) []string {
	var out []string
	if b == nil {
		return out
	}
	for _, s := range b.List {
		out = append(out, g.stmt(s)...)
	}
	return out
}

func zeroOf(g *skGen, t ast.Expr) string {
	switch x := t.(type) {
	case *ast.Ident:
		switch x.Name {
		case "bool":
			return "EFalse"
		case "string":
			return "EStr " + coqString("")
		case "error":
			return "ENil"
		case "int", "int8", "int16", "int32", "int64", "uint", "uint8", "uint16", "uint32", "uint64", "uintptr", "byte", "rune":
			return "ENum 0"
		}
	case *ast.StarExpr, *ast.MapType, *ast.InterfaceType, *ast.FuncType, *ast.ChanType:
		return "ENil"
	case *ast.ArrayType:
		if x.Len == nil {
			return "ENil"
		}
		if lit, ok := x.Len.(*ast.BasicLit); ok && lit.Kind == token.INT {
			if el, ok := x.Elt.(*ast.Ident); ok && zeroOf(g, el) == "ENum 0" {
				if v, err := strconv.ParseUint(lit.Value, 0, 32); err == nil {
					return fmt.Sprintf("EConv %s [ENum %d]", coqString("zeros"), v)
				}
			}
		}
	}
	return "EOther " + coqString("zero value of "+g.src(t))
}

func (g *skGen) stmt(s ast.Stmt) []string {
	switch x := s.(type) {
	case *ast.EmptyStmt:
		return nil
	case *ast.BlockStmt:
		return []string{"SBlock " + coqList(g.block(x))}
	case *ast.ExprStmt:
		c, ok := x.X.(*ast.CallExpr)
		if !ok {
			return g.unknown(s)
		}
		if _, isConv := g.convName(c); isConv {
			return g.unknown(s)
		}
		p, _ := path(c.Fun)
		var pre []string
		switch p {
		case "os.Exit":
			if len(c.Args) != 1 || hasCall(g, c.Args[0]) {
				return g.unknown(s)
			}
			return []string{fmt.Sprintf("SExit (%s)", g.expr(c.Args[0], nil))}
		case "panic", "recover", "delete", "close", "print", "println":
			return g.unknown(s)
		case "copy":
			if len(c.Args) == 2 {
				if sl, ok := c.Args[0].(*ast.SliceExpr); ok && sl.Low == nil && sl.High == nil && sl.Max == nil {
					if id, ok := sl.X.(*ast.Ident); ok && !hasCall(g, c.Args[1]) {
						d := "EId " + coqString(id.Name)
						return []string{fmt.Sprintf("SAssign false (%s) (EConv %s [%s; %s])", d, coqString("copy"), d, g.expr(c.Args[1], nil))}
					}
				}
			}
			return g.unknown(s)
		}
		callee, args, ok := g.call(c, &pre)
		if !ok {
			return g.unknown(s)
		}
		out := append(pre, fmt.Sprintf("SCall false [] (%s) %s", callee, coqList(args)))
		if p == "log.Fatal" || p == "log.Fatalf" || p == "log.Fatalln" {
			out = append(out, "SExit (ENum 1)")
		}
		return out
	case *ast.AssignStmt:
		if x.Tok != token.DEFINE && x.Tok != token.ASSIGN {
			return g.unknown(s)
		}
		def := "false"
		if x.Tok == token.DEFINE {
			def = "true"
		}
		if len(x.Rhs) == 1 {
			if c, ok := x.Rhs[0].(*ast.CallExpr); ok {
				if _, isConv := g.convName(c); !isConv {
					var names []string
					for _, l := range x.Lhs {
						id, ok := l.(*ast.Ident)
						if !ok {
							return g.unknown(s)
						}
						names = append(names, id.Name)
					}
					var pre []string
					callee, args, ok := g.call(c, &pre)
					if !ok {
						return g.unknown(s)
					}
					return append(pre, fmt.Sprintf("SCall %s %s (%s) %s", def, coqStrList(names), callee, coqList(args)))
				}
			}
		}
		if len(x.Lhs) != 1 || len(x.Rhs) != 1 {
			return g.unknown(s)
		}
		if _, ok := path(x.Lhs[0]); !ok {
			return g.unknown(s)
		}
		var pre []string
		r := g.expr(x.Rhs[0], &pre)
		return append(pre, fmt.Sprintf("SAssign %s (%s) (%s)", def, g.expr(x.Lhs[0], nil), r))
	case *ast.DeclStmt:
		gd, ok := x.Decl.(*ast.GenDecl)
		if !ok {
			return g.unknown(s)
		}
		switch gd.Tok {
		case token.TYPE:
			return nil // a local type declaration has no run-time effect
		case token.VAR, token.CONST:
			var out []string
			for _, sp := range gd.Specs {
				vs, ok := sp.(*ast.ValueSpec)
				if !ok {
					return g.unknown(s)
				}
				if len(vs.Values) == 0 {
					if vs.Type == nil {
						return g.unknown(s)
					}
					for _, n := range vs.Names {
						if g.flagVars[n.Name] {
							continue
						}
						out = append(out, fmt.Sprintf("SDecl %s %s (%s)", coqString(n.Name), coqString(g.src(vs.Type)), zeroOf(g, vs.Type)))
					}
					continue
				}
				if len(vs.Values) != len(vs.Names) {
					return g.unknown(s)
				}
				for i, n := range vs.Names {
					var pre []string
					r := g.expr(vs.Values[i], &pre)
					out = append(out, pre...)
					out = append(out, fmt.Sprintf("SAssign true (EId %s) (%s)", coqString(n.Name), r))
				}
			}
			return out
		}
		return g.unknown(s)
	case *ast.SwitchStmt:
		// a switch without tag is an if / else-if chain (cases with one expression each, default last)
		if x.Tag == nil && x.Init == nil {
			var first, last *ast.IfStmt
			ok := true
			for _, cc := range x.Body.List {
				clause, isClause := cc.(*ast.CaseClause)
				if !isClause {
					ok = false
					break
				}
				for _, st := range clause.Body {
					if br, isBr := st.(*ast.BranchStmt); isBr && (br.Tok == token.FALLTHROUGH || br.Tok == token.BREAK) {
						ok = false
					}
				}
				if clause.List == nil {
					if last == nil || cc != x.Body.List[len(x.Body.List)-1] {
						ok = false
						break
					}
					last.Else = &ast.BlockStmt{List: clause.Body}
					continue
				}
				if len(clause.List) != 1 {
					ok = false
					break
				}
				n := &ast.IfStmt{Cond: clause.List[0], Body: &ast.BlockStmt{List: clause.Body}}
				if first == nil {
					first = n
				} else {
					last.Else = n
				}
				last = n
			}
			if ok && first != nil {
				return g.stmt(first)
			}
		}
		return g.unknown(s)
	case *ast.IfStmt:
		if hasCall(g, x.Cond) {
			return g.unknown(s)
		}
		var init []string
		if x.Init != nil {
			init = g.stmt(x.Init)
		}
		var els []string
		switch e := x.Else.(type) {
		case nil:
		case *ast.BlockStmt:
			els = g.block(e)
		case *ast.IfStmt:
			els = g.stmt(e)
		default:
			return g.unknown(s)
		}
		ifs := fmt.Sprintf("SIf (%s) %s %s", g.expr(x.Cond, nil), coqList(g.block(x.Body)), coqList(els))
		if x.Init != nil {
			return []string{"SBlock " + coqList(append(init, ifs))}
		}
		return []string{ifs}
	case *ast.ReturnStmt:
		var pre []string
		if len(x.Results) == 1 && g.nres > 1 {
			// return f(...) forwarding several results
			c, ok := x.Results[0].(*ast.CallExpr)
			if !ok {
				return g.unknown(s)
			}
			callee, args, ok := g.call(c, &pre)
			if !ok {
				return g.unknown(s)
			}
			var names, ids []string
			for i := 0; i < g.nres; i++ {
				t := g.tmp()
				names = append(names, t)
				ids = append(ids, "EId "+coqString(t))
			}
			pre = append(pre, fmt.Sprintf("SCall true %s (%s) %s", coqStrList(names), callee, coqList(args)))
			return append(pre, "SReturn "+coqList(ids))
		}
		var rs []string
		for _, r := range x.Results {
			rs = append(rs, g.expr(r, &pre))
		}
		return append(pre, "SReturn "+coqList(rs))
	case *ast.DeferStmt:
		if _, isConv := g.convName(x.Call); isConv {
			return g.unknown(s)
		}
		if _, ok := path(x.Call.Fun); !ok {
			return g.unknown(s)
		}
		var pre []string
		callee, args, ok := g.call(x.Call, &pre)
		if !ok {
			return g.unknown(s)
		}
		return append(pre, fmt.Sprintf("SDefer (%s) %s", callee, coqList(args)))
	}
	return g.unknown(s)
}

type skFunc struct {
	coqName string // suffix of sk_/fn_
	name    string
	decl    *ast.FuncDecl
}

func (g *skGen) emitFunc(sb *strings.Builder, f skFunc) {
	g.ntmp = 0
	g.nres = 0
	if f.decl.Type.Results != nil {
		for _, r := range f.decl.Type.Results.List {
			if len(r.Names) == 0 {
				g.nres++
			} else {
				g.nres += len(r.Names)
			}
		}
	}
	var params []string
	variadic := false
	named := false
	if f.decl.Type.Results != nil {
		for _, r := range f.decl.Type.Results.List {
			if len(r.Names) > 0 {
				named = true
			}
		}
	}
	for _, p := range f.decl.Type.Params.List {
		if _, ok := p.Type.(*ast.Ellipsis); ok {
			variadic = true
		}
		if len(p.Names) == 0 {
			params = append(params, "_")
		}
		for _, n := range p.Names {
			params = append(params, n.Name)
		}
	}
	var body []string
	if named {
		body = []string{"SUnknown " + coqString("named results: "+g.src(f.decl.Type))}
	} else {
		g.flagVars = map[string]bool{}
		ast.Inspect(f.decl.Body, func(n ast.Node) bool {
			if c, ok := n.(*ast.CallExpr); ok && len(c.Args) >= 1 {
				if p, ok := path(c.Fun); ok && strings.HasPrefix(p, "flag.") && strings.HasSuffix(p, "Var") {
					if u, ok := c.Args[0].(*ast.UnaryExpr); ok && u.Op == token.AND {
						if id, ok := u.X.(*ast.Ident); ok {
							g.flagVars[id.Name] = true
						}
					}
				}
			}
			return true
		})
		body = g.block(f.decl.Body)
		g.flagVars = nil
	}
	fmt.Fprintf(sb, "Definition sk_%s : list sk := [\n", f.coqName)
	for i, s := range body {
		sep := ";"
		if i == len(body)-1 {
			sep = ""
		}
		fmt.Fprintf(sb, "  %s%s\n", s, sep)
	}
	sb.WriteString("].\n")
	fmt.Fprintf(sb, "Definition fn_%s : skfun := {| fn_name := %s; fn_params := %s; fn_variadic := %v; fn_body := sk_%s |}.\n\n",
		f.coqName, coqString(f.name), coqStrList(params), variadic, f.coqName)
}

func topFuncs(files []*ast.File) map[string]*ast.FuncDecl {
	m := map[string]*ast.FuncDecl{}
	for _, f := range files {
		for _, d := range f.Decls {
			if fd, ok := d.(*ast.FuncDecl); ok && fd.Recv == nil && fd.Body != nil {
				m[fd.Name.Name] = fd
			}
		}
	}
	return m
}

func sourceOrder(m map[string]*ast.FuncDecl, names []string) []string {
	sort.Slice(names, func(i, j int) bool { return m[names[i]].Pos() < m[names[j]].Pos() })
	return names
}

func genSkeletons() {
	fset := token.NewFileSet()
	g := &skGen{fset: fset}
	var sb strings.Builder
	sb.WriteString("(* GENERATED by /verif/translator (skeleton.go) from seccomp_linux.go (and the files it calls into),\n" +
		"   cmd/sandbox/main.go and cmd/seccomp-profiler/main.go - do not edit *)\n" +
		"From Coq Require Import List NArith String.\nFrom Seccomp Require Import Skeleton.\nImport ListNotations.\nOpen Scope N_scope.\n\n")

	// ---- package seccomp, files of the linux build without tags (the verif hooks are the empty functions)
	ctxt := build.Default
	ctxt.GOOS = "linux"
	ctxt.BuildTags = nil
	var files []*ast.File
	var fileNames []string
	if bp, err := ctxt.ImportDir(*repo, 0); err == nil {
		for _, name := range bp.GoFiles {
			files = append(files, parseFile(fset, filepath.Join(*repo, name)))
			fileNames = append(fileNames, name)
		}
	} else {
		die("skeletons: %v", err)
	}
	funcs := topFuncs(files)
	roots := []string{"Supported", "SetNoNewPrivs", "LoadFilter"}
	reach := map[string]bool{}
	var visit func(n string)
	visit = func(n string) {
		fd := funcs[n]
		if fd == nil || reach[n] {
			return
		}
		reach[n] = true
		ast.Inspect(fd.Body, func(x ast.Node) bool {
			if c, ok := x.(*ast.CallExpr); ok {
				if id, ok := c.Fun.(*ast.Ident); ok {
					visit(id.Name)
				}
			}
			return true
		})
	}
	for _, r := range roots {
		visit(r)
	}
	var names []string
	for n := range reach {
		names = append(names, n)
	}
	names = sourceOrder(funcs, names)
	fmt.Fprintf(&sb, "(* package seccomp; files of the linux build: %s *)\n", strings.Join(fileNames, " "))
	var fns []string
	for _, n := range names {
		g.emitFunc(&sb, skFunc{coqName: n, name: n, decl: funcs[n]})
		fns = append(fns, "fn_"+n)
	}
	for _, r := range roots {
		if !reach[r] {
			fmt.Fprintf(&sb, "Definition sk_%s : list sk := [SUnknown %s].\n", r, coqString("function "+r+" not found in the linux build"))
			fmt.Fprintf(&sb, "Definition fn_%s : skfun := {| fn_name := %s; fn_params := []; fn_variadic := false; fn_body := sk_%s |}.\n\n", r, coqString(r), r)
			fns = append(fns, "fn_"+r)
		}
	}
	fmt.Fprintf(&sb, "Definition seccomp_funs : list skfun := %s.\n\n", coqList(fns))

	// ---- the two commands: every top-level function of their main.go
	for _, cmd := range []struct{ prefix, rel string }{
		{"sandbox", "cmd/sandbox/main.go"},
		{"profiler", "cmd/seccomp-profiler/main.go"},
	} {
		f := parseFile(fset, filepath.Join(*repo, cmd.rel))
		g.lits = literalConsts([]*ast.File{f})
		fm := topFuncs([]*ast.File{f})
		var ns []string
		for n := range fm {
			ns = append(ns, n)
		}
		ns = sourceOrder(fm, ns)
		fmt.Fprintf(&sb, "(* %s *)\n", cmd.rel)
		var fl []string
		for _, n := range ns {
			g.emitFunc(&sb, skFunc{coqName: cmd.prefix + "_" + n, name: n, decl: fm[n]})
			fl = append(fl, "fn_"+cmd.prefix+"_"+n)
		}
		fmt.Fprintf(&sb, "Definition %s_funs : list skfun := %s.\n\n", cmd.prefix, coqList(fl))
	}
	writeFile("GenSkeletons.v", sb.String())
}
