(** Vendored oracle: every AUDIT_ARCH_* constant of the kernel's UAPI header, evaluated by the C compiler
    (provenance: /usr/include/linux/audit.h + linux/elf-em.h of linux-libc-dev 6.1, each macro printed by a gcc-built
    program; independent of /repo). Refresh by hand only. *)
From Coq Require Import List NArith String.
Import ListNotations.
Open Scope N_scope.

Definition kernel_audit_arch : list (string * N) := [
 ("AUDIT_ARCH_AARCH64"%string, 3221225655);
 ("AUDIT_ARCH_ALPHA"%string, 3221262374);
 ("AUDIT_ARCH_ARCOMPACT"%string, 1073741917);
 ("AUDIT_ARCH_ARCOMPACTBE"%string, 93);
 ("AUDIT_ARCH_ARCV2"%string, 1073742019);
 ("AUDIT_ARCH_ARCV2BE"%string, 195);
 ("AUDIT_ARCH_ARM"%string, 1073741864);
 ("AUDIT_ARCH_ARMEB"%string, 40);
 ("AUDIT_ARCH_C6X"%string, 1073741964);
 ("AUDIT_ARCH_C6XBE"%string, 140);
 ("AUDIT_ARCH_CRIS"%string, 1073741900);
 ("AUDIT_ARCH_CSKY"%string, 1073742076);
 ("AUDIT_ARCH_FRV"%string, 21569);
 ("AUDIT_ARCH_H8300"%string, 46);
 ("AUDIT_ARCH_HEXAGON"%string, 164);
 ("AUDIT_ARCH_I386"%string, 1073741827);
 ("AUDIT_ARCH_IA64"%string, 3221225522);
 ("AUDIT_ARCH_LOONGARCH32"%string, 1073742082);
 ("AUDIT_ARCH_LOONGARCH64"%string, 3221225730);
 ("AUDIT_ARCH_M32R"%string, 88);
 ("AUDIT_ARCH_M68K"%string, 4);
 ("AUDIT_ARCH_MICROBLAZE"%string, 189);
 ("AUDIT_ARCH_MIPS"%string, 8);
 ("AUDIT_ARCH_MIPS64"%string, 2147483656);
 ("AUDIT_ARCH_MIPS64N32"%string, 2684354568);
 ("AUDIT_ARCH_MIPSEL"%string, 1073741832);
 ("AUDIT_ARCH_MIPSEL64"%string, 3221225480);
 ("AUDIT_ARCH_MIPSEL64N32"%string, 3758096392);
 ("AUDIT_ARCH_NDS32"%string, 1073741991);
 ("AUDIT_ARCH_NDS32BE"%string, 167);
 ("AUDIT_ARCH_NIOS2"%string, 1073741937);
 ("AUDIT_ARCH_OPENRISC"%string, 92);
 ("AUDIT_ARCH_PARISC"%string, 15);
 ("AUDIT_ARCH_PARISC64"%string, 2147483663);
 ("AUDIT_ARCH_PPC"%string, 20);
 ("AUDIT_ARCH_PPC64"%string, 2147483669);
 ("AUDIT_ARCH_PPC64LE"%string, 3221225493);
 ("AUDIT_ARCH_RISCV32"%string, 1073742067);
 ("AUDIT_ARCH_RISCV64"%string, 3221225715);
 ("AUDIT_ARCH_S390"%string, 22);
 ("AUDIT_ARCH_S390X"%string, 2147483670);
 ("AUDIT_ARCH_SH"%string, 42);
 ("AUDIT_ARCH_SH64"%string, 2147483690);
 ("AUDIT_ARCH_SHEL"%string, 1073741866);
 ("AUDIT_ARCH_SHEL64"%string, 3221225514);
 ("AUDIT_ARCH_SPARC"%string, 2);
 ("AUDIT_ARCH_SPARC64"%string, 2147483691);
 ("AUDIT_ARCH_TILEGX"%string, 3221225663);
 ("AUDIT_ARCH_TILEGX32"%string, 1073742015);
 ("AUDIT_ARCH_TILEPRO"%string, 1073742012);
 ("AUDIT_ARCH_UNICORE"%string, 1073741934);
 ("AUDIT_ARCH_X86_64"%string, 3221225534);
 ("AUDIT_ARCH_XTENSA"%string, 94)
].

(** the Go constant auditArch<X> of arch/zarches.go names the kernel's AUDIT_ARCH_<X> *)
Definition kernel_name_of_go (s:string) : string := ("AUDIT_ARCH_" ++ substring 9 (String.length s - 9) s)%string.
Fixpoint lookup_audit (l:list (string * N)) (s:string) : option N :=
  match l with [] => None | (k, v) :: r => if String.eqb k s then Some v else lookup_audit r s end.
Definition kernel_value_of_go (s:string) : option N := lookup_audit kernel_audit_arch (kernel_name_of_go s).
Definition audit_const_ok (e:string * N) : bool :=
  match kernel_value_of_go (fst e) with Some v => v =? snd e | None => false end.
