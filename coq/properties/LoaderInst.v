(** Per-run instance for C09 / C10 / C11 (also usable by C08 / C15), LoadFilter part (Supported and
    SetNoNewPrivs are in SupportedInst.v, so that a change to them does not disturb C10 / C11): the regenerated skeletons of
    seccomp_linux.go (gen/GenSkeletons.v) and the regenerated constants (gen/GenConsts.v, target linux/amd64)
    satisfy the specifications of LoaderProofs.v. Compiled on every run against the current /repo; the proofs
    are the symbolic-execution tactics of LoaderProofs.v (case split on the filter and the pin count, evaluation
    of the skeleton interpreter over an abstract kernel, comparison with [ref_load]). *)
From Coq Require Import List NArith Bool String.
From Seccomp Require Import Machine Raw Result KernelCheck KernelState Skeleton Loader LoaderProofs.
From Gen Require Import GenSkeletons GenConsts.
Import ListNotations.
Open Scope N_scope.

(** the constants of constants.go as the Go type checker evaluates them for linux/amd64 *)
Definition gen_target : option target_consts :=
  find (fun t => String.eqb (tc_goos t) "linux" && String.eqb (tc_goarch t) "amd64") targets.

Definition gen_lc : lconsts := Eval vm_compute in
  match gen_target with
  | Some t => {| lc_set_mode_strict := tc_seccompSetModeStrict t; lc_set_mode_filter := tc_seccompSetModeFilter t;
                 lc_pr_set_nnp := tc_prSetNoNewPrivs t; lc_tsync := tc_FilterFlagTSync t; lc_log := tc_FilterFlagLog t |}
  | None => {| lc_set_mode_strict := 99; lc_set_mode_filter := 99; lc_pr_set_nnp := 99; lc_tsync := 99; lc_log := 99 |}
  end.

(** LoadFilter of the current tree, over any kernel *)
Definition gen_load K ksec kprctl := load_sem K ksec kprctl seccomp_funs gen_lc.

Lemma gen_load_spec : forall K ksec kprctl, load_spec K ksec kprctl (load_sem K ksec kprctl seccomp_funs gen_lc).
Proof. prove_load_spec. Qed.

(** over the kernel model of KernelState.v *)
Definition kload : kworld -> filt -> kworld * lres := gen_load kstate do_seccomp do_prctl.
Definition kload_spec : load_spec kstate do_seccomp do_prctl kload := gen_load_spec kstate do_seccomp do_prctl.

(** ... and over the same kernel model with the loader's own system calls filtered by the filters already installed
    (KernelState: do_seccomp_g / do_prctl_g). [gen_load_spec] is stated for every kernel, so nothing new is proved here. *)
Definition kload_g : kworld -> filt -> kworld * lres := gen_load kstate do_seccomp_g do_prctl_g.
Definition kload_g_spec : load_spec kstate do_seccomp_g do_prctl_g kload_g := gen_load_spec kstate do_seccomp_g do_prctl_g.
