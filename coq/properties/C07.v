(** Property C07: invalid policies are rejected, never mis-compiled; valid ones are accepted. *)
From Coq Require Import String List NArith Bool.
From Seccomp Require Import Words Result Machine Assembler Policy Spec Tables Text TextProofs CompileProofs RejectProofs PolicyTop ValidationTemplates Codegen.
From Gen Require Import GenTables GenArches GenNames GenCodegen.
Import ListNotations.
Open Scope N_scope.

(** The defects of a group, stated against the policy as the user wrote it ([group_defect], RejectProofs.v):
    a name unknown to the architecture (either list); two positions of Names resolving to the same number; a syscall
    listed both with and without conditions; an argument index above 5; an operation outside the eight constants;
    a conditional entry without conditions. *)
Theorem C07_defects_are_these : forall ai g,
  group_defect ai g <->
  unknown_name ai (g_names g) \/ unknown_cond_name ai (g_nwc g) \/ duplicate_name ai (g_names g) \/
  cond_and_uncond ai (g_names g) (g_nwc g) \/ bad_arg (g_nwc g) \/ bad_op (g_nwc g) \/ no_conds (g_nwc g).
Proof. intros ai g. reflexivity. Qed.
Print Assumptions C07_defects_are_these.

(** Policy.Assemble returns an error (and, being a sum type in the model, no program) EXACTLY for: an unnamed default
    action, no groups, or a group with a defect; the error class is the one of the first failing check. *)
Theorem C07_reject_iff : forall le k ai pol,
  (exists e, compile le k ai pol = Error e) <->
  is_named k (p_default pol) = false \/ p_groups pol = [] \/ exists g, In g (p_groups pol) /\ group_defect ai g.
Proof. exact compile_reject_iff. Qed.
Print Assumptions C07_reject_iff.

Theorem C07_error_class : forall le k ai pol e,
  compile le k ai pol = Error e <->
  (is_named k (p_default pol) = false /\ e = EDefaultAction) \/
  (is_named k (p_default pol) = true /\ p_groups pol = [] /\ e = ENoSyscalls) \/
  (is_named k (p_default pol) = true /\ p_groups pol <> [] /\
   (exists g, In g (p_groups pol) /\ group_defect ai g) /\ e = EProblems).
Proof. exact compile_error_class. Qed.
Print Assumptions C07_error_class.

(** conversely every policy free of these defects is accepted (of any size: the assembler cannot fail on generated code) *)
Theorem C07_accepts : forall le k ai pol,
  is_named k (p_default pol) = true -> p_groups pol <> [] ->
  (forall g, In g (p_groups pol) -> ~ group_defect ai g) ->
  exists p, compile le k ai pol = Ok p.
Proof. exact compile_accepts. Qed.
Print Assumptions C07_accepts.

(** the label assembler never fails on the code generated for validated entries: no backward / useless / out-of-reach jump *)
Theorem C07_generated_code_assembles : forall le es w,
  Forall entry_ok es -> let '(its, n) := gen_group le es w in exists p, assemble its n = Ok p.
Proof. exact gen_group_assembles. Qed.
Print Assumptions C07_generated_code_assembles.

(** no rule is silently dropped or weakened: what is accepted decides exactly as the policy says *)
Theorem C07_no_rule_dropped : forall le k ai ev pol p,
  compile le k ai pol = Ok p -> N.of_nat (List.length p) < two32 -> run_event le p ev = ORet (decide k ai pol ev).
Proof. intros le k ai ev pol p. exact (compile_correct le k ai ev pol p). Qed.
Print Assumptions C07_no_rule_dropped.

(** an architecture without syscall tables: Policy.Assemble, which looks the architecture up first, fails with
    "unsupported arch" - over the REGENERATED alias list of arch/info.go, for every GOARCH string *)
Theorem C07_unsupported_arch : forall goarch le k pol,
  (assoc aliases goarch = None \/ exists ai, assoc aliases goarch = Some ai /\ ai_table ai = []) ->
  policy_assemble aliases goarch le k pol = Error EUnsupportedArch.
Proof. intros goarch le k pol. exact (policy_assemble_unsupported aliases goarch le k pol). Qed.
Print Assumptions C07_unsupported_arch.

(** ... and which records those are in the current source: exactly these five have tables *)
Theorem C07_records_with_tables : forall key,
  In key (map fst (filter (fun e => negb (table_empty (snd e))) all_infos)) <->
  In key ["ARM"; "AARCH64"; "I386"; "X32"; "X86_64"]%string.
Proof.
  assert (H: forallb (fun k => existsb (String.eqb k) ["ARM"; "AARCH64"; "I386"; "X32"; "X86_64"]%string)
                     (map fst (filter (fun e => negb (table_empty (snd e))) all_infos)) = true /\
             forallb (fun k => existsb (String.eqb k) (map fst (filter (fun e => negb (table_empty (snd e))) all_infos)))
                     ["ARM"; "AARCH64"; "I386"; "X32"; "X86_64"]%string = true) by (split; vm_compute; reflexivity).
  destruct H as [H1 H2]. rewrite forallb_forall in H1, H2. intros key. split; intros Hin.
  - specialize (H1 _ Hin). apply existsb_exists in H1. destruct H1 as [x [Hx E]]. apply String.eqb_eq in E. subst. exact Hx.
  - specialize (H2 _ Hin). apply existsb_exists in H2. destruct H2 as [x [Hx E]]. apply String.eqb_eq in E. subst. exact Hx.
Qed.
Print Assumptions C07_records_with_tables.

(** ** The tie to the source at the level of the validation code itself.
    [names_loop_template] and [nwc_loop_template] (gen/GenCodegen.v) are the bodies of the two loops of
    SyscallGroup.toSyscallsWithConditions REGENERATED from filter.go on every run as decision templates (found? / entry
    with that number? / conditions valid? / entry unconditional? -> append, add an alternative, record a problem,
    continue). Their meaning is exactly the model's [to_syscalls], for every architecture record and group - so
    C07_reject_iff speaks about the validation code that is in the source now. *)
Theorem C07_source_validation_is_the_model : forall ai g,
  to_syscalls_by_template ai names_loop_template nwc_loop_template g = Some (to_syscalls ai g).
Proof.
  intros ai g. change names_loop_template with expected_names_template. change nwc_loop_template with expected_nwc_template.
  apply expected_templates_are_to_syscalls.
Qed.
Print Assumptions C07_source_validation_is_the_model.

(** ... and of the check on the conditions of one entry: [validate_template] is ArgumentConditions.Validate REGENERATED as
    the conditions under which a problem is recorded (once for the list: it is empty; per condition: the argument index is
    out of range, the operation is not valid), [operation_valid_template] is Operation.valid (membership, compared with ==,
    in the regenerated list of operation constants). Their meaning is the model's [conds_valid] for EVERY list of
    conditions (argument indices are decided by evaluation at the finitely many values around the constants of the source
    - [validate_ok_sound]), so "an argument index above 5" and "an operation it does not implement" are refused by the
    code that is in the source now. *)
Theorem C07_source_conditions_check_is_the_model :
  validate_template_shape = true /\
  (forall cs, tpl_conds_valid validate_template cs = conds_valid cs) /\
  operation_valid_template = OVMemberExact "Operations"%string /\
  (forall s, existsb (String.eqb s) operations = op_valid (op_of_go_string s)).
Proof.
  split; [reflexivity|]. split; [apply validate_ok_sound; vm_compute; reflexivity|]. split; [reflexivity|].
  apply member_exact_is_op_valid. vm_compute. reflexivity.
Qed.
Print Assumptions C07_source_conditions_check_is_the_model.

(** ... and of the policy-level check: Policy.Validate, regenerated as the conditions (in source order) under which it
    returns an error, refuses exactly an unnamed default action and a policy without groups, in that order *)
Theorem C07_source_policy_validation_is_the_model : forall k pol,
  policy_validate_shape = true /\
  validate_by_template k policy_validate_template pol =
  Some (if negb (is_named k (p_default pol)) then Some EDefaultAction
        else match p_groups pol with [] => Some ENoSyscalls | _ => None end).
Proof. intros k pol. split; [reflexivity|]. change policy_validate_template with expected_policy_validate. apply expected_validate_is_model. Qed.
Print Assumptions C07_source_policy_validation_is_the_model.

(** non-vacuity: one rejected policy per defect kind with the expected class, and an accepted one *)
Theorem C07_nonvacuous :
  (exists p, RejectProofs.Examples.comp (RejectProofs.Examples.pol1 RejectProofs.Examples.good_group) = Ok p /\ List.length p = 29%nat) /\
  ~ group_defect RejectProofs.Examples.ai0 RejectProofs.Examples.good_group /\
  RejectProofs.Examples.comp (RejectProofs.Examples.pol1 (RejectProofs.Examples.grp ["read"; "write"; "read"]%string [])) = Error EProblems.
Proof. exact (conj RejectProofs.Examples.ex_accepted (conj RejectProofs.Examples.ex_good_no_defect RejectProofs.Examples.ex_duplicate)). Qed.
Print Assumptions C07_nonvacuous.
