(** Property C02: argument conditions are exact unsigned 64-bit comparisons, for both byte orders. *)
From Coq Require Import List NArith Bool String.
From Seccomp Require Import Words Result Machine Assembler Policy Spec CompileProofs CoreTheorems CoreExamples.
Import ListNotations.
Open Scope N_scope.

(** The 64-bit relations against their 32-bit halves (what the two compares of the lowering decide). *)
Theorem C02_eq_by_halves : forall a v, (a =? v) = (hi a =? hi v) && (lo a =? lo v).
Proof. exact eqb64. Qed.
Print Assumptions C02_eq_by_halves.
Theorem C02_lt_by_halves : forall a v, (a <? v) = (hi a <? hi v) || ((hi a =? hi v) && (lo a <? lo v)).
Proof. exact ltb64. Qed.
Print Assumptions C02_lt_by_halves.
Theorem C02_le_by_halves : forall a v, (a <=? v) = (hi a <? hi v) || ((hi a =? hi v) && (lo a <=? lo v)).
Proof. exact leb64. Qed.
Print Assumptions C02_le_by_halves.
Theorem C02_bits_by_halves : forall a v, (N.land a v =? 0) = (N.land (hi a) (hi v) =? 0) && (N.land (lo a) (lo v) =? 0).
Proof. exact land0b64. Qed.
Print Assumptions C02_bits_by_halves.

(** The loads the builder emits for argument [i] (LdHi / LdLo) read the high / low half of the argument from the
    kernel's record in the byte order in effect: on little-endian the high half is at 16+8i+4, on big-endian at 16+8i. *)
Theorem C02_ldhi_reads_high_half : forall le ev i, i <= 5 -> word_at le ev (ld_off i le) = Some (hi (arg ev i)).
Proof. exact word_at_hi. Qed.
Print Assumptions C02_ldhi_reads_high_half.
Theorem C02_ldlo_reads_low_half : forall le ev i, i <= 5 -> word_at le ev (ld_off i (negb le)) = Some (lo (arg ev i)).
Proof. exact word_at_lo. Qed.
Print Assumptions C02_ldlo_reads_low_half.

(** Label level: the code generated for ONE condition (any of the eight operations, argument index <= 5, any
    operand, any actual value, either byte order) leaves to the [match] label iff the unsigned 64-bit relation
    holds between the actual argument and the operand, and to the [noMatch] label otherwise. *)
Theorem C02_condition_lowering : forall le ev c mt nm n r a,
  mt < n -> nm < n -> c_arg c <= 5 -> op_valid (c_op c) = true ->
  exists a', exec (word_at le ev) (fst (gen_cond le c mt nm n) ++ r) (Skip 0) a
           = exec (word_at le ev) r (Seek (if rel (c_op c) (arg ev (c_arg c)) (c_val c) then mt else nm)) a'.
Proof. exact cond_exec. Qed.
Print Assumptions C02_condition_lowering.

(** Policy level: a one-entry, one-condition policy returns the entry's action exactly when the relation holds
    (for the event of that syscall), in both byte orders. *)
Theorem C02_single_condition_exact : forall le k ai d action name c num p ev,
  compile le k ai (single_cond_policy d action name c) = Ok p -> N.of_nat (List.length p) < two32 ->
  lookup_name (ai_table ai) name = Some num ->
  native_event k ai ev -> ev_nr ev = sysnum ai num ->
  run_event le p ev = ORet (if rel (c_op c) (arg ev (c_arg c)) (c_val c) then ret_word k action else ret_word k d).
Proof. exact single_condition_exact. Qed.
Print Assumptions C02_single_condition_exact.

(** the eight relations are the documented ones *)
Theorem C02_relations : forall a v,
  rel OpEq a v = (a =? v) /\ rel OpNe a v = negb (a =? v) /\ rel OpGt a v = (v <? a) /\ rel OpLt a v = (a <? v) /\
  rel OpGe a v = (v <=? a) /\ rel OpLe a v = (a <=? v) /\
  rel OpSet a v = negb (N.land a v =? 0) /\ rel OpNSet a v = (N.land a v =? 0).
Proof. intros a v. repeat split. Qed.
Print Assumptions C02_relations.

(** non-vacuity: the hypotheses are met by a concrete policy (bit 63 of argument 5) *)
Theorem C02_nonvacuous :
  exists p, compile true ex_consts ex_arch (single_cond_policy ERRNO ALLOW "write"%string {| c_arg := 5; c_op := OpSet; c_val := 9223372036854775808 |}) = Ok p
            /\ lookup_name (ai_table ex_arch) "write"%string = Some 1.
Proof. exact ex_single_cond_hyps. Qed.
Print Assumptions C02_nonvacuous.
