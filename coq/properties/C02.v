(** Property C02: argument conditions are exact unsigned 64-bit comparisons, for both byte orders. *)
From Coq Require Import List NArith Bool String.
From Seccomp Require Import Words Result Machine Assembler Policy Spec CompileProofs CoreTheorems CoreExamples Codegen.
From Gen Require Import GenConsts GenCodegen.
Import ListNotations.
Open Scope N_scope.

(** The 64-bit relations against their 32-bit halves (what the two compares of the lowering decide). *)
Theorem C02_eq_by_halves : forall a v, (a =? v) = (hi a =? hi v) && (lo a =? lo v).
Proof. exact eqb64. Qed.
Print Assumptions C02_eq_by_halves.
Theorem C02_lt_by_halves : forall a v, (a <? v) = (hi a <? hi v) || ((hi a =? hi v) && (lo a <? lo v)).
Proof. exact ltb64. Qed.
Print Assumptions C02_lt_by_halves.
Theorem C02_le_by_halves : forall a v, (a <=? v) = (hi a <? hi v) || ((hi a =? hi v) && (lo a <=? lo v)).
Proof. exact leb64. Qed.
Print Assumptions C02_le_by_halves.
Theorem C02_bits_by_halves : forall a v, (N.land a v =? 0) = (N.land (hi a) (hi v) =? 0) && (N.land (lo a) (lo v) =? 0).
Proof. exact land0b64. Qed.
Print Assumptions C02_bits_by_halves.

(** The loads the builder emits for argument [i] (LdHi / LdLo) read the high / low half of the argument from the
    kernel's record in the byte order in effect: on little-endian the high half is at 16+8i+4, on big-endian at 16+8i. *)
Theorem C02_ldhi_reads_high_half : forall le ev i, i <= 5 -> word_at le ev (ld_off i le) = Some (hi (arg ev i)).
Proof. exact word_at_hi. Qed.
Print Assumptions C02_ldhi_reads_high_half.
Theorem C02_ldlo_reads_low_half : forall le ev i, i <= 5 -> word_at le ev (ld_off i (negb le)) = Some (lo (arg ev i)).
Proof. exact word_at_lo. Qed.
Print Assumptions C02_ldlo_reads_low_half.

(** Label level: the code generated for ONE condition (any of the eight operations, argument index <= 5, any
    operand, any actual value, either byte order) leaves to the [match] label iff the unsigned 64-bit relation
    holds between the actual argument and the operand, and to the [noMatch] label otherwise. *)
Theorem C02_condition_lowering : forall le ev c mt nm n r a,
  mt < n -> nm < n -> c_arg c <= 5 -> op_valid (c_op c) = true ->
  exists a', exec (word_at le ev) (fst (gen_cond le c mt nm n) ++ r) (Skip 0) a
           = exec (word_at le ev) r (Seek (if rel (c_op c) (arg ev (c_arg c)) (c_val c) then mt else nm)) a'.
Proof. exact cond_exec. Qed.
Print Assumptions C02_condition_lowering.

(** Policy level: a one-entry, one-condition policy returns the entry's action exactly when the relation holds
    (for the event of that syscall), in both byte orders. *)
Theorem C02_single_condition_exact : forall le k ai d action name c num p ev,
  compile le k ai (single_cond_policy d action name c) = Ok p -> N.of_nat (List.length p) < two32 ->
  lookup_name (ai_table ai) name = Some num ->
  native_event k ai ev -> ev_nr ev = sysnum ai num ->
  run_event le p ev = ORet (if rel (c_op c) (arg ev (c_arg c)) (c_val c) then ret_word k action else ret_word k d).
Proof. exact single_condition_exact. Qed.
Print Assumptions C02_single_condition_exact.

(** the eight relations are the documented ones *)
Theorem C02_relations : forall a v,
  rel OpEq a v = (a =? v) /\ rel OpNe a v = negb (a =? v) /\ rel OpGt a v = (v <? a) /\ rel OpLt a v = (a <? v) /\
  rel OpGe a v = (v <=? a) /\ rel OpLe a v = (a <=? v) /\
  rel OpSet a v = negb (N.land a v =? 0) /\ rel OpNSet a v = (N.land a v =? 0).
Proof. intros a v. repeat split. Qed.
Print Assumptions C02_relations.

(** the two halves ARE the 64-bit value: each fits a 32-bit BPF word (so neither the compare immediates nor the
    loaded words are truncated), together they determine the value, and two values with the same halves are equal -
    nothing of an argument or an operand below 2^64 is lost in the split the lowering relies on *)
Theorem C02_halves_are_faithful : forall a, a < two64 ->
  hi a < two32 /\ lo a < two32 /\ a = hi a * two32 + lo a /\ (forall v, hi v = hi a -> lo v = lo a -> v = a).
Proof.
  intros a Ha. split; [exact (hi_lt32 a Ha)|]. split; [exact (lo_lt32 a)|]. split; [exact (hi_lo a)|].
  intros v H1 H2. apply eq64. split; assumption.
Qed.
Print Assumptions C02_halves_are_faithful.

(** the eight relations come in four complementary pairs and the order relations are the strict / non-strict forms of
    one unsigned order: for every actual value and operand exactly one of each pair holds, [>=] is [>] or [=], [<=] is
    [<] or [=], and exactly one of [<], [=], [>] holds - no value falls between the cases, none into two *)
Theorem C02_relations_partition : forall a v,
  rel OpNe a v = negb (rel OpEq a v) /\ rel OpLe a v = negb (rel OpGt a v) /\ rel OpGe a v = negb (rel OpLt a v) /\
  rel OpNSet a v = negb (rel OpSet a v) /\
  rel OpGe a v = rel OpGt a v || rel OpEq a v /\ rel OpLe a v = rel OpLt a v || rel OpEq a v /\
  (if rel OpLt a v then 1 else 0) + (if rel OpEq a v then 1 else 0) + (if rel OpGt a v then 1 else 0) = 1.
Proof. exact rel_partition. Qed.
Print Assumptions C02_relations_partition.

(** ** The tie to the source at the level of the code generator itself.
    [cond_chain], [shape_LdHi], [shape_LdLo] (gen/GenCodegen.v) are REGENERATED from filter.go / assembler.go on every
    run: the if/else chain of SyscallWithConditions.Assemble rendered as builder-call templates, and the form of the
    two load helpers. The chain in the source means, for EVERY condition, labels and byte order, exactly the items of
    the model's [gen_cond] - so C02_condition_lowering speaks about the code that is in the source now. *)
Theorem C02_source_chain_is_the_model : forall le c mt nm n,
  chain_gen le cond_chain c mt nm n = Some (gen_cond le c mt nm n).
Proof. apply chain_ok_sound. vm_compute. reflexivity. Qed.
Print Assumptions C02_source_chain_is_the_model.

(** the chain has no default branch: an operation outside the eight constants emits nothing - which is why Validate
    must reject it (C07) *)
Theorem C02_source_chain_context : cond_chain_has_default = false.
Proof. reflexivity. Qed.
Print Assumptions C02_source_chain_context.

(** LdHi adds one word on little-endian, LdLo on big-endian, to argumentOffset + sizeOfUint64*arg; with the values the
    Go type checker gives these constants on EVERY build target (16, 8, 4 - also on 32-bit targets) that is [ld_off] *)
Theorem C02_source_load_offsets :
  shape_ok shape_LdHi "binary.LittleEndian" = true /\ shape_ok shape_LdLo "binary.BigEndian" = true /\
  (forall t, In t targets -> tc_argumentOffset t = 16 /\ tc_sizeOfUint64 t = 8 /\ tc_sizeOfUint32 t = 4) /\
  (forall arg plus, shape_offset 16 8 4 plus arg = ld_off arg plus).
Proof.
  split; [reflexivity|]. split; [reflexivity|]. split; [|exact ld_off_is_source].
  assert (H: forallb (fun t => (tc_argumentOffset t =? 16) && (tc_sizeOfUint64 t =? 8) && (tc_sizeOfUint32 t =? 4)) targets = true) by (vm_compute; reflexivity).
  rewrite forallb_forall in H. intros t Hin. specialize (H t Hin).
  apply andb_true_iff in H. destruct H as [H H3]. apply andb_true_iff in H. destruct H as [H1 H2].
  apply N.eqb_eq in H1, H2, H3. auto.
Qed.
Print Assumptions C02_source_load_offsets.

(** non-vacuity: the hypotheses are met by a concrete policy (bit 63 of argument 5) *)
Theorem C02_nonvacuous :
  exists p, compile true ex_consts ex_arch (single_cond_policy ERRNO ALLOW "write"%string {| c_arg := 5; c_op := OpSet; c_val := 9223372036854775808 |}) = Ok p
            /\ lookup_name (ai_table ex_arch) "write"%string = Some 1.
Proof. exact ex_single_cond_hyps. Qed.
Print Assumptions C02_nonvacuous.
