(** Property C11: no_new_privs is set iff requested, before the install, on the installing thread.
    (Partial proof: the Go scheduler is an oracle [sched : nat -> N] naming, for every statement boundary of
    every interpreted function, the OS thread an UNPINNED goroutine continues on; a goroutine that has called
    runtime.LockOSThread stays where it is. The kernel is the model of KernelState.v.) *)
From Coq Require Import List NArith Bool String.
From Seccomp Require Import Machine Raw Result KernelCheck KernelState Skeleton Loader LoaderProofs GatedProofs.
From Gen Require Import GenSkeletons GenConsts.
From Props Require Import LoaderInst.
Import ListNotations.
Close Scope string_scope.
Open Scope list_scope.
Open Scope N_scope.

(** [supp] is ANY Supported() that satisfies its specification (C09 proves that the one of the current tree does):
    the statements below are about LoadFilter, whatever probes are interleaved with the loads. *)
Notation probe_ok supp := (supp_spec kstate do_seccomp supp).
Notation hist supp := (run_hist kload supp).

(** For EVERY scheduler oracle, pinned caller or not, after any history: when NoNewPrivs is requested there is
    one thread [t] (the one the goroutine is on when LoadFilter pins itself) such that the bit is set on [t]
    in the state in which seccomp(2) is entered, and seccomp(2) is entered on that same [t]. This rests on the
    LockOSThread / deferred UnlockOSThread statements found in the regenerated skeleton of LoadFilter. *)
Theorem C11_nnp_before_install_same_thread : forall supp st0 pre tid pinned sched f p,
  wf_filt f -> f_nnp f = true -> f_prog f = Ok p ->
  let w := mk_world (hist supp st0 pre) tid pinned sched in
  exists j, let t := thread_at kstate w j in
  live (hist supp st0 pre) t ->
  let st1 := prctl_set_nnp (hist supp st0 pre) t in
  (exists caller, find_thread st1 t = Some caller /\ t_nnp caller = true) /\
  hist supp st0 (pre ++ [HLoad tid pinned sched f]) =
    fst (fst (do_seccomp st1 t SECCOMP_SET_MODE_FILTER (f_flag f) (fprog p))).
Proof. exact (fun supp => nnp_before_install_same_thread kload supp kload_spec). Qed.
Print Assumptions C11_nnp_before_install_same_thread.

(** ... so an unprivileged process can always load a valid filter: whatever the privileges of the thread, if
    the filter is one the kernel accepts ([attachable]: legal flags, 1..4096 verified instructions, room in
    the filter path, no thread-sync obstacle) the load returns nil - under every schedule. *)
Theorem C11_unprivileged_can_load : forall supp st0 pre tid pinned sched f p,
  wf_filt f -> f_nnp f = true -> f_prog f = Ok p ->
  let w := mk_world (hist supp st0 pre) tid pinned sched in
  exists j, let t := thread_at kstate w j in
  forall caller, find_thread (hist supp st0 pre) t = Some caller ->
  attachable (prctl_set_nnp (hist supp st0 pre) t) (with_nnp caller true) (f_flag f) p ->
  snd (kload w f) = LNil.
Proof. exact (fun supp => unprivileged_can_load kload supp kload_spec). Qed.
Print Assumptions C11_unprivileged_can_load.

(** Not requested: every thread's bit is left as it was. The only change possible is the kernel's own: a
    successful thread-sync copies a bit that some thread ALREADY had to the other threads. *)
Theorem C11_nnp_untouched : forall supp st0 pre tid pinned sched f,
  wf_filt f -> f_nnp f = false ->
  forall th', In th' (ks_threads (hist supp st0 (pre ++ [HLoad tid pinned sched f]))) ->
  exists th, In th (ks_threads (hist supp st0 pre)) /\ t_tid th = t_tid th' /\
    (t_nnp th' = t_nnp th \/
     (has_flag (f_flag f) FLAG_TSYNC = true /\ exists c, In c (ks_threads (hist supp st0 pre)) /\ t_nnp c = true)).
Proof. exact (fun supp => nnp_untouched kload supp kload_spec). Qed.
Print Assumptions C11_nnp_untouched.

(** Not requested, and no thread has the bit or the capability: an error, and the kernel state is unchanged. *)
Theorem C11_unprivileged_without_nnp_fails : forall supp, probe_ok supp -> forall st0 pre tid pinned sched f,
  wf st0 -> Forall op_ok pre -> wf_filt f -> f_nnp f = false ->
  (forall th, In th (ks_threads (hist supp st0 pre)) -> t_nnp th = false /\ t_priv th = false) ->
  snd (kload (mk_world (hist supp st0 pre) tid pinned sched) f) = LErr /\
  hist supp st0 (pre ++ [HLoad tid pinned sched f]) = hist supp st0 pre.
Proof. exact (fun supp Hs => unprivileged_without_nnp_fails kload supp kload_spec Hs). Qed.
Print Assumptions C11_unprivileged_without_nnp_fails.

(** On the kernel that filters the loader's own system calls ([kload_g]): when the filters already in force answer
    prctl(2) with an error, a load that asks for the bit cannot set it - and then it must not install the filter without
    it: LoadFilter returns an error, the kernel state is unchanged and seccomp(2) is not even called. (C11_unprivileged_can_load
    above silently assumes that nothing intercepts the two calls: [open] in C09_gated_kernel_agrees_where_open.) *)
Theorem C11_bit_refused_means_no_install : forall w f p, refuses (w_k w) SYS_prctl -> f_nnp f = true -> f_prog f = Ok p ->
  snd (kload_g w f) = LErr /\ w_k (fst (kload_g w f)) = w_k w /\ w_log (fst (kload_g w f)) = w_log w.
Proof. exact (load_refused_prctl kload_g kload_g_spec). Qed.
Print Assumptions C11_bit_refused_means_no_install.

(** Defect D8 (repaired in /repo by ad0fa2b), kept as a refutation: remove the LockOSThread / UnlockOSThread
    statements from the regenerated skeleton and the first theorem is false - there is a scheduler oracle,
    naming only live threads of an unprivileged two-thread process, under which a load with NoNewPrivs
    requested fails (prctl ran on thread 100, seccomp on thread 101: EACCES). *)
Theorem C11_unpinned_refuted :
  exists sched,
    (forall i, live d8_state (sched i)) /\
    (forall th, In th (ks_threads d8_state) -> t_priv th = false) /\
    f_nnp d8_filt = true /\
    let w := {| w_k := d8_state; w_cur := 100; w_pins := 0%nat; w_sched := sched; w_step := 0%nat; w_log := [] |} in
    snd (load_sem kstate do_seccomp do_prctl (strip_locks seccomp_funs) gen_lc w d8_filt) = LErr.
Proof. exact (unpinned_refuted seccomp_funs gen_lc (eq_refl true <: d8_check seccomp_funs gen_lc = true)). Qed.
Print Assumptions C11_unpinned_refuted.

(** The regenerated LoadFilter does contain the two statements ... *)
Example C11_ex_skeleton_pins : has_locks seccomp_funs = true.
Proof. vm_compute. reflexivity. Qed.

(** ... and with them the same process loads its filter under every one of the migrating schedules that break
    the stripped skeleton: nil, no_new_privs and the filter on the same thread. *)
Example C11_ex_migration_harmless :
  forallb (fun m => match kload (d8_world m) d8_filt with
                    | (w', LNil) => existsb (fun th => t_nnp th && match t_filters th with [_] => true | _ => false end)
                                            (ks_threads (w_k w'))
                    | _ => false
                    end) (seq 0 80) = true.
Proof. vm_compute. reflexivity. Qed.

(** not requested + unprivileged: error, nothing installed; requested: nil *)
Example C11_ex_unprivileged :
  let f0 := {| f_nnp := false; f_flag := 0; f_prog := f_prog d8_filt |} in
  snd (kload (d8_world 0) f0) = LErr /\
  stacks (hist ref_supported d8_state [HLoad 100 false (d8_sched 0) f0]) = [(100, []); (101, [])] /\
  nnp_bits (hist ref_supported d8_state [HLoad 100 false (d8_sched 0) f0]) = [(100, false); (101, false)] /\
  snd (kload (d8_world 0) d8_filt) = LNil.
Proof. vm_compute. repeat split. Qed.
