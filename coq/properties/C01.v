(** Property C01: allow/deny lists decide by first matching group, else the default action. *)
From Coq Require Import String List NArith Bool.
From Seccomp Require Import Words Result Machine Policy Spec CompileProofs CoreTheorems Codegen CodegenTemplates.
From Gen Require Import GenCodegen.
Import ListNotations.
Open Scope N_scope.

(** For every byte order, constant record, architecture record (any table), policy the compiler accepts and event
    of the policy's architecture (without the x32 bit on x86_64): the compiled filter returns the return word of
    the first group, in policy order, that lists the event (for plain names: [group_matches_names]), else of the
    default action. No bound on groups, names or the syscall number; the only side condition is that the program
    has fewer than 2^32 instructions (the architecture jump distance is a uint32). *)
Theorem C01_first_matching_group : forall le k ai pol p ev,
  compile le k ai pol = Ok p -> N.of_nat (length p) < two32 ->
  native_event k ai ev ->
  run_event le p ev = ORet (match first_group ai ev (p_groups pol) with
                            | Some g => ret_word k (g_action g)
                            | None => ret_word k (p_default pol)
                            end).
Proof. exact first_matching_group. Qed.
Print Assumptions C01_first_matching_group.

Theorem C01_errno_carries_eperm : forall k, ret_word k (k_errno k) = N.lor (k_errno k) (k_eperm k).
Proof. exact ret_word_errno. Qed.
Print Assumptions C01_errno_carries_eperm.

Theorem C01_other_actions_exact : forall k a, a <> k_errno k -> ret_word k a = a.
Proof. exact ret_word_other. Qed.
Print Assumptions C01_other_actions_exact.

(** "lists the event's syscall number", spelled out for groups of plain names *)
Theorem C01_lists_means_name_with_that_number : forall ai ev g,
  g_nwc g = [] ->
  (group_matches ai ev g = true <->
   exists name num, In name (g_names g) /\ lookup_name (ai_table ai) name = Some num /\ ev_nr ev = sysnum ai num).
Proof. exact group_matches_names. Qed.
Print Assumptions C01_lists_means_name_with_that_number.

(** "first, in policy order" *)
Theorem C01_first_in_policy_order : forall ai ev gs g,
  first_group ai ev gs = Some g <->
  exists pre post, gs = pre ++ g :: post /\ group_matches ai ev g = true /\
                   Forall (fun g' => group_matches ai ev g' = false) pre.
Proof. exact first_group_spec. Qed.
Print Assumptions C01_first_in_policy_order.

(** ** The tie to the source at the level of the code generator itself.
    [group_template] and [entry_template] (gen/GenCodegen.v) are SyscallGroup.assemble and SyscallWithConditions.Assemble
    REGENERATED from filter.go on every run as builder templates. Their meaning is exactly the label program of the
    model's [gen_group]: action label first, the entries in order, the jump over the action return, the return of the
    group's action, the next-group label - for every validated entry list, return word and byte order. *)
Theorem C01_source_group_is_the_model : forall le es w,
  Forall entry_nondegenerate es ->
  interp_group le cond_chain entry_template group_template es w = Some (gen_group le es w).
Proof.
  intros le es w H. change entry_template with expected_entry_template. change group_template with expected_group_template.
  apply expected_group_is_gen_group; [|exact H]. apply chain_ok_sound. vm_compute. reflexivity.
Qed.
Print Assumptions C01_source_group_is_the_model.

(** returnValue (behind Program.Ret) in the source has the shape `if a == ActionErrno { a |= Action(errnoEPERM) }; return
    uint32(a)` - the translator recognises the shape on the syntax tree and reports the two constants - which is the
    model's [ret_word]: EPERM is or-ed into the errno action, every other action is returned verbatim *)
Theorem C01_source_return_value_is_the_model :
  return_value_template = Some ("ActionErrno", "errnoEPERM")%string /\
  forall k a, ret_word k a = if a =? k_errno k then N.lor a (k_eperm k) else a.
Proof. split; reflexivity. Qed.
Print Assumptions C01_source_return_value_is_the_model.

(** Policy.Assemble as a whole. Three regenerated templates render it: [policy_validate_template] (Policy.Validate: the
    conditions, in source order, under which an error is returned), [assemble_prefix] (the statements of Assemble in front
    of `program := make(...)`: call Validate and return its error, resolve the architecture, run group.assemble for every
    group in policy order and return the first error, prepare the x32 guard - an unrecognised statement makes the
    interpretation undefined) and [policy_layout] (how the final program is put together, C04). Their meaning is the
    model's [compile], for every policy, architecture record, constant record and byte order: the same error in the same
    order of precedence, the same program. *)
Theorem C01_source_policy_is_the_model : forall le k ai pol,
  policy_validate_shape = true /\
  compile_by_templates le k ai policy_validate_template assemble_prefix policy_layout pol = Some (compile le k ai pol).
Proof.
  intros le k ai pol. split; [reflexivity|].
  change policy_validate_template with expected_policy_validate. change assemble_prefix with expected_assemble_prefix.
  change policy_layout with expected_layout. apply expected_templates_are_compile.
Qed.
Print Assumptions C01_source_policy_is_the_model.
