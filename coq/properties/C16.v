(** Property C16: syscall extraction is total, function-scoped and never silently truncated.
    The statements are about ExtractSyscalls as modelled in Disasm.v, instantiated with the
    architecture records and syscall tables REGENERATED from /repo's arch package. *)
From Coq Require Import List NArith ZArith Bool String Ascii.
From Seccomp Require Import Policy Disasm DisasmProofs.
From Gen Require Import GenTables GenArches.
Import ListNotations.
Open Scope string_scope.
Open Scope N_scope.

(** the records of the two parsers of disasm.go: i386Parser.Info = arch.I386, x86_64Parser.Info = arch.X86_64 *)
Definition rec_of_info (ai:arch_info) : arch_rec := {| ar_id := ai_id ai; ar_mask := ai_mask ai; ar_table := ai_table ai |}.
Definition rec_i386 : arch_rec := rec_of_info info_I386.
Definition rec_x86_64 : arch_rec := rec_of_info info_X86_64.

(** disasm.ExtractSyscalls(arch, file) *)
Definition extract (ai:arch_info) (f:file) : outcome (list syscall) :=
  extract_syscalls rec_i386 rec_x86_64 (ai_id ai) (ai_mask ai) f.

(** a text [a] that ends at a line boundary *)
Definition at_line_boundary (a:string) : Prop := a = EmptyString \/ exists a', a = a' ++ newline.

(** extraction never panics and always returns: a list or an error, for every architecture record,
    every text and every behaviour of the reader *)
Theorem C16_never_panics : forall ai f, extract ai f <> Panic.
Proof. intros ai f. exact (extract_never_panics rec_i386 rec_x86_64 (ai_id ai) (ai_mask ai) f). Qed.
Print Assumptions C16_never_panics.

Theorem C16_total : forall ai f, (exists recs, extract ai f = Done recs) \/ (exists e, extract ai f = Failed e).
Proof. intros ai f. exact (extract_total rec_i386 rec_x86_64 (ai_id ai) (ai_mask ai) f). Qed.
Print Assumptions C16_total.

(** the reader fails after any prefix [data] of the text (a directory: the empty prefix), or the file
    cannot be opened: an error, never a partial result *)
Theorem C16_read_error_is_error : forall ai,
  (forall data, exists e, extract ai (Content data true) = Failed e) /\ (exists e, extract ai OpenFails = Failed e).
Proof.
  intros ai. split.
  - intros data. exact (extract_read_error_is_error rec_i386 rec_x86_64 (ai_id ai) (ai_mask ai) data).
  - exact (extract_open_error_is_error rec_i386 rec_x86_64 (ai_id ai) (ai_mask ai)).
Qed.
Print Assumptions C16_read_error_is_error.

(** a line of 65536 bytes or more anywhere in the text: an error, whatever precedes and follows it *)
Theorem C16_long_line_is_error : forall ai a l b fails,
  at_line_boundary a -> (b = EmptyString \/ exists b', b = String nl b') ->
  no_nl l -> 65536 <= length_N l ->
  exists e, extract ai (Content (a ++ l ++ b) fails) = Failed e.
Proof. intros ai. exact (extract_long_line_is_error rec_i386 rec_x86_64 (ai_id ai) (ai_mask ai)). Qed.
Print Assumptions C16_long_line_is_error.

(** a list is returned only when the text was read to its end and every line was within the limit *)
Theorem C16_done_means_complete : forall ai data fails recs, extract ai (Content data fails) = Done recs ->
  fails = false /\ Forall (fun line => length_N line < 65536) (scan_raw data).
Proof. intros ai. exact (extract_done_means_complete rec_i386 rec_x86_64 (ai_id ai) (ai_mask ai)). Qed.
Print Assumptions C16_done_means_complete.

(** function scoping: the syscalls found in a text [b] that starts with a function marker are the same
    whatever text [a] precedes it -- no instruction of [a] is ever used for a site of [b] *)
Theorem C16_function_scoped : forall ai a b ra rb,
  at_line_boundary a -> has_prefix "TEXT" b = true ->
  extract ai (Content a false) = Done ra -> extract ai (Content b false) = Done rb ->
  extract ai (Content (a ++ b) false) = Done (ra ++ rb)%list.
Proof. intros ai. exact (extract_function_scoped_text rec_i386 rec_x86_64 (ai_id ai) (ai_mask ai)). Qed.
Print Assumptions C16_function_scoped.

(** the same on scanned lines, from any state of the loop, for both parsers *)
Theorem C16_function_scoped_lines : forall p fn win fn' win' pre marker body, has_prefix "TEXT" marker = true ->
  exists r1 r2, run p fn win pre = Done r1 /\ run p fn' win' (marker :: body) = Done r2 /\
                run p fn win (pre ++ marker :: body)%list = Done (r1 ++ r2)%list.
Proof. exact function_scoped_state. Qed.
Print Assumptions C16_function_scoped_lines.

(** appending text at a line boundary never removes a syscall found before *)
Theorem C16_append_monotone : forall ai a b ra rb,
  at_line_boundary a ->
  extract ai (Content a false) = Done ra -> extract ai (Content b false) = Done rb ->
  exists rest, extract ai (Content (a ++ b) false) = Done (ra ++ rest)%list.
Proof. intros ai. exact (extract_append_monotone_text rec_i386 rec_x86_64 (ai_id ai) (ai_mask ai)). Qed.
Print Assumptions C16_append_monotone.

(** every reported syscall is an entry (number, name) of the table of the architecture record that was
    passed in -- for EVERY record of the regenerated arch package (x32, which shares the audit id of
    x86_64 but has another table, is refused: see C16_x32_refused) *)
Theorem C16_reported_in_table : forall key ai, In (key, ai) all_infos ->
  forall f recs, extract ai f = Done recs -> Forall (in_table (ai_table ai)) recs.
Proof.
  assert (H: forallb (fun e => own_table_ok rec_i386 rec_x86_64 (ai_id (snd e)) (ai_mask (snd e)) (ai_table (snd e))) all_infos = true)
    by (vm_compute; reflexivity).
  rewrite forallb_forall in H. intros key ai Hin f recs E. specialize (H _ Hin). cbn [snd] in H.
  exact (extract_reported_in_own_table rec_i386 rec_x86_64 _ _ _ f recs H E).
Qed.
Print Assumptions C16_reported_in_table.

(** the two supported records are records of the package, so the statement above is not vacuous *)
Theorem C16_supported_records : In ("X86_64", info_X86_64) all_infos /\ In ("I386", info_I386) all_infos /\
  selects (ai_id info_X86_64) (ai_mask info_X86_64) rec_x86_64 = true /\ selects (ai_id info_I386) (ai_mask info_I386) rec_i386 = true.
Proof.
  split; [unfold all_infos; repeat (first [left; reflexivity | right])|].
  split; [unfold all_infos; repeat (first [left; reflexivity | right])|].
  split; vm_compute; reflexivity.
Qed.
Print Assumptions C16_supported_records.

(** every other (architecture id, syscall mask) is refused; in particular x32 *)
Theorem C16_other_architectures_refused : forall ai f,
  selects (ai_id ai) (ai_mask ai) rec_i386 = false -> selects (ai_id ai) (ai_mask ai) rec_x86_64 = false ->
  extract ai f = Failed EUnsupportedArch.
Proof. intros ai f. exact (extract_unsupported rec_i386 rec_x86_64 (ai_id ai) (ai_mask ai) f). Qed.
Print Assumptions C16_other_architectures_refused.

Theorem C16_x32_refused : ai_id info_X32 = ai_id info_X86_64 /\ forall f, extract info_X32 f = Failed EUnsupportedArch.
Proof. split; [vm_compute; reflexivity|]. intros f. apply C16_other_architectures_refused; vm_compute; reflexivity. Qed.
Print Assumptions C16_x32_refused.

(** non-vacuity on the regenerated x86_64 and i386 tables: two functions, a decoy MOV in front of the
    second marker, a site without a number, a call site, the XORL case *)
Theorem C16_example :
  extract info_X86_64 (Content (demo_fun1 ++ demo_fun2) false) =
    Done [rec_of 39 "getpid" "main.first(SB) /src/main.go" "SYSCALL" "main.go:11" "MOVQ $0x27, AX";
          rec_of 1 "write" "main.second(SB) /src/main.go" "CALL syscall.Syscall(SB)" "main.go:22" "MOVQ $0x1, 0(SP)";
          rec_of 0 "read" "main.second(SB) /src/main.go" "SYSCALL" "main.go:24" "XORL AX, AX"] /\
  extract info_I386 (Content (demo_fun1 ++ demo_fun2) false) =
    Done [rec_of 1 "exit" "main.second(SB) /src/main.go" "CALL syscall.Syscall(SB)" "main.go:22" "MOVQ $0x1, 0(SP)"] /\
  extract info_X86_64 (Content demo_fun1 true) = Failed ERead /\
  extract info_ARM (Content demo_fun1 false) = Failed EUnsupportedArch /\
  extract info_X32 (Content demo_fun1 false) = Failed EUnsupportedArch.
Proof. repeat split; vm_compute; reflexivity. Qed.
Print Assumptions C16_example.
