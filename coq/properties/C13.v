(** Property C13: compilation is deterministic, side-effect free and race-free.
    The model's [compile] is a Gallina function of (byte order, constants, architecture record, policy): equal
    arguments give equal programs and nothing else is read or written. What has to be PROVED is that every place
    where the Go code iterates over a map cannot leak the iteration order into a result; those places are
    arch.invert, Action.Unpack and the label sweep of Program.updateIndices (FilterFlag.String no longer iterates a
    map since the repair of D10). *)
From Coq Require Import List NArith Bool String Permutation.
From Seccomp Require Import Words Result Machine Assembler Policy Tables Text TextProofs PolicyTop Determinism.
From Gen Require Import GenTables GenArches GenNames GenAmbient.
Import ListNotations.
Open Scope N_scope.

Definition the_tables : list table := map snd all_tables.

(** arch.invert: the name->number map is the same for every iteration order of the number->name map *)
Theorem C13_invert_order_independent : forall t, In t the_tables ->
  forall perm name, Permutation t perm -> invert_with perm name = lookup_name t name.
Proof.
  assert (H: forallb (fun t => nodup_S (names t)) the_tables = true) by (vm_compute; reflexivity).
  rewrite forallb_forall in H. intros t Ht perm name Hp. apply invert_deterministic; [exact Hp|].
  apply nodup_S_spec. apply H. exact Ht.
Qed.
Print Assumptions C13_invert_order_independent.

(** Action.Unpack: the same action for every iteration order of actionNames *)
Theorem C13_unpack_order_independent : forall perm s,
  Permutation action_names perm -> action_unpack_with perm s = action_unpack action_names s.
Proof. intros perm s Hp. apply unpack_perm_invariant; [exact Hp|]. apply nodup_S_spec. vm_compute. reflexivity. Qed.
Print Assumptions C13_unpack_order_independent.

(** Program.updateIndices sweeps the label map entry by entry: the resulting map (as a function of the label) does
    not depend on the order in which the entries are visited *)
Theorem C13_label_sweep_order_independent : forall (labels perm:list (N * list N)) after l,
  Permutation labels perm -> NoDup (map fst labels) ->
  lookup_label (sweep after perm) l = lookup_label (sweep after labels) l.
Proof. exact sweep_perm_invariant. Qed.
Print Assumptions C13_label_sweep_order_independent.

(** the text form of a flag value is a function of the value (bits visited in ascending order) and of an action value
    a single map lookup: both are deterministic by construction; the printed forms of the combined flags are these *)
Theorem C13_flag_strings :
  map (flag_string filter_flag_names) [0; 1; 2; 3; 4; 7] =
  [""; "tsync"; "log"; "tsync|log"; "unknown"; "tsync|log|unknown"]%string.
Proof. reflexivity. Qed.
Print Assumptions C13_flag_strings.

(** Policy.arch is cached on the first compilation: later compilations use the cached record, which is the one the
    lookup returns - so the k-th compilation equals the first *)
Theorem C13_cached_arch_same_program : forall goarch le k pol ai,
  get_info aliases goarch EmptyString = Ok ai ->
  policy_assemble aliases goarch le k pol = compile le k ai pol.
Proof. intros goarch le k pol ai H. unfold policy_assemble. rewrite H. reflexivity. Qed.
Print Assumptions C13_cached_arch_same_program.



(* "Equal policies compile to identical programs across processes": the program is a function of the policy value (and
   the build). The regenerated list of references, in the library's own packages, to anything else a process can read -
   environment variables, files, the clock, the machine's name, the scheduler's configuration (translator/ambient.go
   says which names count) - is empty in the current sources: the compiler, the tables and the loader have no such
   input. (The check also RUNS the implementation in hostile surroundings - lib/ambient.py - which is where a failing
   input comes from when this breaks.) *)
Theorem C13_library_reads_no_ambient_state : ambient_refs = [].
Proof. vm_compute. reflexivity. Qed.
Print Assumptions C13_library_reads_no_ambient_state.
