(** Property C03: conditions are AND within a list, OR across lists; an unmatched entry is as good as absent,
    and no argument value can make a rule written for another syscall match. *)
From Coq Require Import List NArith Bool String.
From Seccomp Require Import Words Result Machine Policy Spec CompileProofs CoreTheorems CoreExamples Codegen CodegenTemplates ValidationTemplates.
From Gen Require Import GenCodegen.
Import ListNotations.
Open Scope N_scope.

(** The compiled program decides every event as [decide] says (any mix of unconditional and conditional entries,
    any number of lists and conditions, repeated arguments, the same syscall in several groups). *)
Theorem C03_compiled_program_is_decide : forall le k ai ev pol p,
  compile le k ai pol = Ok p -> N.of_nat (List.length p) < two32 ->
  run_event le p ev = ORet (decide k ai pol ev).
Proof. intros le k ai ev pol p. exact (compile_correct le k ai ev pol p). Qed.
Print Assumptions C03_compiled_program_is_decide.

(** A group matches only through a rule written for the event's OWN syscall number: an unconditional name with that
    number, or a conditional entry with that number ALL of whose conditions hold (AND within a list). *)
Theorem C03_match_is_for_own_syscall : forall ai ev g,
  group_matches ai ev g = true ->
  (exists name num, In name (g_names g) /\ lookup_name (ai_table ai) name = Some num /\ ev_nr ev = sysnum ai num) \/
  (exists nc num, In nc (g_nwc g) /\ lookup_name (ai_table ai) (nc_name nc) = Some num /\ ev_nr ev = sysnum ai num /\
                  forall c, In c (nc_conds nc) -> rel (c_op c) (arg ev (c_arg c)) (c_val c) = true).
Proof. exact match_is_for_own_syscall. Qed.
Print Assumptions C03_match_is_for_own_syscall.

(** ... and any one such entry suffices (OR across the lists of a syscall: entries with the same name are merged) *)
Theorem C03_any_satisfied_list_matches : forall ai ev g nc num,
  In nc (g_nwc g) -> lookup_name (ai_table ai) (nc_name nc) = Some num -> ev_nr ev = sysnum ai num ->
  (forall c, In c (nc_conds nc) -> rel (c_op c) (arg ev (c_arg c)) (c_val c) = true) ->
  group_matches ai ev g = true.
Proof. exact conditional_entry_matches. Qed.
Print Assumptions C03_any_satisfied_list_matches.

(** the complete characterisation: a group lists an event IFF an unconditional name of the group resolves to the
    event's number, or ONE conditional entry resolves to it and ALL of that entry's conditions hold (AND inside an
    entry, OR across entries, and no other way to match) *)
Theorem C03_group_matches_iff : forall ai ev g,
  group_matches ai ev g = true <->
  ((exists name num, In name (g_names g) /\ lookup_name (ai_table ai) name = Some num /\ ev_nr ev = sysnum ai num) \/
   (exists nc num, In nc (g_nwc g) /\ lookup_name (ai_table ai) (nc_name nc) = Some num /\ ev_nr ev = sysnum ai num /\
                   forall c, In c (nc_conds nc) -> rel (c_op c) (arg ev (c_arg c)) (c_val c) = true)).
Proof. exact group_matches_iff. Qed.
Print Assumptions C03_group_matches_iff.

(** a single condition that does not hold blocks its entry, whatever the entry's other conditions say *)
Theorem C03_failing_condition_blocks_entry : forall ai ev nc c,
  In c (nc_conds nc) -> rel (c_op c) (arg ev (c_arg c)) (c_val c) = false -> nwc_matches ai ev nc = false.
Proof. exact failing_condition_blocks_entry. Qed.
Print Assumptions C03_failing_condition_blocks_entry.

(** When no list of an entry is satisfied the decision continues exactly as if the entry were absent. *)
Theorem C03_unmatched_entry_as_absent : forall k ai pol ev j g i nc,
  nth_error (p_groups pol) j = Some g -> nth_error (g_nwc g) i = Some nc -> nwc_matches ai ev nc = false ->
  decide k ai {| p_default := p_default pol; p_groups := replace_group (p_groups pol) j (remove_nwc g i) |} ev
  = decide k ai pol ev.
Proof. exact decide_unmatched_entry_as_absent. Qed.
Print Assumptions C03_unmatched_entry_as_absent.

(** hence the two compiled programs return the same word on that event *)
Theorem C03_programs_agree_without_unmatched_entry : forall le k ai pol ev j g i nc p p',
  nth_error (p_groups pol) j = Some g -> nth_error (g_nwc g) i = Some nc -> nwc_matches ai ev nc = false ->
  compile le k ai pol = Ok p -> N.of_nat (List.length p) < two32 ->
  compile le k ai {| p_default := p_default pol; p_groups := replace_group (p_groups pol) j (remove_nwc g i) |} = Ok p' ->
  N.of_nat (List.length p') < two32 ->
  run_event le p ev = run_event le p' ev.
Proof.
  intros le k ai pol ev j g i nc p p' Hg Hn Hm Hc Hl Hc' Hl'.
  rewrite (compile_correct le k ai ev _ p Hc Hl), (compile_correct le k ai ev _ p' Hc' Hl').
  rewrite (decide_unmatched_entry_as_absent k ai pol ev j g i nc Hg Hn Hm). reflexivity.
Qed.
Print Assumptions C03_programs_agree_without_unmatched_entry.

(** ** The tie to the source at the level of the code generator itself.
    [entry_template] (gen/GenCodegen.v) is SyscallWithConditions.Assemble REGENERATED from filter.go on every run as a builder
    template: the early return for an entry without conditions, nextSyscall, the jump over the entry, the loop over the
    condition lists (noMatch), the loop over the conditions of a list (nextArgument; match is the action on the last
    condition), the operation chain, the reload of the syscall number, and the placing of every label. Its meaning -
    with Go's scoping of loop-local variables - is exactly the model's [gen_ent], for every entry, action label, next
    label and byte order (induction over the lists; [cond_chain] is the regenerated operation chain of C02). *)
Theorem C03_source_entry_is_the_model : forall le e action n,
  entry_nondegenerate e ->
  interp_entry le cond_chain entry_template e action n = Some (gen_ent le e action n).
Proof.
  intros le e action n H. change entry_template with expected_entry_template.
  apply expected_entry_is_gen_ent; [|exact H]. apply chain_ok_sound. vm_compute. reflexivity.
Qed.
Print Assumptions C03_source_entry_is_the_model.

(** The entries themselves - which lists a syscall ends up with - are built by SyscallGroup.toSyscallsWithConditions:
    every names_with_args item of a syscall adds its list as ONE MORE alternative of that syscall's entry, whatever the
    lists already there (an alternative is never dropped, merged into another or reordered). The two loops of that
    function are regenerated from filter.go on every run as decision templates; their meaning is the model's
    [to_syscalls], for every architecture record and group (the same regenerated templates as C07). *)
Theorem C03_source_merge_is_the_model : forall ai g,
  to_syscalls_by_template ai names_loop_template nwc_loop_template g = Some (to_syscalls ai g).
Proof.
  intros ai g. change names_loop_template with expected_names_template. change nwc_loop_template with expected_nwc_template.
  apply expected_templates_are_to_syscalls.
Qed.
Print Assumptions C03_source_merge_is_the_model.

(** every entry toSyscallsWithConditions produces is of that kind (a conditional entry has at least one list) *)
Theorem C03_validated_entries_nondegenerate : forall e, entry_ok e -> entry_nondegenerate e.
Proof. intros [num|num [|cs ls]] H; cbn in *; auto. destruct H as [H _]. apply H. reflexivity. Qed.
Print Assumptions C03_validated_entries_nondegenerate.

Theorem C03_nonvacuous :
  nth_error (p_groups ex_policy) 0 <> None /\
  nwc_matches ex_arch (ev_of 1 3221225534 7) {| nc_name := "write"%string; nc_conds := [ {| c_arg := 0; c_op := OpLe; c_val := 2 |} ] |} = false.
Proof. exact ex_unmatched_entry. Qed.
Print Assumptions C03_nonvacuous.
