(** Property C08: the installed filter enforces the policy on the running kernel.
    PARTIAL proof. Proved, over the kernel MODEL (KernelState.v: do_seccomp; Raw.v: run_raw; KernelCheck.v): the
    program LoadFilter hands to seccomp(2) is, in length field and array, the compiled one; a program too long for
    the 16-bit length field is refused whatever the truncated length (no partial filter can be installed); after
    a successful load the newest filter of the loading thread - with thread-sync: of every thread - returns
    [decide] of the policy on every event. LoadFilter is the interpretation of its regenerated skeleton
    (LoaderInst.kload). NOT proved, validated by the C08 experiment (lib/kernelchecks.py, harness kenforce) on the
    host kernel: that Linux runs a classic-BPF seccomp filter as [run_raw] says on the native little-endian
    seccomp_data, and turns the return word into EPERM / SIGSYS / success as [decide]'s word says. *)
From Coq Require Import String List NArith Bool.
From Seccomp Require Import Words Machine Result Policy Spec Raw KernelCheck KernelState ValidProofs Skeleton
                            Loader LoaderProofs Installed InstalledProofs.
From Gen Require Import GenSkeletons.
From Props Require Import LoaderInst InstalledInst.
Import ListNotations.
Open Scope list_scope.
Open Scope N_scope.

(** sockFilter(raw) of the current tree copies Op, Jt, Jf, K of every instruction: the identity on the array *)
Theorem C08_sockfilter_copies_fields :
  find_fun seccomp_funs "sockFilter" = Some fn_sockFilter /\
  exists g, sockfilter_sem fn_sockFilter = Some g /\ forall raw, g raw = raw.
Proof. exact (conj gen_sockfilter_in_table gen_sockfilter_identity). Qed.
Print Assumptions C08_sockfilter_copies_fields.

(** every seccomp(2) call LoadFilter makes carries (uint16(len p), map encode p) and the filter's flag word *)
Theorem C08_handed_is_compiled : forall w f,
  wf_filt f ->
  w_log (fst (kload w f)) = w_log w \/
  exists t p, f_prog f = Ok p /\
    w_log (fst (kload w f)) = (t, SECCOMP_SET_MODE_FILTER, f_flag f, Some (installed p)) :: w_log w.
Proof. exact (handed_is_compiled kload kload_spec). Qed.
Print Assumptions C08_handed_is_compiled.

Theorem C08_installed_is_compiled : forall w f,
  wf (w_k w) -> wf_filt f -> snd (kload w f) = LNil ->
  exists t p, f_prog f = Ok p /\
    w_log (fst (kload w f)) = (t, SECCOMP_SET_MODE_FILTER, f_flag f, Some (installed p)) :: w_log w /\
    top_prog (w_k (fst (kload w f))) t = Some (firstn (N.to_nat (fst (installed p))) (snd (installed p))).
Proof. exact (installed_is_compiled kload kload_spec). Qed.
Print Assumptions C08_installed_is_compiled.

(** no proper prefix of a compiled program of more than 258 instructions is a valid filter ... *)
Theorem C08_prefix_rejected : forall le k ai pol p m,
  compile le k ai pol = Ok p -> (258 < List.length p)%nat -> N.of_nat (List.length p) < two32 ->
  (m < List.length p)%nat -> kernel_check (firstn m (map encode p)) = false.
Proof. exact prefix_rejected. Qed.
Print Assumptions C08_prefix_rejected.

(** ... so a program of more than 4096 instructions is refused, and nothing changes, whatever uint16(len) is *)
Theorem C08_oversize_rejected : forall le k ai pol p st t flags,
  compile le k ai pol = Ok p -> (4096 < List.length p)%nat -> N.of_nat (List.length p) < two32 ->
  exists e, do_seccomp st t SECCOMP_SET_MODE_FILTER flags (Some (installed p)) = (st, MINUS1, e) /\ e <> 0.
Proof. exact oversize_rejected. Qed.
Print Assumptions C08_oversize_rejected.

Theorem C08_loaded_is_small : forall w f le k ai pol p,
  wf_filt f -> f_prog f = compile le k ai pol -> compile le k ai pol = Ok p -> N.of_nat (List.length p) < two32 ->
  snd (kload w f) = LNil -> (List.length p <= 4096)%nat.
Proof. exact (loaded_is_small kload kload_spec). Qed.
Print Assumptions C08_loaded_is_small.

(** what the kernel reads from the installed sock_fprog is the compiled program, it passes the verifier, and it
    returns the specified decision on every event *)
Theorem C08_kernel_decides : forall le k ai pol p ev,
  compile le k ai pol = Ok p -> (List.length p <= 4096)%nat ->
  let prog := firstn (N.to_nat (fst (installed p))) (snd (installed p)) in
  prog = map encode p /\ kernel_check prog = true /\
  run_raw (word_at le ev) prog 0 0 = ORet (decide k ai pol ev).
Proof. exact kernel_decides. Qed.
Print Assumptions C08_kernel_decides.

(** after a successful load: the loading thread - and with thread-sync every thread - decides as the policy *)
Theorem C08_loaded_filter_decides : forall w f le k ai pol p,
  wf (w_k w) -> wf_filt f -> f_prog f = compile le k ai pol -> compile le k ai pol = Ok p ->
  N.of_nat (List.length p) < two32 -> snd (kload w f) = LNil ->
  let st' := w_k (fst (kload w f)) in
  exists t fid,
    top_prog st' t = Some (map encode p) /\
    option_map snd (find (fun e => fst e =? fid) (ks_progs st')) = Some (map encode p) /\
    (forall ev, run_raw (word_at le ev) (map encode p) 0 0 = ORet (decide k ai pol ev)) /\
    (has_flag (f_flag f) FLAG_TSYNC = true ->
     all_have_top st' fid /\
     forall th, In th (ks_threads st') -> top_prog st' (t_tid th) = Some (map encode p)).
Proof. exact (loaded_filter_decides kload kload_spec). Qed.
Print Assumptions C08_loaded_filter_decides.

(** non-vacuity: a concrete policy loads in the model (privileged single thread) and its filter decides; a policy
    of more than 4096 instructions is refused with EINVAL *)
Theorem C08_nonvacuous :
  compile true ValidProofs.Examples.ex_k ValidProofs.Examples.ex_ai ValidProofs.Examples.ex_pol = Ok ValidProofs.Examples.ex_prog /\
  do_seccomp (init_state 100 true) 100 SECCOMP_SET_MODE_FILTER FLAG_TSYNC (Some (installed ValidProofs.Examples.ex_prog))
  = (attach (init_state 100 true) {| t_tid := 100; t_nnp := false; t_filters := []; t_strict := false; t_priv := true |}
            FLAG_TSYNC (map encode ValidProofs.Examples.ex_prog), 0, 0) /\
  match compile true ValidProofs.Examples.ex_k ValidProofs.Examples.big_ai ValidProofs.Examples.huge_pol with
  | Ok p => Nat.ltb 4096 (List.length p) &&
            (snd (do_seccomp (init_state 100 true) 100 SECCOMP_SET_MODE_FILTER 0 (Some (installed p))) =? EINVAL)
  | Error _ => false
  end = true.
Proof. split; [exact ValidProofs.Examples.ex_compiles|split; vm_compute; reflexivity]. Qed.
Print Assumptions C08_nonvacuous.
