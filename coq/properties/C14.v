(** Property C14: text and configuration forms denote the same policy.
    The name tables, the operation list, the constants and the struct tags are REGENERATED from filter.go /
    constants.go on every run. *)
From Coq Require Import List NArith Bool String Permutation.
From Seccomp Require Import Result Policy Tables Text TextProofs.
From Gen Require Import GenNames GenConsts.
From Oracle Require Import OracleConsts.
Import ListNotations.
Open Scope N_scope.

(** the action name table: seven names, no value and no name twice, all lower case *)
Theorem C14_action_table_shape :
  NoDup (nums action_names) /\ NoDup (names action_names) /\ all_lower action_names = true /\ List.length action_names = 7%nat.
Proof.
  split; [apply nodup_N_spec; vm_compute; reflexivity|].
  split; [apply nodup_S_spec; vm_compute; reflexivity|]. split; reflexivity.
Qed.
Print Assumptions C14_action_table_shape.

(** parsing is sound: a parsed action is the table's value for the lower-cased input *)
Theorem C14_unpack_sound : forall s a, action_unpack action_names s = Some a -> In (a, lower s) action_names.
Proof. intros s a. apply unpack_sound. Qed.
Print Assumptions C14_unpack_sound.

(** each documented name, in ANY letter case, parses to exactly the kernel's constant (vendored UAPI values) *)
Theorem C14_documented_names : forall s,
  (lower s = "kill_thread"%string -> action_unpack action_names s = Some SECCOMP_RET_KILL_THREAD) /\
  (lower s = "kill_process"%string -> action_unpack action_names s = Some SECCOMP_RET_KILL_PROCESS) /\
  (lower s = "trap"%string -> action_unpack action_names s = Some SECCOMP_RET_TRAP) /\
  (lower s = "errno"%string -> action_unpack action_names s = Some SECCOMP_RET_ERRNO) /\
  (lower s = "trace"%string -> action_unpack action_names s = Some SECCOMP_RET_TRACE) /\
  (lower s = "log"%string -> action_unpack action_names s = Some SECCOMP_RET_LOG) /\
  (lower s = "allow"%string -> action_unpack action_names s = Some SECCOMP_RET_ALLOW).
Proof. intros s. unfold action_unpack. repeat split; intros ->; reflexivity. Qed.
Print Assumptions C14_documented_names.

(** unknown names are rejected - in particular never mapped to a permissive action *)
Theorem C14_unknown_rejected : forall s,
  ~ In (lower s) ["kill_thread"; "kill_process"; "trap"; "errno"; "trace"; "log"; "allow"]%string ->
  action_unpack action_names s = None.
Proof.
  intros s H. apply unpack_unknown. intro Hin. apply H.
  assert (Hsub: forallb (fun n => existsb (String.eqb n) ["kill_thread"; "kill_process"; "trap"; "errno"; "trace"; "log"; "allow"]%string)
                        (names action_names) = true) by (vm_compute; reflexivity).
  rewrite forallb_forall in Hsub. specialize (Hsub _ Hin). apply existsb_exists in Hsub.
  destruct Hsub as [x [Hx He]]. apply String.eqb_eq in He. subst. exact Hx.
Qed.
Print Assumptions C14_unknown_rejected.

(** parsing the printed form of any named action gives the action back *)
Theorem C14_print_parse : forall a s, lookup_num action_names a = Some s ->
  action_unpack action_names (action_string action_names a) = Some a.
Proof.
  intros a s. destruct C14_action_table_shape as (H1 & H2 & H3 & _). apply print_parse; assumption.
Qed.
Print Assumptions C14_print_parse.

(** the result of Unpack does not depend on the order in which Go iterates the name map *)
Theorem C14_unpack_order_independent : forall perm s,
  Permutation action_names perm -> action_unpack_with perm s = action_unpack action_names s.
Proof. intros perm s Hp. destruct C14_action_table_shape as (_ & H2 & _). apply unpack_perm_invariant; assumption. Qed.
Print Assumptions C14_unpack_order_independent.

(** operations: case-insensitive, sound, unknown rejected, print/parse round trip, exactly the eight documented ones *)
Theorem C14_operations :
  operations = ["Equal"; "NotEqual"; "GreaterThan"; "LessThan"; "GreaterOrEqual"; "LessOrEqual"; "BitsSet"; "BitsNotSet"]%string /\
  (forall s o, operation_unpack operations s = Some o -> In o operations /\ lower o = lower s) /\
  (forall s, ~ In (lower s) (map lower operations) -> operation_unpack operations s = None) /\
  (forall o, In o operations -> operation_unpack operations o = Some o) /\
  (forall s s', lower s = lower s' -> operation_unpack operations s = operation_unpack operations s').
Proof.
  split; [reflexivity|]. split; [apply operation_unpack_sound|]. split; [apply operation_unpack_unknown|].
  split.
  - apply operation_print_parse. apply nodup_S_spec. vm_compute. reflexivity.
  - intros s s' E. generalize operations. intros ops. induction ops as [|o r IH]; cbn [operation_unpack]; [reflexivity|].
    rewrite E, IH. reflexivity.
Qed.
Print Assumptions C14_operations.

(** every Operation constant's value is its documented spelling *)
Theorem C14_operation_constants : forallb (fun e => String.eqb (fst e) (snd e)) operation_consts = true /\ map snd operation_consts = operations.
Proof. split; reflexivity. Qed.
Print Assumptions C14_operation_constants.

(** configuration keys: for every field of the policy types the yaml and json keys equal the key the configuration
    loader reads, so a marshalled policy is read back field by field (false before the repair of D11) *)
Definition policy_structs : list string := ["Policy"; "SyscallGroup"; "NameWithConditions"; "Condition"]%string.
Theorem C14_tags_consistent :
  forall st fld cfg js ym, In (st, fld, cfg, js, ym) struct_tags -> In st policy_structs ->
  cfg <> EmptyString /\ js = cfg /\ ym = cfg.
Proof.
  assert (H: forallb (fun e => let '(st, fld, cfg, js, ym) := e in
              negb (existsb (String.eqb st) policy_structs) ||
              (negb (String.eqb cfg EmptyString) && String.eqb js cfg && String.eqb ym cfg)) struct_tags = true) by (vm_compute; reflexivity).
  rewrite forallb_forall in H. intros st fld cfg js ym Hin Hst. specialize (H _ Hin). cbn beta iota in H.
  assert (E: existsb (String.eqb st) policy_structs = true).
  { apply existsb_exists. exists st. split; [exact Hst|apply String.eqb_refl]. }
  rewrite E in H. cbn [negb orb] in H. apply andb_true_iff in H. destruct H as [H H3]. apply andb_true_iff in H. destruct H as [H1 H2].
  apply String.eqb_eq in H2. apply String.eqb_eq in H3. repeat split; try assumption.
  intros ->. discriminate H1.
Qed.
Print Assumptions C14_tags_consistent.

(** all 13 fields of the five configuration structs carry a key, and every policy struct is present (non-vacuity) *)
Theorem C14_tags_present :
  List.length struct_tags = 13%nat /\
  forallb (fun st => existsb (fun e => let '(s, _, _, _, _) := e in String.eqb s st) struct_tags) policy_structs = true.
Proof. split; reflexivity. Qed.
Print Assumptions C14_tags_present.
