(** Per-run instance for C08: the regenerated helper sockFilter (gen/GenSkeletons.v: fn_sockFilter) - a loop the
    skeleton language cannot express and the extractor leaves as source text - is recognised by Installed.v as the
    field-by-field copy Code <- Op, Jt <- Jt, Jf <- Jf, K <- K of every element, i.e. the identity on the array.
    This discharges, for the current tree, what Loader.v takes for granted ("sockFilter(raw) is the same array").
    The rest of LoadFilter (Len: uint16(len(sockFilter)), Filter: &sockFilter[0], the flag word, the order of the
    calls) is interpreted from its skeleton in LoaderInst.v. *)
From Coq Require Import List NArith Bool String.
From Seccomp Require Import Raw Skeleton Installed InstalledProofs.
From Gen Require Import GenSkeletons.
Import ListNotations.

Lemma gen_sockfilter_check : sockfilter_check fn_sockFilter = true.
Proof. vm_compute. reflexivity. Qed.

Lemma gen_sockfilter_in_table : find_fun seccomp_funs "sockFilter" = Some fn_sockFilter.
Proof. vm_compute. reflexivity. Qed.

Lemma gen_sockfilter_identity : exists g, sockfilter_sem fn_sockFilter = Some g /\ forall raw, g raw = raw.
Proof. exact (sockfilter_identity fn_sockFilter gen_sockfilter_check). Qed.
