(** Property C15: the sandbox command runs its target only under the loaded policy.
    PARTIAL proof. Proved: the statements below, about (1) the interpretation of the REGENERATED skeleton of
    cmd/sandbox/main.go over every outcome oracle (which of flag.Args / yaml.NewConfigWithFile / conf.Unpack /
    seccomp.LoadFilter / cmd.Run fail), and (2) the loader and kernel MODELS. Not proved, observed by the C15
    experiment on the built binary: that go-ucfg/yaml turn a file into the policy the text denotes, that
    fork+execve behave as [clone] plus "execve keeps the seccomp state" (kernel assumption E1), that two real
    processes behave as the model says. *)
From Coq Require Import String List NArith Bool.
From Seccomp Require Import Words Machine Result Policy Spec Raw KernelState Skeleton Loader LoaderProofs
                            Installed InstalledProofs Sandbox SandboxProofs.
From Gen Require Import GenSkeletons GenAmbient.
From Props Require Import LoaderInst SandboxInst.
Import ListNotations.
Open Scope list_scope.
Open Scope N_scope.

(** the regenerated main(), for every oracle, is the reference behaviour (never stuck: no unknown statement) *)
Theorem C15_skeleton_is_reference : forall o,
  sandbox_run sandbox_funs sk_sandbox_main gen_tsync o = ref_run gen_tsync o.
Proof. exact gen_sandbox_ref. Qed.
Print Assumptions C15_skeleton_is_reference.

(** exec.Command / cmd.Run occur in the trace only after NewConfigWithFile, Unpack and LoadFilter returned nil *)
Theorem C15_exec_only_after_load : forall o pre a post,
  fst (gen_run o) = pre ++ a :: post -> is_target a -> gates_passed pre.
Proof. exact (exec_only_after_load gen_tsync gen_run gen_sandbox_ref). Qed.
Print Assumptions C15_exec_only_after_load.

(** no command, unreadable / malformed file, a file that is not a policy, a filter that does not load:
    non-zero exit status and the target neither created nor started *)
Theorem C15_failure_exits_nonzero_without_target : forall o,
  fails_before_exec o ->
  (exists c, snd (gen_run o) = AExit c /\ c <> 0) /\ forall a, In a (fst (gen_run o)) -> ~ is_target a.
Proof. exact (failure_exits_nonzero_without_target gen_tsync gen_run gen_sandbox_ref). Qed.
Print Assumptions C15_failure_exits_nonzero_without_target.

Theorem C15_run_failure_exits_nonzero : forall o,
  ~ fails_before_exec o -> succeeds (o_run o) = false -> exists c, snd (gen_run o) = AExit c /\ c <> 0.
Proof. exact (run_failure_exits_nonzero gen_tsync gen_run gen_sandbox_ref). Qed.
Print Assumptions C15_run_failure_exits_nonzero.

Theorem C15_success_runs_target : forall o a0 rest,
  o_args o = a0 :: rest -> succeeds (o_yaml o) = true -> succeeds (o_unpack o) = true ->
  succeeds (o_load o) = true -> succeeds (o_run o) = true ->
  snd (gen_run o) = AReturn /\ In (ACommand (VStr a0)) (fst (gen_run o)) /\ In (ARun (VStr a0) true) (fst (gen_run o)).
Proof. exact (success_runs_target gen_tsync gen_run gen_sandbox_ref). Qed.
Print Assumptions C15_success_runs_target.

Theorem C15_never_stuck : forall o, snd (gen_run o) <> AStuck /\ forall c, ~ In (AOther c) (fst (gen_run o)).
Proof. exact (never_stuck gen_tsync gen_run gen_sandbox_ref). Qed.
Print Assumptions C15_never_stuck.

(** the filter value passed to LoadFilter: Flag is the thread-sync constant - the kernel's SECCOMP_FILTER_FLAG_TSYNC -
    and NoNewPrivs is the variable registered for -no-new-privs (default true) before flag.Parse() *)
Theorem C15_filter_requests_tsync :
  gen_tsync = FLAG_TSYNC /\
  forall o fv ok, In (ALoad fv ok) (fst (gen_run o)) ->
  fv = [VStruct "seccomp.Filter"%string
          [("Flag"%string, VNum gen_tsync); ("NoNewPrivs"%string, flag_nnp_var); ("Policy"%string, VOpaque "Seccomp"%string)]].
Proof. exact (conj eq_refl (filter_requests_tsync gen_tsync gen_run gen_sandbox_ref)). Qed.
Print Assumptions C15_filter_requests_tsync.

Theorem C15_flags_from_command_line : forall o, exists rest,
  fst (gen_run o) = AFlagString flag_policy_var "policy" "seccomp.yml" :: AFlagBool flag_nnp_var "no-new-privs" true
                    :: AParse :: AArgs :: rest /\
  forall f ok, In (AYaml f ok) rest -> f = flag_policy_var.
Proof. exact (flags_from_command_line gen_tsync gen_run gen_sandbox_ref). Qed.
Print Assumptions C15_flags_from_command_line.

(** composition with the loader obtained from the regenerated LoadFilter (LoaderInst.kload) and the kernel model:
    after the load returned nil, a child created by ANY thread of the sandbox process (and, by E1, the target
    it execs) runs the compiled policy and meets [decide] on every event; with -no-new-privs it has the bit *)
Theorem C15_target_sees_policy : forall le k ai pol p w nnp,
  wf (w_k w) -> compile le k ai pol = Ok p -> N.of_nat (List.length p) < two32 ->
  let f := sandbox_filt nnp gen_tsync (compile le k ai pol) in
  snd (kload w f) = LNil ->
  let st' := w_k (fst (kload w f)) in
  forall parent, live st' parent ->
  let st2 := fst (clone st' parent) in
  let child := snd (clone st' parent) in
  top_prog st2 child = Some (map encode p) /\
  (forall ev, run_raw (word_at le ev) (map encode p) 0 0 = ORet (decide k ai pol ev)) /\
  (nnp = true -> exists cth, find_thread st2 child = Some cth /\ t_nnp cth = true).
Proof. exact (target_sees_policy kload kload_spec). Qed.
Print Assumptions C15_target_sees_policy.

(** non-vacuity: a run in which everything succeeds, and one in which the load fails *)
Theorem C15_nonvacuous :
  gen_run {| o_args := ["/bin/true"%string]; o_yaml := Succeeds; o_unpack := Succeeds; o_load := Succeeds; o_run := Succeeds |}
  = (ref_prefix ++ [AYaml flag_policy_var true; AUnpack true; ALoad [filter_value gen_tsync] true;
                    ACommand (VStr "/bin/true"%string); ARun (VStr "/bin/true"%string) true], AReturn) /\
  gen_run {| o_args := ["/bin/true"%string]; o_yaml := Succeeds; o_unpack := Succeeds; o_load := Fails "EACCES"; o_run := Succeeds |}
  = (ref_prefix ++ [AYaml flag_policy_var true; AUnpack true; ALoad [filter_value gen_tsync] false; APrint], AExit 1).
Proof. split; vm_compute; reflexivity. Qed.
Print Assumptions C15_nonvacuous.


(* Which policy the command loads is decided by its flags and the file they name: the regenerated list of references of
   cmd/sandbox to the environment, to well-known places (the executable's directory, the working directory, home and
   temporary directories), to the clock or the network (translator/ambient.go lists the names) is empty in the current
   sources. The check also RUNS the command with every environment variable its sources could ask for pointing to a policy
   that allows everything, and with permissive namesakes of a missing policy file in those places. *)
Theorem C15_command_consults_only_flags_and_file : sandbox_ambient_refs = [].
Proof. vm_compute. reflexivity. Qed.
Print Assumptions C15_command_consults_only_flags_and_file.


(* ... and the flags the command registers are the two documented ones. *)
Theorem C15_command_flags : map fst sandbox_flags = ["no-new-privs"; "policy"]%string.
Proof. vm_compute. reflexivity. Qed.
Print Assumptions C15_command_flags.
