(** Property C18: profiles are (found minus blacklisted) plus allowed, and load back. *)
From Coq Require Import List NArith Bool String Permutation Sorting.
From Seccomp Require Import Words Result Machine Policy Spec Tables CoreTheorems Profiler ProfilerProofs.
From Gen Require Import GenTables GenArches GenConsts GenNames.
Import ListNotations.
Open Scope N_scope.

(** For every iteration order of the two Go maps ([sh1], [sh2]: arbitrary functions returning a permutation of their
    argument), every table, every list of discovered sites whose (number, name) pairs are table entries (C16), every
    blacklist and allow-list: the emitted list is sorted byte-wise ... *)
Theorem C18_profile_sorted : forall sh1 sh2 t found bl al, Sorted sle (profile_names sh1 sh2 t found bl al).
Proof. exact profile_sorted. Qed.
Print Assumptions C18_profile_sorted.

(** ... free of duplicates ... *)
Theorem C18_profile_nodup : forall sh1 sh2 t found bl al,
  is_shuffle sh1 -> is_shuffle sh2 -> NoDup (names t) -> found_ok t found -> NoDup (profile_names sh1 sh2 t found bl al).
Proof. exact profile_nodup. Qed.
Print Assumptions C18_profile_nodup.

(** ... and contains exactly the found names that are not blacklisted and the allow-listed names the architecture
    has (for all flag values; a name both blacklisted and allow-listed is in the profile) *)
Theorem C18_profile_members : forall sh1 sh2 t found bl al,
  is_shuffle sh1 -> is_shuffle sh2 -> NoDup (nums t) -> found_ok t found ->
  forall s, In s (profile_names sh1 sh2 t found bl al) <->
            (In s (map snd found) /\ ~ In s bl) \/ (In s al /\ In s (names t)).
Proof. exact profile_members. Qed.
Print Assumptions C18_profile_members.

(** for disjoint flag sets: (found + allowed) - blacklisted *)
Theorem C18_profile_members_disjoint : forall sh1 sh2 t found bl al,
  is_shuffle sh1 -> is_shuffle sh2 -> NoDup (nums t) -> found_ok t found ->
  (forall x, In x bl -> ~ In x al) ->
  forall s, In s (profile_names sh1 sh2 t found bl al) <->
            (In s (map snd found) \/ (In s al /\ In s (names t))) /\ ~ In s bl.
Proof. exact profile_members_disjoint. Qed.
Print Assumptions C18_profile_members_disjoint.

Theorem C18_profile_allow_wins : forall sh1 sh2 t found bl al,
  is_shuffle sh1 -> is_shuffle sh2 -> NoDup (nums t) -> found_ok t found ->
  forall s, In s al -> In s (names t) -> In s (profile_names sh1 sh2 t found bl al).
Proof. exact profile_allow_wins. Qed.
Print Assumptions C18_profile_allow_wins.

(** only names valid for the architecture *)
Theorem C18_profile_in_table : forall sh1 sh2 t found bl al,
  is_shuffle sh1 -> is_shuffle sh2 -> NoDup (nums t) -> found_ok t found ->
  forall s, In s (profile_names sh1 sh2 t found bl al) -> In s (names t).
Proof. exact profile_in_table. Qed.
Print Assumptions C18_profile_in_table.

(** the profile is the same for every iteration order of the maps *)
Theorem C18_profile_perm_invariant : forall sh1 sh2 t found bl al,
  is_shuffle sh1 -> is_shuffle sh2 -> NoDup (nums t) -> NoDup (names t) -> found_ok t found ->
  profile_names sh1 sh2 t found bl al = profile_names_id t found bl al.
Proof. exact profile_perm_invariant. Qed.
Print Assumptions C18_profile_perm_invariant.

(** the list flags -b / -allow: the names of the occurrences accumulate in order; an occurrence that names nothing
    (empty, blank, separators only - `-b "$EXTRA"` with EXTRA unset) adds nothing and takes nothing away, wherever it
    stands among the others *)
Theorem C18_flag_occurrences_accumulate : forall a b, flag_values (a ++ b) = flag_values a ++ flag_values b.
Proof. exact flag_values_app. Qed.
Print Assumptions C18_flag_occurrences_accumulate.
Theorem C18_nameless_occurrence_is_neutral : forall a v b,
  (forall c, In c (list_ascii_of_string v) -> is_sep c = true) -> flag_values (a ++ v :: b) = flag_values (a ++ b).
Proof. intros a v b H. apply flag_values_nameless. exact (fields_aux_seps v H). Qed.
Print Assumptions C18_nameless_occurrence_is_neutral.

(** The policy {default errno, one allow group with the names}, compiled: every event of the policy's architecture
    gets ALLOW if its number is the number of a listed name, and ERRNO|EPERM otherwise. *)
Theorem C18_profile_decides : forall le k allow ai names0 p ev,
  allow <> k_errno k ->
  compile le k ai (profile_policy k allow names0) = Ok p -> N.of_nat (List.length p) < two32 ->
  native_event k ai ev ->
  run_event le p ev = ORet (if listed ai names0 (ev_nr ev) then allow else N.lor (k_errno k) (k_eperm k)).
Proof. exact profile_decides. Qed.
Print Assumptions C18_profile_decides.

Theorem C18_listed_spec : forall ai names0 nr,
  listed ai names0 nr = true <->
  exists name num, In name names0 /\ lookup_name (ai_table ai) name = Some num /\ nr = sysnum ai num.
Proof. exact listed_spec. Qed.
Print Assumptions C18_listed_spec.

(** ** On the tables and constants REGENERATED from the repository *)
(** the architectures getBinaryArch can return *)
Definition profiler_arches : list arch_info := [info_X86_64; info_I386; info_ARM].

Theorem C18_generated_tables_unambiguous :
  Forall (fun ai => NoDup (nums (ai_table ai)) /\ NoDup (names (ai_table ai)) /\ (100 <= List.length (ai_table ai))%nat) profiler_arches.
Proof.
  assert (H: forallb (fun ai => nodup_N (nums (ai_table ai)) && nodup_S (names (ai_table ai)) && Nat.leb 100 (List.length (ai_table ai))) profiler_arches = true)
    by (vm_compute; reflexivity).
  rewrite forallb_forall in H. apply Forall_forall. intros ai Hai. specialize (H ai Hai).
  apply andb_true_iff in H. destruct H as [H H3]. apply andb_true_iff in H. destruct H as [H1 H2].
  split; [apply nodup_N_spec; exact H1|]. split; [apply nodup_S_spec; exact H2|apply PeanoNat.Nat.leb_le; exact H3].
Qed.
Print Assumptions C18_generated_tables_unambiguous.

Theorem C18_profile_on_generated_tables : forall ai, In ai profiler_arches ->
  forall sh1 sh2 found bl al, is_shuffle sh1 -> is_shuffle sh2 -> found_ok (ai_table ai) found ->
  let out := profile_names sh1 sh2 (ai_table ai) found bl al in
  Sorted sle out /\ NoDup out /\
  (forall s, In s out <-> (In s (map snd found) /\ ~ In s bl) \/ (In s al /\ In s (names (ai_table ai)))) /\
  (forall s, In s out -> In s (names (ai_table ai))) /\
  out = profile_names_id (ai_table ai) found bl al.
Proof.
  intros ai Hai sh1 sh2 found bl al H1 H2 Hf out. pose proof C18_generated_tables_unambiguous as H.
  rewrite Forall_forall in H. destruct (H ai Hai) as [Hn [Hm _]].
  split; [apply profile_sorted|]. split; [apply profile_nodup; assumption|].
  split; [apply profile_members; assumption|]. split; [apply profile_in_table; assumption|apply profile_perm_invariant; assumption].
Qed.
Print Assumptions C18_profile_on_generated_tables.

(** the constants of a build target, as the compiler model takes them *)
Definition consts_of_target (tc:target_consts) : consts :=
  {| k_named_actions := map fst action_names; k_errno := tc_ActionErrno tc; k_eperm := tc_errnoEPERM tc;
     k_enosys := tc_errnoENOSYS tc; k_x32mask := tc_x32SyscallMask tc; k_x86_64_id := ai_id info_X86_64 |}.

(** on every build target the two actions of a profile are SECCOMP_RET_ALLOW and SECCOMP_RET_ERRNO, errno carries EPERM = 1,
    and both actions have names (the emitted profile passes Policy.Validate) *)
Theorem C18_generated_actions : Forall (fun tc =>
  tc_ActionAllow tc = 2147418112 /\ tc_ActionErrno tc = 327680 /\ tc_errnoEPERM tc = 1 /\
  lookup_num action_names (tc_ActionAllow tc) = Some "allow"%string /\ lookup_num action_names (tc_ActionErrno tc) = Some "errno"%string) targets.
Proof.
  assert (H: forallb (fun tc => (tc_ActionAllow tc =? 2147418112) && (tc_ActionErrno tc =? 327680) && (tc_errnoEPERM tc =? 1) &&
                                match lookup_num action_names (tc_ActionAllow tc) with Some s => String.eqb s "allow" | None => false end &&
                                match lookup_num action_names (tc_ActionErrno tc) with Some s => String.eqb s "errno" | None => false end) targets = true)
    by (vm_compute; reflexivity).
  rewrite forallb_forall in H. apply Forall_forall. intros tc Htc. specialize (H tc Htc).
  repeat (apply andb_true_iff in H; destruct H as [H ?]).
  repeat match goal with E : (_ =? _) = true |- _ => apply N.eqb_eq in E end.
  destruct (lookup_num action_names (tc_ActionAllow tc)) as [s1|]; [|discriminate].
  destruct (lookup_num action_names (tc_ActionErrno tc)) as [s2|]; [|discriminate].
  repeat match goal with E : String.eqb _ _ = true |- _ => apply String.eqb_eq in E end. subst. repeat split; assumption.
Qed.
Print Assumptions C18_generated_actions.

Theorem C18_profile_decides_generated : forall tc ai, In tc targets -> In ai profiler_arches ->
  forall le names0 p ev,
  compile le (consts_of_target tc) ai (profile_policy (consts_of_target tc) (tc_ActionAllow tc) names0) = Ok p ->
  N.of_nat (List.length p) < two32 -> native_event (consts_of_target tc) ai ev ->
  run_event le p ev = ORet (if listed ai names0 (ev_nr ev) then 2147418112 (* SECCOMP_RET_ALLOW *) else 327681 (* SECCOMP_RET_ERRNO | EPERM *)).
Proof.
  intros tc ai Htc Hai le names0 p ev Hc Hl Hn. pose proof C18_generated_actions as H. rewrite Forall_forall in H.
  destruct (H tc Htc) as [Ha [He [Hp _]]].
  rewrite (profile_decides le (consts_of_target tc) (tc_ActionAllow tc) ai names0 p ev); [|cbn [consts_of_target k_errno]; rewrite Ha, He; discriminate|exact Hc|exact Hl|exact Hn].
  cbn [consts_of_target k_errno k_eperm]. rewrite Ha, He, Hp. reflexivity.
Qed.
Print Assumptions C18_profile_decides_generated.
