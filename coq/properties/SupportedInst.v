(** Per-run instance, Supported() and SetNoNewPrivs() part (used by C09): the regenerated skeletons satisfy
    [supp_spec] / [setnnp_spec] of LoaderProofs.v. Compiled on every run after LoaderInst.v. *)
From Coq Require Import List NArith Bool String.
From Seccomp Require Import Machine Raw Result KernelCheck KernelState Skeleton Loader LoaderProofs.
From Gen Require Import GenSkeletons GenConsts.
From Props Require Import LoaderInst.
Import ListNotations.
Open Scope N_scope.

Definition gen_supported K ksec kprctl := supported_sem K ksec kprctl seccomp_funs gen_lc.
Definition gen_set_nnp K ksec kprctl := set_nnp_sem K ksec kprctl seccomp_funs gen_lc.

Lemma gen_supp_spec : forall K ksec kprctl, supp_spec K ksec (supported_sem K ksec kprctl seccomp_funs gen_lc).
Proof. prove_supp_spec. Qed.

Lemma gen_setnnp_spec : forall K ksec kprctl, setnnp_spec K kprctl (set_nnp_sem K ksec kprctl seccomp_funs gen_lc).
Proof. prove_setnnp_spec. Qed.

Definition ksupported : kworld -> kworld * option bool := gen_supported kstate do_seccomp do_prctl.
Definition ksupported_spec : supp_spec kstate do_seccomp ksupported := gen_supp_spec kstate do_seccomp do_prctl.

Definition ksupported_g : kworld -> kworld * option bool := gen_supported kstate do_seccomp_g do_prctl_g.
Definition ksupported_g_spec : supp_spec kstate do_seccomp_g ksupported_g := gen_supp_spec kstate do_seccomp_g do_prctl_g.
