(** Property C12: syscall tables and architecture metadata are correct and unambiguous.
    Every theorem here is about the tables and records REGENERATED from /repo's arch package. *)
From Coq Require Import List NArith Bool String Permutation.
From Seccomp Require Import Result Policy Tables Text TextProofs.
From Gen Require Import GenTables GenArches.
From Oracle Require Import OracleTables OracleConsts OracleAudit.
Import ListNotations.
Open Scope N_scope.

Definition the_tables : list table := map snd all_tables.

(** five tables, none empty (so the statements below are not vacuous) *)
Theorem C12_five_tables : List.length the_tables = 5%nat /\ Forall (fun t => (100 <= List.length t)%nat) the_tables.
Proof. split; [reflexivity|]. repeat constructor; vm_compute; intro H; discriminate H. Qed.
Print Assumptions C12_five_tables.

(** no number and no name occurs twice in any table *)
Theorem C12_tables_nodup : Forall (fun t => NoDup (nums t) /\ NoDup (names t)) the_tables.
Proof.
  assert (H: forallb (fun t => nodup_N (nums t) && nodup_S (names t)) the_tables = true) by (vm_compute; reflexivity).
  rewrite forallb_forall in H. apply Forall_forall. intros t Ht. specialize (H t Ht).
  apply andb_true_iff in H. destruct H. split; [apply nodup_N_spec|apply nodup_S_spec]; assumption.
Qed.
Print Assumptions C12_tables_nodup.

(** hence name->number and number->name lookups are mutual inverses in every table ... *)
Theorem C12_lookups_inverse : forall t, In t the_tables ->
  forall n s, lookup_num t n = Some s <-> lookup_name t s = Some n.
Proof.
  intros t Ht. pose proof C12_tables_nodup as H. rewrite Forall_forall in H. destruct (H t Ht).
  apply lookups_inverse; assumption.
Qed.
Print Assumptions C12_lookups_inverse.

(** ... and the map inversion of arch.invert gives the same result for every iteration order of the Go map *)
Theorem C12_invert_deterministic : forall t, In t the_tables ->
  forall perm name, Permutation t perm -> invert_with perm name = lookup_name t name.
Proof.
  intros t Ht perm name Hp. pose proof C12_tables_nodup as H. rewrite Forall_forall in H. destruct (H t Ht).
  apply invert_deterministic; assumption.
Qed.
Print Assumptions C12_invert_deterministic.

(** every number agrees with every independent source for its ABI wherever that source lists the name *)
Definition table_of_abi (abi:string) : table :=
  match assoc all_infos abi with Some ai => ai_table ai | None => [] end.

Theorem C12_agrees_with_oracles : forall o abi otbl, In (o, abi, otbl) oracles ->
  forall n s n', In (n, s) otbl -> lookup_name (table_of_abi abi) s = Some n' -> n' = n.
Proof.
  assert (H: forallb (fun e => agree_b (table_of_abi (snd (fst e))) (snd e)) oracles = true) by (vm_compute; reflexivity).
  rewrite forallb_forall in H. intros o abi otbl Hin. specialize (H _ Hin). cbn [fst snd] in H.
  apply agree_spec. exact H.
Qed.
Print Assumptions C12_agrees_with_oracles.

(** ... and by NUMBER: the name a table gives a number is the one the independent source gives that number (x/sys calls
    arm64's fstatat by its kernel-internal name newfstatat: the one synonym) *)
Definition oracle_synonyms : list (string * string) := [("fstatat", "newfstatat")]%string.
Theorem C12_agrees_with_oracles_by_number : forall o abi otbl, In (o, abi, otbl) oracles ->
  forall n s, In (n, s) (table_of_abi abi) -> (exists s0, In (n, s0) otbl) ->
  exists s', In (n, s') otbl /\ (s' = s \/ In (s, s') oracle_synonyms).
Proof.
  assert (H: forallb (fun e => agree_num_b oracle_synonyms (table_of_abi (snd (fst e))) (snd e)) oracles = true) by (vm_compute; reflexivity).
  rewrite forallb_forall in H. intros o abi otbl Hin. specialize (H _ Hin). cbn [fst snd] in H.
  apply agree_num_spec. exact H.
Qed.
Print Assumptions C12_agrees_with_oracles_by_number.

(** ... and the other way round for the sources that describe the SAME kernel release range as the tables (the machine's
    UAPI headers and Go's frozen syscall package for amd64 / arm64; x/sys and Go's 386 / arm files also list calls newer
    than the tables or older than the EABI): every call such a source lists is in the table, under that name and number -
    a table that silently loses an entry keeps passing the two comparisons above. The one exception is a second name the
    generic header defines for number 84 under an #ifdef. *)
Definition complete_sources : list string :=
  ["uapi_x86_64"; "uapi_i386"; "uapi_x32"; "uapi_generic64"; "gosyscall_amd64"; "gosyscall_arm64"]%string.
Definition alternative_names : list (N * string) := [(84%N, "sync_file_range2"%string)].
Definition cover_b (exc:list (N * string)) (t o:table) : bool :=
  forallb (fun e => match lookup_name t (snd e) with
                    | Some n => N.eqb n (fst e)
                    | None => existsb (fun x => N.eqb (fst x) (fst e) && String.eqb (snd x) (snd e)) exc
                    end) o.
Lemma cover_spec exc t o : cover_b exc t o = true ->
  forall n s, In (n, s) o -> lookup_name t s = Some n \/ In (n, s) exc.
Proof.
  unfold cover_b. rewrite forallb_forall. intros H n s Hin. specialize (H (n, s) Hin). cbn [fst snd] in H.
  destruct (lookup_name t s) as [n'|].
  - left. apply N.eqb_eq in H. subst. reflexivity.
  - right. apply existsb_exists in H. destruct H as [[xn xs] [Hx Hc]]. cbn [fst snd] in Hc.
    apply andb_true_iff in Hc. destruct Hc as [E1 E2]. apply N.eqb_eq in E1. apply String.eqb_eq in E2. subst. exact Hx.
Qed.
Theorem C12_tables_cover_complete_sources : forall o abi otbl, In (o, abi, otbl) oracles -> In o complete_sources ->
  forall n s, In (n, s) otbl -> lookup_name (table_of_abi abi) s = Some n \/ In (n, s) alternative_names.
Proof.
  assert (H: forallb (fun e => negb (existsb (String.eqb (fst (fst e))) complete_sources)
                               || cover_b alternative_names (table_of_abi (snd (fst e))) (snd e)) oracles = true) by (vm_compute; reflexivity).
  rewrite forallb_forall in H. intros o abi otbl Hin Hc. specialize (H _ Hin). cbn [fst snd] in H.
  apply orb_true_iff in H. destruct H as [H|H].
  - exfalso. apply negb_true_iff in H. assert (E: existsb (String.eqb o) complete_sources = true).
    { apply existsb_exists. exists o. split; [exact Hc|apply String.eqb_refl]. }
    rewrite E in H. discriminate.
  - apply cover_spec. exact H.
Qed.
Print Assumptions C12_tables_cover_complete_sources.
(* the premise is met: all six sources are among the oracles *)
Example C12_complete_sources_present :
  forallb (fun c => existsb (fun e => String.eqb (fst (fst e)) c) oracles) complete_sources = true.
Proof. vm_compute. reflexivity. Qed.

(** the oracles do overlap with the tables (non-vacuity): per oracle, the number of shared names *)
Definition shared (t o:table) : nat := List.length (filter (fun e => match lookup_name t (snd e) with Some _ => true | None => false end) o).
Theorem C12_oracles_overlap : Forall (fun e => (250 <= shared (table_of_abi (snd (fst e))) (snd e))%nat) oracles.
Proof.
  apply Forall_forall. intros e He.
  assert (H: forallb (fun e => Nat.leb 250 (shared (table_of_abi (snd (fst e))) (snd e))) oracles = true) by (vm_compute; reflexivity).
  rewrite forallb_forall in H. apply PeanoNat.Nat.leb_le. apply H. exact He.
Qed.
Print Assumptions C12_oracles_overlap.

(** each audit-architecture identifier is the kernel's AUDIT_ARCH_* value: the ELF machine number
    with the 64-bit and little-endian flags of linux/audit.h *)
Theorem C12_audit_ids :
  ai_id info_X86_64 = EM_X86_64 + AUDIT_ARCH_64BIT + AUDIT_ARCH_LE /\
  ai_id info_X32 = EM_X86_64 + AUDIT_ARCH_64BIT + AUDIT_ARCH_LE /\
  ai_id info_I386 = EM_386 + AUDIT_ARCH_LE /\
  ai_id info_ARM = EM_ARM + AUDIT_ARCH_LE /\
  ai_id info_AARCH64 = EM_AARCH64 + AUDIT_ARCH_64BIT + AUDIT_ARCH_LE /\
  ai_id info_PPC = EM_PPC /\ ai_id info_PPC64 = EM_PPC64 + AUDIT_ARCH_64BIT /\
  ai_id info_PPC64LE = EM_PPC64 + AUDIT_ARCH_64BIT + AUDIT_ARCH_LE /\
  ai_id info_S390 = EM_S390 /\ ai_id info_S390X = EM_S390 + AUDIT_ARCH_64BIT /\
  ai_id info_MIPS = EM_MIPS /\ ai_id info_MIPSEL = EM_MIPS + AUDIT_ARCH_LE /\
  ai_id info_MIPS64 = EM_MIPS + AUDIT_ARCH_64BIT /\
  ai_id info_MIPSEL64 = EM_MIPS + AUDIT_ARCH_64BIT + AUDIT_ARCH_LE /\
  ai_id info_MIPS64N32 = EM_MIPS + AUDIT_ARCH_64BIT + AUDIT_ARCH_CONVENTION_MIPS64_N32 /\
  ai_id info_MIPSEL64N32 = EM_MIPS + AUDIT_ARCH_64BIT + AUDIT_ARCH_LE + AUDIT_ARCH_CONVENTION_MIPS64_N32 /\
  ai_mask info_X32 = X32_SYSCALL_BIT /\ arch_x32_syscall_mask = X32_SYSCALL_BIT /\
  forallb (fun e => (ai_mask (snd e) =? 0) || String.eqb (fst e) "X32") all_infos = true.
Proof. repeat split; reflexivity. Qed.
Print Assumptions C12_audit_ids.

(** EVERY audit-architecture constant the package declares (also those of architectures without a table: sparc64, sh,
    parisc, ia64 ...) - regenerated from arch/zarches.go as the Go type checker evaluates it - is the value the kernel's
    UAPI header gives the AUDIT_ARCH_ constant of the same name (vendored in OracleAudit.v), and none is unknown to the
    kernel; the table of names has an entry for each of them *)
Theorem C12_every_audit_constant_is_the_kernels :
  forallb audit_const_ok audit_consts = true /\
  forallb (fun e => existsb (fun ne => fst ne =? snd e) audit_names) audit_consts = true /\
  (forall name v, In (name, v) audit_consts -> kernel_value_of_go name = Some v).
Proof.
  assert (H: forallb audit_const_ok audit_consts = true) by (vm_compute; reflexivity).
  split; [exact H|]. split; [vm_compute; reflexivity|].
  intros name v Hin. rewrite forallb_forall in H. specialize (H _ Hin). unfold audit_const_ok in H. cbn [fst snd] in H.
  destruct (kernel_value_of_go name) as [w|]; [|discriminate]. apply N.eqb_eq in H. now subst.
Qed.
Print Assumptions C12_every_audit_constant_is_the_kernels.

(** aliases: any spelling with the same lower-case form resolves alike; the documented pairs share a record *)
Theorem C12_alias_case_insensitive : forall goarch s s',
  s <> EmptyString -> s' <> EmptyString -> lower s = lower s' -> get_info aliases goarch s = get_info aliases goarch s'.
Proof. intros. apply get_info_case_insensitive; assumption. Qed.
Print Assumptions C12_alias_case_insensitive.

Theorem C12_alias_pairs : forall goarch s,
  (lower s = "amd64"%string \/ lower s = "x86_64"%string -> get_info aliases goarch s = Ok info_X86_64) /\
  (lower s = "386"%string \/ lower s = "i386"%string -> get_info aliases goarch s = Ok info_I386) /\
  (lower s = "arm64"%string \/ lower s = "aarch64"%string -> get_info aliases goarch s = Ok info_AARCH64) /\
  (lower s = "arm"%string -> get_info aliases goarch s = Ok info_ARM) /\
  (lower s = "x32"%string -> get_info aliases goarch s = Ok info_X32).
Proof.
  intros goarch s.
  assert (Hne: forall t, lower s = t -> t <> EmptyString -> s <> EmptyString) by (intros t <- Ht ->; apply Ht; reflexivity).
  repeat split; intros H; unfold get_info;
    (destruct s as [|c r]; [destruct H as [H|H] || idtac; try discriminate H|]);
    (destruct H as [H|H] || idtac); rewrite H; reflexivity.
Qed.
Print Assumptions C12_alias_pairs.

(** the getinfo shape facts the model relies on are present in the source *)
Theorem C12_getinfo_shape : getinfo_lowercases = true /\ getinfo_rejects_empty_table = true /\ getinfo_empty_name_is_goarch = true.
Proof. repeat split; reflexivity. Qed.
Print Assumptions C12_getinfo_shape.

(** architectures without tables, and names that are no alias, are reported as unsupported *)
Theorem C12_unsupported : forall goarch s, s <> EmptyString ->
  (~ In (lower s) (map fst aliases) -> get_info aliases goarch s = Error EUnsupportedArch) /\
  (forall ai, assoc aliases (lower s) = Some ai -> ai_table ai = [] -> get_info aliases goarch s = Error EUnsupportedArch) /\
  (forall ai, get_info aliases goarch s = Ok ai -> ai_table ai <> []).
Proof.
  intros goarch s Hs. repeat split.
  - apply get_info_unknown; assumption.
  - intros ai Ha Ht. unfold get_info. destruct s; [congruence|]. rewrite Ha. unfold table_empty. rewrite Ht. reflexivity.
  - intros ai. apply get_info_ok_has_table.
Qed.
Print Assumptions C12_unsupported.

(** exactly the five records with tables are supported; the eleven others are not *)
Theorem C12_supported_set :
  (forall key, In key (map fst (filter (fun e => negb (table_empty (snd e))) all_infos)) <->
               In key ["ARM"; "AARCH64"; "I386"; "X32"; "X86_64"]%string) /\
  List.length all_infos = 16%nat.
Proof.
  split; [|reflexivity].
  assert (H: forallb (fun k => existsb (String.eqb k) ["ARM"; "AARCH64"; "I386"; "X32"; "X86_64"]%string)
                     (map fst (filter (fun e => negb (table_empty (snd e))) all_infos)) = true /\
             forallb (fun k => existsb (String.eqb k) (map fst (filter (fun e => negb (table_empty (snd e))) all_infos)))
                     ["ARM"; "AARCH64"; "I386"; "X32"; "X86_64"]%string = true) by (split; vm_compute; reflexivity).
  destruct H as [H1 H2]. rewrite forallb_forall in H1, H2. intros key. split; intros Hin.
  - specialize (H1 _ Hin). apply existsb_exists in H1. destruct H1 as [x [Hx E]]. apply String.eqb_eq in E. subst. exact Hx.
  - specialize (H2 _ Hin). apply existsb_exists in H2. destruct H2 as [x [Hx E]]. apply String.eqb_eq in E. subst. exact Hx.
Qed.
Print Assumptions C12_supported_set.
