(** Property C05: every emitted program is a valid seccomp filter with a closed return set. *)
From Coq Require Import String List NArith Bool.
From Seccomp Require Import Words Result Machine Assembler Policy Spec Raw KernelCheck CompileProofs ValidProofs.
Import ListNotations.
Open Scope N_scope.

(** Every program the compiler returns without error, if it has at most 4096 instructions, passes the kernel's
    verifier ([kernel_check]: bpf_check_classic + seccomp_check_filter as a boolean function): non-empty, opcodes on
    both white lists, every jump forward and in bounds, aligned 32-bit loads below offset 64, last instruction a
    return, no scratch-memory reads. No hypothesis on the policy beyond acceptance. *)
Theorem C05_compiled_kernel_valid : forall le k ai pol p,
  compile le k ai pol = Ok p -> (List.length p <= 4096)%nat -> kernel_check (map encode p) = true.
Proof. exact compiled_kernel_valid. Qed.
Print Assumptions C05_compiled_kernel_valid.

(** it encodes to raw form without error: every conditional jump offset fits the 8-bit jt/jf fields *)
Theorem C05_jumps_fit_byte : forall le k ai pol p, compile le k ai pol = Ok p -> Forall byte_jump p.
Proof. exact compiled_jumps_fit_byte. Qed.
Print Assumptions C05_jumps_fit_byte.

(** the raw encoding (x/net/bpf, with jt/jf exchanged for !=, <, <=, bits-not-set) has the same meaning *)
Theorem C05_raw_encoding_preserves_meaning : forall ld p k a, run_raw ld (map encode p) k a = run ld p k a.
Proof. exact run_raw_encode. Qed.
Print Assumptions C05_raw_encoding_preserves_meaning.

(** every value a compiled program can return *)
Theorem C05_return_set_closed : forall le k ai pol p v,
  compile le k ai pol = Ok p -> In (IRet v) p ->
  v = ret_word k (p_default pol) \/ (exists g, In g (p_groups pol) /\ v = ret_word k (g_action g)) \/
  (ai_id ai = k_x86_64_id k /\ v = N.lor (k_errno k) (k_enosys k)).
Proof. exact return_set_closed. Qed.
Print Assumptions C05_return_set_closed.

(** every path ends in a return: on every event the raw program returns, and returns the specified decision *)
Theorem C05_compiled_no_fault : forall le k ai pol p ev,
  compile le k ai pol = Ok p -> (List.length p <= 4096)%nat ->
  run_raw (word_at le ev) (map encode p) 0 0 = ORet (decide k ai pol ev).
Proof. exact compiled_no_fault. Qed.
Print Assumptions C05_compiled_no_fault.

(** The verifier model is a sound checker for ANY raw program over the opcodes the library uses (this is what the
    check runs on every program the implementation emits): accepted => never faults, never runs off the end. *)
Theorem C05_kernel_check_sound : forall ld raw,
  kernel_check raw = true -> ours raw = true -> ld_total ld -> forall a, exists v, run_raw ld raw 0 a = ORet v.
Proof. exact kernel_check_sound. Qed.
Print Assumptions C05_kernel_check_sound.

Theorem C05_loads_total : forall le ev, ld_total (word_at le ev).
Proof. exact word_at_total. Qed.
Print Assumptions C05_loads_total.

(** non-vacuity: concrete policies (a two-group one, and one of 1095 instructions using the long architecture jump
    and bridges) satisfy the hypotheses; and the 4096 bound is needed *)
Theorem C05_nonvacuous :
  compile true ValidProofs.Examples.ex_k ValidProofs.Examples.ex_ai ValidProofs.Examples.ex_pol = Ok ValidProofs.Examples.ex_prog /\
  kernel_check (map encode ValidProofs.Examples.ex_prog) = true.
Proof. split; [exact ValidProofs.Examples.ex_compiles|exact ValidProofs.Examples.ex_accepted]. Qed.
Print Assumptions C05_nonvacuous.
