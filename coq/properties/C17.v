(** Property C17: the profiler never trusts an incomplete cached disassembly.
    Partial proof: the statements are about the file-system state machine of Profiler.v (assumptions F1-F3, T1, H1
    in its header: a file is only what was written to it, rename is atomic, temporary names are never final cache
    names, the disassembler exits 0 only after its complete output, equal hashes mean equal binaries). *)
From Coq Require Import List NArith Bool String.
From Seccomp Require Import Profiler ProfilerProofs.
From Gen Require Import GenAmbient.
Import ListNotations.
Open Scope string_scope.
Import ListNotations.
Open Scope N_scope.

(** The invariant - every file under a final cache name is the hash line of some binary followed by the COMPLETE
    disassembly of that binary - holds for the empty cache directory ... *)
Theorem C17_cache_ok_initially : forall dump_of, cache_ok dump_of [].
Proof. exact cache_ok_empty. Qed.
Print Assumptions C17_cache_ok_initially.

(** ... and is preserved by every prefix of the directory-changing operations of a run, the last write possibly
    cut short: a run to its end (cache hit, successful, failing or missing disassembler), a crash after any
    operation or inside any write. Any buffer size, any chunking of the disassembler's output. *)
Theorem C17_run_prefix_preserves_inv : forall bufsize dump_of c d ops',
  wf_cfg dump_of c -> cache_ok dump_of d -> op_prefix ops' (run_ops bufsize c d) -> cache_ok dump_of (apply_ops d ops').
Proof. exact run_prefix_preserves_inv. Qed.
Print Assumptions C17_run_prefix_preserves_inv.

(** the three kinds of interruption of the model (after i operations and j bytes, at a file-size limit, killed while
    the disassembler runs) are such prefixes *)
Theorem C17_crash_points_are_prefixes : forall bufsize cp c d, op_prefix (crash_ops bufsize cp c d) (run_ops bufsize c d).
Proof. exact crash_ops_prefix. Qed.
Print Assumptions C17_crash_points_are_prefixes.

(** hence by every history of complete, crashed and I/O-failed runs over arbitrary binaries *)
Theorem C17_history_preserves_inv : forall bufsize dump_of hs d,
  Forall (wf_hrun dump_of) hs -> cache_ok dump_of d -> cache_ok dump_of (exec_history bufsize d hs).
Proof. exact history_preserves_inv. Qed.
Print Assumptions C17_history_preserves_inv.

(** a run with a cold cache returns the hash line and the complete disassembly *)
Theorem C17_cold_run : forall bufsize dump_of c,
  wf_cfg dump_of c -> r_tool c = TOk -> snd (run_complete bufsize c []) = Dump (complete_dump dump_of (r_hash c)).
Proof. exact cold_run. Qed.
Print Assumptions C17_cold_run.

(** C17: after any such history a normal run returns what the run with a cold cache returns, or fails *)
Theorem C17_second_run_sound : forall bufsize dump_of hs c,
  Forall (wf_hrun dump_of) hs -> wf_cfg dump_of c -> r_tool c = TOk ->
  let d := exec_history bufsize [] hs in
  snd (run_complete bufsize c d) = snd (run_complete bufsize c []) \/ snd (run_complete bufsize c d) = Failed.
Proof. exact second_run_sound. Qed.
Print Assumptions C17_second_run_sound.

(** ... so the profile, whatever function of the dump it is (C16), is the cold-cache profile or there is none *)
Theorem C17_second_run_profile : forall bufsize dump_of (P:Type) (profile_of:string -> P) hs c,
  Forall (wf_hrun dump_of) hs -> wf_cfg dump_of c -> r_tool c = TOk ->
  let d := exec_history bufsize [] hs in
  profile_result profile_of (snd (run_complete bufsize c d)) = profile_result profile_of (snd (run_complete bufsize c [])) \/
  profile_result profile_of (snd (run_complete bufsize c d)) = None.
Proof. exact second_run_profile. Qed.
Print Assumptions C17_second_run_profile.

(** The protocol before the repair (final name created first, hash line first, deferred flush) does NOT have the
    property - defect D13: after a run whose disassembler failed, and after a crash, the next run returns a
    truncated dump although a run with a cold cache returns the complete one. *)
Theorem C17_old_protocol_refuted :
  exists (dump_of:string -> string) (hs:list hrun) (c:run_cfg),
    Forall (wf_hrun dump_of) hs /\ wf_cfg dump_of c /\ r_tool c = TOk /\
    exists x, snd (old_run_complete go_bufsize c (old_exec_history go_bufsize [] hs)) = Dump x /\
              x <> complete_dump dump_of (r_hash c) /\
              snd (old_run_complete go_bufsize c []) = Dump (complete_dump dump_of (r_hash c)).
Proof. exact old_protocol_refuted. Qed.
Print Assumptions C17_old_protocol_refuted.

Theorem C17_old_protocol_refuted_by_crash :
  exists (dump_of:string -> string) (hs:list hrun) (c:run_cfg),
    Forall (wf_hrun dump_of) hs /\ wf_cfg dump_of c /\ r_tool c = TOk /\
    exists x, snd (old_run_complete go_bufsize c (old_exec_history go_bufsize [] hs)) = Dump x /\
              x <> complete_dump dump_of (r_hash c).
Proof. exact old_protocol_refuted_by_crash. Qed.
Print Assumptions C17_old_protocol_refuted_by_crash.


(* What a disassembly is complete FOR is the binary: the cache is keyed by the binary's path and content, and the model's
   runs have no other parameter. That is sound as long as nothing else a caller can pass changes what the disassembler is
   asked to print: the regenerated list of the flags the command registers is the documented one (a new flag - a symbol
   filter, an architecture override - is an input the cache key and this model do not have; the check then runs the real
   profiler with the new flag first and without it afterwards). *)
Theorem C17_profiler_inputs_are_the_documented_flags :
  map fst profiler_flags = ["allow"; "b"; "d"; "format"; "out"; "pkg"; "t"].
Proof. vm_compute. reflexivity. Qed.
Print Assumptions C17_profiler_inputs_are_the_documented_flags.
