(** Property C09: a nil load result means the filter is in force; failed loads leave none behind.
    (Partial proof: the kernel is the model of KernelState.v, the Go scheduler an oracle; see LoaderProofs.v.)

    [kload], [ksupported] are LoadFilter and Supported of the CURRENT tree: the regenerated skeletons of
    seccomp_linux.go interpreted over the kernel model (LoaderInst.v, SupportedInst.v, compiled on this run). A history is a
    list of operations [hop] (loads with any filter / flags from any thread, pinned or not, under any scheduler
    oracle; Supported probes; thread creation and exit; dropping privilege; blocking and waking), folded over
    the kernel state by [run_hist]. Every theorem below quantifies over EVERY history prefix [pre]. *)
From Coq Require Import List NArith Bool String.
From Seccomp Require Import Machine Raw Result KernelCheck KernelState Skeleton Loader LoaderProofs GatedProofs.
From Gen Require Import GenSkeletons GenConsts.
From Props Require Import LoaderInst SupportedInst.
Import ListNotations.
Close Scope string_scope.
Open Scope list_scope.
Open Scope N_scope.

Notation hist := (run_hist kload ksupported).

(** LoadFilter returns nil only if the new filter (a filter id no thread had before) is on top of the stack of
    the thread the call ran on - the caller's own thread when the caller is pinned - runs the compiled program,
    and, when thread-sync was requested, is on top of EVERY thread's stack. *)
Theorem C09_load_nil_in_force : forall st0 pre tid pinned sched f,
  wf st0 -> Forall op_ok pre -> wf_filt f ->
  let w := mk_world (hist st0 pre) tid pinned sched in
  snd (kload w f) = LNil ->
  exists j p, f_prog f = Ok p /\
    let t := thread_at kstate w j in
    let st1 := pre_seccomp (w_k w) t f in
    let st' := hist st0 (pre ++ [HLoad tid pinned sched f]) in
    let fid := ks_next_fid st1 in
    has_top st' t fid /\ fresh_fid st1 fid /\ stacks st1 = stacks (w_k w) /\
    top_prog st' t = Some (firstn (N.to_nat (fprog_len p)) (map encode p)) /\
    (has_flag (f_flag f) FLAG_TSYNC = true -> all_have_top st' fid) /\
    (pinned = true -> t = tid).
Proof. exact (load_nil_in_force kload ksupported kload_spec ksupported_spec). Qed.
Print Assumptions C09_load_nil_in_force.

(** Whenever the kernel attaches nothing (its state is unchanged: it answered an errno, or the positive thread
    id of a refused thread-sync) LoadFilter returns an error and no filter stack has changed. *)
Theorem C09_load_unattached_is_error : forall st0 pre tid pinned sched f p,
  wf st0 -> Forall op_ok pre -> wf_filt f -> f_prog f = Ok p ->
  let w := mk_world (hist st0 pre) tid pinned sched in
  exists j, let t := thread_at kstate w j in
  let st1 := pre_seccomp (w_k w) t f in
  fst (fst (do_seccomp st1 t SECCOMP_SET_MODE_FILTER (f_flag f) (fprog p))) = st1 ->
  snd (kload w f) = LErr /\
  stacks (hist st0 (pre ++ [HLoad tid pinned sched f])) = stacks (hist st0 pre).
Proof. exact (load_unattached_is_error kload ksupported kload_spec ksupported_spec). Qed.
Print Assumptions C09_load_unattached_is_error.

(** The ways the kernel declines, each leaving its state unchanged (so the theorem above applies):
    unknown flag bits / illegal combinations -> EINVAL *)
Theorem C09_declined_unknown_flags : forall st t caller flags prog,
  flags < 4294967296 -> find_thread st t = Some caller -> flags_ok flags = false ->
  do_seccomp st t SECCOMP_SET_MODE_FILTER flags prog = (st, MINUS1, EINVAL).
Proof. exact declines_unknown_flags. Qed.
Print Assumptions C09_declined_unknown_flags.

(** an empty or oversize program -> EINVAL *)
Theorem C09_declined_oversize : forall st t caller flags len arr,
  flags < 4294967296 -> find_thread st t = Some caller -> flags_ok flags = true ->
  len = 0 \/ BPF_MAXINSNS < len ->
  do_seccomp st t SECCOMP_SET_MODE_FILTER flags (Some (len, arr)) = (st, MINUS1, EINVAL).
Proof. exact declines_oversize. Qed.
Print Assumptions C09_declined_oversize.

(** neither no_new_privs nor CAP_SYS_ADMIN on the calling thread -> EACCES *)
Theorem C09_declined_unprivileged : forall st t caller flags len arr,
  flags < 4294967296 -> find_thread st t = Some caller -> flags_ok flags = true ->
  0 < len -> len <= BPF_MAXINSNS -> t_nnp caller = false -> t_priv caller = false ->
  do_seccomp st t SECCOMP_SET_MODE_FILTER flags (Some (len, arr)) = (st, MINUS1, EACCES).
Proof. exact declines_unprivileged. Qed.
Print Assumptions C09_declined_unprivileged.

(** a program the kernel's verifier rejects -> EINVAL *)
Theorem C09_declined_bad_program : forall st t caller flags len arr,
  flags < 4294967296 -> find_thread st t = Some caller -> flags_ok flags = true ->
  0 < len -> len <= BPF_MAXINSNS -> t_nnp caller || t_priv caller = true -> len <= N.of_nat (List.length arr) ->
  kernel_check (firstn (N.to_nat len) arr) = false ->
  do_seccomp st t SECCOMP_SET_MODE_FILTER flags (Some (len, arr)) = (st, MINUS1, EINVAL).
Proof. exact declines_bad_program. Qed.
Print Assumptions C09_declined_bad_program.

(** thread-sync refused because another thread carries a divergent filter -> r1 = that thread's id, errno 0 *)
Theorem C09_declined_thread_sync : forall st t caller flags p bad,
  flags < 4294967296 -> find_thread st t = Some caller ->
  t_nnp caller || t_priv caller = true ->
  flags_ok flags = true -> has_flag flags FLAG_NEW_LISTENER = false ->
  0 < fprog_len p -> fprog_len p <= BPF_MAXINSNS ->
  kernel_check (firstn (N.to_nat (fprog_len p)) (map encode p)) = true ->
  t_strict caller = false -> path_len st caller (internal_len (firstn (N.to_nat (fprog_len p)) (map encode p))) <= MAX_INSNS_PER_PATH ->
  has_flag flags FLAG_TSYNC = true -> has_flag flags FLAG_TSYNC_ESRCH = false ->
  first_unsyncable caller (ks_threads st) = Some bad ->
  do_seccomp st t SECCOMP_SET_MODE_FILTER flags (fprog p) = (st, bad, 0).
Proof. exact declines_thread_sync. Qed.
Print Assumptions C09_declined_thread_sync.

(** A load that fails before reaching the kernel (invalid policy) returns an error, makes no system call and
    leaves the whole kernel state - filters and no_new_privs bits - as it was. *)
Theorem C09_assemble_fail_no_effect : forall st0 pre tid pinned sched f e,
  f_prog f = Error e ->
  let w := mk_world (hist st0 pre) tid pinned sched in
  snd (kload w f) = LErr /\ w_log (fst (kload w f)) = [] /\
  hist st0 (pre ++ [HLoad tid pinned sched f]) = hist st0 pre.
Proof. exact (assemble_fail_no_effect kload ksupported kload_spec). Qed.
Print Assumptions C09_assemble_fail_no_effect.

(** Probing for support never changes process state. *)
Theorem C09_supported_pure : forall st0 pre tid pinned sched,
  hist st0 (pre ++ [HSupported tid pinned sched]) = hist st0 pre.
Proof. exact (supported_pure kload ksupported ksupported_spec). Qed.
Print Assumptions C09_supported_pure.

(** ... and the probe is the strict-mode call with flags 1, which the kernel answers with EINVAL: true. *)
Theorem C09_supported_answers : forall w,
  w_k (fst (ksupported w)) = w_k w /\
  exists j, (live (w_k w) (thread_at kstate w j) -> snd (ksupported w) = Some true) /\
    w_log (fst (ksupported w)) = (thread_at kstate w j, SECCOMP_SET_MODE_STRICT, 1, None) :: w_log w.
Proof. exact (supported_pure_step ksupported ksupported_spec). Qed.
Print Assumptions C09_supported_answers.

(** Every state a history reaches is well formed, so the statements above hold at every point of every history. *)
Theorem C09_histories_wellformed : forall ops st, wf st -> Forall op_ok ops -> wf (hist st ops).
Proof. exact (run_hist_wf kload ksupported kload_spec ksupported_spec). Qed.
Print Assumptions C09_histories_wellformed.

(** ** The same loader on a kernel that filters the loader's OWN system calls ([kload_g], [ksupported_g]: do_seccomp_g /
    do_prctl_g run the filters the calling thread already carries on seccomp(2) and prctl(2) first).
    Where no installed filter intercepts the two calls the gated kernel answers exactly like the plain one, so every
    theorem above speaks about it too ... *)
Theorem C09_gated_kernel_agrees_where_open : forall t st f, open st ->
  ref_load kstate do_seccomp_g do_prctl_g t st f = ref_load kstate do_seccomp do_prctl t st f.
Proof. exact open_agrees. Qed.
Print Assumptions C09_gated_kernel_agrees_where_open.

(** ... and where the filters already in force answer seccomp(2) with an error (an outer sandbox profile, an earlier
    policy of this very library), LoadFilter returns an error and no thread's filter stack changes - whatever was
    requested, whatever the scheduler does. *)
Theorem C09_refused_by_earlier_filter_is_error : forall w f, refuses (w_k w) SYS_seccomp ->
  snd (kload_g w f) = LErr /\ stacks (w_k (fst (kload_g w f))) = stacks (w_k w).
Proof. exact (load_refused_seccomp kload_g kload_g_spec). Qed.
Print Assumptions C09_refused_by_earlier_filter_is_error.

(** Supported() changes nothing on that kernel either, whatever the filters answer *)
Theorem C09_supported_pure_gated : forall w, w_k (fst (ksupported_g w)) = w_k w.
Proof. exact (supported_pure_gated ksupported_g ksupported_g_spec). Qed.
Print Assumptions C09_supported_pure_gated.

(** Non-vacuity, by evaluation of the regenerated skeleton on the kernel model. *)
Definition ok_prog : list instr := [ILd 0; IRet 2147418112].
Definition flt (nnp:bool) (flag:N) : filt := {| f_nnp := nnp; f_flag := flag; f_prog := Ok ok_prog |}.
Definition sched_on (t:N) : nat -> N := fun _ => t.
Definition st2 : kstate := fst (clone (init_state 100 true) 100).      (* threads 100, 101; privileged *)

(** a plain load succeeds and the filter is visible in the thread's status *)
Example C09_ex_success :
  let w' := fst (kload (mk_world st2 100 true (sched_on 100)) (flt true 0)) in
  snd (kload (mk_world st2 100 true (sched_on 100)) (flt true 0)) = LNil /\
  status_of (w_k w') 100 = Some (2, 1, true) /\ status_of (w_k w') 101 = Some (0, 0, false).
Proof. vm_compute. repeat split. Qed.

(** thread 101 loads a filter of its own; a thread-sync load from thread 100 is then refused by the kernel with
    the positive return value 101, LoadFilter reports an error, and thread 100 still has no filter *)
Example C09_ex_refused_thread_sync :
  let h := [HLoad 101 true (sched_on 101) (flt false 0)] in
  let st := hist st2 h in
  do_seccomp st 100 SECCOMP_SET_MODE_FILTER 1 (fprog ok_prog) = (st, 101, 0) /\
  snd (kload (mk_world st 100 true (sched_on 100)) (flt false 1)) = LErr /\
  status_of (hist st2 (h ++ [HLoad 100 true (sched_on 100) (flt false 1)])) 100 = Some (0, 0, false).
Proof. vm_compute. repeat split. Qed.

(** unknown flag 0x80, a 4097-instruction program, and a missing privilege are errors that install nothing *)
Example C09_ex_declined :
  snd (kload (mk_world st2 100 true (sched_on 100)) (flt true 128)) = LErr /\
  snd (kload (mk_world st2 100 true (sched_on 100))
         {| f_nnp := true; f_flag := 0; f_prog := Ok (repeat (ILd 0) 4096 ++ [IRet 2147418112]) |}) = LErr /\
  snd (kload (mk_world (drop_priv st2) 100 true (sched_on 100)) (flt false 0)) = LErr /\
  stacks (hist st2 [HDropPriv; HLoad 100 true (sched_on 100) (flt false 0)]) = [(100, []); (101, [])].
Proof. vm_compute. repeat split. Qed.

(** an invalid policy: an error, no system call, and the NoNewPrivs request has not been acted upon *)
Example C09_ex_invalid_policy :
  let f := {| f_nnp := true; f_flag := 1; f_prog := Error EProblems |} in
  snd (kload (mk_world st2 100 false (sched_on 101)) f) = LErr /\
  nnp_bits (hist st2 [HLoad 100 false (sched_on 101) f]) = [(100, false); (101, false)].
Proof. vm_compute. repeat split. Qed.

Example C09_ex_supported :
  snd (ksupported (mk_world st2 100 false (sched_on 101))) = Some true.
Proof. vm_compute. reflexivity. Qed.
