(** Property C19: constants and stubs are consistent across build targets.
    [targets] (GenConsts.v) holds, for EVERY GOOS/GOARCH pair of `go tool dist list`, whether package seccomp
    type-checks for that target, the values of its constants as the Go type checker evaluates them there, the files
    the build constraints select and - [tc_bodies] - what the three loader functions of THAT build contain (number of
    call expressions, sole returned expression). Regenerated on every run. *)
From Coq Require Import List NArith Bool String.
From Seccomp Require Import Words Result Machine Assembler Policy Tables Text TextProofs PolicyTop.
From Gen Require Import GenTables GenArches GenNames GenStubs GenConsts GenAmbient.
From Oracle Require Import OracleConsts.
Import ListNotations.
Open Scope N_scope.

Definition is_linux (t:target_consts) : bool := String.eqb (tc_goos t) "linux" || String.eqb (tc_goos t) "android".
Definition is_mips (t:target_consts) : bool :=
  existsb (String.eqb (tc_goarch t)) ["mips"; "mipsle"; "mips64"; "mips64le"]%string.
Definition has_table_arch (goarch:string) : bool := existsb (String.eqb goarch) ["386"; "amd64"; "arm"; "arm64"]%string.

(** the library type-checks for every target of the distribution list (so "every target on which it builds" is all of them) *)
Theorem C19_builds_everywhere : Nat.leb 40 (List.length targets) = true /\ forallb tc_checks targets = true.
Proof. split; vm_compute; reflexivity. Qed.
Print Assumptions C19_builds_everywhere.

(** on every target the action, flag, prctl and seccomp-operation constants and EPERM are the kernel's UAPI values;
    ENOSYS is the kernel's value for that CPU (89 on Linux/mips*, 38 everywhere else) *)
Definition consts_uapi (t:target_consts) : bool :=
  (tc_ActionKillThread t =? SECCOMP_RET_KILL_THREAD) && (tc_ActionKillProcess t =? SECCOMP_RET_KILL_PROCESS) &&
  (tc_ActionTrap t =? SECCOMP_RET_TRAP) && (tc_ActionErrno t =? SECCOMP_RET_ERRNO) && (tc_ActionTrace t =? SECCOMP_RET_TRACE) &&
  (tc_ActionLog t =? SECCOMP_RET_LOG) && (tc_ActionAllow t =? SECCOMP_RET_ALLOW) && (tc_ActionUserNotify t =? SECCOMP_RET_USER_NOTIF) &&
  (tc_FilterFlagTSync t =? SECCOMP_FILTER_FLAG_TSYNC) && (tc_FilterFlagLog t =? SECCOMP_FILTER_FLAG_LOG) &&
  (tc_prSetNoNewPrivs t =? PR_SET_NO_NEW_PRIVS) &&
  (tc_seccompSetModeStrict t =? SECCOMP_SET_MODE_STRICT) && (tc_seccompSetModeFilter t =? SECCOMP_SET_MODE_FILTER) &&
  (tc_errnoEPERM t =? EPERM) && (tc_x32SyscallMask t =? X32_SYSCALL_BIT) &&
  (tc_syscallNumOffset t =? 0) && (tc_archOffset t =? 4) && (tc_argumentOffset t =? 16) &&
  (tc_errnoENOSYS t =? (if is_linux t && is_mips t then ENOSYS_MIPS else ENOSYS)).

Theorem C19_consts_are_uapi : forall t, In t targets -> consts_uapi t = true.
Proof.
  assert (H: forallb consts_uapi targets = true) by (vm_compute; reflexivity).
  rewrite forallb_forall in H. exact H.
Qed.
Print Assumptions C19_consts_are_uapi.

(** wherever a filter can be produced (GOARCH with a syscall table) ENOSYS is 38 *)
Theorem C19_enosys_38_where_tables : forall t, In t targets -> has_table_arch (tc_goarch t) = true -> tc_errnoENOSYS t = 38.
Proof.
  assert (H: forallb (fun t => negb (has_table_arch (tc_goarch t)) || (tc_errnoENOSYS t =? 38)) targets = true) by (vm_compute; reflexivity).
  rewrite forallb_forall in H. intros t Hin Ht. specialize (H t Hin). rewrite Ht in H. cbn [negb orb] in H.
  apply N.eqb_eq. exact H.
Qed.
Print Assumptions C19_enosys_38_where_tables.

(** the constant record the compiler works with, per target *)
Definition consts_of (t:target_consts) : consts :=
  {| k_named_actions := [tc_ActionKillThread t; tc_ActionKillProcess t; tc_ActionTrap t; tc_ActionErrno t; tc_ActionTrace t; tc_ActionLog t; tc_ActionAllow t];
     k_errno := tc_ActionErrno t; k_eperm := tc_errnoEPERM t; k_enosys := tc_errnoENOSYS t;
     k_x32mask := tc_x32SyscallMask t; k_x86_64_id := ai_id info_X86_64 |}.

(** [consts_of] names exactly the keys of actionNames (tie to GenNames.v, host build) - as a set: the compiler only
    asks whether an action is named *)
Definition same_set (a b:list N) : bool :=
  forallb (fun x => existsb (N.eqb x) b) a && forallb (fun x => existsb (N.eqb x) a) b.
Lemma same_set_existsb a b : same_set a b = true -> forall x, existsb (N.eqb x) a = existsb (N.eqb x) b.
Proof.
  unfold same_set. intros H x. apply andb_true_iff in H. destruct H as [H1 H2]. rewrite forallb_forall in H1, H2.
  destruct (existsb (N.eqb x) a) eqn:Ea, (existsb (N.eqb x) b) eqn:Eb; try reflexivity.
  - apply existsb_exists in Ea. destruct Ea as [y [Hy E]]. apply N.eqb_eq in E. subst. rewrite (H1 y Hy) in Eb. discriminate.
  - apply existsb_exists in Eb. destruct Eb as [y [Hy E]]. apply N.eqb_eq in E. subst. rewrite (H2 y Hy) in Ea. discriminate.
Qed.
Theorem C19_named_actions_are_action_names : forall t, In t targets -> has_table_arch (tc_goarch t) = true ->
  forall a, is_named (consts_of t) a = existsb (N.eqb a) (map fst action_names).
Proof.
  assert (H: forallb (fun t => negb (has_table_arch (tc_goarch t)) || same_set (k_named_actions (consts_of t)) (map fst action_names)) targets = true)
    by (vm_compute; reflexivity).
  rewrite forallb_forall in H. intros t Hin Ht a. specialize (H t Hin). rewrite Ht in H. cbn [negb orb] in H.
  unfold is_named. apply same_set_existsb. exact H.
Qed.
Print Assumptions C19_named_actions_are_action_names.

(** so a policy compiles to the same program wherever it is compiled for a given syscall table *)
Fixpoint listN_eqb (a b:list N) : bool :=
  match a, b with [], [] => true | x :: a', y :: b' => (x =? y) && listN_eqb a' b' | _, _ => false end.
Lemma listN_eqb_eq a : forall b, listN_eqb a b = true -> a = b.
Proof.
  induction a as [|x a IH]; intros [|y b] H; try discriminate; [reflexivity|].
  cbn [listN_eqb] in H. apply andb_true_iff in H. destruct H as [H1 H2]. apply N.eqb_eq in H1. subst. f_equal. apply IH. exact H2.
Qed.
Definition consts_eqb (a b:consts) : bool :=
  listN_eqb (k_named_actions a) (k_named_actions b) && (k_errno a =? k_errno b) && (k_eperm a =? k_eperm b) &&
  (k_enosys a =? k_enosys b) && (k_x32mask a =? k_x32mask b) && (k_x86_64_id a =? k_x86_64_id b).
Lemma consts_eqb_eq a b : consts_eqb a b = true -> a = b.
Proof.
  unfold consts_eqb. intros H. repeat (apply andb_true_iff in H; destruct H as [H ?]).
  repeat match goal with X: (_ =? _) = true |- _ => apply N.eqb_eq in X end.
  apply listN_eqb_eq in H. destruct a, b. cbn in *. subst. reflexivity.
Qed.

Theorem C19_same_program_everywhere : forall t t', In t targets -> In t' targets ->
  has_table_arch (tc_goarch t) = true -> has_table_arch (tc_goarch t') = true ->
  forall le ai pol, compile le (consts_of t) ai pol = compile le (consts_of t') ai pol.
Proof.
  assert (H: forallb (fun t => negb (has_table_arch (tc_goarch t)) ||
     consts_eqb (consts_of t) {| k_named_actions := [0; 2147483648; 196608; 327680; 2146435072; 2147221504; 2147418112];
                                 k_errno := 327680; k_eperm := 1; k_enosys := 38; k_x32mask := 1073741824; k_x86_64_id := ai_id info_X86_64 |}) targets = true)
    by (vm_compute; reflexivity).
  rewrite forallb_forall in H.
  intros t t' Hin Hin' Ht Ht' le ai pol.
  pose proof (H t Hin) as A. pose proof (H t' Hin') as B. rewrite Ht in A. rewrite Ht' in B. cbn [negb orb] in A, B.
  rewrite (consts_eqb_eq _ _ A), (consts_eqb_eq _ _ B). reflexivity.
Qed.
Print Assumptions C19_same_program_everywhere.

(** non-Linux targets: in the package AS BUILT FOR THAT TARGET (whatever files the build constraints select) each of the
    three loader functions exists, its body contains no call expression (no go / defer either) - so it performs no
    system call - and Supported is [return false]. [tc_bodies] is regenerated per target from the type-checked files. *)
Definition body_of (t:target_consts) (f:string) : option (nat * string) :=
  match filter (fun b => String.eqb (fst (fst b)) f) (tc_bodies t) with
  | [(_, calls, ret)] => Some (calls, ret)
  | _ => None
  end.
Definition loader_functions : list string := ["Supported"; "SetNoNewPrivs"; "LoadFilter"]%string.
Theorem C19_stubs_inert : forall t, In t targets -> is_linux t = false ->
  (forall f, In f loader_functions -> exists ret, body_of t f = Some (0%nat, ret)) /\
  body_of t "Supported"%string = Some (0%nat, "false"%string).
Proof.
  assert (H: forallb (fun t => is_linux t ||
     (forallb (fun f => match body_of t f with Some (0%nat, _) => true | _ => false end) loader_functions &&
      match body_of t "Supported"%string with Some (0%nat, r) => String.eqb r "false" | _ => false end)) targets = true) by (vm_compute; reflexivity).
  rewrite forallb_forall in H. intros t Hin Hl. specialize (H t Hin). rewrite Hl in H. cbn [orb] in H.
  apply andb_true_iff in H. destruct H as [H1 H2]. rewrite forallb_forall in H1. split.
  - intros f Hf. specialize (H1 f Hf). destruct (body_of t f) as [[[|n] r]|]; try discriminate. exists r. reflexivity.
  - destruct (body_of t "Supported"%string) as [[[|n] r]|]; try discriminate. apply String.eqb_eq in H2. subst. reflexivity.
Qed.
Print Assumptions C19_stubs_inert.

Definition has_file (t:target_consts) (f:string) : bool := existsb (String.eqb f) (tc_files t).
Theorem C19_stub_file_selection : forall t, In t targets ->
  (is_linux t = false -> has_file t "seccomp_unsupported.go" = true /\ has_file t "seccomp_linux.go" = false) /\
  (is_linux t = true -> has_file t "seccomp_unsupported.go" = false /\ has_file t "seccomp_linux.go" = true) /\
  tc_funcs t = ["Supported"; "SetNoNewPrivs"; "LoadFilter"]%string.
Proof.
  assert (H: forallb (fun t => (if is_linux t then negb (has_file t "seccomp_unsupported.go") && has_file t "seccomp_linux.go"
                               else has_file t "seccomp_unsupported.go" && negb (has_file t "seccomp_linux.go")) &&
                              (fix eqb (a b:list string) := match a, b with [], [] => true | x :: a', y :: b' => String.eqb x y && eqb a' b' | _, _ => false end)
                                (tc_funcs t) ["Supported"; "SetNoNewPrivs"; "LoadFilter"]%string) targets = true) by (vm_compute; reflexivity).
  rewrite forallb_forall in H. intros t Hin. specialize (H t Hin). apply andb_true_iff in H. destruct H as [H1 H2].
  split; [|split].
  - intros E. rewrite E in H1. apply andb_true_iff in H1. destruct H1 as [A B]. apply negb_true_iff in B. split; assumption.
  - intros E. rewrite E in H1. apply andb_true_iff in H1. destruct H1 as [A B]. apply negb_true_iff in A. split; assumption.
  - revert H2. generalize (tc_funcs t) ["Supported"; "SetNoNewPrivs"; "LoadFilter"]%string.
    induction l as [|x a IH]; intros [|y b] H; try discriminate; [reflexivity|].
    apply andb_true_iff in H. destruct H as [Hx Hr]. apply String.eqb_eq in Hx. subst. f_equal. apply IH. exact Hr.
Qed.
Print Assumptions C19_stub_file_selection.

(** targets without syscall tables: Policy.Assemble fails with an unsupported-architecture error, for every policy *)
Theorem C19_no_table_no_filter : forall t, In t targets -> has_table_arch (tc_goarch t) = false ->
  forall le k pol, policy_assemble aliases (tc_goarch t) le k pol = Error EUnsupportedArch.
Proof.
  assert (H: forallb (fun t => has_table_arch (tc_goarch t) ||
              match assoc aliases (tc_goarch t) with None => true | Some ai => table_empty ai end) targets = true) by (vm_compute; reflexivity).
  rewrite forallb_forall in H. intros t Hin Ht le k pol. specialize (H t Hin). rewrite Ht in H. cbn [orb] in H.
  apply policy_assemble_unsupported. destruct (assoc aliases (tc_goarch t)) as [ai|] eqn:E; [right|left; reflexivity].
  exists ai. split; [reflexivity|]. unfold table_empty in H. destruct (ai_table ai); [reflexivity|discriminate].
Qed.
Print Assumptions C19_no_table_no_filter.

(** and with tables the lookup succeeds (non-vacuity of C19_same_program_everywhere) *)
Theorem C19_table_targets_resolve : forall t, In t targets -> has_table_arch (tc_goarch t) = true ->
  exists ai, get_info aliases (tc_goarch t) EmptyString = Ok ai /\ ai_table ai <> [].
Proof.
  assert (H: forallb (fun t => negb (has_table_arch (tc_goarch t)) ||
              match get_info aliases (tc_goarch t) EmptyString with Ok ai => negb (table_empty ai) | Error _ => false end) targets = true) by (vm_compute; reflexivity).
  rewrite forallb_forall in H. intros t Hin Ht. specialize (H t Hin). rewrite Ht in H. cbn [negb orb] in H.
  destruct (get_info aliases (tc_goarch t) EmptyString) as [ai|e] eqn:E; [|discriminate].
  exists ai. split; [reflexivity|]. eapply get_info_ok_has_table. exact E.
Qed.
Print Assumptions C19_table_targets_resolve.


(** The one thing about the build target that the compiler learns at RUN time is the machine's byte order (it decides which
    half of an argument lies at the lower offset: C02_source_load_offsets). The probe is regenerated as data - the 16-bit
    value stored at the start of a two-byte buffer and, per case of the switch over the buffer, the two bytes and the byte
    order chosen - and evaluated here for both byte orders: a little-endian machine stores the low byte first and the probe
    answers LittleEndian, a big-endian machine stores the high byte first and the probe answers BigEndian. (Only little-
    endian builds can be run on this host; for the big-endian targets this theorem is what ties the layout to the code.) *)
Definition stored_u16 (little:bool) (v:N) : N * N :=
  if little then (v mod 256, v / 256) else (v / 256, v mod 256).
Definition eval_probe (p : N * list (N * N * string)) (little:bool) : option string :=
  let '(b0, b1) := stored_u16 little (fst p) in
  match find (fun c => N.eqb (fst (fst c)) b0 && N.eqb (snd (fst c)) b1) (snd p) with
  | Some c => Some (snd c)
  | None => None
  end.
Theorem C19_byte_order_probe_is_right : exists p, endian_probe = Some p /\
  fst p < 65536 /\ eval_probe p true = Some "LittleEndian"%string /\ eval_probe p false = Some "BigEndian"%string.
Proof.
  destruct endian_probe as [p|] eqn:E.
  - exists p. split; [reflexivity|]. revert E. unfold endian_probe. intro E. injection E as <-. vm_compute. repeat split; reflexivity.
  - exfalso. revert E. unfold endian_probe. discriminate.
Qed.
Print Assumptions C19_byte_order_probe_is_right.
