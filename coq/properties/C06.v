(** Property C06: the label/jump builder preserves jump targets at any distance. *)
From Coq Require Import List NArith Bool.
From Seccomp Require Import Words Result Machine Assembler AssemblerProofs.
Import ListNotations.
Open Scope N_scope.

(** For every sequence of builder calls (any mix of loads, returns, one- and two-way conditional jumps and
    unconditional jumps; any distances; labels set twice, late or never) whose labels were obtained from
    NewLabel: if Program.Assemble succeeds, then for every load function (every event, either byte order) and
    every initial accumulator the assembled instruction list has the outcome of the label-level program:
    the same return value, the same fault, or the same fall-through accumulator. *)
Theorem C06_build_correct : forall le rw ops p,
  ops_below (snd (items_of le rw ops 2)) ops ->
  build le rw ops = Ok p ->
  forall ld a, run ld p 0 a = exec ld (fst (items_of le rw ops 2)) (Skip 0) a.
Proof. exact build_correct. Qed.
Print Assumptions C06_build_correct.

(** The same at the level of label programs, for any fresh-label counter above the labels in use. *)
Theorem C06_assemble_correct : forall ld its f p a,
  below f its -> assemble its f = Ok p -> run ld p 0 a = exec ld its (Skip 0) a.
Proof. exact assemble_correct. Qed.
Print Assumptions C06_assemble_correct.

(** The helper instructions always suffice: whatever the distances, no conditional branch is left out of
    reach of its 8-bit skip (Assemble never gives up with "jump destination out of reach"). *)
Theorem C06_never_out_of_reach : forall its f, below f its -> assemble its f <> Error EOutOfReach.
Proof. exact assemble_never_out_of_reach. Qed.
Print Assumptions C06_never_out_of_reach.

(** Inserting the bridges does not change the meaning of any path, from any label or from the start. *)
Theorem C06_bridges_preserve_paths : forall ld its f m a,
  below f its -> mode_ok f m -> exec ld (fst (relax its f)) m a = exec ld its m a.
Proof. exact relax_exec. Qed.
Print Assumptions C06_bridges_preserve_paths.

(** Non-vacuity: a program whose first jump has both branches more than 255 instructions away, one of them
    a return (early-return bridge) and one a load (long-jump bridge), assembles, and the result has two
    more instructions than the builder emitted. *)
Definition far_program : list bop :=
  [BNewLabel; BNewLabel; BLdLo 0; BJmpIf JEq 7 2 3] ++ repeat (BLdLo 1) 300 ++
  [BSetLabel 2; BRet 5] ++ repeat (BLdHi 2) 300 ++ [BSetLabel 3; BLdLo 3; BRet 9].

Example C06_far_program_assembles :
  match build true (fun a => a) far_program with
  | Ok p => length p = 607%nat /\ nth 1 p (IRet 0) = IJmpIf JEq 7 0 1 /\ nth 2 p (IRet 0) = IRet 5
            /\ nth 3 p (IRet 0) = IJa 601
  | Error _ => False
  end.
Proof. vm_compute. repeat split. Qed.

Example C06_far_program_hypothesis : ops_below (snd (items_of true (fun a => a) far_program 2)) far_program.
Proof. apply ops_belowb_spec. vm_compute. reflexivity. Qed.
