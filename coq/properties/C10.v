(** Property C10: thread-sync covers every thread under every schedule.
    (Partial proof: the kernel is the model of KernelState.v - in particular a thread-sync is ONE step, which is
    the kernel's siglock atomicity with respect to thread creation and exit, and a new thread inherits the
    filters of the thread that calls clone; the Go scheduler is an oracle.)

    Interleavings are histories: any list of operations [hop] - loads, probes, HSpawn by any thread, HExit,
    HBlock / HWake (a thread entering or leaving a blocking system call: no effect on the seccomp state),
    HDropPriv - before and after the load. *)
From Coq Require Import List NArith Bool String.
From Seccomp Require Import Machine Raw Result KernelCheck KernelState Skeleton Loader LoaderProofs.
From Gen Require Import GenSkeletons GenConsts.
From Props Require Import LoaderInst.
Import ListNotations.
Close Scope string_scope.
Open Scope list_scope.
Open Scope N_scope.

(** [supp] is ANY Supported() that satisfies its specification (C09 proves that the one of the current tree does):
    the statements below are about LoadFilter, whatever probes are interleaved with the loads. *)
Notation probe_ok supp := (supp_spec kstate do_seccomp supp).
Notation hist supp := (run_hist kload supp).

(** Thread-sync requested and nil returned, after ANY history [pre]: the new filter (an id no thread had) is on
    top of the stack of every thread existing at that moment, and in the stack of every thread existing after
    ANY continuation [post] - whichever threads spawn threads, block, wake or exit, and whatever is loaded
    later. A thread with the filter in its stack has every later system call filtered by it. *)
Theorem C10_tsync_covers_all : forall supp, probe_ok supp -> forall st0 pre tid pinned sched f post,
  wf st0 -> Forall op_ok pre -> wf_filt f -> Forall op_ok post ->
  has_flag (f_flag f) FLAG_TSYNC = true ->
  snd (kload (mk_world (hist supp st0 pre) tid pinned sched) f) = LNil ->
  exists fid,
    (forall th, In th (ks_threads (hist supp st0 pre)) -> ~ In fid (t_filters th)) /\
    all_have_top (hist supp st0 (pre ++ [HLoad tid pinned sched f])) fid /\
    covered fid (hist supp st0 (pre ++ HLoad tid pinned sched f :: post)).
Proof. exact (fun supp Hs => tsync_covers_all kload supp kload_spec Hs). Qed.
Print Assumptions C10_tsync_covers_all.

(** The invariant behind it: once every thread has a filter, every operation preserves that. *)
Theorem C10_covered_preserved : forall supp, probe_ok supp -> forall fid ops st, Forall op_ok ops -> covered fid st -> covered fid (hist supp st ops).
Proof. exact (fun supp Hs => covered_preserved kload supp kload_spec Hs). Qed.
Print Assumptions C10_covered_preserved.

(** Without thread-sync the other threads are left exactly as they were (same threads, each one unchanged). *)
Theorem C10_no_tsync_untouched : forall supp st0 pre tid pinned sched f,
  wf_filt f -> has_flag (f_flag f) FLAG_TSYNC = false ->
  let w := mk_world (hist supp st0 pre) tid pinned sched in
  exists j, let t := thread_at kstate w j in
  let st' := hist supp st0 (pre ++ [HLoad tid pinned sched f]) in
  tids st' = tids (hist supp st0 pre) /\
  (forall th', In th' (ks_threads st') -> t_tid th' <> t -> In th' (ks_threads (hist supp st0 pre))) /\
  (pinned = true -> t = tid).
Proof. exact (fun supp => no_tsync_untouched kload supp kload_spec). Qed.
Print Assumptions C10_no_tsync_untouched.

(** The flag word reaches the kernel unmodified: LoadFilter makes at most one seccomp(2) call, with
    op = SECCOMP_SET_MODE_FILTER, flags = Filter.Flag and the compiled program with its 16-bit length. *)
Theorem C10_flag_passthrough : forall supp st0 pre tid pinned sched f,
  wf_filt f ->
  let w := mk_world (hist supp st0 pre) tid pinned sched in
  w_log (fst (kload w f)) = [] \/
  exists t p, f_prog f = Ok p /\
    w_log (fst (kload w f)) = [(t, SECCOMP_SET_MODE_FILTER, f_flag f, Some (fprog_len p, map encode p))].
Proof. exact (fun supp => flag_passthrough kload supp kload_spec). Qed.
Print Assumptions C10_flag_passthrough.

(** Non-vacuity: three threads (one of them "blocked"), thread-sync load from an unpinned goroutine that the
    scheduler runs on thread 102; afterwards thread 101 spawns a thread, thread 100 exits, another filter is
    loaded without thread-sync: all live threads, including the one spawned later, carry filter 1. *)
Definition ok_prog : list instr := [ILd 0; IRet 2147418112].
Definition flt (nnp:bool) (flag:N) : filt := {| f_nnp := nnp; f_flag := flag; f_prog := Ok ok_prog |}.
Definition st3 : kstate := fst (clone (fst (clone (init_state 100 true) 100)) 100).   (* threads 100 101 102 *)

Example C10_ex_covers :
  let h := [HBlock 101; HLoad 100 false (fun _ => 102) (flt true 3); HSpawn 101; HWake 101; HExit 100;
            HLoad 102 true (fun _ => 102) (flt false 0); HSpawn 103] in
  snd (kload (mk_world st3 100 false (fun _ => 102)) (flt true 3)) = LNil /\
  stacks (hist ref_supported st3 h) = [(101, [1]); (102, [2; 1]); (103, [1]); (104, [1])] /\
  nnp_bits (hist ref_supported st3 h) = [(101, true); (102, true); (103, true); (104, true)].
Proof. vm_compute. repeat split. Qed.

(** without the flag only the thread that ran the call is changed *)
Example C10_ex_untouched :
  stacks (hist ref_supported st3 [HLoad 100 true (fun _ => 100) (flt true 2)]) = [(100, [1]); (101, []); (102, [])] /\
  nnp_bits (hist ref_supported st3 [HLoad 100 true (fun _ => 100) (flt true 2)]) = [(100, true); (101, false); (102, false)] /\
  w_log (fst (kload (mk_world st3 100 true (fun _ => 100)) (flt true 2))) =
    [(100, 1, 2, Some (2, map encode ok_prog))].
Proof. vm_compute. repeat split. Qed.
