(** Per-run instance for C15: the regenerated skeleton of cmd/sandbox/main.go (gen/GenSkeletons.v:
    sk_sandbox_main and its helpers in sandbox_funs), interpreted over EVERY outcome oracle, behaves as the
    reference [ref_run] of Sandbox.v. The proof is a case analysis on the oracle (empty / non-empty argument
    list x the four fallible calls succeed / fail, with symbolic strings) and evaluation of the interpreter.
    A skeleton containing a statement the extractor did not understand ([SUnknown]) is stuck and fails here. *)
From Coq Require Import List NArith Bool String.
From Seccomp Require Import Skeleton Sandbox.
From Gen Require Import GenSkeletons GenConsts.
Import ListNotations.
Open Scope N_scope.

(** FilterFlagTSync as the Go type checker evaluates it for linux/amd64 (99: no such target - nothing holds) *)
Definition gen_tsync : N := Eval vm_compute in
  match find (fun t => String.eqb (tc_goos t) "linux" && String.eqb (tc_goarch t) "amd64") targets with
  | Some t => tc_FilterFlagTSync t
  | None => 99
  end.

(** the command of the current tree *)
Notation gen_run := (sandbox_run sandbox_funs sk_sandbox_main gen_tsync).

Lemma gen_sandbox_ref : forall o, gen_run o = ref_run gen_tsync o.
Proof. prove_sandbox_ref. Qed.

(** every function of the command (main and whatever helpers it has in the current tree) was understood by the extractor *)
Lemma gen_skeleton_known : forallb (fun f => all_known (fn_body f)) sandbox_funs = true.
Proof. vm_compute; reflexivity. Qed.
