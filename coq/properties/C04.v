(** Property C04: foreign-architecture and x32 events never reach the rules. *)
From Coq Require Import List NArith Bool String.
From Seccomp Require Import Words Result Machine Policy Spec CompileProofs CoreTheorems CoreExamples.
Import ListNotations.
Open Scope N_scope.

(** any event whose architecture word differs from the policy's gets the default action, whatever its number and
    arguments, for programs of every size (both encodings of the architecture jump are covered by the proof) *)
Theorem C04_foreign_arch_default : forall le k ai pol p ev,
  compile le k ai pol = Ok p -> N.of_nat (List.length p) < two32 ->
  ev_arch ev <> ai_id ai ->
  run_event le p ev = ORet (ret_word k (p_default pol)).
Proof. exact foreign_arch_default. Qed.
Print Assumptions C04_foreign_arch_default.

(** on x86_64 any number with the x32 bit (>= 0x40000000, whatever else it contains) gets ERRNO|ENOSYS *)
Theorem C04_x32_enosys : forall le k ai pol p ev,
  compile le k ai pol = Ok p -> N.of_nat (List.length p) < two32 ->
  ai_id ai = k_x86_64_id k -> ev_arch ev = ai_id ai -> k_x32mask k <= ev_nr ev ->
  run_event le p ev = ORet (N.lor (k_errno k) (k_enosys k)).
Proof. exact x32_enosys. Qed.
Print Assumptions C04_x32_enosys.

(** neither kind of event is compared against a rule: two policies with the same default agree on them *)
Theorem C04_independent_of_rules : forall le k ai pol pol' p p' ev,
  compile le k ai pol = Ok p -> compile le k ai pol' = Ok p' ->
  N.of_nat (List.length p) < two32 -> N.of_nat (List.length p') < two32 ->
  p_default pol = p_default pol' ->
  ev_arch ev <> ai_id ai \/ (ai_id ai = k_x86_64_id k /\ k_x32mask k <= ev_nr ev) ->
  run_event le p ev = run_event le p' ev.
Proof. exact foreign_independent_of_rules. Qed.
Print Assumptions C04_independent_of_rules.

(** both encodings of the architecture test, for ANY instruction list placed behind them: an event of another
    architecture lands on the instruction [jumpN] ahead *)
Theorem C04_prologue_both_encodings : forall le ai ev rest d,
  N.of_nat (List.length rest) < two32 ->
  run (word_at le ev) (prologue ai (N.of_nat (List.length rest)) ++ rest ++ [IRet d]) 0 0 =
  if ev_arch ev =? ai_id ai then run (word_at le ev) (rest ++ [IRet d]) 0 (ev_arch ev) else ORet d.
Proof. intros le ai ev rest d H. exact (prologue_sem le ai ev rest H d). Qed.
Print Assumptions C04_prologue_both_encodings.

Theorem C04_nonvacuous :
  run_event true ex_prog (ev_of 0 1073741827 0) = ORet 327681 /\
  run_event true ex_prog (ev_of (1073741824 + 0) 3221225534 0) = ORet (327680 + 38) /\
  run_event true ex_prog (ev_of 4294967295 3221225534 0) = ORet (327680 + 38).
Proof. exact ex_foreign_and_x32. Qed.
Print Assumptions C04_nonvacuous.
