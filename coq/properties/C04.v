(** Property C04: foreign-architecture and x32 events never reach the rules. *)
From Coq Require Import List NArith Bool String.
From Seccomp Require Import Words Result Machine Policy Spec CompileProofs CoreTheorems CoreExamples Codegen.
From Gen Require Import GenCodegen.
Import ListNotations.
Open Scope N_scope.
Open Scope list_scope.

(** any event whose architecture word differs from the policy's gets the default action, whatever its number and
    arguments, for programs of every size (both encodings of the architecture jump are covered by the proof) *)
Theorem C04_foreign_arch_default : forall le k ai pol p ev,
  compile le k ai pol = Ok p -> N.of_nat (List.length p) < two32 ->
  ev_arch ev <> ai_id ai ->
  run_event le p ev = ORet (ret_word k (p_default pol)).
Proof. exact foreign_arch_default. Qed.
Print Assumptions C04_foreign_arch_default.

(** on x86_64 any number with the x32 bit (>= 0x40000000, whatever else it contains) gets ERRNO|ENOSYS *)
Theorem C04_x32_enosys : forall le k ai pol p ev,
  compile le k ai pol = Ok p -> N.of_nat (List.length p) < two32 ->
  ai_id ai = k_x86_64_id k -> ev_arch ev = ai_id ai -> k_x32mask k <= ev_nr ev ->
  run_event le p ev = ORet (N.lor (k_errno k) (k_enosys k)).
Proof. exact x32_enosys. Qed.
Print Assumptions C04_x32_enosys.

(** neither kind of event is compared against a rule: two policies with the same default agree on them *)
Theorem C04_independent_of_rules : forall le k ai pol pol' p p' ev,
  compile le k ai pol = Ok p -> compile le k ai pol' = Ok p' ->
  N.of_nat (List.length p) < two32 -> N.of_nat (List.length p') < two32 ->
  p_default pol = p_default pol' ->
  ev_arch ev <> ai_id ai \/ (ai_id ai = k_x86_64_id k /\ k_x32mask k <= ev_nr ev) ->
  run_event le p ev = run_event le p' ev.
Proof. exact foreign_independent_of_rules. Qed.
Print Assumptions C04_independent_of_rules.

(** both encodings of the architecture test, for ANY instruction list placed behind them: an event of another
    architecture lands on the instruction [jumpN] ahead *)
Theorem C04_prologue_both_encodings : forall le ai ev rest d,
  N.of_nat (List.length rest) < two32 ->
  run (word_at le ev) (prologue ai (N.of_nat (List.length rest)) ++ rest ++ [IRet d]) 0 0 =
  if ev_arch ev =? ai_id ai then run (word_at le ev) (rest ++ [IRet d]) 0 (ev_arch ev) else ORet d.
Proof. intros le ai ev rest d H. exact (prologue_sem le ai ev rest H d). Qed.
Print Assumptions C04_prologue_both_encodings.

(** ** The tie to the source at the level of Policy.Assemble itself.
    [policy_layout], [x32_guard], [x32_guard_condition], [policy_jumpN] (gen/GenCodegen.v) are REGENERATED from filter.go on
    every run: the append statements that put the final program together, rendered as templates. Their meaning - with
    the Go conversions uint8(jumpN), uint32(jumpN) made explicit - is exactly the program of the model's [compile], for
    every architecture record, constant record, default action and group code, in both encodings of the architecture jump. *)
Theorem C04_source_layout_is_the_model : forall k ai d body,
  interp_layout k ai d (x32_filter k ai) body 20 policy_layout =
  Some (prologue ai (jumpN_value (x32_filter k ai) body) ++ [ILd 0] ++ x32_filter k ai ++ body ++ [IRet (ret_word k d)]).
Proof.
  intros k ai d body. unfold policy_layout, prologue. cbn -[x32_filter jumpN_value N.leb N.modulo ret_word app].
  destruct (jumpN_value (x32_filter k ai) body <=? 255); cbn -[x32_filter jumpN_value N.modulo ret_word app];
    rewrite ?app_nil_r; reflexivity.
Qed.
Print Assumptions C04_source_layout_is_the_model.

(** the x32 guard in the source: unsigned >= against the x32 mask, falling through by one on false, then ERRNO|ENOSYS;
    emitted exactly when the policy's architecture id is x86_64's; the jump distance counts guard, groups and one *)
Theorem C04_source_x32_guard_is_the_model : forall k ai d,
  interp_pinstrs k ai d [] [] x32_guard = Some [IJmpIf JGe (k_x32mask k) 0 1; IRet (N.lor (k_errno k) (k_enosys k))] /\
  x32_guard_condition = "p.arch.ID == arch.X86_64.ID"%string /\
  policy_jumpN = "len(x32Filter) + len(instructions) + 1"%string /\
  (forall body, jumpN_value (x32_filter k ai) body = N.of_nat (List.length (x32_filter k ai) + List.length body + 1)).
Proof. intros k ai d. repeat split. Qed.
Print Assumptions C04_source_x32_guard_is_the_model.

Theorem C04_nonvacuous :
  run_event true ex_prog (ev_of 0 1073741827 0) = ORet 327681 /\
  run_event true ex_prog (ev_of (1073741824 + 0) 3221225534 0) = ORet (327680 + 38) /\
  run_event true ex_prog (ev_of 4294967295 3221225534 0) = ORet (327680 + 38).
Proof. exact ex_foreign_and_x32. Qed.
Print Assumptions C04_nonvacuous.
