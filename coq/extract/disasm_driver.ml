(* Driver for the extracted disassembly-parser model (disasm_model.ml), property C16.
   Trusted: this file only parses tokens, calls the extracted functions and prints results.
   Strings are hex-encoded tokens x<hex>. Input lines (the header lines are printed by `harness disasm`):

   A key id mask                             audit id and syscall mask of the architecture record arch.<key>
   T key id mask count (num xname)*          a record with its table (those of I386 and X86_64 are the parsers')
   C id key mode xcontent                    ExtractSyscalls(arch.<key>, file); mode: file | dir | noent
   R1 xline | R2 xline                       the call-site / raw-site regular expression on a line
   PI xs                                     strconv.ParseInt(s, 0, 64)
   F xs                                      strings.Fields(s)
   S xdata                                   bufio.Scanner over data: lines, then eof | toolong

   Output, one line per input case, in the same canonical form as the Go harness:
   C id OK n (num xname xcaller xfunction xlocation xassembly)*  |  C id ERR  |  C id PANIC
   R1 none | R1 xwhole xcapture ; PI err | PI <decimal> ; F n xfield* ; S eof|toolong n xline*           *)
open Disasm_model

let rec pos_of_int k = if k = 1 then XH else if k land 1 = 1 then XI (pos_of_int (k lsr 1)) else XO (pos_of_int (k lsr 1))
let n_of_int k = if k = 0 then N0 else Npos (pos_of_int k)
let rec int64_of_pos = function
  | XH -> 1L
  | XO p -> Int64.mul 2L (int64_of_pos p)
  | XI p -> Int64.add 1L (Int64.mul 2L (int64_of_pos p))
let string_of_z = function
  | Z0 -> "0"
  | Zpos p -> Int64.to_string (int64_of_pos p)
  | Zneg p -> Int64.to_string (Int64.neg (int64_of_pos p))   (* 2^63 wraps to min_int, as it should *)

let ascii_of_char c =
  let k = Char.code c in
  let b i = (k lsr i) land 1 = 1 in
  Ascii (b 0, b 1, b 2, b 3, b 4, b 5, b 6, b 7)
let char_of_ascii (Ascii (b0, b1, b2, b3, b4, b5, b6, b7)) =
  let v b i = if b then 1 lsl i else 0 in
  Char.chr (v b0 0 + v b1 1 + v b2 2 + v b3 3 + v b4 4 + v b5 5 + v b6 6 + v b7 7)
let coq_string_of (s : Stdlib.String.t) : Disasm_model.string =
  let r = ref EmptyString in
  for i = Stdlib.String.length s - 1 downto 0 do r := String (ascii_of_char s.[i], !r) done;
  !r
let ocaml_string_of (s : Disasm_model.string) : Stdlib.String.t =
  let buf = Buffer.create 64 in
  let rec go = function EmptyString -> () | String (c, r) -> Buffer.add_char buf (char_of_ascii c); go r in
  go s;
  Buffer.contents buf

let unhex (s : Stdlib.String.t) : Stdlib.String.t =
  if Stdlib.String.length s = 0 || s.[0] <> 'x' then failwith ("bad hex string " ^ s);
  let n = (Stdlib.String.length s - 1) / 2 in
  let v c = match c with
    | '0' .. '9' -> Char.code c - 48
    | 'a' .. 'f' -> Char.code c - 87
    | 'A' .. 'F' -> Char.code c - 55
    | _ -> failwith "bad hex digit" in
  Stdlib.String.init n (fun i -> Char.chr (16 * v s.[1 + 2 * i] + v s.[2 + 2 * i]))
let hex_of (s : Stdlib.String.t) : Stdlib.String.t =
  let buf = Buffer.create (1 + 2 * Stdlib.String.length s) in
  Buffer.add_char buf 'x';
  Stdlib.String.iter (fun c -> Buffer.add_string buf (Printf.sprintf "%02x" (Char.code c))) s;
  Buffer.contents buf
let hexc s = hex_of (ocaml_string_of s)
let arg s = coq_string_of (unhex s)

let arches : (Stdlib.String.t, int * int) Hashtbl.t = Hashtbl.create 16
let tables : (Stdlib.String.t, arch_rec) Hashtbl.t = Hashtbl.create 4

let table_of key =
  match Hashtbl.find_opt tables key with
  | Some t -> t
  | None -> failwith ("no T line for " ^ key)

let handle line =
  match Stdlib.String.split_on_char ' ' line with
  | [] | [ "" ] -> ()
  | "A" :: key :: id :: mask :: _ -> Hashtbl.replace arches key (int_of_string id, int_of_string mask)
  | "T" :: key :: id :: mask :: _count :: rest ->
      let rec ents = function
        | num :: name :: r -> (n_of_int (int_of_string num), arg name) :: ents r
        | [] -> []
        | _ -> failwith "odd table line" in
      Hashtbl.replace tables key { ar_id = n_of_int (int_of_string id); ar_mask = n_of_int (int_of_string mask); ar_table = ents rest }
  | [ "C"; id; key; mode; content ] ->
      let (aid, amask) = match Hashtbl.find_opt arches key with Some a -> a | None -> failwith ("no A line for " ^ key) in
      let f = match mode with
        | "file" -> Content (arg content, false)
        | "dir" -> Content (EmptyString, true)
        | "noent" -> OpenFails
        | m -> failwith ("bad mode " ^ m) in
      (match extract_syscalls (table_of "I386") (table_of "X86_64") (n_of_int aid) (n_of_int amask) f with
       | Done recs ->
           let buf = Buffer.create 256 in
           Buffer.add_string buf (Printf.sprintf "C %s OK %d" id (List.length recs));
           List.iter (fun r ->
               Buffer.add_string buf (Printf.sprintf " %s %s %s %s %s %s" (string_of_z r.sc_num) (hexc r.sc_name)
                                        (hexc r.sc_caller) (hexc r.sc_function) (hexc r.sc_location) (hexc r.sc_assembly))) recs;
           print_endline (Buffer.contents buf)
       | Failed _ -> Printf.printf "C %s ERR\n" id
       | Panic -> Printf.printf "C %s PANIC\n" id)
  | [ ("R1" | "R2") as k; s ] ->
      let sufs = if k = "R1" then call_suffixes else raw_suffixes in
      (match regex_find sufs (arg s) with
       | None -> Printf.printf "%s none\n" k
       | Some (whole, cap) -> Printf.printf "%s %s %s\n" k (hexc whole) (hexc cap))
  | [ "PI"; s ] ->
      (match parse_int0 (arg s) with
       | None -> print_endline "PI err"
       | Some z -> Printf.printf "PI %s\n" (string_of_z z))
  | [ "F"; s ] ->
      let fs = fields (arg s) in
      Printf.printf "F %d%s\n" (List.length fs) (Stdlib.String.concat "" (List.map (fun f -> " " ^ hexc f) fs))
  | [ "S"; s ] ->
      let (ls, toolong) = scan_lines (arg s) in
      Printf.printf "S %s %d%s\n" (if toolong then "toolong" else "eof") (List.length ls)
        (Stdlib.String.concat "" (List.map (fun f -> " " ^ hexc f) ls))
  | _ -> Printf.printf "X cannot parse line: %s\n" (if Stdlib.String.length line > 80 then Stdlib.String.sub line 0 80 else line)

let () =
  (try
     while true do
       let line = input_line stdin in
       (try handle line with
        | Stack_overflow -> Printf.printf "X stack overflow (run the driver with a larger stack limit)\n"
        | Failure m -> Printf.printf "X %s\n" m)
     done
   with End_of_file -> ());
  flush stdout
