(* Driver for the extracted profiler model (profmodel.ml, from coq/theories/Profiler.v). Reads case lines on stdin.
   Trusted: this file only parses tokens, calls the extracted functions and prints results.

   Strings are x<hex>; a content token may also be @name:a:b = bytes [a,b) of a listing defined by an L line.

   L name x<hex>                                          define a listing
   T arch count (num x<name>)*                            the name table of an architecture
   N id arch nfound (num x<name>)* nb x<value>* na x<value>*
        the sites found, the values of the -b occurrences, the values of the -allow occurrences
        -> N id count x<name>*                            profile_names_id (flag_values b) (flag_values allow)
   H id bufsize ninit init* nruns run*
        init = F path content | T path suffix content      files present before the history
        run  = kind path x<hash> suffix tool nchunks content*
        kind = C (complete) | K (killed while the tool runs) | S:lim (killed at a size limit) | O:i:j (after i
               operations and j bytes) | IS:lim | IO:i:j (the operation fails instead: deferred Remove runs)
        tool = ok | fail | missing
        -> H id step outcome file*     after every run; outcome = dump:<len>:<md5> | failed | - ;
                                       file = F:path:len:md5 | T:path:suffix:len:md5, sorted
*)
open Profmodel

let rec nat_of_int k = if k <= 0 then O else S (nat_of_int (k - 1))
let rec n_of_string_from (s : Stdlib.String.t) i acc =
  if i >= Stdlib.String.length s then acc
  else
    let d = Char.code s.[i] - 48 in
    if d < 0 || d > 9 then failwith ("bad number " ^ s)
    else n_of_string_from s (i + 1) (N.add (N.mul acc pn_ten) (N.of_nat (nat_of_int d)))
let n_of_string s = n_of_string_from s 0 N0
let rec int_of_nat = function O -> 0 | S k -> 1 + int_of_nat k
let string_of_n n =
  let buf = Buffer.create 24 in
  let rec go n acc =
    let (q, r) = pn_divmod10 n in
    let acc = Char.chr (48 + int_of_nat (N.to_nat r)) :: acc in
    if N.eqb q N0 then acc else go q acc in
  List.iter (Buffer.add_char buf) (go n []);
  Buffer.contents buf

let ascii_of_char c =
  let k = Char.code c in
  let b i = (k lsr i) land 1 = 1 in
  Ascii (b 0, b 1, b 2, b 3, b 4, b 5, b 6, b 7)
let char_of_ascii (Ascii (b0, b1, b2, b3, b4, b5, b6, b7)) =
  let v b i = if b then 1 lsl i else 0 in
  Char.chr (v b0 0 + v b1 1 + v b2 2 + v b3 3 + v b4 4 + v b5 5 + v b6 6 + v b7 7)
let coq_string_of (s : Stdlib.String.t) : Profmodel.string =
  let r = ref EmptyString in
  for i = Stdlib.String.length s - 1 downto 0 do r := String (ascii_of_char s.[i], !r) done;
  !r
let ocaml_string_of (s : Profmodel.string) : Stdlib.String.t =
  let buf = Buffer.create 256 in
  let rec go = function EmptyString -> () | String (c, r) -> Buffer.add_char buf (char_of_ascii c); go r in
  go s;
  Buffer.contents buf
let unhex (s : Stdlib.String.t) : Stdlib.String.t =
  if Stdlib.String.length s = 0 || s.[0] <> 'x' then failwith ("bad hex string " ^ s);
  let n = (Stdlib.String.length s - 1) / 2 in
  Stdlib.String.init n (fun i -> Char.chr (int_of_string ("0x" ^ Stdlib.String.sub s (1 + 2 * i) 2)))
let hex (s : Stdlib.String.t) : Stdlib.String.t =
  let buf = Buffer.create (1 + 2 * Stdlib.String.length s) in
  Buffer.add_char buf 'x';
  Stdlib.String.iter (fun c -> Buffer.add_string buf (Printf.sprintf "%02x" (Char.code c))) s;
  Buffer.contents buf

type toks = { mutable rest : Stdlib.String.t list }
let next t = match t.rest with [] -> failwith "unexpected end of line" | x :: r -> t.rest <- r; x
let next_n t = n_of_string (next t)
let next_int t = int_of_string (next t)
let rec times k f = if k <= 0 then [] else let x = f () in x :: times (k - 1) f

let listings : (Stdlib.String.t, Stdlib.String.t) Hashtbl.t = Hashtbl.create 8
let tables : (Stdlib.String.t, (n * Profmodel.string) list) Hashtbl.t = Hashtbl.create 8

let content_of (tok : Stdlib.String.t) : Stdlib.String.t =
  if Stdlib.String.length tok > 0 && tok.[0] = '@' then
    match Stdlib.String.split_on_char ':' (Stdlib.String.sub tok 1 (Stdlib.String.length tok - 1)) with
    | [ name; a; b ] ->
        let l = try Hashtbl.find listings name with Not_found -> failwith ("unknown listing " ^ name) in
        let a = int_of_string a and b = int_of_string b in
        let a = max 0 (min a (Stdlib.String.length l)) in
        let b = max a (min b (Stdlib.String.length l)) in
        Stdlib.String.sub l a (b - a)
    | _ -> failwith ("bad slice " ^ tok)
  else unhex tok

let describe (s : Profmodel.string) : Stdlib.String.t =
  let o = ocaml_string_of s in
  Printf.sprintf "%d:%s" (Stdlib.String.length o) (Digest.to_hex (Digest.string o))

let show_fs (d : fs) : Stdlib.String.t =
  let items = List.map (fun (f, c) ->
    match f with
    | Final p -> Printf.sprintf "F:%s:%s" (string_of_n p) (describe c)
    | Temp (p, x) -> Printf.sprintf "T:%s:%s:%s" (string_of_n p) (string_of_n x) (describe c)) d in
  Stdlib.String.concat " " (List.sort compare items)

let crash_point_of (spec : Stdlib.String.t list) =
  match spec with
  | [ "K" ] -> AtKill
  | [ "S"; lim ] | [ "IS"; lim ] -> AtSize (n_of_string lim)
  | [ "O"; i; j ] | [ "IO"; i; j ] -> AtOp (nat_of_int (int_of_string i), n_of_string j)
  | _ -> failwith "bad crash point"

let handle_line line =
  let t = { rest = List.filter (fun s -> s <> "") (Stdlib.String.split_on_char ' ' line) } in
  match t.rest with
  | [] -> ()
  | _ ->
  match next t with
  | "L" -> let name = next t in Hashtbl.replace listings name (unhex (next t))
  | "T" ->
      let arch = next t in
      let cnt = next_int t in
      let tbl = times cnt (fun () -> let num = next_n t in let nm = unhex (next t) in (num, coq_string_of nm)) in
      Hashtbl.replace tables arch tbl
  | "N" ->
      let id = next t in
      let arch = next t in
      let tbl = try Hashtbl.find tables arch with Not_found -> failwith ("unknown table " ^ arch) in
      let nf = next_int t in
      let found = times nf (fun () -> let num = next_n t in let nm = unhex (next t) in (num, coq_string_of nm)) in
      let nb = next_int t in
      let bl = times nb (fun () -> coq_string_of (unhex (next t))) in
      let na = next_int t in
      let al = times na (fun () -> coq_string_of (unhex (next t))) in
      let out = profile_names_id tbl found (flag_values bl) (flag_values al) in
      Printf.printf "N %s %d%s\n" id (List.length out)
        (Stdlib.String.concat "" (List.map (fun s -> " " ^ hex (ocaml_string_of s)) out))
  | "H" ->
      let id = next t in
      let bufsize = next_n t in
      let ninit = next_int t in
      let d0 = List.fold_left (fun d () ->
        match next t with
        | "F" -> let p = next_n t in fs_set d (Final p) (coq_string_of (content_of (next t)))
        | "T" -> let p = next_n t in let x = next_n t in fs_set d (Temp (p, x)) (coq_string_of (content_of (next t)))
        | s -> failwith ("bad init kind " ^ s)) [] (times ninit (fun () -> ())) in
      let nruns = next_int t in
      let d = ref d0 in
      for step = 0 to nruns - 1 do
        let kind = Stdlib.String.split_on_char ':' (next t) in
        let path = next_n t in
        let hash = coq_string_of (unhex (next t)) in
        let suffix = next_n t in
        let tool = match next t with "ok" -> TOk | "fail" -> TFail | "missing" -> TMissing | s -> failwith ("bad tool " ^ s) in
        let nch = next_int t in
        let chunks = times nch (fun () -> coq_string_of (content_of (next t))) in
        let c = { r_path = path; r_hash = hash; r_suffix = suffix; r_chunks = chunks; r_tool = tool } in
        let (d', outc) =
          match kind with
          | [ "C" ] -> let (d', o) = run_complete bufsize c !d in
                       (d', (match o with Dump x -> "dump:" ^ describe x | Failed -> "failed"))
          | ("K" :: _) | ("S" :: _) | ("O" :: _) -> (exec_hrun bufsize !d (Crash (c, crash_point_of kind)), "-")
          | ("IS" :: _) | ("IO" :: _) ->
              (* no operation is cut (cache hit, or the limit is never reached): the run is a complete one *)
              if crash_ops bufsize (crash_point_of kind) c !d = run_ops bufsize c !d then
                let (d', o) = run_complete bufsize c !d in
                (d', (match o with Dump x -> "dump:" ^ describe x | Failed -> "failed"))
              else (exec_hrun bufsize !d (IOFail (c, crash_point_of kind)), "failed")
          | _ -> failwith "bad run kind" in
        d := d';
        Printf.printf "H %s %d %s %s\n" id step outc (show_fs d')
      done
  | s -> failwith ("bad line kind " ^ s)

let () =
  (try
     while true do
       let line = input_line stdin in
       (try handle_line line with Failure m | Invalid_argument m ->
          Printf.printf "X driver error: %s in line: %s\n" m (if Stdlib.String.length line > 200 then Stdlib.String.sub line 0 200 else line))
     done
   with End_of_file -> ())
