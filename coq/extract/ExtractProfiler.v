(** Extraction of the profiler model (Profiler.v) for the correspondence checks of C17 and C18.
    ExtrOcamlBasic only, as coq/extract/Extract.v: numbers and strings stay extracted inductives. *)
From Coq Require Import ExtrOcamlBasic List NArith String.
From Seccomp Require Import Policy Tables Profiler.
Extraction Language OCaml.
Set Extraction Optimize.

Definition pn_ten : N := 10.
Definition pn_divmod10 (n:N) : N * N := N.div_eucl n 10.

Extraction "profmodel.ml"
  pn_ten pn_divmod10 N.add N.mul N.eqb N.of_nat N.to_nat
  profile_names_id flag_values
  exec_hrun run_complete fs_set crash_ops run_ops.
