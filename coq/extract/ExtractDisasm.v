(** Extraction of the disassembly-parser model (Disasm.v) for the C16 correspondence check.
    ExtrOcamlBasic only; numbers, strings and characters stay extracted inductives. *)
From Coq Require Import ExtrOcamlBasic List NArith ZArith String Ascii.
From Seccomp Require Import Disasm.
Extraction Language OCaml.
Set Extraction Optimize.

Extraction "disasm_model.ml"
  extract_syscalls parse scan_lines fields regex_find call_suffixes raw_suffixes parse_int0
  contains has_prefix length_N.
