(** Extraction of the executable model for the correspondence check and the direct search.
    ExtrOcamlBasic only: bool, option, unit, list, prod, sumbool, sumor are mapped to the OCaml
    types of the same shape, andb/orb to (&&)/(||). Numbers, strings and everything else stay
    extracted inductives. *)
From Coq Require Import ExtrOcamlBasic List NArith String.
From Seccomp Require Import Words Result Machine Assembler Policy Spec Raw KernelCheck.
Extraction Language OCaml.
Set Extraction Optimize.

Definition n_ten : N := 10.
Definition n_divmod10 (n:N) : N * N := N.div_eucl n 10.

Extraction "model.ml"
  n_ten n_divmod10 N.add N.mul N.eqb N.ltb N.leb N.lor N.of_nat N.to_nat
  encode kernel_check run_raw
  build items_of assemble exec run run_event word_at wf_eventb
  compile compile_group to_syscalls gen_group decide group_matches ret_word.
