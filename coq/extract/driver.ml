(* Driver for the extracted model (model.ml). Reads case lines on stdin, see /verif/DESIGN.md 5.2.
   Trusted: this file only parses tokens, calls the extracted functions and prints results.

   K errno eperm enosys x32mask x86id n named...        constants (as the Go runtime reports them)
   A name id mask count (num name)*                     an architecture record (names hex: x<hex>)
   B id le nops ops... | goresult                       builder case (C06)
   P id le arch policy... | goresult                    policy case (C01-C05, C07)
   V nr arch ip a0 a1 a2 a3 a4 a5                       event for the last case

   Output:
   C id same|DIFF <model result> ## <go result>         correspondence verdict
   E id idx ok|BAD want=<spec> got=<impl>               direct search verdict (impl program vs specification)
   K id valid|INVALID closed|OPEN:<instr> raw...        kernel_check of the implementation's program (raw-encoded); return set
   R id valid|INVALID                                   kernel_check of a raw program given on an R line (R id n code:jt:jf:k*n)
*)
open Model

let n_zero = N0
let rec n_of_string_from (s : Stdlib.String.t) i acc =
  if i >= Stdlib.String.length s then acc
  else
    let d = Char.code s.[i] - 48 in
    if d < 0 || d > 9 then failwith ("bad number " ^ s)
    else n_of_string_from s (i + 1) (N.add (N.mul acc n_ten) (N.of_nat (let rec nat_of k = if k = 0 then O else S (nat_of (k - 1)) in nat_of d)))
let n_of_string s = n_of_string_from s 0 n_zero

let digit_of_n d =
  (* d < 10 *)
  let rec nat_to_int = function O -> 0 | S k -> 1 + nat_to_int k in
  Char.chr (48 + nat_to_int (N.to_nat d))
let string_of_n n =
  let buf = Buffer.create 24 in
  let rec go n acc =
    let (q, r) = n_divmod10 n in
    let acc = digit_of_n r :: acc in
    if N.eqb q N0 then acc else go q acc in
  List.iter (Buffer.add_char buf) (go n []);
  Buffer.contents buf

let ascii_of_char c =
  let k = Char.code c in
  let b i = (k lsr i) land 1 = 1 in
  Ascii (b 0, b 1, b 2, b 3, b 4, b 5, b 6, b 7)
let coq_string_of (s : Stdlib.String.t) : Model.string =
  let r = ref EmptyString in
  for i = Stdlib.String.length s - 1 downto 0 do r := String (ascii_of_char s.[i], !r) done;
  !r
let unhex (s : Stdlib.String.t) : Stdlib.String.t =
  (* x<hex> *)
  if Stdlib.String.length s = 0 || s.[0] <> 'x' then failwith ("bad hex string " ^ s);
  let n = (Stdlib.String.length s - 1) / 2 in
  Stdlib.String.init n (fun i -> Char.chr (int_of_string ("0x" ^ Stdlib.String.sub s (1 + 2 * i) 2)))

let cond_of = function
  | "eq" -> JEq | "ne" -> JNe | "gt" -> JGt | "lt" -> JLt | "ge" -> JGe | "le" -> JLe
  | "set" -> JSet | "nset" -> JNSet | s -> failwith ("bad cond " ^ s)
let string_of_cond = function
  | JEq -> "eq" | JNe -> "ne" | JGt -> "gt" | JLt -> "lt" | JGe -> "ge" | JLe -> "le"
  | JSet -> "set" | JNSet -> "nset"
let op_of = function
  | "Eq" -> OpEq | "Ne" -> OpNe | "Gt" -> OpGt | "Lt" -> OpLt | "Ge" -> OpGe | "Le" -> OpLe
  | "Set" -> OpSet | "NSet" -> OpNSet
  | s when Stdlib.String.length s >= 5 && Stdlib.String.sub s 0 5 = "Other" -> OpOther
  | s -> failwith ("bad op " ^ s)

let string_of_instr = function
  | ILd off -> "ld:" ^ string_of_n off
  | IJmpIf (c, k, jt, jf) ->
      Printf.sprintf "jif:%s:%s:%s:%s" (string_of_cond c) (string_of_n k) (string_of_n jt) (string_of_n jf)
  | IJa s -> "ja:" ^ string_of_n s
  | IRet v -> "ret:" ^ string_of_n v
let instr_of (s : Stdlib.String.t) =
  match Stdlib.String.split_on_char ':' s with
  | [ "ld"; o ] -> ILd (n_of_string o)
  | [ "jif"; c; k; jt; jf ] -> IJmpIf (cond_of c, n_of_string k, n_of_string jt, n_of_string jf)
  | [ "ja"; k ] -> IJa (n_of_string k)
  | [ "ret"; v ] -> IRet (n_of_string v)
  | _ -> failwith ("bad instr " ^ s)

let string_of_raw (r : sock_filter) =
  Printf.sprintf "%s:%s:%s:%s" (string_of_n r.sf_code) (string_of_n r.sf_jt) (string_of_n r.sf_jf) (string_of_n r.sf_k)
let raw_of (s : Stdlib.String.t) =
  match Stdlib.String.split_on_char ':' s with
  | [ c; jt; jf; k ] -> { sf_code = n_of_string c; sf_jt = n_of_string jt; sf_jf = n_of_string jf; sf_k = n_of_string k }
  | _ -> failwith ("bad raw instr " ^ s)

let string_of_err = function
  | EDefaultAction -> "default_action" | ENoSyscalls -> "no_syscalls" | EProblems -> "problems"
  | EBackward -> "backward" | EUseless -> "useless" | EOutOfReach -> "out_of_reach"
  | EUnsupportedArch -> "unsupported_arch"
let string_of_res = function
  | Ok p -> Stdlib.String.concat " " ("OK" :: string_of_int (List.length p) :: List.map string_of_instr p)
  | Error e -> "ERR " ^ string_of_err e

let string_of_out = function
  | ORet v -> "ret:" ^ string_of_n v
  | OEnd (Skip k, a) -> "end:" ^ string_of_n k ^ ":" ^ string_of_n a
  | OEnd (Seek l, a) -> "seek:" ^ string_of_n l ^ ":" ^ string_of_n a
  | OFault -> "fault"

(* token stream *)
type toks = { mutable rest : Stdlib.String.t list }
let next t = match t.rest with [] -> failwith "unexpected end of line" | x :: r -> t.rest <- r; x
let next_n t = n_of_string (next t)
let next_int t = int_of_string (next t)
let rec times k f = if k <= 0 then [] else let x = f () in x :: times (k - 1) f

let consts = ref None
let arches : (Stdlib.String.t, arch_info) Hashtbl.t = Hashtbl.create 8

type last =
  | LNone
  | LBuilder of Stdlib.String.t * bool * item list * instr list option   (* id, le, items, go program *)
  | LPolicy of Stdlib.String.t * bool * arch_info * policy * instr list option

let last = ref LNone
let evidx = ref 0
let n_cases = ref 0 and n_diff = ref 0 and n_events = ref 0 and n_bad = ref 0

let parse_go_result t : Stdlib.String.t * instr list option =
  (* remaining tokens after "|" *)
  let toks = t.rest in
  let text = Stdlib.String.concat " " toks in
  match toks with
  | "OK" :: _ :: is -> (text, Some (List.map instr_of is))
  | _ -> (text, None)

let get_consts () = match !consts with Some k -> k | None -> failwith "no K line"

let handle_line line =
  let t = { rest = List.filter (fun s -> s <> "") (Stdlib.String.split_on_char ' ' line) } in
  match t.rest with
  | [] -> ()
  | _ ->
  match next t with
  | "K" ->
      let errno = next_n t in let eperm = next_n t in let enosys = next_n t in
      let x32mask = next_n t in let x86 = next_n t in
      let n = next_int t in
      let named = times n (fun () -> next_n t) in
      consts := Some { k_named_actions = named; k_errno = errno; k_eperm = eperm; k_enosys = enosys;
                       k_x32mask = x32mask; k_x86_64_id = x86 }
  | "A" ->
      let name = next t in
      let id = next_n t in let mask = next_n t in
      let cnt = next_int t in
      let tbl = times cnt (fun () -> let num = next_n t in let nm = unhex (next t) in (num, coq_string_of nm)) in
      Hashtbl.replace arches name { ai_name = coq_string_of name; ai_id = id; ai_mask = mask; ai_table = tbl }
  | "B" ->
      let id = next t in
      let le = next t = "1" in
      let nops = next_int t in
      let ops = times nops (fun () ->
        match next t with
        | "N" -> BNewLabel
        | "J" -> let c = cond_of (next t) in let k = next_n t in let tl = next_n t in let fl = next_n t in BJmpIf (c, k, tl, fl)
        | "T" -> let c = cond_of (next t) in let k = next_n t in let tl = next_n t in BJmpIfTrue (c, k, tl)
        | "G" -> BJmp (next_n t)
        | "S" -> BSetLabel (next_n t)
        | "R" -> BRet (next_n t)
        | "H" -> BLdHi (next_n t)
        | "L" -> BLdLo (next_n t)
        | s -> failwith ("bad builder op " ^ s)) in
      if next t <> "|" then failwith "expected |";
      let (gotext, goprog) = parse_go_result t in
      let k = get_consts () in
      let rw = ret_word k in
      let model = build le rw ops in
      let mtext = string_of_res model in
      incr n_cases;
      if mtext = gotext then Printf.printf "C %s same\n" id
      else (incr n_diff; Printf.printf "C %s DIFF %s ## %s\n" id mtext gotext);
      let (its, _) = items_of le rw ops (Npos (XO XH)) in
      last := LBuilder (id, le, its, goprog); evidx := 0
  | "P" ->
      let id = next t in
      let le = next t = "1" in
      let aname = next t in
      (* "A>B": the implementation assembled the same value for A first; the model compiles for B *)
      let aname = match Stdlib.String.index_opt aname '>' with
        | Some i -> Stdlib.String.sub aname (i + 1) (Stdlib.String.length aname - i - 1) | None -> aname in
      let ai = try Hashtbl.find arches aname with Not_found -> failwith ("unknown arch " ^ aname) in
      let def = next_n t in
      let ng = next_int t in
      let groups = times ng (fun () ->
        let action = next_n t in
        let nn = next_int t in
        let names = times nn (fun () -> coq_string_of (unhex (next t))) in
        let nw = next_int t in
        let nwcs = times nw (fun () ->
          let nm = coq_string_of (unhex (next t)) in
          let nc = next_int t in
          let conds = times nc (fun () ->
            let a = next_n t in let o = op_of (next t) in let v = next_n t in
            { c_arg = a; c_op = o; c_val = v }) in
          { nc_name = nm; nc_conds = conds }) in
        { g_names = names; g_nwc = nwcs; g_action = action }) in
      if next t <> "|" then failwith "expected |";
      let (gotext, goprog) = parse_go_result t in
      let pol = { p_default = def; p_groups = groups } in
      let k = get_consts () in
      let model = compile le k ai pol in
      let mtext = string_of_res model in
      incr n_cases;
      if mtext = gotext then Printf.printf "C %s same\n" id
      else (incr n_diff; Printf.printf "C %s DIFF %s ## %s\n" id mtext gotext);
      (* C05: the certified checker and the return set, on the program the implementation emitted *)
      (match goprog with
       | Some prog ->
           let raw = List.map encode prog in
           let kc = kernel_check raw in
           let allowed = ret_word k def :: List.map (fun g -> ret_word k g.g_action) groups
                         @ (if N.eqb ai.ai_id k.k_x86_64_id then [N.coq_lor k.k_errno k.k_enosys] else []) in
           let bad = List.filter (fun i -> match i with IRet v -> not (List.exists (N.eqb v) allowed) | _ -> false) prog in
           Printf.printf "K %s %s %s %s\n" id (if kc then "valid" else "INVALID")
             (match bad with [] -> "closed" | i :: _ -> "OPEN:" ^ string_of_instr i)
             (Stdlib.String.concat " " (List.map string_of_raw raw))
       | None -> ());
      last := LPolicy (id, le, ai, pol, goprog); evidx := 0
  | "R" ->
      (* raw program: the kernel verifier model *)
      let id = next t in
      let n = next_int t in
      let raw = times n (fun () -> raw_of (next t)) in
      Printf.printf "R %s %s\n" id (if kernel_check raw then "valid" else "INVALID")
  | "V" ->
      let nr = next_n t in let ar = next_n t in let ip = next_n t in
      let args = times 6 (fun () -> next_n t) in
      let ev = { ev_nr = nr; ev_arch = ar; ev_ip = ip; ev_args = args } in
      let idx = !evidx in
      incr evidx;
      (match !last with
       | LNone -> failwith "V without case"
       | LBuilder (id, le, its, Some prog) ->
           incr n_events;
           let want = exec (word_at le ev) its (Skip N0) N0 in
           let got = run_event le prog ev in
           if want = got then Printf.printf "E %s %d ok\n" id idx
           else (incr n_bad; Printf.printf "E %s %d BAD want=%s got=%s\n" id idx (string_of_out want) (string_of_out got))
       | LPolicy (id, le, ai, pol, Some prog) ->
           incr n_events;
           let want = ORet (decide (get_consts ()) ai pol ev) in
           let got = run_event le prog ev in
           if want = got then Printf.printf "E %s %d ok\n" id idx
           else (incr n_bad; Printf.printf "E %s %d BAD want=%s got=%s\n" id idx (string_of_out want) (string_of_out got))
       | LBuilder (_, _, _, None) | LPolicy (_, _, _, _, None) -> ())
  | s -> failwith ("bad line kind " ^ s)

let () =
  (try
     while true do
       let line = input_line stdin in
       (try handle_line line with Failure m -> Printf.printf "X driver error: %s in line: %s\n" m (if Stdlib.String.length line > 200 then Stdlib.String.sub line 0 200 else line))
     done
   with End_of_file -> ());
  Printf.printf "S cases=%d diff=%d events=%d bad=%d\n" !n_cases !n_diff !n_events !n_bad
