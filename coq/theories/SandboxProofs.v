(** * SandboxProofs: the C15 theorems.

    Part 1 is about the command's control flow: for ANY function [run] of the outcome oracle that agrees with
    the reference behaviour [ref_run] (Sandbox.v) - the per-run file SandboxInst.v shows that the
    interpretation of the regenerated skeleton of cmd/sandbox/main.go does - the target is started only after the
    policy was parsed and installed, every earlier failure ends in a non-zero exit status with the target never
    started, and the filter handed to LoadFilter asks for thread synchronisation and carries the -no-new-privs
    variable.

    Part 2 composes this with the loader and kernel MODELS (Loader.v / KernelState.v): after LoadFilter returned
    nil for that filter, every thread of the sandbox process runs the compiled policy as its newest filter, a
    child created by any of them inherits it, and the decision the child's system calls meet is [decide] of the
    policy. PARTIAL: fork/execve are represented by [clone] of the kernel model plus the assumption
    (KERNEL ASSUMPTION E1, from fs/exec.c and kernel/seccomp.c: execve does not touch current->seccomp, and
    no_new_privs is never cleared) that execve leaves the seccomp state of the calling thread unchanged; two real
    processes and the real execve are observed by the C15 experiment (lib/sandboxchecks.py), not modelled. *)
From Coq Require Import String List NArith Bool Lia PeanoNat.
From Seccomp Require Import Words Machine Result Assembler Policy Spec Raw KernelCheck KernelState
                            CompileProofs ValidProofs Skeleton Loader LoaderProofs Installed InstalledProofs Sandbox.
Import ListNotations.
Close Scope string_scope.
Open Scope list_scope.
Open Scope N_scope.

(** ** Part 1: the order of effects *)
Definition is_target (a:aev) : Prop := match a with ACommand _ | ARun _ _ => True | _ => False end.
Definition is_targetb (a:aev) : bool := match a with ACommand _ | ARun _ _ => true | _ => false end.

(** the three gates were passed, and none of them failed, in the events [pre] *)
Definition gates_passed (pre:list aev) : Prop :=
  (exists f, In (AYaml f true) pre) /\ In (AUnpack true) pre /\ (exists fv, In (ALoad fv true) pre) /\
  (forall f, ~ In (AYaml f false) pre) /\ ~ In (AUnpack false) pre /\ (forall fv, ~ In (ALoad fv false) pre).

(** a boolean reading of the same thing, evaluated along the trace *)
Record gst := { g_y : bool; g_u : bool; g_l : bool; g_bad : bool }.
Definition g0 : gst := {| g_y := false; g_u := false; g_l := false; g_bad := false |}.
Definition gstep (s:gst) (a:aev) : gst :=
  match a with
  | AYaml _ ok => {| g_y := g_y s || ok; g_u := g_u s; g_l := g_l s; g_bad := g_bad s || negb ok |}
  | AUnpack ok => {| g_y := g_y s; g_u := g_u s || ok; g_l := g_l s; g_bad := g_bad s || negb ok |}
  | ALoad _ ok => {| g_y := g_y s; g_u := g_u s; g_l := g_l s || ok; g_bad := g_bad s || negb ok |}
  | _ => s
  end.
Definition gate_ok (s:gst) : bool := g_y s && g_u s && g_l s && negb (g_bad s).
Fixpoint guarded (s:gst) (tr:list aev) : bool :=
  match tr with
  | [] => true
  | a :: r => (if is_targetb a then gate_ok s else true) && guarded (gstep s a) r
  end.

Lemma guarded_split : forall pre s a post,
  guarded s (pre ++ a :: post) = true -> is_targetb a = true -> gate_ok (fold_left gstep pre s) = true.
Proof.
  induction pre as [|x pre IH]; intros s a post H Ha.
  - cbn [app guarded] in H. rewrite Ha in H. apply andb_true_iff in H. cbn. apply H.
  - cbn [app guarded] in H. apply andb_true_iff in H. destruct H as [_ H]. cbn [fold_left]. exact (IH _ _ _ H Ha).
Qed.

(** what the state after [pre] says about [pre] *)
Lemma gfold_sound : forall pre s,
  let s' := fold_left gstep pre s in
  (g_y s' = true -> g_y s = true \/ exists f, In (AYaml f true) pre) /\
  (g_u s' = true -> g_u s = true \/ In (AUnpack true) pre) /\
  (g_l s' = true -> g_l s = true \/ exists fv, In (ALoad fv true) pre) /\
  (g_bad s' = false -> g_bad s = false /\ (forall f, ~ In (AYaml f false) pre) /\ ~ In (AUnpack false) pre /\
                       (forall fv, ~ In (ALoad fv false) pre)).
Proof.
  induction pre as [|x pre IH]; intros s; cbv zeta.
  - cbn [fold_left In]. repeat split; auto; intros; intro; contradiction.
  - cbn [fold_left]. specialize (IH (gstep s x)). cbv zeta in IH. destruct IH as [Iy [Iu [Il Ib]]].
    repeat split.
    + intro H. destruct (Iy H) as [H1|[f H1]]; [|right; exists f; right; exact H1].
      destruct x; cbn [gstep g_y] in H1; auto.
      apply orb_true_iff in H1. destruct H1 as [H1|H1]; [left; exact H1|]. subst ok. right. eexists. left. reflexivity.
    + intro H. destruct (Iu H) as [H1|H1]; [|right; right; exact H1].
      destruct x; cbn [gstep g_u] in H1; auto.
      apply orb_true_iff in H1. destruct H1 as [H1|H1]; [left; exact H1|]. subst ok. right. left. reflexivity.
    + intro H. destruct (Il H) as [H1|[fv H1]]; [|right; exists fv; right; exact H1].
      destruct x; cbn [gstep g_l] in H1; auto.
      apply orb_true_iff in H1. destruct H1 as [H1|H1]; [left; exact H1|]. subst ok. right. eexists. left. reflexivity.
    + destruct (Ib H) as [H1 _]. destruct x; cbn [gstep g_bad] in H1; auto; apply orb_false_iff in H1; apply H1.
    + intros f [Hin|Hin]; [|destruct (Ib H) as [_ [H2 _]]; exact (H2 f Hin)].
      subst x. destruct (Ib H) as [H1 _]. cbn [gstep g_bad negb] in H1. rewrite orb_true_r in H1. discriminate.
    + intros [Hin|Hin]; [|destruct (Ib H) as [_ [_ [H2 _]]]; exact (H2 Hin)].
      subst x. destruct (Ib H) as [H1 _]. cbn [gstep g_bad negb] in H1. rewrite orb_true_r in H1. discriminate.
    + intros fv [Hin|Hin]; [|destruct (Ib H) as [_ [_ [_ H2]]]; exact (H2 fv Hin)].
      subst x. destruct (Ib H) as [H1 _]. cbn [gstep g_bad negb] in H1. rewrite orb_true_r in H1. discriminate.
Qed.

Theorem guarded_sound : forall tr pre a post,
  guarded g0 tr = true -> tr = pre ++ a :: post -> is_target a -> gates_passed pre.
Proof.
  intros tr pre a post G -> Ha.
  assert (Hb: is_targetb a = true) by (destruct a; try contradiction; reflexivity).
  pose proof (guarded_split pre g0 a post G Hb) as H.
  unfold gate_ok in H.
  apply andb_true_iff in H. destruct H as [H Hbad]. apply negb_true_iff in Hbad.
  apply andb_true_iff in H. destruct H as [H Hl].
  apply andb_true_iff in H. destruct H as [Hy Hu].
  pose proof (gfold_sound pre g0) as S. cbv zeta in S. destruct S as [Sy [Su [Sl Sb]]].
  destruct (Sy Hy) as [X|X]; [discriminate X|].
  destruct (Su Hu) as [Y|Y]; [discriminate Y|].
  destruct (Sl Hl) as [Z|Z]; [discriminate Z|].
  destruct (Sb Hbad) as [_ [B1 [B2 B3]]].
  unfold gates_passed. auto 10.
Qed.

Section Flow.
Variable tsync : N.
Variable run : oracle -> list aev * ares.
Hypothesis Href : forall o, run o = ref_run tsync o.

Ltac cases o :=
  rewrite Href; unfold ref_run;
  let args := fresh "args" in let yaml := fresh "yaml" in let unpack := fresh "unpack" in
  let load := fresh "load" in let runo := fresh "runo" in let x0 := fresh "x0" in
  destruct o as [args yaml unpack load runo]; cbn [o_args o_yaml o_unpack o_load o_run];
  destruct args as [|x0 args]; destruct yaml; destruct unpack; destruct load; destruct runo;
  cbn [succeeds negb fst snd app ref_prefix].

(** C15: the target is created and started only after NewConfigWithFile, Unpack and LoadFilter all returned
    nil, whatever fails and whatever succeeds *)
Theorem exec_only_after_load : forall o pre a post,
  fst (run o) = pre ++ a :: post -> is_target a -> gates_passed pre.
Proof.
  intros o pre a post E Ha. apply (guarded_sound (fst (run o)) pre a post); [|exact E|exact Ha].
  clear E Ha. cases o; reflexivity.
Qed.

(** C15: every failure before the exec - no command given, unreadable or malformed file, a file that does not
    unpack into a policy, a filter that does not load - ends in a non-zero exit status, and the target was
    neither created nor started *)
Definition fails_before_exec (o:oracle) : Prop :=
  o_args o = [] \/ succeeds (o_yaml o) = false \/ succeeds (o_unpack o) = false \/ succeeds (o_load o) = false.

Theorem failure_exits_nonzero_without_target : forall o,
  fails_before_exec o ->
  (exists c, snd (run o) = AExit c /\ c <> 0) /\ forall a, In a (fst (run o)) -> ~ is_target a.
Proof.
  intros o F. unfold fails_before_exec in F. revert F. cases o; intro F;
  try (exfalso; destruct F as [F|[F|[F|F]]]; discriminate F);
  (split; [exists 1; split; [reflexivity|discriminate]|]);
  intros a Hin; cbn [In] in Hin;
  repeat (destruct Hin as [<-|Hin]; [intro T; exact T|]); contradiction.
Qed.

(** a failing target (or one that cannot be started) also gives a non-zero exit status *)
Theorem run_failure_exits_nonzero : forall o,
  ~ fails_before_exec o -> succeeds (o_run o) = false -> exists c, snd (run o) = AExit c /\ c <> 0.
Proof.
  intros o F R. unfold fails_before_exec in F. revert F R. cases o; intros F R;
  try (exfalso; apply F; auto; fail); try discriminate R;
  (exists 1; split; [reflexivity|discriminate]).
Qed.

(** when nothing fails the command given on the command line is started, once, and the exit status is 0 *)
Theorem success_runs_target : forall o a0 rest,
  o_args o = a0 :: rest -> succeeds (o_yaml o) = true -> succeeds (o_unpack o) = true ->
  succeeds (o_load o) = true -> succeeds (o_run o) = true ->
  snd (run o) = AReturn /\ In (ACommand (VStr a0)) (fst (run o)) /\ In (ARun (VStr a0) true) (fst (run o)).
Proof.
  intros o a0 rest. cases o; intros A Y U L R; try discriminate.
  inversion A; subst. cbn [In]. auto 20.
Qed.

(** the run is never stuck: every statement of the regenerated skeleton was understood and every call known *)
Theorem never_stuck : forall o, snd (run o) <> AStuck /\ forall c, ~ In (AOther c) (fst (run o)).
Proof.
  intro o. cases o; (split; [discriminate|]); intros c Hin; cbn [In] in Hin;
  repeat (destruct Hin as [Hin|Hin]; [discriminate Hin|]); contradiction.
Qed.

(** C15: the filter handed to LoadFilter - thread-sync flag, the -no-new-privs variable, the parsed policy *)
Theorem filter_requests_tsync : forall o fv ok,
  In (ALoad fv ok) (fst (run o)) ->
  fv = [VStruct "seccomp.Filter"%string
          [("Flag"%string, VNum tsync); ("NoNewPrivs"%string, flag_nnp_var); ("Policy"%string, VOpaque "Seccomp"%string)]].
Proof.
  intros o fv ok. cases o; intro Hin; cbn [In] in Hin;
  repeat (destruct Hin as [Hin|Hin]; [try discriminate Hin; inversion Hin; reflexivity|]); contradiction.
Qed.

(** ... where the variable is the one registered for the flag -no-new-privs with default true, and the policy
    file name the one registered for -policy, both before flag.Parse() and before anything else happens *)
Theorem flags_from_command_line : forall o, exists rest,
  fst (run o) = AFlagString flag_policy_var "policy" "seccomp.yml" :: AFlagBool flag_nnp_var "no-new-privs" true
                :: AParse :: AArgs :: rest /\
  forall f ok, In (AYaml f ok) rest -> f = flag_policy_var.
Proof.
  intro o. cases o; eexists; (split; [reflexivity|]); intros f ok Hin; cbn [In] in Hin;
  repeat (destruct Hin as [Hin|Hin]; [try discriminate Hin; inversion Hin; reflexivity|]); contradiction.
Qed.
End Flow.

(** ** Part 2: what the target meets *)
Lemma find_thread_in_app_new : forall ts c,
  Forall (fun t => t_tid t <> t_tid c) ts -> find_thread_in (ts ++ [c]) (t_tid c) = Some c.
Proof.
  induction ts as [|a ts IH]; intros c F; cbn [app find_thread_in].
  - rewrite N.eqb_refl. reflexivity.
  - inversion F as [|? ? Ha F']; subst. apply N.eqb_neq in Ha. rewrite Ha. exact (IH c F').
Qed.

(** clone: the child exists, and carries the parent's filter stack and no_new_privs bit *)
Lemma clone_child : forall st parent pth,
  wf st -> find_thread st parent = Some pth ->
  let st2 := fst (clone st parent) in
  let child := snd (clone st parent) in
  exists cth, find_thread st2 child = Some cth /\ t_filters cth = t_filters pth /\ t_nnp cth = t_nnp pth /\
              ks_progs st2 = ks_progs st.
Proof.
  intros st parent pth W Hf. cbv zeta. unfold clone. rewrite Hf. cbn [fst snd].
  set (c := {| t_tid := ks_next_tid st; t_nnp := t_nnp pth; t_filters := t_filters pth;
               t_strict := t_strict pth; t_priv := t_priv pth |}).
  exists c. split; [|cbn; auto].
  unfold find_thread. cbn [ks_threads].
  change (ks_next_tid st) with (t_tid c). apply find_thread_in_app_new.
  pose proof (wf_tid _ W) as F. rewrite Forall_forall in *. intros x Hx. specialize (F x Hx). cbn [t_tid c]. lia.
Qed.

Section Target.
Variable load : kworld -> filt -> kworld * lres.
Hypothesis Hload : load_spec kstate do_seccomp do_prctl load.

(** the argument of LoadFilter in the trace, read as a loader argument: [nnp] is the value of the
    -no-new-privs variable, [pol] the policy that Unpack stored, compiled for the native architecture *)
Definition sandbox_filt (nnp:bool) (tsync:N) (prog:res (list instr)) : filt :=
  {| f_nnp := nnp; f_flag := tsync; f_prog := prog |}.

(** with NoNewPrivs requested and thread-sync, a successful load leaves the bit set on EVERY thread *)
Lemma sandbox_nnp_everywhere : forall w f,
  wf (w_k w) -> wf_filt f -> f_nnp f = true -> has_flag (f_flag f) FLAG_TSYNC = true ->
  snd (load w f) = LNil ->
  forall th, In th (ks_threads (w_k (fst (load w f)))) -> t_nnp th = true.
Proof.
  intros w f W Wf Hn HT Hnil th Hth.
  destruct (load_nil_in_force_step load Hload w f W Wf Hnil) as [_ [p [Ep _]]].
  destruct (load_step load Hload w f Wf) as [j [_ H]]. cbv zeta in H. rewrite Ep in H.
  set (t := thread_at kstate w j) in *.
  destruct H as [[_ [_ [_ [Hr _]]]]|[_ [Hk [Hr _]]]]; [rewrite Hr in Hnil; discriminate|].
  unfold pre_seccomp in Hk, Hr. rewrite Hn in Hk, Hr.
  set (st1 := prctl_set_nnp (w_k w) t) in *.
  assert (W1: wf st1) by (apply prctl_set_nnp_wf; exact W).
  destruct (do_seccomp st1 t SECCOMP_SET_MODE_FILTER (f_flag f) (fprog p)) as [[st2 r1] e2] eqn:Es.
  cbn [fst snd] in Hk, Hr. rewrite Hr in Hnil.
  destruct (do_seccomp_filter_cases _ _ _ _ _ _ _ Wf Es)
    as [[_ He]|[[_ [-> [_ [caller [Hfc Hun]]]]]|[_ [caller [len [arr [Hfc [_ [Hst' _]]]]]]]]].
  - apply N.eqb_neq in He. rewrite He in Hnil. discriminate.
  - exfalso. rewrite HT in Hnil. cbn [negb andb N.eqb] in Hnil. rewrite orb_false_r in Hnil.
    destruct (r1 =? 0) eqn:E0; [|discriminate Hnil]. apply N.eqb_eq in E0. subst r1.
    apply first_unsyncable_in in Hun. exact (wf_tid_nonzero _ _ W1 Hun eq_refl).
  - assert (Hcn: t_nnp caller = true).
    { unfold st1 in Hfc. rewrite prctl_set_nnp_find in Hfc.
      destruct (find_thread (w_k w) t) as [th0|] eqn:E0; [|discriminate Hfc]. cbn [option_map] in Hfc.
      apply find_in in E0. destruct E0 as [_ E0]. apply N.eqb_eq in E0. rewrite E0 in Hfc.
      inversion Hfc. reflexivity. }
    rewrite Hk, Hst' in Hth. apply attach_threads in Hth. destruct Hth as [th0 [_ ->]].
    rewrite HT. destruct (t_tid th0 =? t_tid caller).
    + cbn. exact Hcn.
    + cbn. rewrite Hcn. apply orb_true_r.
Qed.

(** C15: the decision the target observes is [decide] of the parsed policy.
    [w] is the sandbox process when main() calls LoadFilter (any well-formed state: any number of Go runtime
    threads, the goroutine on any of them); the load returned nil; [parent] is whichever thread of the process
    forks the target; E1: the target's thread after execve has the seccomp state of [child]. *)
Theorem target_sees_policy : forall le k ai pol p w nnp,
  wf (w_k w) -> compile le k ai pol = Ok p -> N.of_nat (length p) < two32 ->
  let f := sandbox_filt nnp FLAG_TSYNC (compile le k ai pol) in
  snd (load w f) = LNil ->
  let st' := w_k (fst (load w f)) in
  forall parent, live st' parent ->
  let st2 := fst (clone st' parent) in
  let child := snd (clone st' parent) in
  top_prog st2 child = Some (map encode p) /\
  (forall ev, run_raw (word_at le ev) (map encode p) 0 0 = ORet (decide k ai pol ev)) /\
  (nnp = true -> exists cth, find_thread st2 child = Some cth /\ t_nnp cth = true).
Proof.
  intros le k ai pol p w nnp W Ec H32 f Hnil st' parent [pth Hp] st2 child.
  assert (Wf: wf_filt f) by (unfold wf_filt, f, sandbox_filt, FLAG_TSYNC; cbn; lia).
  assert (HT: has_flag (f_flag f) FLAG_TSYNC = true) by reflexivity.
  destruct (loaded_filter_decides load Hload w f le k ai pol p W Wf eq_refl Ec H32 Hnil)
    as [t [fid [Ht [Hfind [Hdec Hall]]]]].
  destruct (Hall HT) as [Hall1 Hall2]. fold st' in Hall1, Hall2, Hfind, Ht.
  assert (Wst': wf st').
  { destruct (load_outcomes load Hload w f Wf) as [j' Ho]. cbv zeta in Ho. fold st' in Ho.
    destruct Ho as [->|[->|[caller [p0 [_ [Hfc [-> _]]]]]]].
    - exact W.
    - apply pre_seccomp_wf. exact W.
    - eapply attach_wf; [apply pre_seccomp_wf; exact W|exact Hfc]. }
  destruct (clone_child st' parent pth Wst' Hp) as [cth [Hc [Hcf [Hcn Hprogs]]]].
  fold st2 in Hc, Hprogs. fold child in Hc.
  pose proof (find_in _ _ _ Hp) as [Hpin _].
  unfold all_have_top in Hall1. rewrite Forall_forall in Hall1. pose proof (Hall1 pth Hpin) as Hhd.
  split; [|split].
  - rewrite (top_prog_by_hd st2 child cth fid Hc) by (rewrite Hcf; exact Hhd).
    rewrite Hprogs. exact Hfind.
  - exact Hdec.
  - intro Hn. exists cth. split; [exact Hc|]. rewrite Hcn.
    (* the parent has the bit: LoadFilter set it on the loading thread and the thread-sync handed it on *)
    subst nnp. exact (sandbox_nnp_everywhere w f W Wf eq_refl HT Hnil pth Hpin).
Qed.
End Target.
