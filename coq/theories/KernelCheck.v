(** * KernelCheck: the kernel's verifier for seccomp filters as a boolean function — a port of
    bpf_check_basics_ok + bpf_check_classic (net/core/filter.c) and seccomp_check_filter
    (kernel/seccomp.c), Linux v6.x. This is a model of the ENVIRONMENT; it is validated against the
    running kernel by the C05 check (accept / EINVAL on compiled programs and damaged variants). *)
From Coq Require Import List NArith Bool Lia.
From Seccomp Require Import Words Machine Raw.
Import ListNotations.
Open Scope N_scope.

Definition BPF_MAXINSNS : N := 4096.
Definition BPF_MEMWORDS : N := 16.
Definition SKF_AD_OFF : N := 4294963200.   (* (u32)-0x1000 *)
Definition SECCOMP_DATA_SIZE : N := 64.

(** chk_code_allowed: the classic opcodes *)
Definition classic_codes : list N :=
  [ (* ALU *) 4;12;20;28;36;44;52;60;148;156;84;92;68;76;164;172;100;108;116;124;132;
    (* LD/LDX *) 32;40;48;128;64;72;80;0;1;129;177;96;97;
    (* ST/STX *) 2;3;
    (* MISC *) 7;135;
    (* RET *) 6;22;
    (* JMP *) 5;21;29;53;61;37;45;69;77 ].

Definition code_allowed (c:N) : bool := existsb (N.eqb c) classic_codes.

(** seccomp_check_filter: the opcodes a seccomp filter may use *)
Definition seccomp_codes : list N :=
  [ 32 (* LD|W|ABS, offset checked *); 128; 129 (* LD|W|LEN, LDX|W|LEN *);
    6; 22 (* RET|K, RET|A *);
    4;12;20;28;36;44;52;60;84;92;68;76;164;172;100;108;116;124;132 (* ALU without MOD *);
    0;1 (* LD|IMM, LDX|IMM *); 7;135 (* TAX, TXA *); 96;97 (* LD|MEM, LDX|MEM *); 2;3 (* ST, STX *);
    5;21;29;53;61;37;45;69;77 (* JMP *) ].

Definition is_cond_jump (c:N) : bool := existsb (N.eqb c) [21;29;53;61;37;45;69;77].
Definition is_ret (c:N) : bool := (c =? 6) || (c =? 22).

(** per-instruction checks of bpf_check_classic; [rest] = flen - pc - 1 *)
Definition classic_insn_ok (i:sock_filter) (rest:N) : bool :=
  let c := sf_code i in let k := sf_k i in
  code_allowed c &&
  (if (c =? 52) || (c =? 148) then negb (k =? 0) else true) &&          (* DIV|K, MOD|K *)
  (if (c =? 100) || (c =? 116) then k <? 32 else true) &&              (* LSH|K, RSH|K *)
  (if (c =? 96) || (c =? 97) || (c =? 2) || (c =? 3) then k <? BPF_MEMWORDS else true) &&
  (if c =? 5 then k <? rest else true) &&                              (* JA: k >= flen-pc-1 -> EINVAL *)
  (if is_cond_jump c then (sf_jt i <? rest) && (sf_jf i <? rest) else true) &&
  (if (c =? 32) || (c =? 40) || (c =? 48)                               (* LD|W/H/B|ABS *)
   then (k <? SKF_AD_OFF) || existsb (N.eqb (k - SKF_AD_OFF)) [0;4;8;12;16;20;24;28;32;36;40;44;48;52;56;60]
   else true).

Fixpoint classic_insns_ok (p:list sock_filter) : bool :=
  match p with
  | [] => true
  | i :: r => classic_insn_ok i (N.of_nat (length r)) && classic_insns_ok r
  end.

(** check_load_and_stores: every M[k] read is preceded by a write on every path.
    [masks] holds, for the instructions still ahead, the AND of the valid-sets of the jumps landing there. *)
Definition mask_all : N := 65535.

Fixpoint mask_and_at (masks:list N) (d:N) (v:N) : list N :=
  match masks with
  | [] => []
  | m :: r => if d =? 0 then N.land m v :: r else m :: mask_and_at r (N.pred d) v
  end.

Fixpoint loads_stores_ok (p:list sock_filter) (masks:list N) (memvalid:N) : bool :=
  match p, masks with
  | [], _ => true
  | i :: r, m :: ms =>
      let mv := N.land memvalid m in
      let c := sf_code i in let k := sf_k i in
      if (c =? 2) || (c =? 3) then loads_stores_ok r ms (N.lor mv (N.shiftl 1 k))
      else if (c =? 96) || (c =? 97) then N.testbit mv k && loads_stores_ok r ms mv
      else if c =? 5 then loads_stores_ok r (mask_and_at ms k mv) mask_all
      else if is_cond_jump c then loads_stores_ok r (mask_and_at (mask_and_at ms (sf_jt i) mv) (sf_jf i) mv) mask_all
      else loads_stores_ok r ms mv
  | _ :: _, [] => false
  end.

Definition last_is_ret (p:list sock_filter) : bool :=
  match rev p with i :: _ => is_ret (sf_code i) | [] => false end.

Definition bpf_check_classic (p:list sock_filter) : bool :=
  classic_insns_ok p && last_is_ret p && loads_stores_ok p (repeat mask_all (length p)) 0.

Definition seccomp_insn_ok (i:sock_filter) : bool :=
  existsb (N.eqb (sf_code i)) seccomp_codes &&
  (if sf_code i =? 32 then (sf_k i <? SECCOMP_DATA_SIZE) && (N.land (sf_k i) 3 =? 0) else true).

(** the whole verifier, for a program of [len] = length p instructions *)
Definition kernel_check (p:list sock_filter) : bool :=
  let n := N.of_nat (length p) in
  negb (n =? 0) && (n <=? BPF_MAXINSNS) && bpf_check_classic p && forallb seccomp_insn_ok p.
