(** * PolicyTop: Policy.Assemble as the user calls it - the architecture is looked up first
    (arch.GetInfo("") for the build's GOARCH when no architecture was set), then the policy is compiled. *)
From Coq Require Import List NArith Bool String.
From Seccomp Require Import Words Machine Result Assembler Policy Tables Text TextProofs.
Import ListNotations.

Definition policy_assemble (aliases:list (string * arch_info)) (goarch:string) (le:bool) (k:consts) (pol:policy) : res (list instr) :=
  match get_info aliases goarch EmptyString with
  | Error e => Error e
  | Ok ai => compile le k ai pol
  end.

(** on a build target whose GOARCH is no alias, or is an alias of a record without tables, no program is produced *)
Theorem policy_assemble_unsupported aliases goarch le k pol :
  (assoc aliases goarch = None \/ exists ai, assoc aliases goarch = Some ai /\ ai_table ai = []) ->
  policy_assemble aliases goarch le k pol = Error EUnsupportedArch.
Proof.
  unfold policy_assemble, get_info. intros [H|[ai [H Ht]]]; rewrite H; [reflexivity|].
  unfold table_empty. rewrite Ht. reflexivity.
Qed.

Theorem policy_assemble_supported aliases goarch le k pol ai :
  assoc aliases goarch = Some ai -> ai_table ai <> [] ->
  policy_assemble aliases goarch le k pol = compile le k ai pol.
Proof.
  unfold policy_assemble, get_info. intros H Ht. rewrite H. unfold table_empty.
  destruct (ai_table ai); [congruence|reflexivity].
Qed.
