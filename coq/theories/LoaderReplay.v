(** * LoaderReplay: replaying an OBSERVED history of the real loader (harness command `loadhist`, run in a
    child process on the real kernel) on the model, step by step, and listing every difference.

    Used by lib/loaderchecks.py inside a generated cases.v ([vm_compute]); [load] / [supp] are instantiated
    with the interpretation of the regenerated skeletons (coq/properties/LoaderInst.v: kload, ksupported).

    One observed step = the operation the child performed + what it saw afterwards: for every task of the
    process (/proc/self/task/*/status) the fields Seccomp, Seccomp_filters, NoNewPrivs and, for the threads
    the harness controls, the set of load indices whose filter answers the probe system call.
    The model state is reconciled with the set of tasks after every step: a task the model does not know is
    a clone of some existing thread (the Go runtime starts threads from whichever thread needs one, so the
    parent is inferred: any model thread - in the state before the operation, after its prctl, or after it -
    with the same observable status); a task that disappeared has exited. *)
From Coq Require Import List NArith Bool.
From Seccomp Require Import Words Machine Raw Result KernelCheck KernelState Skeleton Loader.
Import ListNotations.
Close Scope string_scope.
Open Scope list_scope.
Open Scope N_scope.

Record obs_thread := {
  o_tid : N;
  o_mode : N;                    (* Seccomp: *)
  o_count : N;                   (* Seccomp_filters: *)
  o_nnp : bool;                  (* NoNewPrivs: *)
  o_active : option (list N)     (* load indices (ascending) whose filter is active on the thread, if probed *)
}.

(** an observed seccomp(2) call (hook H2): thread, op, flags, sock_fprog.len (0 when uargs = nil) *)
Definition obs_call := (N * N * N * N)%type.

Inductive rop :=
| RLoad (idx:N) (tid:N) (pinned:bool) (sched:nat -> N) (f:filt) (isnil:bool) (calls:list obs_call)
| RSupported (tid:N) (pinned:bool) (sched:nat -> N) (answer:bool) (calls:list obs_call)
| RDrop                         (* setuid/setgid nobody *)
| RNone.                        (* thread creation / exit / probe only: reconciliation and comparison *)

(** [r_pre]: tasks observed immediately BEFORE the operation (the thread an ordinary goroutine found itself
    on when it was about to call: it may have been created after the previous step) *)
Record rstep := { r_op : rop; r_pre : list obs_thread; r_threads : list obs_thread }.

(** a difference: step number, thread id (0: the operation itself), kind, model value, observed value.
    kinds: 1 result of LoadFilter (1 = nil)   2 seccomp calls made (count)   3 call thread  4 call op
           5 call flags  6 call len  7 Seccomp mode  8 Seccomp_filters  9 NoNewPrivs  10 active filters (count,
           or position of the first difference + 1000)  11 no possible parent for a new task
           12 answer of Supported (1 = true)  13 the model is stuck *)
Definition diff := (N * N * N * N * N)%type.

Section Replay.
Variable load : world kstate -> filt -> world kstate * lres.
Variable supp : world kstate -> world kstate * option bool.

Record rstate := {
  rs_k : kstate;
  rs_fids : list (N * N);        (* filter id -> load index *)
  rs_step : N;
  rs_diffs : list diff
}.

Definition mkw (st:kstate) (tid:N) (pinned:bool) (sched:nat -> N) : world kstate :=
  {| w_k := st; w_cur := tid; w_pins := if pinned then 1%nat else 0%nat; w_sched := sched; w_step := 0%nat; w_log := [] |}.

Definition b2n (b:bool) : N := if b then 1 else 0.

Definition call_len (c:sec_call) : N := match snd c with Some (n, _) => n | None => 0 end.

Fixpoint cmp_calls (step:N) (model:list sec_call) (obs:list obs_call) : list diff :=
  match model, obs with
  | [], [] => []
  | (t, op, fl, pr) :: m', (t', op', fl', len') :: o' =>
      (if t =? t' then [] else [(step, 0, 3, t, t')]) ++
      (if op =? op' then [] else [(step, 0, 4, op, op')]) ++
      (if fl =? fl' then [] else [(step, 0, 5, fl, fl')]) ++
      (if call_len (t, op, fl, pr) =? len' then [] else [(step, 0, 6, call_len (t, op, fl, pr), len')]) ++
      cmp_calls step m' o'
  | _, _ => [(step, 0, 2, N.of_nat (length model), N.of_nat (length obs))]
  end.

Definition status_eq (t:thread) (o:obs_thread) : bool :=
  (mode_of t =? o_mode o) && (N.of_nat (length (t_filters t)) =? o_count o) && Bool.eqb (t_nnp t) (o_nnp o).

(** clone with a given thread id for the child *)
Definition clone_as (st:kstate) (parent:thread) (tid:N) : kstate :=
  {| ks_threads := ks_threads st ++ [ {| t_tid := tid; t_nnp := t_nnp parent; t_filters := t_filters parent;
                                          t_strict := t_strict parent; t_priv := t_priv parent |} ];
     ks_next_tid := N.max (ks_next_tid st) (tid + 1); ks_next_fid := ks_next_fid st;
     ks_progs := ks_progs st; ks_listeners := ks_listeners st; ks_next_fd := ks_next_fd st |}.

(** tasks the model does not know: clones; [cands] are the possible parents *)
Fixpoint add_new (step:N) (cands:list thread) (obs:list obs_thread) (st:kstate) (ds:list diff) : kstate * list diff :=
  match obs with
  | [] => (st, ds)
  | o :: r =>
    match find_thread st (o_tid o) with
    | Some _ => add_new step cands r st ds
    | None =>
      match find (fun t => status_eq t o) (ks_threads st ++ cands) with
      | Some p => add_new step cands r (clone_as st p (o_tid o)) ds
      | None =>
        match ks_threads st with
        | p :: _ => add_new step cands r (clone_as st p (o_tid o)) (ds ++ [(step, o_tid o, 11, 0, 0)])
        | [] => (st, ds ++ [(step, o_tid o, 11, 0, 0)])
        end
      end
    end
  end.

Definition remove_gone (obs:list obs_thread) (st:kstate) : kstate :=
  set_threads st (filter (fun t => existsb (fun o => o_tid o =? t_tid t) obs) (ks_threads st)).

Fixpoint insert_sorted (x:N) (l:list N) : list N :=
  match l with [] => [x] | y :: r => if x <=? y then x :: l else y :: insert_sorted x r end.
Definition sort_n (l:list N) : list N := fold_right insert_sorted [] l.

(** the load indices of the filters of a stack that ANSWER their probe (a filter that does not - a policy without
    names, one whose actions are all allow, one that only intercepts seccomp(2) - is in the stack and counts in
    Seccomp_filters, but no probe shows it) *)
Fixpoint lookup_fid (m:list (N * N)) (fid:N) : list N :=
  match m with [] => [] | (f, i) :: r => if f =? fid then [i] else lookup_fid r fid end.

Fixpoint dedup_sorted (l:list N) : list N :=
  match l with
  | x :: ((y :: _) as r) => if x =? y then dedup_sorted r else x :: dedup_sorted r
  | _ => l
  end.

(** the probe of load index [idx]: getppid (110 on x86_64) with 1000 + idx in the first argument register; the filter
    loaded as [idx] answers it with EPERM. Whether an installed program does is decided by RUNNING it on that record. *)
Definition probe_event (idx:N) : event :=
  {| ev_nr := 110; ev_arch := AUDIT_ARCH_X86_64; ev_ip := 0; ev_args := [1000 + idx; 0; 0; 0; 0; 0] |}.
Definition answers_probe (p:list sock_filter) (idx:N) : bool :=
  match verdict_of (filter_ret p (probe_event idx)) with VRefuse e => e =? 1 | _ => false end.

Fixpoint first_diff (a b:list N) (pos:N) : option N :=
  match a, b with
  | [], [] => None
  | x :: a', y :: b' => if x =? y then first_diff a' b' (pos + 1) else Some pos
  | _, _ => Some pos
  end.

Definition cmp_thread (step:N) (fids:list (N * N)) (st:kstate) (o:obs_thread) : list diff :=
  match find_thread st (o_tid o) with
  | None => [(step, o_tid o, 11, 1, 1)]
  | Some t =>
    (if mode_of t =? o_mode o then [] else [(step, o_tid o, 7, mode_of t, o_mode o)]) ++
    (if N.of_nat (length (t_filters t)) =? o_count o then [] else [(step, o_tid o, 8, N.of_nat (length (t_filters t)), o_count o)]) ++
    (if Bool.eqb (t_nnp t) (o_nnp o) then [] else [(step, o_tid o, 9, b2n (t_nnp t), b2n (o_nnp o))]) ++
    match o_active o with
    | None => []
    | Some act =>
      let m := dedup_sorted (sort_n (flat_map (lookup_fid fids) (t_filters t))) in
      match first_diff m act 0 with
      | None => []
      | Some pos => [(step, o_tid o, 10, N.of_nat (length m), N.of_nat (length act) + 1000 * (pos + 1))]
      end
    end
  end.

Definition nnp_variants (st:kstate) : list thread := map (fun t => with_nnp t true) (ks_threads st).

Definition replay_step (s:rstate) (x:rstep) : rstate :=
  let step := rs_step s in
  let '(st, d0) := add_new step (nnp_variants (rs_k s)) (r_pre x) (rs_k s) [] in
  let '(st1, fids1, d1) :=
    match r_op x with
    | RLoad idx tid pinned sched f isnil calls =>
        let '(w', r) := load (mkw st tid pinned sched) f in
        let st' := w_k w' in
        let fids' := if ks_next_fid st' =? ks_next_fid st then rs_fids s
                     else if answers_probe (prog_of (ks_progs st') (ks_next_fid st)) idx then (ks_next_fid st, idx) :: rs_fids s
                     else rs_fids s in
        (st', fids',
         match r with
         | LStuck => [(step, 0, 13, 0, 0)]
         | _ => (if Bool.eqb (match r with LNil => true | _ => false end) isnil then []
                 else [(step, 0, 1, b2n (match r with LNil => true | _ => false end), b2n isnil)]) ++
                cmp_calls step (rev (w_log w')) calls
         end)
    | RSupported tid pinned sched answer calls =>
        let '(w', r) := supp (mkw st tid pinned sched) in
        (w_k w', rs_fids s,
         match r with
         | None => [(step, 0, 13, 0, 0)]
         | Some b => (if Bool.eqb b answer then [] else [(step, 0, 12, b2n b, b2n answer)]) ++
                     cmp_calls step (rev (w_log w')) calls
         end)
    | RDrop => (drop_priv st, rs_fids s, [])
    | RNone => (st, rs_fids s, [])
    end in
  let cands := ks_threads st ++ nnp_variants st ++ nnp_variants st1 in
  let '(st2, d2) := add_new step cands (r_threads x) (remove_gone (r_threads x) st1) [] in
  let d3 := flat_map (cmp_thread step fids1 st2) (r_threads x) in
  {| rs_k := st2; rs_fids := fids1; rs_step := step + 1; rs_diffs := rs_diffs s ++ d0 ++ d1 ++ d2 ++ d3 |}.

(** the initial tasks: all without filters, privileged or not *)
Definition initial (priv:bool) (obs:list obs_thread) : kstate :=
  {| ks_threads := map (fun o => {| t_tid := o_tid o; t_nnp := o_nnp o; t_filters := []; t_strict := false; t_priv := priv |}) obs;
     ks_next_tid := fold_right N.max 1 (map (fun o => o_tid o + 1) obs);
     ks_next_fid := 1; ks_progs := []; ks_listeners := []; ks_next_fd := 3 |}.

Definition replay (priv:bool) (init:list obs_thread) (steps:list rstep) : list diff :=
  rs_diffs (fold_left replay_step steps {| rs_k := initial priv init; rs_fids := []; rs_step := 0; rs_diffs := [] |}).

End Replay.

(** decoding an observed raw program back into instructions ([map encode (decode_prog r) = r] for the programs
    the library emits; anything else becomes a return of 0 and shows up as a difference) *)
Definition decode_insn (i:sock_filter) : instr :=
  let c := sf_code i in
  if c =? 32 then ILd (sf_k i)
  else if c =? 5 then IJa (sf_k i)
  else if c =? 6 then IRet (sf_k i)
  else if c =? 21 then IJmpIf JEq (sf_k i) (sf_jt i) (sf_jf i)
  else if c =? 37 then IJmpIf JGt (sf_k i) (sf_jt i) (sf_jf i)
  else if c =? 53 then IJmpIf JGe (sf_k i) (sf_jt i) (sf_jf i)
  else if c =? 69 then IJmpIf JSet (sf_k i) (sf_jt i) (sf_jf i)
  else IRet 0.
Definition decode_prog (r:list sock_filter) : list instr := map decode_insn r.
