(** * Loader: LoadFilter / Supported / SetNoNewPrivs as functions over a kernel state, OBTAINED BY INTERPRETING
    THE REGENERATED SKELETONS (gen/GenSkeletons.v: sk_LoadFilter, sk_Supported, sk_SetNoNewPrivs, sk_prctl,
    sk_seccomp ...) with the interpreter of Skeleton.v. Nothing of the control flow of those functions is
    written here; this file only says what the EXTERNAL calls mean:

      filter.Policy.Assemble()      the outcome [f_prog] carried by the filter value (the caller of this model
                                    puts `compile ai pol` there; the theorems hold for every outcome)
      bpf.Assemble(insts)           [map encode insts] (Raw.v; it cannot fail on the four instruction kinds)
      sockFilter(raw)               the same array as []syscall.SockFilter (field-by-field copy; its loop is
                                    not interpreted - the harness compares the installed array with the model)
      runtime.LockOSThread()        pin count + 1: the goroutine stays on the thread it is on
      runtime.UnlockOSThread()      pin count - 1
      syscall.Syscall(SYS_SECCOMP, op, flags, uargs)         the kernel's seccomp on the CURRENT thread
      syscall.Syscall6(SYS_PRCTL, option, a2, a3, a4, a5, 0) the kernel's prctl on the CURRENT thread

    The goroutine scheduler is an oracle [w_sched : nat -> N]: before EVERY statement of every interpreted
    function ([tick]) an unpinned goroutine is moved to the thread the oracle names for that step; a pinned one
    stays. (verifSchedPoint() is an ordinary call of an empty function: one more statement boundary.)

    The kernel is abstract in this file (Section variables [ksec], [kprctl]) so that the per-run symbolic
    execution of the skeletons never unfolds it; LoaderProofs.v instantiates it with KernelState.do_seccomp /
    do_prctl. The constants the skeletons mention (seccompSetModeFilter, prSetNoNewPrivs, FilterFlagTSync ...)
    come from gen/GenConsts.v through the record [lconsts]; SYS_SECCOMP = 317, SYS_PRCTL = 157 and the errno
    values are those of the Go standard library / x/sys for linux/amd64 (the platform of the harness). *)
From Coq Require Import List NArith Bool String.
From Seccomp Require Import Machine Raw Result Skeleton.
Import ListNotations.
Open Scope N_scope.
Open Scope string_scope.

(** external values that flow through the skeletons *)
Inductive xval :=
| XPolicy (r:res (list instr))      (* a Policy, represented by what Policy.Assemble returns for it *)
| XInsts (p:list instr)             (* []bpf.Instruction *)
| XRaw (r:list sock_filter).        (* []bpf.RawInstruction / []syscall.SockFilter *)

(** separate constants, so that symbolic evaluation can keep them folded *)
Definition xcount {A} (l:list A) : N := N.of_nat (List.length l).
Definition raw_of (p:list instr) : list sock_filter := map encode p.

Definition xlen (x:xval) : option N :=
  match x with
  | XInsts p => Some (xcount p)
  | XRaw r => Some (xcount r)
  | XPolicy _ => None
  end.

(** the constants of constants.go the skeletons refer to (values regenerated in GenConsts.v) *)
Record lconsts := {
  lc_set_mode_strict : N;    (* seccompSetModeStrict *)
  lc_set_mode_filter : N;    (* seccompSetModeFilter *)
  lc_pr_set_nnp : N;         (* prSetNoNewPrivs *)
  lc_tsync : N;              (* FilterFlagTSync *)
  lc_log : N                 (* FilterFlagLog *)
}.

Definition SYS_SECCOMP : N := 317.   (* x/sys/unix, linux/amd64 *)
Definition SYS_PRCTL : N := 157.     (* syscall, linux/amd64 *)

Definition lookup_const (lc:lconsts) (n:string) : option (value xval) :=
  if String.eqb n "seccompSetModeStrict" then Some (VNum (lc_set_mode_strict lc))
  else if String.eqb n "seccompSetModeFilter" then Some (VNum (lc_set_mode_filter lc))
  else if String.eqb n "prSetNoNewPrivs" then Some (VNum (lc_pr_set_nnp lc))
  else if String.eqb n "FilterFlagTSync" then Some (VNum (lc_tsync lc))
  else if String.eqb n "FilterFlagLog" then Some (VNum (lc_log lc))
  else if String.eqb n "unix.SYS_SECCOMP" then Some (VNum SYS_SECCOMP)
  else if String.eqb n "syscall.SYS_PRCTL" then Some (VNum SYS_PRCTL)
  else if String.eqb n "syscall.EINVAL" then Some (VErrno 22)
  else if String.eqb n "syscall.ENOSYS" then Some (VErrno 38)
  else if String.eqb n "syscall.E2BIG" then Some (VErrno 7)
  else if String.eqb n "syscall.EACCES" then Some (VErrno 13)
  else if String.eqb n "syscall.EPERM" then Some (VErrno 1)
  else None.

(** the argument of LoadFilter *)
Record filt := {
  f_nnp : bool;                     (* Filter.NoNewPrivs *)
  f_flag : N;                       (* Filter.Flag *)
  f_prog : res (list instr)         (* what Filter.Policy.Assemble() returns *)
}.

Definition filt_value (f:filt) : value xval :=
  VStruct "Filter" [("Flag", VNum (f_flag f)); ("NoNewPrivs", VBool (f_nnp f)); ("Policy", VExt (XPolicy (f_prog f)))].

(** what LoadFilter returned *)
Inductive lres := LNil | LErr | LStuck.

(** one observed seccomp(2) call: thread, op, flags, sock_fprog (what hook H2 records) *)
Definition sec_call := (N * N * N * option (N * list sock_filter))%type.

Section Loader.
Variable K : Type.                                                         (* kernel state *)
Variable ksec : K -> N -> N -> N -> option (N * list sock_filter) -> K * N * N.   (* tid op flags prog *)
Variable kprctl : K -> N -> N -> N -> N -> N -> N -> K * N * N.             (* tid option a2 a3 a4 a5 *)

Record world := {
  w_k : K;
  w_cur : N;                 (* OS thread the goroutine is running on *)
  w_pins : nat;              (* LockOSThread depth *)
  w_sched : nat -> N;        (* scheduler oracle: thread for the goroutine at step i, if it is not pinned *)
  w_step : nat;              (* statement boundaries passed so far *)
  w_log : list sec_call      (* seccomp(2) calls so far, newest first *)
}.

(** statement boundary: an unpinned goroutine continues on the thread the oracle names *)
Definition tick (w:world) : world :=
  {| w_k := w_k w;
     w_cur := if Nat.eqb (w_pins w) 0 then w_sched w (w_step w) else w_cur w;
     w_pins := w_pins w; w_sched := w_sched w; w_step := S (w_step w); w_log := w_log w |}.

Definition with_k (w:world) (k:K) : world :=
  {| w_k := k; w_cur := w_cur w; w_pins := w_pins w; w_sched := w_sched w; w_step := w_step w; w_log := w_log w |}.
Definition with_pins (w:world) (n:nat) : world :=
  {| w_k := w_k w; w_cur := w_cur w; w_pins := n; w_sched := w_sched w; w_step := w_step w; w_log := w_log w |}.
Definition with_log (w:world) (l:list sec_call) : world :=
  {| w_k := w_k w; w_cur := w_cur w; w_pins := w_pins w; w_sched := w_sched w; w_step := w_step w; w_log := l |}.

(** struct sock_fprog as the kernel reads it *)
Definition fprog_of (v:value xval) : option (option (N * list sock_filter)) :=
  match v with
  | VNil => Some None
  | VStruct _ fs =>
      match lookup fs "Len", lookup fs "Filter" with
      | Some (VNum n), Some (VExt (XRaw r)) => Some (Some (n, r))
      | _, _ => None
      end
  | _ => None
  end.

Definition loader_handler (w:world) (callee:ex) (recv:value xval) (args:list (value xval)) : hres xval world :=
  match ex_path callee with
  | None => HNone
  | Some p =>
    if String.eqb p "runtime.LockOSThread" then HOk (with_pins w (S (w_pins w))) []
    else if String.eqb p "runtime.UnlockOSThread" then HOk (with_pins w (Nat.pred (w_pins w))) []
    else if String.eqb p "bpf.Assemble" then
      match args with
      | [VExt (XInsts is)] => HOk w [VExt (XRaw (raw_of is)); VNil]
      | _ => HStuck "bpf.Assemble: argument"
      end
    else if String.eqb p "sockFilter" then
      match args with
      | [VExt (XRaw r)] => HOk w [VExt (XRaw r)]
      | _ => HStuck "sockFilter: argument"
      end
    else if String.eqb p "syscall.Syscall" then
      match args with
      | [VNum nr; VNum op; VNum flags; a3] =>
        if N.eqb nr SYS_SECCOMP then
          match fprog_of a3 with
          | Some prog =>
            (* projections, not a destructuring let: the handler must answer HOk even when the kernel's
               answer is symbolic *)
            let res := ksec (w_k w) (w_cur w) op flags prog in
            HOk (with_log (with_k w (fst (fst res))) ((w_cur w, op, flags, prog) :: w_log w))
                [VNum (snd (fst res)); VNum 0; VErrno (snd res)]
          | None => HStuck "seccomp: uargs"
          end
        else HStuck "syscall.Syscall: system call not modelled"
      | _ => HStuck "syscall.Syscall: arguments"
      end
    else if String.eqb p "syscall.Syscall6" then
      match args with
      | [VNum nr; VNum a1; VNum a2; VNum a3; VNum a4; VNum a5; VNum _] =>
        if N.eqb nr SYS_PRCTL then
          let res := kprctl (w_k w) (w_cur w) a1 a2 a3 a4 a5 in
          HOk (with_k w (fst (fst res))) [VNum (snd (fst res)); VNum 0; VErrno (snd res)]
        else HStuck "syscall.Syscall6: system call not modelled"
      | _ => HStuck "syscall.Syscall6: arguments"
      end
    else if String.eqb (callee_name callee) "Assemble" then
      (* a method Assemble on a Policy value *)
      match recv, args with
      | VExt (XPolicy (Ok is)), [] => HOk w [VExt (XInsts is); VNil]
      | VExt (XPolicy (Error _)), [] => HOk w [VNil; VError "Policy.Assemble"]
      | _, _ => HNone
      end
    else HNone
  end.

Variable funs : list skfun.      (* the regenerated functions of package seccomp *)
Variable lc : lconsts.

Definition FUEL : nat := 200.

Definition run (w:world) (name:string) (args:list (value xval)) : world * list (call_event xval) * result xval :=
  run_fun xval xlen (lookup_const lc) world loader_handler tick funs FUEL w name args.

Definition classify (r:result xval) : lres :=
  match r with
  | RReturn [VNil] => LNil
  | RReturn [VErrno _] => LErr
  | RReturn [VError _] => LErr
  | _ => LStuck
  end.

(** LoadFilter(filter) *)
Definition load_sem (w:world) (f:filt) : world * lres :=
  let '(w', _, r) := run w "LoadFilter" [filt_value f] in (w', classify r).

(** Supported(): Some b, or None when the run is stuck *)
Definition supported_sem (w:world) : world * option bool :=
  let '(w', _, r) := run w "Supported" [] in
  (w', match r with RReturn [VBool b] => Some b | _ => None end).

(** SetNoNewPrivs() *)
Definition set_nnp_sem (w:world) : world * lres :=
  let '(w', _, r) := run w "SetNoNewPrivs" [] in (w', classify r).

End Loader.

Arguments w_k {K} w.
Arguments w_cur {K} w.
Arguments w_pins {K} w.
Arguments w_sched {K} w.
Arguments w_step {K} w.
Arguments w_log {K} w.
