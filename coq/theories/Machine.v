(** * Machine: seccomp events, the label-level machine [exec] and the classic-BPF machine [run].

    [exec] is the abstract meaning of a program written with the label/jump builder of
    assembler.go; [run] is the meaning of the list of bpf.Instruction values it returns
    (only the four instruction kinds the library emits). Both are structurally recursive:
    all jumps are forward. *)
From Coq Require Import List NArith Bool Lia.
From Seccomp Require Import Words.
Import ListNotations.
Open Scope N_scope.

(** ** Jump tests of golang.org/x/net/bpf *)
Inductive cond := JEq | JNe | JGt | JLt | JGe | JLe | JSet | JNSet.

Definition test (c:cond) (a k:N) : bool :=
  match c with
  | JEq => a =? k | JNe => negb (a =? k)
  | JGt => k <? a | JLt => a <? k | JGe => k <=? a | JLe => a <=? k
  | JSet => negb (N.land a k =? 0) | JNSet => N.land a k =? 0
  end.

(** ** struct seccomp_data *)
Record event := { ev_nr : N; ev_arch : N; ev_ip : N; ev_args : list N }.

Definition arg (ev:event) (i:N) : N := nth (N.to_nat i) (ev_args ev) 0.

Definition wf_event (ev:event) : Prop :=
  ev_nr ev < two32 /\ ev_arch ev < two32 /\ ev_ip ev < two64 /\
  length (ev_args ev) = 6%nat /\ Forall (fun a => a < two64) (ev_args ev).

Definition wf_eventb (ev:event) : bool :=
  (ev_nr ev <? two32) && (ev_arch ev <? two32) && (ev_ip ev <? two64) &&
  Nat.eqb (length (ev_args ev)) 6 && forallb (fun a => a <? two64) (ev_args ev).

(** The 32-bit word the kernel's seccomp load returns at byte offset [off]; [le] is the byte
    order of the machine (seccomp_data is in native byte order). Unaligned offsets and offsets
    beyond the record are rejected (by the verifier in the kernel; here: a fault). *)
Definition half (le:bool) (first:bool) (v:N) : N :=
  (* [first]: the word at the lower address *)
  if Bool.eqb le first then lo v else hi v.

Definition word_at (le:bool) (ev:event) (off:N) : option N :=
  if negb (off mod 4 =? 0) || (64 <=? off) then None
  else if off =? 0 then Some (ev_nr ev)
  else if off =? 4 then Some (ev_arch ev)
  else if off =? 8 then Some (half le true (ev_ip ev))
  else if off =? 12 then Some (half le false (ev_ip ev))
  else let i := (off - 16) / 8 in
       Some (half le ((off - 16) mod 8 =? 0) (arg ev i)).

Definition off_hi (le:bool) (i:N) : N := 16 + 8*i + (if le then 4 else 0).
Definition off_lo (le:bool) (i:N) : N := 16 + 8*i + (if le then 0 else 4).

(** ** Label-level programs *)
Definition label := N.

Inductive item :=
| TLd (off:N)                          (* LdHi / LdLo / load of the syscall number *)
| TRet (v:N)                           (* Ret *)
| TJmpIf (c:cond) (k:N) (tl fl:label)  (* JmpIf / JmpIfTrue *)
| TJaL (l:label)                       (* Jmp, and the long-jump bridges of Assemble *)
| TLabel (l:label).                    (* SetLabel: a marker in front of the next instruction *)

Inductive mode := Skip (k:N) | Seek (l:label).
Inductive out := ORet (v:N) | OEnd (m:mode) (a:N) | OFault.

Inductive instr := ILd (off:N) | IJmpIf (c:cond) (k:N) (jt jf:N) | IJa (s:N) | IRet (v:N).

Section Exec.
Variable ld : N -> option N.

Inductive stepres := SNext (m:mode) (a:N) | SDone (o:out).

Definition step (it:item) (a:N) : stepres :=
  match it with
  | TLd off => match ld off with Some w => SNext (Skip 0) w | None => SDone OFault end
  | TRet v => SDone (ORet v)
  | TJmpIf c k tl fl => SNext (Seek (if test c a k then tl else fl)) a
  | TJaL l => SNext (Seek l) a
  | TLabel _ => SNext (Skip 0) a
  end.

Fixpoint exec (its:list item) (m:mode) (a:N) : out :=
  match its with
  | [] => OEnd m a
  | it :: r =>
    match it, m with
    | TLabel l', Seek l => if l' =? l then exec r (Skip 0) a else exec r m a
    | TLabel _, Skip _ => exec r m a
    | _, Seek _ => exec r m a
    | _, Skip k => if k =? 0 then match step it a with SNext m' a' => exec r m' a' | SDone o => o end
                   else exec r (Skip (N.pred k)) a
    end
  end.

Definition cont (o:out) (b:list item) : out :=
  match o with OEnd m a => exec b m a | _ => o end.

Fixpoint run (p:list instr) (k:N) (a:N) : out :=
  match p with
  | [] => OEnd (Skip k) a
  | i :: r =>
    if k =? 0 then
      match i with
      | ILd off => match ld off with Some w => run r 0 w | None => OFault end
      | IJmpIf c kk jt jf => run r (if test c a kk then jt else jf) a
      | IJa s => run r s a
      | IRet v => ORet v
      end
    else run r (N.pred k) a
  end.
End Exec.

(** The decision of a filter program on an event: the kernel starts with A = 0. *)
Definition run_event (le:bool) (p:list instr) (ev:event) : out := run (word_at le ev) p 0 0.
