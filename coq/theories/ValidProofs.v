(** * ValidProofs: every emitted program is a valid seccomp filter with a closed return set (C05).

    1. [run_raw_encode]        the raw encoding of x/net/bpf preserves the meaning of a program;
    2. [compiled_kernel_valid] the kernel's verifier (KernelCheck.kernel_check) accepts every compiled
                               program of at most 4096 instructions;
    3. [return_set_closed]     the return words of a compiled program are the policy's actions
                               (plus ERRNO|ENOSYS of the x32 guard);
    4. [kernel_check_sound]    a program accepted by [kernel_check] that only uses the seven opcodes the
                               library emits never faults and never runs off its end (certified checker,
                               usable on any raw program);
    5. [compiled_no_fault]     raw compiled programs return the decision of the specification;
    6. non-vacuity examples. *)
From Coq Require Import String List NArith Bool Lia.
From Coq Require Import ZifyBool ZifyN ZifyNat.
From Seccomp Require Import Words Machine Result Assembler AssemblerProofs Policy Spec Raw KernelCheck CompileProofs.
Import ListNotations.
Open Scope N_scope.
Open Scope list_scope.

(** ** 1. The raw encoding preserves the meaning *)
Theorem run_raw_encode : forall ld p k a, run_raw ld (map encode p) k a = run ld p k a.
Proof.
  intros ld p. induction p as [|i p IH]; intros k a; [reflexivity|].
  cbn [map run_raw run]. destruct (k =? 0) eqn:K; [|apply IH].
  destruct i as [off|c kk jt jf|s|v].
  - cbn. destruct (ld off); [apply IH|reflexivity].
  - destruct c; cbn -[N.ltb N.leb N.land]; rewrite IH.
    + reflexivity.
    + destruct (a =? kk); reflexivity.
    + reflexivity.
    + rewrite (N.ltb_antisym kk a). destruct (kk <=? a); reflexivity.
    + reflexivity.
    + rewrite (N.leb_antisym kk a). destruct (kk <? a); reflexivity.
    + reflexivity.
    + destruct (N.land a kk =? 0); reflexivity.
  - cbn. apply IH.
  - reflexivity.
Qed.
Print Assumptions run_raw_encode.

(** ** 4. A certified checker: what [kernel_check] guarantees for programs over the library's opcodes *)
Definition our_codes : list N := [32;5;21;37;53;69;6].
Definition our_code (c:N) : bool := existsb (N.eqb c) our_codes.
Definition ours (raw:list sock_filter) : bool := forallb (fun i => our_code (sf_code i)) raw.

(** the seccomp load succeeds at every aligned offset inside struct seccomp_data *)
Definition ld_total (ld:N -> option N) : Prop :=
  forall off, off < 64 -> N.land off 3 = 0 -> exists w, ld off = Some w.

Lemma our_code_cases c :
  our_code c = true -> c = 32 \/ c = 5 \/ c = 21 \/ c = 37 \/ c = 53 \/ c = 69 \/ c = 6.
Proof.
  unfold our_code, our_codes. cbn [existsb]. rewrite !orb_true_iff, !N.eqb_eq. intuition congruence.
Qed.

(** [last_is_ret] without [rev] *)
Fixpoint ends_ret (p:list sock_filter) : bool :=
  match p with
  | [] => false
  | i :: r => match r with [] => is_ret (sf_code i) | _ :: _ => ends_ret r end
  end.

Lemma last_is_ret_cons i r : r <> [] -> last_is_ret (i :: r) = last_is_ret r.
Proof.
  intros H. destruct (exists_last H) as (r' & x & ->). unfold last_is_ret.
  cbn [rev]. rewrite rev_unit. reflexivity.
Qed.

Lemma last_is_ret_ends p : last_is_ret p = ends_ret p.
Proof.
  induction p as [|i p IH]; [reflexivity|].
  destruct p as [|j p']; [reflexivity|].
  rewrite last_is_ret_cons by discriminate. rewrite IH. reflexivity.
Qed.

Lemma ends_ret_tail i r : ends_ret (i :: r) = true -> r <> [] -> ends_ret r = true.
Proof. destruct r as [|j r']; [congruence|]. intros H _. exact H. Qed.

Lemma ends_ret_nonret i r :
  ends_ret (i :: r) = true -> is_ret (sf_code i) = false -> r <> [].
Proof. destruct r as [|j r']; cbn [ends_ret]; [congruence|discriminate]. Qed.

Lemma nonempty_length {A} (r:list A) : r <> [] -> 0 < N.of_nat (length r).
Proof. destruct r; [congruence|]. cbn [length]. lia. Qed.
Lemma length_nonempty {A} (r:list A) : 0 < N.of_nat (length r) -> r <> [].
Proof. destruct r; [cbn; lia|discriminate]. Qed.

(** what bpf_check_classic says about jumps *)
Lemma classic_ja i rest : classic_insn_ok i rest = true -> sf_code i = 5 -> sf_k i < rest.
Proof.
  unfold classic_insn_ok. rewrite !andb_true_iff. intros [[[_ H] _] _] E.
  rewrite E in H. change (5 =? 5) with true in H. cbv iota in H. apply N.ltb_lt. exact H.
Qed.

Lemma classic_cond i rest :
  classic_insn_ok i rest = true -> is_cond_jump (sf_code i) = true -> sf_jt i < rest /\ sf_jf i < rest.
Proof.
  unfold classic_insn_ok. rewrite !andb_true_iff. intros [[_ H] _] E.
  rewrite E in H. apply andb_true_iff in H. rewrite !N.ltb_lt in H. exact H.
Qed.

Lemma seccomp_ld i : seccomp_insn_ok i = true -> sf_code i = 32 -> sf_k i < 64 /\ N.land (sf_k i) 3 = 0.
Proof.
  unfold seccomp_insn_ok. rewrite andb_true_iff. intros [_ H] E.
  rewrite E in H. change (32 =? 32) with true in H. cbv iota in H.
  apply andb_true_iff in H. rewrite N.ltb_lt, N.eqb_eq in H. exact H.
Qed.

Lemma checked_no_fault ld : ld_total ld -> forall raw k a,
  classic_insns_ok raw = true -> forallb seccomp_insn_ok raw = true -> ours raw = true ->
  ends_ret raw = true -> k < N.of_nat (length raw) ->
  exists v, run_raw ld raw k a = ORet v.
Proof.
  intros Hld raw. induction raw as [|i r IH]; intros k a Hc Hs Ho He Hk; [discriminate|].
  cbn [classic_insns_ok forallb ours] in Hc, Hs, Ho. fold (ours r) in Ho.
  apply andb_true_iff in Hc. destruct Hc as [Hc Hcr].
  apply andb_true_iff in Hs. destruct Hs as [Hs Hsr].
  apply andb_true_iff in Ho. destruct Ho as [Ho Hor].
  cbn [length] in Hk.
  cbn [run_raw]. destruct (N.eqb_spec k 0) as [->|K].
  - unfold BPF_LD_W_ABS, BPF_JMP_JA, BPF_JMP_JEQ_K, BPF_JMP_JGT_K, BPF_JMP_JGE_K, BPF_JMP_JSET_K, BPF_RET_K.
    destruct (our_code_cases _ Ho) as [E|[E|[E|[E|[E|[E|E]]]]]]; rewrite E.
    + (* ld *) change (32 =? 32) with true. cbv iota.
      destruct (seccomp_ld i Hs E) as [L1 L2]. destruct (Hld _ L1 L2) as [w ->].
      assert (Hne: r <> []) by (apply (ends_ret_nonret i r He); rewrite E; reflexivity).
      apply IH; auto; [eapply ends_ret_tail; eauto|apply nonempty_length; exact Hne].
    + (* ja *) change (5 =? 32) with false. change (5 =? 5) with true. cbv iota.
      pose proof (classic_ja i _ Hc E) as J.
      assert (Hne: r <> []) by (apply length_nonempty; lia).
      apply IH; auto. eapply ends_ret_tail; eauto.
    + (* jeq *) change (21 =? 32) with false. change (21 =? 5) with false. change (21 =? 21) with true. cbv iota.
      destruct (classic_cond i _ Hc) as [J1 J2]; [rewrite E; reflexivity|].
      assert (Hne: r <> []) by (apply length_nonempty; lia).
      apply IH; auto; [eapply ends_ret_tail; eauto|]. destruct (a =? sf_k i); assumption.
    + (* jgt *) change (37 =? 32) with false. change (37 =? 5) with false. change (37 =? 21) with false.
      change (37 =? 37) with true. cbv iota.
      destruct (classic_cond i _ Hc) as [J1 J2]; [rewrite E; reflexivity|].
      assert (Hne: r <> []) by (apply length_nonempty; lia).
      apply IH; auto; [eapply ends_ret_tail; eauto|]. destruct (sf_k i <? a); assumption.
    + (* jge *) change (53 =? 32) with false. change (53 =? 5) with false. change (53 =? 21) with false.
      change (53 =? 37) with false. change (53 =? 53) with true. cbv iota.
      destruct (classic_cond i _ Hc) as [J1 J2]; [rewrite E; reflexivity|].
      assert (Hne: r <> []) by (apply length_nonempty; lia).
      apply IH; auto; [eapply ends_ret_tail; eauto|]. destruct (sf_k i <=? a); assumption.
    + (* jset *) change (69 =? 32) with false. change (69 =? 5) with false. change (69 =? 21) with false.
      change (69 =? 37) with false. change (69 =? 53) with false. change (69 =? 69) with true. cbv iota.
      destruct (classic_cond i _ Hc) as [J1 J2]; [rewrite E; reflexivity|].
      assert (Hne: r <> []) by (apply length_nonempty; lia).
      apply IH; auto; [eapply ends_ret_tail; eauto|]. destruct (negb (N.land a (sf_k i) =? 0)); assumption.
    + (* ret *) change (6 =? 32) with false. change (6 =? 5) with false. change (6 =? 21) with false.
      change (6 =? 37) with false. change (6 =? 53) with false. change (6 =? 69) with false.
      change (6 =? 6) with true. cbv iota. eexists. reflexivity.
  - assert (Hne: r <> []) by (apply length_nonempty; lia).
    apply IH; auto; [eapply ends_ret_tail; eauto|lia].
Qed.

Theorem kernel_check_sound ld raw :
  kernel_check raw = true -> ours raw = true -> ld_total ld ->
  forall a, exists v, run_raw ld raw 0 a = ORet v.
Proof.
  unfold kernel_check, bpf_check_classic. rewrite !andb_true_iff, negb_true_iff, N.eqb_neq.
  intros [[[Hn _] [[Hc Hl] _]] Hs] Ho Hld a.
  rewrite last_is_ret_ends in Hl.
  apply checked_no_fault; auto. lia.
Qed.
Print Assumptions kernel_check_sound.

Theorem word_at_total le ev : ld_total (word_at le ev).
Proof.
  intros off H1 H2. unfold word_at.
  assert (E: off mod 4 = 0) by (change 4 with (2^2); rewrite <- N.land_ones; exact H2).
  rewrite E. change (0 =? 0) with true. cbn [negb orb].
  replace (64 <=? off) with false by (symmetry; apply N.leb_gt; exact H1).
  destruct (off =? 0); [eauto|]. destruct (off =? 4); [eauto|].
  destruct (off =? 8); [eauto|]. destruct (off =? 12); eauto.
Qed.
Print Assumptions word_at_total.

(** ** 2a. Jumps stay inside: [bounded e p] — every jump of every suffix [i :: r] of [p] skips fewer
    than [length r + e] instructions. [closed] ([e = 1]): a jump lands at most just behind the list;
    [bounded 0]: every jump lands on an instruction of the list (what bpf_check_classic demands). *)
Definition jump_ok (e:N) (i:instr) (rest:N) : Prop :=
  match i with
  | IJmpIf _ _ jt jf => jt < rest + e /\ jf < rest + e
  | IJa s => s < rest + e
  | _ => True
  end.

Fixpoint bounded (e:N) (p:list instr) : Prop :=
  match p with
  | [] => True
  | i :: r => jump_ok e i (N.of_nat (length r)) /\ bounded e r
  end.

Notation closed := (bounded 1).

Lemma bounded_app e e' p q :
  bounded e p -> bounded e' q -> e <= N.of_nat (length q) + e' -> bounded e' (p ++ q).
Proof.
  intros Hp Hq Hl. induction p as [|i r IH]; [exact Hq|].
  cbn [app bounded] in *. destruct Hp as [Hi Hr]. split; [|apply IH; exact Hr].
  rewrite app_length. destruct i; cbn [jump_ok] in *; lia.
Qed.

Lemma closed_app p q : closed p -> closed q -> closed (p ++ q).
Proof. intros Hp Hq. eapply bounded_app; eauto. lia. Qed.

(** [closed] spelled out: a jump lands at most at the end of the list *)
Lemma closed_cons i r :
  closed (i :: r) <->
  match i with
  | IJmpIf _ _ jt jf => jt <= N.of_nat (length r) /\ jf <= N.of_nat (length r)
  | IJa s => s <= N.of_nat (length r)
  | _ => True
  end /\ closed r.
Proof. cbn [bounded]. destruct i; cbn [jump_ok]; intuition lia. Qed.

(** [bounded 0] spelled out: a jump lands on an instruction of the list *)
Lemma bounded0_cons i r :
  bounded 0 (i :: r) <->
  match i with
  | IJmpIf _ _ jt jf => jt < N.of_nat (length r) /\ jf < N.of_nat (length r)
  | IJa s => s < N.of_nat (length r)
  | _ => True
  end /\ bounded 0 r.
Proof. cbn [bounded]. destruct i; cbn [jump_ok]; intuition lia. Qed.

(** a skip computed by [resolve] is a distance to a marker inside the resolved suffix *)
Lemma dist_le_resolve r : forall l d p,
  dist l r = Some d -> resolve r = Some p -> d <= N.of_nat (length p).
Proof.
  induction r as [|it r IH]; intros l d p Hd Hr; cbn [dist resolve] in Hd, Hr; [discriminate|].
  destruct it.
  - destruct (dist l r) as [d'|] eqn:D; [|discriminate]. destruct (resolve r) as [p'|] eqn:R; [|discriminate].
    cbn [option_map] in Hd, Hr. injection Hd as <-. injection Hr as <-.
    specialize (IH l d' p' D eq_refl). cbn [length]. lia.
  - destruct (dist l r) as [d'|] eqn:D; [|discriminate]. destruct (resolve r) as [p'|] eqn:R; [|discriminate].
    cbn [option_map] in Hd, Hr. injection Hd as <-. injection Hr as <-.
    specialize (IH l d' p' D eq_refl). cbn [length]. lia.
  - destruct (dist l r) as [d'|] eqn:D; [|discriminate].
    destruct (dist tl r) as [dt|]; [|discriminate]. destruct (dist fl r) as [df|]; [|discriminate].
    destruct (resolve r) as [p'|] eqn:R; [|discriminate].
    destruct ((dt <=? 255) && (df <=? 255) && negb ((dt =? 0) && (df =? 0))); [|discriminate].
    cbn [option_map] in Hd. injection Hd as <-. injection Hr as <-.
    specialize (IH l d' p' D eq_refl). cbn [length]. lia.
  - destruct (dist l r) as [d'|] eqn:D; [|discriminate].
    destruct (dist l0 r) as [dl|]; [|discriminate].
    destruct (resolve r) as [p'|] eqn:R; [|discriminate].
    cbn [option_map] in Hd. injection Hd as <-. injection Hr as <-.
    specialize (IH l d' p' D eq_refl). cbn [length]. lia.
  - destruct (l0 =? l).
    + injection Hd as <-. lia.
    + eapply IH; eauto.
Qed.

Lemma resolve_closed its : forall p, resolve its = Some p -> closed p.
Proof.
  induction its as [|it r IH]; intros p H; cbn [resolve] in H.
  - injection H as <-. exact I.
  - destruct it.
    + destruct (resolve r) as [p'|] eqn:R; [|discriminate]. cbn [option_map] in H. injection H as <-.
      split; [exact I|apply IH; reflexivity].
    + destruct (resolve r) as [p'|] eqn:R; [|discriminate]. cbn [option_map] in H. injection H as <-.
      split; [exact I|apply IH; reflexivity].
    + destruct (dist tl r) as [dt|] eqn:Dt; [|discriminate]. destruct (dist fl r) as [df|] eqn:Df; [|discriminate].
      destruct (resolve r) as [p'|] eqn:R; [|discriminate].
      destruct ((dt <=? 255) && (df <=? 255) && negb ((dt =? 0) && (df =? 0))); [|discriminate].
      injection H as <-.
      pose proof (dist_le_resolve _ _ _ _ Dt R). pose proof (dist_le_resolve _ _ _ _ Df R).
      split; [cbn [jump_ok]; lia|apply IH; reflexivity].
    + destruct (dist l r) as [dl|] eqn:Dl; [|discriminate].
      destruct (resolve r) as [p'|] eqn:R; [|discriminate]. injection H as <-.
      pose proof (dist_le_resolve _ _ _ _ Dl R).
      split; [cbn [jump_ok]; lia|apply IH; reflexivity].
    + apply IH. exact H.
Qed.

(** the conditional jumps [resolve] emits fit the 8-bit jt/jf fields *)
Definition byte_jump (i:instr) : Prop :=
  match i with IJmpIf _ _ jt jf => jt <= 255 /\ jf <= 255 | _ => True end.

Lemma resolve_bytes its : forall p, resolve its = Some p -> Forall byte_jump p.
Proof.
  induction its as [|it r IH]; intros p H; cbn [resolve] in H.
  - injection H as <-. constructor.
  - destruct it.
    + destruct (resolve r) as [p'|] eqn:R; [|discriminate]. cbn [option_map] in H. injection H as <-.
      constructor; [exact I|apply IH; reflexivity].
    + destruct (resolve r) as [p'|] eqn:R; [|discriminate]. cbn [option_map] in H. injection H as <-.
      constructor; [exact I|apply IH; reflexivity].
    + destruct (dist tl r) as [dt|] eqn:Dt; [|discriminate]. destruct (dist fl r) as [df|] eqn:Df; [|discriminate].
      destruct (resolve r) as [p'|] eqn:R; [|discriminate].
      destruct (N.leb_spec dt 255) as [L1|L1]; [|discriminate].
      destruct (N.leb_spec df 255) as [L2|L2]; [|discriminate].
      destruct (negb ((dt =? 0) && (df =? 0))); [|discriminate]. cbn [andb] in H.
      injection H as <-. constructor; [split; assumption|apply IH; reflexivity].
    + destruct (dist l r) as [dl|] eqn:Dl; [|discriminate].
      destruct (resolve r) as [p'|] eqn:R; [|discriminate]. injection H as <-.
      constructor; [exact I|apply IH; reflexivity].
    + apply IH. exact H.
Qed.

(** ** 2b. Loads and returns are those of the label-level program: the assembler invents none *)
Definition src (i:instr) : option item :=
  match i with ILd o => Some (TLd o) | IRet v => Some (TRet v) | _ => None end.
Definition keep (it:item) : Prop := match it with TLd _ | TRet _ => True | _ => False end.

Lemma src_keep i it : src i = Some it -> keep it.
Proof. destruct i; cbn [src]; intros H; try discriminate; injection H as <-; exact I. Qed.

Lemma resolve_in its : forall p i it, resolve its = Some p -> In i p -> src i = Some it -> In it its.
Proof.
  induction its as [|x r IH]; intros p i it H Hi Hs; cbn [resolve] in H.
  - injection H as <-. destruct Hi.
  - destruct x.
    + destruct (resolve r) as [p'|] eqn:R; [|discriminate]. cbn [option_map] in H. injection H as <-.
      destruct Hi as [<-|Hi]; [cbn [src] in Hs; injection Hs as <-; left; reflexivity|right; eapply IH; eauto].
    + destruct (resolve r) as [p'|] eqn:R; [|discriminate]. cbn [option_map] in H. injection H as <-.
      destruct Hi as [<-|Hi]; [cbn [src] in Hs; injection Hs as <-; left; reflexivity|right; eapply IH; eauto].
    + destruct (dist tl r) as [dt|]; [|discriminate]. destruct (dist fl r) as [df|]; [|discriminate].
      destruct (resolve r) as [p'|] eqn:R; [|discriminate].
      destruct ((dt <=? 255) && (df <=? 255) && negb ((dt =? 0) && (df =? 0))); [|discriminate].
      injection H as <-. destruct Hi as [<-|Hi]; [discriminate|right; eapply IH; eauto].
    + destruct (dist l r) as [dl|]; [|discriminate].
      destruct (resolve r) as [p'|] eqn:R; [|discriminate]. injection H as <-.
      destruct Hi as [<-|Hi]; [discriminate|right; eapply IH; eauto].
    + right. eapply IH; eauto.
Qed.

Lemma first_real_in r : forall it, first_real r = Some it -> In it r.
Proof.
  induction r as [|x r IH]; intros it H; cbn [first_real] in H; [discriminate|].
  destruct x; try (injection H as <-; left; reflexivity). right. apply IH. exact H.
Qed.

Lemma at_label_in l r : forall it, at_label l r = Some it -> In it r.
Proof.
  induction r as [|x r IH]; intros it H; cbn [at_label] in H; [discriminate|].
  destruct x; try (right; apply IH; exact H).
  destruct (l0 =? l); right; [apply first_real_in|apply IH]; exact H.
Qed.

(** a bridge that is a load or a return is a copy of an instruction further on *)
Lemma tramp_keep l r : keep (tramp l r) -> In (tramp l r) r.
Proof.
  unfold tramp. destruct (at_label l r) as [[]|] eqn:E; cbn [keep]; try contradiction.
  intros _. eapply at_label_in; eauto.
Qed.

Lemma fix_jump_keep c k tl fl r f it :
  keep it -> In it (fst (fix_jump c k tl fl r f)) -> In it r.
Proof.
  intros Hk. unfold fix_jump.
  destruct (far (dist tl r) || is255 (dist tl r) && far (dist fl r)),
           (far (dist fl r) || is255 (dist fl r) && far (dist tl r)); cbn [fst In]; intros H.
  all: repeat (destruct H as [<-|H]; [try (exact (False_ind _ Hk)); apply tramp_keep; exact Hk|]); exact H.
Qed.

Lemma relax_keep its : forall f it, keep it -> In it (fst (relax its f)) -> In it its.
Proof.
  induction its as [|x r IH]; intros f it Hk H; cbn [relax] in H; [exact H|].
  specialize (IH f it Hk). destruct (relax r f) as [r' f'] eqn:E. cbn [fst] in IH.
  destruct x; cbn [fst In] in H.
  - destruct H as [<-|H]; [left; reflexivity|right; auto].
  - destruct H as [<-|H]; [left; reflexivity|right; auto].
  - right. apply IH. eapply fix_jump_keep; eauto.
  - destruct H as [<-|H]; [left; reflexivity|right; auto].
  - destruct H as [<-|H]; [left; reflexivity|right; auto].
Qed.

(** ** Program.Assemble: the output is closed, its jumps fit a byte, its loads and returns are the input's *)
Lemma assemble_resolve its f p : assemble its f = Ok p -> resolve (fst (relax its f)) = Some p.
Proof.
  unfold assemble. destruct (negb (jumps_resolvable its)); [discriminate|].
  destruct (check_jumps (fst (relax its f))); [discriminate|].
  destruct (resolve (fst (relax its f))) as [p'|]; [|discriminate]. intros H; injection H as ->. reflexivity.
Qed.

Lemma assemble_closed its f p : assemble its f = Ok p -> closed p.
Proof. intros H. eapply resolve_closed. eapply assemble_resolve. exact H. Qed.

Lemma assemble_bytes its f p : assemble its f = Ok p -> Forall byte_jump p.
Proof. intros H. eapply resolve_bytes. eapply assemble_resolve. exact H. Qed.

Lemma assemble_in its f p i it : assemble its f = Ok p -> In i p -> src i = Some it -> In it its.
Proof.
  intros H Hi Hs. apply assemble_resolve in H.
  eapply relax_keep; [eapply src_keep; exact Hs|]. eapply resolve_in; eauto.
Qed.

(** ** 2c. The label-level code of a group: loads are aligned and inside seccomp_data, the only return is the group's *)
Definition ld_good (off:N) : Prop := off < 64 /\ N.land off 3 = 0.

Definition item_inv (w:N) (it:item) : Prop :=
  match it with TLd off => ld_good off | TRet v => v = w | _ => True end.

Lemma ld_off_good i b : i <= 5 -> ld_good (ld_off i b).
Proof.
  intros H. destruct (le5_cases i H) as [->|[->|[->|[->|[->| ->]]]]]; destruct b; split; reflexivity.
Qed.

Lemma ld_good_0 : ld_good 0. Proof. split; reflexivity. Qed.
Lemma ld_good_4 : ld_good 4. Proof. split; reflexivity. Qed.

Lemma gen_cond_inv le w c mt nm n : cnd_ok c -> Forall (item_inv w) (fst (gen_cond le c mt nm n)).
Proof.
  intros [Ha _].
  pose proof (ld_off_good (c_arg c) le Ha) as H1. pose proof (ld_off_good (c_arg c) (negb le) Ha) as H2.
  unfold gen_cond, jmp_if_true. destruct (c_op c); cbn [fst app];
  repeat (apply Forall_cons; [first [exact I|exact H1|exact H2]|]); apply Forall_nil.
Qed.

Lemma gen_conds_inv le w cs : forall action nm n,
  Forall cnd_ok cs -> Forall (item_inv w) (fst (gen_conds le cs action nm n)).
Proof.
  induction cs as [|c rest IH]; intros action nm n H; cbn [gen_conds]; [constructor|].
  inversion H as [|? ? Hc Hr]; subst.
  pose proof (gen_cond_inv le w c (match rest with [] => action | _ => n end) nm (n+1) Hc) as F.
  destruct (gen_cond le c _ nm (n+1)) as [code n1]. cbn [fst] in F.
  specialize (IH action nm n1 Hr). destruct (gen_conds le rest action nm n1) as [more n2]. cbn [fst] in *.
  apply Forall_app. split; [exact F|]. constructor; [exact I|exact IH].
Qed.

Lemma gen_list_inv le w cs action n : list_ok cs -> Forall (item_inv w) (fst (gen_list le cs action n)).
Proof.
  intros [_ H]. unfold gen_list.
  pose proof (gen_conds_inv le w cs action n (n+1) H) as F.
  destruct (gen_conds le cs action n (n+1)) as [code n1]. cbn [fst] in *.
  apply Forall_app. split; [exact F|]. constructor; [exact I|constructor].
Qed.

Lemma gen_lists_inv le w ls : forall action n,
  Forall list_ok ls -> Forall (item_inv w) (fst (gen_lists le ls action n)).
Proof.
  induction ls as [|cs rest IH]; intros action n H; cbn [gen_lists]; [constructor|].
  inversion H as [|? ? Hc Hr]; subst.
  pose proof (gen_list_inv le w cs action n Hc) as F.
  destruct (gen_list le cs action n) as [code n1]. cbn [fst] in F.
  specialize (IH action n1 Hr). destruct (gen_lists le rest action n1) as [more n2]. cbn [fst] in *.
  apply Forall_app. split; assumption.
Qed.

Lemma gen_ent_inv le w e action n : entry_ok e -> Forall (item_inv w) (fst (gen_ent le e action n)).
Proof.
  destruct e as [num|num ls]; cbn [gen_ent entry_ok]; intros H.
  - unfold jmp_if_true. cbn [fst]. repeat constructor.
  - destruct H as [_ H]. pose proof (gen_lists_inv le w ls action (n+2) H) as F.
    destruct (gen_lists le ls action (n+2)) as [code n1]. cbn [fst] in *.
    unfold jmp_if_true. cbn [app]. constructor; [exact I|]. constructor; [exact I|].
    apply Forall_app. split; [exact F|].
    constructor; [exact ld_good_0|]. constructor; [exact I|constructor].
Qed.

Lemma gen_ents_inv le w es : forall action n,
  Forall entry_ok es -> Forall (item_inv w) (fst (gen_ents le es action n)).
Proof.
  induction es as [|e rest IH]; intros action n H; cbn [gen_ents]; [constructor|].
  inversion H as [|? ? He Hr]; subst.
  pose proof (gen_ent_inv le w e action n He) as F.
  destruct (gen_ent le e action n) as [code n1]. cbn [fst] in F.
  specialize (IH action n1 Hr). destruct (gen_ents le rest action n1) as [more n2]. cbn [fst] in *.
  apply Forall_app. split; assumption.
Qed.

Lemma gen_group_inv le es w : Forall entry_ok es -> Forall (item_inv w) (fst (gen_group le es w)).
Proof.
  intros H. unfold gen_group. pose proof (gen_ents_inv le w es 2 3 H) as F.
  destruct (gen_ents le es 2 3) as [code n1]. cbn [fst] in *.
  apply Forall_app. split; [exact F|].
  constructor; [exact I|]. constructor; [exact I|]. constructor; [reflexivity|]. constructor; [exact I|constructor].
Qed.

(** ** 2d. Compiled groups *)
Definition instr_inv (w:N) (i:instr) : Prop :=
  match i with ILd off => ld_good off | IRet v => v = w | _ => True end.

Lemma compile_group_facts le k ai g p :
  compile_group le k ai g = Ok p ->
  closed p /\ Forall byte_jump p /\ Forall (instr_inv (ret_word k (g_action g))) p.
Proof.
  unfold compile_group. intros H.
  assert (Hmain: forall es, to_syscalls ai g = Ok es ->
            (let '(its, n) := gen_group le es (ret_word k (g_action g)) in assemble its n) = Ok p ->
            closed p /\ Forall byte_jump p /\ Forall (instr_inv (ret_word k (g_action g))) p).
  { intros es Hes Ha.
    destruct (to_syscalls_spec ai {| ev_nr := 0; ev_arch := 0; ev_ip := 0; ev_args := [] |} g es Hes) as [Hok _].
    pose proof (gen_group_inv le es (ret_word k (g_action g)) Hok) as GI.
    destruct (gen_group le es (ret_word k (g_action g))) as [its n]. cbn [fst] in GI.
    split; [eapply assemble_closed; exact Ha|]. split; [eapply assemble_bytes; exact Ha|].
    rewrite Forall_forall in GI. apply Forall_forall. intros i Hi.
    destruct i as [off| | |v]; cbn [instr_inv]; try exact I.
    - apply (GI (TLd off)). eapply assemble_in; eauto.
    - apply (GI (TRet v)). eapply assemble_in; eauto. }
  destruct (g_names g) as [|n0 ns].
  - destruct (g_nwc g) as [|w0 ws].
    + injection H as <-. split; [exact I|]. split; constructor.
    + destruct (to_syscalls ai g) as [es|e] eqn:T; [|discriminate]. eapply Hmain; eauto.
  - destruct (to_syscalls ai g) as [es|e] eqn:T; [|discriminate]. eapply Hmain; eauto.
Qed.

Definition body_inv (k:consts) (gs:list group) (i:instr) : Prop :=
  match i with
  | ILd off => ld_good off
  | IRet v => exists g, In g gs /\ v = ret_word k (g_action g)
  | _ => True
  end.

Lemma body_inv_mono k gs gs' i : (forall g, In g gs -> In g gs') -> body_inv k gs i -> body_inv k gs' i.
Proof. intros Hs. destruct i; cbn [body_inv]; auto. intros (g & Hg & ->). eauto. Qed.

Lemma compile_groups_facts le k ai gs : forall body,
  compile_groups le k ai gs = Ok body ->
  closed body /\ Forall byte_jump body /\ Forall (body_inv k gs) body.
Proof.
  induction gs as [|g rest IH]; intros body H; cbn [compile_groups] in H.
  - injection H as <-. split; [exact I|]. split; constructor.
  - destruct (compile_group le k ai g) as [p|e] eqn:G; [|discriminate].
    destruct (compile_groups le k ai rest) as [q|e] eqn:R; [|discriminate].
    injection H as <-.
    destruct (compile_group_facts _ _ _ _ _ G) as (C1 & B1 & I1).
    destruct (IH q eq_refl) as (C2 & B2 & I2).
    split; [apply closed_app; assumption|]. split; [apply Forall_app; split; assumption|].
    apply Forall_app. split.
    + eapply Forall_impl; [|exact I1]. intros i Hi. destruct i; cbn [instr_inv body_inv] in *; auto.
      exists g. split; [left; reflexivity|exact Hi].
    + eapply Forall_impl; [|exact I2]. intros i. apply body_inv_mono. intros g0 Hg0. right. exact Hg0.
Qed.

(** ** 2e. The whole program *)
Lemma compile_shape le k ai pol p :
  compile le k ai pol = Ok p ->
  exists body,
    compile_groups le k ai (p_groups pol) = Ok body /\
    p = prologue ai (N.of_nat (length (x32_filter k ai) + length body + 1))
        ++ [ILd 0] ++ x32_filter k ai ++ body ++ [IRet (ret_word k (p_default pol))].
Proof.
  unfold compile. intros H.
  destruct (negb (is_named k (p_default pol))); [discriminate|].
  destruct (p_groups pol) as [|g0 gs0] eqn:Eg; [discriminate|]. rewrite <- Eg in *. clear Eg g0 gs0.
  destruct (compile_groups le k ai (p_groups pol)) as [body|e] eqn:B; [|discriminate].
  injection H as <-. exists body. split; reflexivity.
Qed.

Lemma prologue_bounded ai jumpN : bounded (jumpN + 1) (prologue ai jumpN).
Proof.
  pose proof (N.mod_le jumpN 256 ltac:(discriminate)).
  pose proof (N.mod_le jumpN two32 ltac:(discriminate)).
  unfold prologue. destruct (jumpN <=? 255); cbn [bounded jump_ok length N.of_nat]; repeat split; lia.
Qed.

Lemma prologue_bytes ai jumpN : Forall byte_jump (prologue ai jumpN).
Proof.
  pose proof (N.mod_lt jumpN 256 ltac:(discriminate)).
  unfold prologue. destruct (jumpN <=? 255); repeat constructor; cbn [byte_jump]; lia.
Qed.

Lemma x32_closed k ai : closed (x32_filter k ai).
Proof. unfold x32_filter. destruct (ai_id ai =? k_x86_64_id k); cbn [bounded jump_ok length N.of_nat]; repeat split; lia. Qed.

Definition load_good (i:instr) : Prop := match i with ILd off => ld_good off | _ => True end.

Lemma compiled_structure le k ai pol p :
  compile le k ai pol = Ok p ->
  bounded 0 p /\ Forall load_good p /\ Forall byte_jump p /\
  exists q d, p = q ++ [IRet d].
Proof.
  intros H. destruct (compile_shape _ _ _ _ _ H) as (body & B & ->).
  destruct (compile_groups_facts _ _ _ _ _ B) as (C & By & Inv).
  set (d := ret_word k (p_default pol)).
  set (x32 := x32_filter k ai).
  set (jumpN := N.of_nat (length x32 + length body + 1)).
  split; [|split; [|split]].
  - apply (bounded_app (jumpN + 1) 0).
    + apply prologue_bounded.
    + apply (bounded_app 0 0); [cbn; auto|  |lia].
      apply (bounded_app 1 0); [apply x32_closed| |rewrite app_length; cbn [length]; lia].
      apply (bounded_app 1 0); [exact C|cbn; auto|cbn [length]; lia].
    + unfold jumpN. rewrite !app_length. cbn [length]. lia.
  - apply Forall_app. split.
    { unfold prologue. destruct (jumpN <=? 255); repeat constructor; exact ld_good_4. }
    apply Forall_app. split; [repeat constructor; exact ld_good_0|].
    apply Forall_app. split.
    { unfold x32, x32_filter. destruct (ai_id ai =? k_x86_64_id k); repeat constructor. }
    apply Forall_app. split; [|repeat constructor].
    eapply Forall_impl; [|exact Inv]. intros i. destruct i; cbn [body_inv load_good]; auto.
  - apply Forall_app. split; [apply prologue_bytes|].
    apply Forall_app. split; [repeat constructor|].
    apply Forall_app. split.
    { unfold x32, x32_filter. destruct (ai_id ai =? k_x86_64_id k); repeat constructor; cbn [byte_jump]; lia. }
    apply Forall_app. split; [exact By|repeat constructor].
  - exists (prologue ai jumpN ++ [ILd 0] ++ x32 ++ body), d. rewrite <- !app_assoc. reflexivity.
Qed.

(** ** 2f. What the kernel's verifier checks, on encoded instructions *)
Lemma encode_insn_ok i rest :
  jump_ok 0 i rest -> load_good i ->
  classic_insn_ok (encode i) rest = true /\ seccomp_insn_ok (encode i) = true.
Proof.
  destruct i as [off|c kk jt jf|s|v]; cbn [jump_ok load_good]; intros HJ HL.
  - destruct HL as [L1 L2]. unfold classic_insn_ok, seccomp_insn_ok. cbn [encode sf_code sf_k sf_jt sf_jf].
    assert (E1: (off <? SKF_AD_OFF) = true) by (apply N.ltb_lt; unfold SKF_AD_OFF; lia).
    assert (E2: (off <? SECCOMP_DATA_SIZE) = true) by (apply N.ltb_lt; unfold SECCOMP_DATA_SIZE; lia).
    assert (E3: (N.land off 3 =? 0) = true) by (apply N.eqb_eq; exact L2).
    unfold BPF_LD_W_ABS. rewrite E1, E2, E3. split; reflexivity.
  - destruct HJ as [J1 J2]. rewrite N.add_0_r in J1, J2.
    assert (E1: (jt <? rest) = true) by (apply N.ltb_lt; exact J1).
    assert (E2: (jf <? rest) = true) by (apply N.ltb_lt; exact J2).
    destruct c; unfold classic_insn_ok, seccomp_insn_ok; cbn [encode jump_raw sf_code sf_k sf_jt sf_jf];
    unfold BPF_JMP_JEQ_K, BPF_JMP_JGT_K, BPF_JMP_JGE_K, BPF_JMP_JSET_K; rewrite E1, E2; split; reflexivity.
  - rewrite N.add_0_r in HJ.
    assert (E1: (s <? rest) = true) by (apply N.ltb_lt; exact HJ).
    unfold classic_insn_ok, seccomp_insn_ok; cbn [encode sf_code sf_k sf_jt sf_jf].
    unfold BPF_JMP_JA. rewrite E1. split; reflexivity.
  - split; reflexivity.
Qed.

Lemma encode_insns_ok p :
  bounded 0 p -> Forall load_good p ->
  classic_insns_ok (map encode p) = true /\ forallb seccomp_insn_ok (map encode p) = true.
Proof.
  induction p as [|i r IH]; intros Hb Hl; [split; reflexivity|].
  cbn [bounded] in Hb. destruct Hb as [Hi Hr]. inversion Hl as [|? ? Li Lr]; subst.
  destruct (IH Hr Lr) as [I1 I2]. destruct (encode_insn_ok i _ Hi Li) as [E1 E2].
  cbn [map classic_insns_ok forallb]. rewrite map_length, E1, E2, I1, I2. split; reflexivity.
Qed.

Lemma mask_and_at_length ms : forall d v, length (mask_and_at ms d v) = length ms.
Proof.
  induction ms as [|m ms IH]; intros d v; cbn [mask_and_at]; [reflexivity|].
  destruct (d =? 0); cbn [length]; [reflexivity|]. rewrite IH. reflexivity.
Qed.

(** check_load_and_stores has nothing to object to: the programs never touch M[].
    Generalised over the masks (any list of the right length) and the valid-set. *)
Lemma loads_stores_encode p : forall masks mv,
  length masks = length p -> loads_stores_ok (map encode p) masks mv = true.
Proof.
  induction p as [|i p IH]; intros masks mv H; [reflexivity|].
  destruct masks as [|m ms]; [discriminate|]. cbn [length] in H. injection H as H.
  destruct i as [off|c kk jt jf|s|v].
  - change (loads_stores_ok (map encode (ILd off :: p)) (m :: ms) mv)
      with (loads_stores_ok (map encode p) ms (N.land mv m)). apply IH. exact H.
  - destruct c.
    all: try (change (loads_stores_ok (map encode (IJmpIf _ kk jt jf :: p)) (m :: ms) mv)
      with (loads_stores_ok (map encode p) (mask_and_at (mask_and_at ms jt (N.land mv m)) jf (N.land mv m)) mask_all);
      apply IH; rewrite !mask_and_at_length; exact H).
    all: change (loads_stores_ok (map encode (IJmpIf _ kk jt jf :: p)) (m :: ms) mv)
      with (loads_stores_ok (map encode p) (mask_and_at (mask_and_at ms jf (N.land mv m)) jt (N.land mv m)) mask_all);
      apply IH; rewrite !mask_and_at_length; exact H.
  - change (loads_stores_ok (map encode (IJa s :: p)) (m :: ms) mv)
      with (loads_stores_ok (map encode p) (mask_and_at ms s (N.land mv m)) mask_all).
    apply IH. rewrite mask_and_at_length. exact H.
  - change (loads_stores_ok (map encode (IRet v :: p)) (m :: ms) mv)
      with (loads_stores_ok (map encode p) ms (N.land mv m)). apply IH. exact H.
Qed.

Lemma ours_encode p : ours (map encode p) = true.
Proof.
  induction p as [|i p IH]; [reflexivity|]. cbn [map ours forallb]. fold (ours (map encode p)). rewrite IH.
  destruct i as [|c| |]; [|destruct c| |]; reflexivity.
Qed.

(** ** 2. The kernel accepts every compiled program of at most BPF_MAXINSNS instructions.
    No well-formedness hypothesis is needed: the verifier does not look at the constants of
    comparisons and returns, and the load offsets are forced by [to_syscalls] (argument index <= 5).
    The bound is necessary: bpf_check_basics_ok rejects longer programs. *)
Theorem compiled_kernel_valid le k ai pol p :
  compile le k ai pol = Ok p -> (length p <= 4096)%nat ->
  kernel_check (map encode p) = true.
Proof.
  intros H Hlen. destruct (compiled_structure _ _ _ _ _ H) as (Hb & Hl & _ & q & d & E).
  destruct (encode_insns_ok p Hb Hl) as [C S].
  unfold kernel_check, bpf_check_classic. cbv zeta. rewrite C, S, map_length.
  rewrite loads_stores_encode by (rewrite repeat_length; reflexivity).
  assert (L: last_is_ret (map encode p) = true).
  { rewrite E, map_app. cbn [map]. unfold last_is_ret. rewrite rev_unit. reflexivity. }
  rewrite L.
  assert (N1: (N.of_nat (length p) =? 0) = false).
  { apply N.eqb_neq. rewrite E, app_length. cbn [length]. lia. }
  assert (N2: (N.of_nat (length p) <=? BPF_MAXINSNS) = true).
  { apply N.leb_le. unfold BPF_MAXINSNS. lia. }
  rewrite N1, N2. reflexivity.
Qed.
Print Assumptions compiled_kernel_valid.

(** x/net/bpf stores jt and jf in uint8 fields; the kernel's verifier does not bound them itself *)
Theorem compiled_jumps_fit_byte le k ai pol p :
  compile le k ai pol = Ok p -> Forall byte_jump p.
Proof. intros H. apply (compiled_structure _ _ _ _ _ H). Qed.
Print Assumptions compiled_jumps_fit_byte.

(** ** 3. The return words of a compiled program *)
Theorem return_set_closed le k ai pol p v :
  compile le k ai pol = Ok p -> In (IRet v) p ->
  v = ret_word k (p_default pol) \/
  (exists g, In g (p_groups pol) /\ v = ret_word k (g_action g)) \/
  (ai_id ai = k_x86_64_id k /\ v = N.lor (k_errno k) (k_enosys k)).
Proof.
  intros H Hin. destruct (compile_shape _ _ _ _ _ H) as (body & B & ->).
  destruct (compile_groups_facts _ _ _ _ _ B) as (_ & _ & Inv).
  apply in_app_or in Hin. destruct Hin as [Hin|Hin].
  { exfalso. unfold prologue in Hin.
    destruct (_ <=? 255); cbn [In] in Hin; repeat (destruct Hin as [Hin|Hin]; [discriminate|]); exact Hin. }
  apply in_app_or in Hin. destruct Hin as [Hin|Hin].
  { exfalso. destruct Hin as [Hin|[]]. discriminate. }
  apply in_app_or in Hin. destruct Hin as [Hin|Hin].
  { right. right. unfold x32_filter in Hin. destruct (N.eqb_spec (ai_id ai) (k_x86_64_id k)) as [Ex|Ex]; [|destruct Hin].
    destruct Hin as [Hin|[Hin|[]]]; [discriminate|]. injection Hin as <-. split; [exact Ex|reflexivity]. }
  apply in_app_or in Hin. destruct Hin as [Hin|Hin].
  { right. left. rewrite Forall_forall in Inv. exact (Inv _ Hin). }
  left. destruct Hin as [Hin|[]]. injection Hin as <-. reflexivity.
Qed.
Print Assumptions return_set_closed.

(** ** 5. Raw compiled programs return the decision of the specification *)
Theorem compiled_no_fault le k ai pol p ev :
  compile le k ai pol = Ok p -> (length p <= 4096)%nat ->
  run_raw (word_at le ev) (map encode p) 0 0 = ORet (decide k ai pol ev).
Proof.
  intros H Hlen. rewrite run_raw_encode.
  apply (compile_correct le k ai ev pol p H). unfold two32. lia.
Qed.
Print Assumptions compiled_no_fault.

(** the same conclusion "some return" obtained through the certified checker: this is the path the
    harness uses on the programs the Go implementation emits *)
Corollary compiled_checked_returns le k ai pol p ev a :
  compile le k ai pol = Ok p -> (length p <= 4096)%nat ->
  exists v, run_raw (word_at le ev) (map encode p) 0 a = ORet v.
Proof.
  intros H Hlen. apply kernel_check_sound.
  - eapply compiled_kernel_valid; eauto.
  - apply ours_encode.
  - apply word_at_total.
Qed.
Print Assumptions compiled_checked_returns.

(** ** 6. Non-vacuity: concrete policies satisfy the hypotheses and are accepted *)
Module Examples.
Definition ex_ai : arch_info :=
  {| ai_name := "x86_64"; ai_id := 3221225534; ai_mask := 0;
     ai_table := [(0,"read"); (1,"write"); (2,"open"); (59,"execve")]%string |}.
Definition ex_k : consts :=
  {| k_named_actions := [0; 2147483648; 196608; 327680; 2146435072; 2147221504; 2147418112];
     k_errno := 327680; k_eperm := 1; k_enosys := 38; k_x32mask := 1073741824; k_x86_64_id := 3221225534 |}.
(** default allow; execve -> errno; read, and write when arg0 == 2 -> kill *)
Definition ex_pol : policy :=
  {| p_default := 2147418112;
     p_groups := [ {| g_names := ["execve"%string]; g_nwc := []; g_action := 327680 |};
                   {| g_names := ["read"%string];
                      g_nwc := [ {| nc_name := "write"; nc_conds := [ {| c_arg := 0; c_op := OpEq; c_val := 2 |} ] |} ];
                      g_action := 0 |} ] |}.

Definition ex_prog : list instr :=
  [ILd 4; IJmpIf JNe 3221225534 15 0; ILd 0; IJmpIf JGe 1073741824 0 1; IRet 327718;
   IJmpIf JEq 59 1 0; IJa 1; IRet 327681;
   IJmpIf JEq 0 7 0; IJmpIf JNe 1 5 0; ILd 20; IJmpIf JNe 0 2 0; ILd 16; IJmpIf JEq 2 2 0; ILd 0; IJa 1; IRet 0;
   IRet 2147418112].

Example ex_wf : wf_policy ex_pol /\ wf_arch ex_ai /\ wf_consts ex_k.
Proof.
  unfold wf_policy, wf_arch, wf_consts, wf_group, wf_cnd.
  repeat (split || constructor); reflexivity.
Qed.

Example ex_compiles : compile true ex_k ex_ai ex_pol = Ok ex_prog.
Proof. vm_compute. reflexivity. Qed.

Example ex_hypotheses : (length ex_prog <= 4096)%nat.
Proof. cbn. lia. Qed.

Example ex_accepted : kernel_check (map encode ex_prog) = true.
Proof. vm_compute. reflexivity. Qed.

(** the theorems apply, and agree with the computation *)
Example ex_accepted_by_theorem : kernel_check (map encode ex_prog) = true.
Proof. exact (compiled_kernel_valid _ _ _ _ _ ex_compiles ex_hypotheses). Qed.

Example ex_returns : forall v, In (IRet v) ex_prog -> In v [2147418112; 327681; 0; 327718].
Proof.
  intros v H. destruct (return_set_closed _ _ _ _ _ _ ex_compiles H) as [->|[(g & Hg & ->)|[_ ->]]].
  - left. reflexivity.
  - destruct Hg as [<-|[<-|[]]]; [right; left|right; right; left]; reflexivity.
  - right. right. right. left. reflexivity.
Qed.

(** a large policy on another architecture, big-endian: 80 conditional entries with two conditions each and
    100 plain names; 1095 instructions, long form of the architecture check (ja 1091), bridges *)
Definition nm (n:nat) : string := String (Ascii.ascii_of_nat n) EmptyString.
Definition big_ai : arch_info :=
  {| ai_name := "arm64"; ai_id := 3221225655; ai_mask := 0;
     ai_table := map (fun n => (N.of_nat n, nm n)) (seq 0 200) |}.
Definition big_pol : policy :=
  {| p_default := 0;
     p_groups := [ {| g_names := map nm (seq 100 50);
                      g_nwc := map (fun n => {| nc_name := nm n;
                                                nc_conds := [ {| c_arg := 5; c_op := OpGe; c_val := 4294967296 + N.of_nat n |};
                                                              {| c_arg := 1; c_op := OpNSet; c_val := 7 |} ] |}) (seq 0 80);
                      g_action := 2147418112 |};
                   {| g_names := map nm (seq 150 50); g_nwc := []; g_action := 327680 |} ] |}.

Example big_accepted :
  exists p, compile false ex_k big_ai big_pol = Ok p /\ length p = 1095%nat /\
            firstn 3 p = [ILd 4; IJmpIf JEq 3221225655 1 0; IJa 1091] /\
            kernel_check (map encode p) = true.
Proof. eexists. split; [vm_compute; reflexivity|]. split; [|split]; vm_compute; reflexivity. Qed.

(** the length hypothesis of [compiled_kernel_valid] cannot be dropped: one name with 1200 one-condition lists *)
Definition huge_pol : policy :=
  {| p_default := 0;
     p_groups := [ {| g_names := [];
                      g_nwc := map (fun n => {| nc_name := nm 1; nc_conds := [ {| c_arg := 0; c_op := OpEq; c_val := N.of_nat n |} ] |}) (seq 0 1200);
                      g_action := 2147418112 |} ] |}.
Example bound_needed :
  match compile true ex_k big_ai huge_pol with
  | Ok p => Nat.ltb 4096 (length p) && negb (kernel_check (map encode p))
  | Error _ => false
  end = true.
Proof. vm_compute. reflexivity. Qed.
End Examples.
