(** * ValidProofs: every emitted program is a valid seccomp filter with a closed return set (C05).

    1. [run_raw_encode]        the raw encoding of x/net/bpf preserves the meaning of a program;
    2. [compiled_kernel_valid] the kernel's verifier (KernelCheck.kernel_check) accepts every compiled
                               program of at most 4096 instructions;
    3. [return_set_closed]     the return words of a compiled program are the policy's actions
                               (plus ERRNO|ENOSYS of the x32 guard);
    4. [kernel_check_sound]    a program accepted by [kernel_check] that only uses the seven opcodes the
                               library emits never faults and never runs off its end (certified checker,
                               usable on any raw program);
    5. [compiled_no_fault]     raw compiled programs return the decision of the specification;
    6. non-vacuity examples. *)
From Coq Require Import String List NArith Bool Lia.
From Coq Require Import ZifyBool ZifyN ZifyNat.
From Seccomp Require Import Words Machine Result Assembler AssemblerProofs Policy Spec Raw KernelCheck CompileProofs.
Import ListNotations.
Open Scope N_scope.
Open Scope list_scope.

(** ** 1. The raw encoding preserves the meaning *)
Theorem run_raw_encode : forall ld p k a, run_raw ld (map encode p) k a = run ld p k a.
Proof.
  intros ld p. induction p as [|i p IH]; intros k a; [reflexivity|].
  cbn [map run_raw run]. destruct (k =? 0) eqn:K; [|apply IH].
  destruct i as [off|c kk jt jf|s|v].
  - cbn. destruct (ld off); [apply IH|reflexivity].
  - destruct c; cbn -[N.ltb N.leb N.land]; rewrite IH.
    + reflexivity.
    + destruct (a =? kk); reflexivity.
    + reflexivity.
    + rewrite (N.ltb_antisym kk a). destruct (kk <=? a); reflexivity.
    + reflexivity.
    + rewrite (N.leb_antisym kk a). destruct (kk <? a); reflexivity.
    + reflexivity.
    + destruct (N.land a kk =? 0); reflexivity.
  - cbn. apply IH.
  - reflexivity.
Qed.
Print Assumptions run_raw_encode.

(** ** 4. A certified checker: what [kernel_check] guarantees for programs over the library's opcodes *)
Definition our_codes : list N := [32;5;21;37;53;69;6].
Definition our_code (c:N) : bool := existsb (N.eqb c) our_codes.
Definition ours (raw:list sock_filter) : bool := forallb (fun i => our_code (sf_code i)) raw.

(** the seccomp load succeeds at every aligned offset inside struct seccomp_data *)
Definition ld_total (ld:N -> option N) : Prop :=
  forall off, off < 64 -> N.land off 3 = 0 -> exists w, ld off = Some w.

Lemma our_code_cases c :
  our_code c = true -> c = 32 \/ c = 5 \/ c = 21 \/ c = 37 \/ c = 53 \/ c = 69 \/ c = 6.
Proof.
  unfold our_code, our_codes. cbn [existsb]. rewrite !orb_true_iff, !N.eqb_eq. intuition congruence.
Qed.

(** [last_is_ret] without [rev] *)
Fixpoint ends_ret (p:list sock_filter) : bool :=
  match p with
  | [] => false
  | i :: r => match r with [] => is_ret (sf_code i) | _ :: _ => ends_ret r end
  end.

Lemma last_is_ret_cons i r : r <> [] -> last_is_ret (i :: r) = last_is_ret r.
Proof.
  intros H. destruct (exists_last H) as (r' & x & ->). unfold last_is_ret.
  cbn [rev]. rewrite rev_unit. reflexivity.
Qed.

Lemma last_is_ret_ends p : last_is_ret p = ends_ret p.
Proof.
  induction p as [|i p IH]; [reflexivity|].
  destruct p as [|j p']; [reflexivity|].
  rewrite last_is_ret_cons by discriminate. rewrite IH. reflexivity.
Qed.

Lemma ends_ret_tail i r : ends_ret (i :: r) = true -> r <> [] -> ends_ret r = true.
Proof. destruct r as [|j r']; [congruence|]. intros H _. exact H. Qed.

Lemma ends_ret_nonret i r :
  ends_ret (i :: r) = true -> is_ret (sf_code i) = false -> r <> [].
Proof. destruct r as [|j r']; cbn [ends_ret]; [congruence|discriminate]. Qed.

Lemma nonempty_length {A} (r:list A) : r <> [] -> 0 < N.of_nat (length r).
Proof. destruct r; [congruence|]. cbn [length]. lia. Qed.
Lemma length_nonempty {A} (r:list A) : 0 < N.of_nat (length r) -> r <> [].
Proof. destruct r; [cbn; lia|discriminate]. Qed.

(** what bpf_check_classic says about jumps *)
Lemma classic_ja i rest : classic_insn_ok i rest = true -> sf_code i = 5 -> sf_k i < rest.
Proof.
  unfold classic_insn_ok. rewrite !andb_true_iff. intros [[[_ H] _] _] E.
  rewrite E in H. change (5 =? 5) with true in H. cbv iota in H. apply N.ltb_lt. exact H.
Qed.

Lemma classic_cond i rest :
  classic_insn_ok i rest = true -> is_cond_jump (sf_code i) = true -> sf_jt i < rest /\ sf_jf i < rest.
Proof.
  unfold classic_insn_ok. rewrite !andb_true_iff. intros [[_ H] _] E.
  rewrite E in H. apply andb_true_iff in H. rewrite !N.ltb_lt in H. exact H.
Qed.

Lemma seccomp_ld i : seccomp_insn_ok i = true -> sf_code i = 32 -> sf_k i < 64 /\ N.land (sf_k i) 3 = 0.
Proof.
  unfold seccomp_insn_ok. rewrite andb_true_iff. intros [_ H] E.
  rewrite E in H. change (32 =? 32) with true in H. cbv iota in H.
  apply andb_true_iff in H. rewrite N.ltb_lt, N.eqb_eq in H. exact H.
Qed.

Lemma checked_no_fault ld : ld_total ld -> forall raw k a,
  classic_insns_ok raw = true -> forallb seccomp_insn_ok raw = true -> ours raw = true ->
  ends_ret raw = true -> k < N.of_nat (length raw) ->
  exists v, run_raw ld raw k a = ORet v.
Proof.
  intros Hld raw. induction raw as [|i r IH]; intros k a Hc Hs Ho He Hk; [discriminate|].
  cbn [classic_insns_ok forallb ours] in Hc, Hs, Ho. fold (ours r) in Ho.
  apply andb_true_iff in Hc. destruct Hc as [Hc Hcr].
  apply andb_true_iff in Hs. destruct Hs as [Hs Hsr].
  apply andb_true_iff in Ho. destruct Ho as [Ho Hor].
  cbn [length] in Hk.
  cbn [run_raw]. destruct (N.eqb_spec k 0) as [->|K].
  - unfold BPF_LD_W_ABS, BPF_JMP_JA, BPF_JMP_JEQ_K, BPF_JMP_JGT_K, BPF_JMP_JGE_K, BPF_JMP_JSET_K, BPF_RET_K.
    destruct (our_code_cases _ Ho) as [E|[E|[E|[E|[E|[E|E]]]]]]; rewrite E.
    + (* ld *) change (32 =? 32) with true. cbv iota.
      destruct (seccomp_ld i Hs E) as [L1 L2]. destruct (Hld _ L1 L2) as [w ->].
      assert (Hne: r <> []) by (apply (ends_ret_nonret i r He); rewrite E; reflexivity).
      apply IH; auto; [eapply ends_ret_tail; eauto|apply nonempty_length; exact Hne].
    + (* ja *) change (5 =? 32) with false. change (5 =? 5) with true. cbv iota.
      pose proof (classic_ja i _ Hc E) as J.
      assert (Hne: r <> []) by (apply length_nonempty; lia).
      apply IH; auto. eapply ends_ret_tail; eauto.
    + (* jeq *) change (21 =? 32) with false. change (21 =? 5) with false. change (21 =? 21) with true. cbv iota.
      destruct (classic_cond i _ Hc) as [J1 J2]; [rewrite E; reflexivity|].
      assert (Hne: r <> []) by (apply length_nonempty; lia).
      apply IH; auto; [eapply ends_ret_tail; eauto|]. destruct (a =? sf_k i); assumption.
    + (* jgt *) change (37 =? 32) with false. change (37 =? 5) with false. change (37 =? 21) with false.
      change (37 =? 37) with true. cbv iota.
      destruct (classic_cond i _ Hc) as [J1 J2]; [rewrite E; reflexivity|].
      assert (Hne: r <> []) by (apply length_nonempty; lia).
      apply IH; auto; [eapply ends_ret_tail; eauto|]. destruct (sf_k i <? a); assumption.
    + (* jge *) change (53 =? 32) with false. change (53 =? 5) with false. change (53 =? 21) with false.
      change (53 =? 37) with false. change (53 =? 53) with true. cbv iota.
      destruct (classic_cond i _ Hc) as [J1 J2]; [rewrite E; reflexivity|].
      assert (Hne: r <> []) by (apply length_nonempty; lia).
      apply IH; auto; [eapply ends_ret_tail; eauto|]. destruct (sf_k i <=? a); assumption.
    + (* jset *) change (69 =? 32) with false. change (69 =? 5) with false. change (69 =? 21) with false.
      change (69 =? 37) with false. change (69 =? 53) with false. change (69 =? 69) with true. cbv iota.
      destruct (classic_cond i _ Hc) as [J1 J2]; [rewrite E; reflexivity|].
      assert (Hne: r <> []) by (apply length_nonempty; lia).
      apply IH; auto; [eapply ends_ret_tail; eauto|]. destruct (negb (N.land a (sf_k i) =? 0)); assumption.
    + (* ret *) change (6 =? 32) with false. change (6 =? 5) with false. change (6 =? 21) with false.
      change (6 =? 37) with false. change (6 =? 53) with false. change (6 =? 69) with false.
      change (6 =? 6) with true. cbv iota. eexists. reflexivity.
  - assert (Hne: r <> []) by (apply length_nonempty; lia).
    apply IH; auto; [eapply ends_ret_tail; eauto|lia].
Qed.

Theorem kernel_check_sound ld raw :
  kernel_check raw = true -> ours raw = true -> ld_total ld ->
  forall a, exists v, run_raw ld raw 0 a = ORet v.
Proof.
  unfold kernel_check, bpf_check_classic. rewrite !andb_true_iff, negb_true_iff, N.eqb_neq.
  intros [[[Hn _] [[Hc Hl] _]] Hs] Ho Hld a.
  rewrite last_is_ret_ends in Hl.
  apply checked_no_fault; auto. lia.
Qed.
Print Assumptions kernel_check_sound.

Theorem word_at_total le ev : ld_total (word_at le ev).
Proof.
  intros off H1 H2. unfold word_at.
  assert (E: off mod 4 = 0) by (change 4 with (2^2); rewrite <- N.land_ones; exact H2).
  rewrite E. change (0 =? 0) with true. cbn [negb orb].
  replace (64 <=? off) with false by (symmetry; apply N.leb_gt; exact H1).
  destruct (off =? 0); [eauto|]. destruct (off =? 4); [eauto|].
  destruct (off =? 8); [eauto|]. destruct (off =? 12); eauto.
Qed.
Print Assumptions word_at_total.
