(** * Codegen: the template language into which /verif/translator renders the code generator of filter.go
    (the per-operation chain of builder calls in SyscallWithConditions.Assemble, and the shape of
    Program.LdHi / Program.LdLo), and its meaning as label-level items.

    gen/GenCodegen.v is REGENERATED from the source on every run; the theorems of this file say that a chain
    which passes the boolean check [chain_ok] means exactly the hand-written [gen_cond] of Policy.v - so the
    compiler proofs apply to the chain that is in the source now. *)
From Coq Require Import List NArith ZArith Bool String Lia ZifyN.
From Seccomp Require Import Words Machine Result Assembler Policy.
Import ListNotations.
Open Scope N_scope.

Inductive cval := VHi | VLo | VOther (src:string).          (* uint32(c.Value>>32) | uint32(c.Value) *)
Inductive clab := LMatch | LNoMatch | LOther (src:string).
Inductive ccall :=
| CLdHi | CLdLo
| CJmpIfTrue (c:option cond) (v:cval) (l:clab)
| CJmpIf (c:option cond) (v:cval) (tl fl:clab)
| CUnknown (src:string).

Record ld_shape := { ls_base : string; ls_stride : string; ls_endian : string; ls_inc : string; ls_off : string; ls_size : string; ls_stmts : nat }.

Section Interp.
Variable le : bool.

Definition cval_of (c:cnd) (v:cval) : option N :=
  match v with VHi => Some (hi (c_val c)) | VLo => Some (lo (c_val c)) | VOther _ => None end.
Definition clab_of (mt nm:label) (l:clab) : option label :=
  match l with LMatch => Some mt | LNoMatch => Some nm | LOther _ => None end.

(** the builder calls of one branch, executed on the builder: JmpIfTrue allocates the next label and places it
    right behind the jump (assembler.go); LdHi/LdLo emit the load of the half for the byte order in effect *)
Fixpoint interp_calls (c:cnd) (mt nm:label) (calls:list ccall) (n:label) : option (list item * label) :=
  match calls with
  | [] => Some ([], n)
  | call :: rest =>
    match call with
    | CLdHi => match interp_calls c mt nm rest n with
               | Some (its, n') => Some (TLd (ld_off (c_arg c) le) :: its, n') | None => None end
    | CLdLo => match interp_calls c mt nm rest n with
               | Some (its, n') => Some (TLd (ld_off (c_arg c) (negb le)) :: its, n') | None => None end
    | CJmpIfTrue (Some j) v l =>
        match cval_of c v, clab_of mt nm l, interp_calls c mt nm rest (n+1) with
        | Some k, Some tl, Some (its, n') => Some (TJmpIf j k tl n :: TLabel n :: its, n')
        | _, _, _ => None
        end
    | CJmpIf (Some j) v l1 l2 =>
        match cval_of c v, clab_of mt nm l1, clab_of mt nm l2, interp_calls c mt nm rest n with
        | Some k, Some tl, Some fl, Some (its, n') => Some (TJmpIf j k tl fl :: its, n')
        | _, _, _, _ => None
        end
    | _ => None
    end
  end.

Definition op_of_ident (s:string) : option op :=
  if String.eqb s "Equal" then Some OpEq else if String.eqb s "NotEqual" then Some OpNe
  else if String.eqb s "GreaterThan" then Some OpGt else if String.eqb s "LessThan" then Some OpLt
  else if String.eqb s "GreaterOrEqual" then Some OpGe else if String.eqb s "LessOrEqual" then Some OpLe
  else if String.eqb s "BitsSet" then Some OpSet else if String.eqb s "BitsNotSet" then Some OpNSet
  else None.

(** the branch the chain takes for an operation: the first one whose constant is the operation's *)
Fixpoint chain_branch (chain:list (string * list ccall)) (o:op) : option (list ccall) :=
  match chain with
  | [] => None
  | (name, calls) :: rest =>
    match op_of_ident name with
    | Some o' => if (match o, o' with
                     | OpEq, OpEq | OpNe, OpNe | OpGt, OpGt | OpLt, OpLt | OpGe, OpGe | OpLe, OpLe | OpSet, OpSet | OpNSet, OpNSet => true
                     | _, _ => false end)
                 then Some calls else chain_branch rest o
    | None => None
    end
  end.

(** the meaning of the chain for one condition: no branch taken (no default branch) emits nothing *)
Definition chain_gen (chain:list (string * list ccall)) (c:cnd) (mt nm n:label) : option (list item * label) :=
  match chain_branch chain (c_op c) with
  | Some calls => interp_calls c mt nm calls n
  | None => Some ([], n)
  end.
End Interp.

(** ** The chain the proofs were written for *)
Definition expected_chain : list (string * list ccall) := [
  ("Equal"%string,          [CLdHi; CJmpIfTrue (Some JNe) VHi LNoMatch; CLdLo; CJmpIf (Some JEq) VLo LMatch LNoMatch]);
  ("NotEqual"%string,       [CLdHi; CJmpIfTrue (Some JNe) VHi LMatch; CLdLo; CJmpIf (Some JNe) VLo LMatch LNoMatch]);
  ("GreaterThan"%string,    [CLdHi; CJmpIfTrue (Some JGt) VHi LMatch; CJmpIfTrue (Some JNe) VHi LNoMatch; CLdLo; CJmpIf (Some JGt) VLo LMatch LNoMatch]);
  ("GreaterOrEqual"%string, [CLdHi; CJmpIfTrue (Some JGt) VHi LMatch; CJmpIfTrue (Some JNe) VHi LNoMatch; CLdLo; CJmpIf (Some JGe) VLo LMatch LNoMatch]);
  ("LessThan"%string,       [CLdHi; CJmpIfTrue (Some JLt) VHi LMatch; CJmpIfTrue (Some JNe) VHi LNoMatch; CLdLo; CJmpIf (Some JLt) VLo LMatch LNoMatch]);
  ("LessOrEqual"%string,    [CLdHi; CJmpIfTrue (Some JLt) VHi LMatch; CJmpIfTrue (Some JNe) VHi LNoMatch; CLdLo; CJmpIf (Some JLe) VLo LMatch LNoMatch]);
  ("BitsSet"%string,        [CLdHi; CJmpIfTrue (Some JSet) VHi LMatch; CLdLo; CJmpIf (Some JSet) VLo LMatch LNoMatch]);
  ("BitsNotSet"%string,     [CLdHi; CJmpIfTrue (Some JSet) VHi LNoMatch; CLdLo; CJmpIf (Some JNSet) VLo LMatch LNoMatch])
].

(** the hand-written generator of Policy.v IS the meaning of that chain, for every condition, label and byte order *)
Theorem gen_cond_is_chain le c mt nm n :
  chain_gen le expected_chain c mt nm n = Some (gen_cond le c mt nm n).
Proof.
  unfold chain_gen, gen_cond. destruct c as [a o v]. cbn [c_op c_arg c_val].
  destruct o; cbn -[hi lo ld_off N.add]; rewrite <- ?N.add_assoc; reflexivity.
Qed.

(** ** Semantic comparison of a regenerated chain with the expected one.
    Two chains have the same meaning if, operation by operation, they select branches with equal call lists
    (so branches may be reordered - they are mutually exclusive - but not altered). *)
Definition cval_eqb (a b:cval) : bool :=
  match a, b with VHi, VHi | VLo, VLo => true | _, _ => false end.
Definition clab_eqb (a b:clab) : bool :=
  match a, b with LMatch, LMatch | LNoMatch, LNoMatch => true | _, _ => false end.
Definition cond_eqb (a b:cond) : bool :=
  match a, b with
  | JEq, JEq | JNe, JNe | JGt, JGt | JLt, JLt | JGe, JGe | JLe, JLe | JSet, JSet | JNSet, JNSet => true
  | _, _ => false
  end.
Definition ocond_eqb (a b:option cond) : bool :=
  match a, b with Some x, Some y => cond_eqb x y | _, _ => false end.
Definition ccall_eqb (a b:ccall) : bool :=
  match a, b with
  | CLdHi, CLdHi | CLdLo, CLdLo => true
  | CJmpIfTrue c v l, CJmpIfTrue c' v' l' => ocond_eqb c c' && cval_eqb v v' && clab_eqb l l'
  | CJmpIf c v l1 l2, CJmpIf c' v' l1' l2' => ocond_eqb c c' && cval_eqb v v' && clab_eqb l1 l1' && clab_eqb l2 l2'
  | _, _ => false
  end.
Fixpoint calls_eqb (a b:list ccall) : bool :=
  match a, b with
  | [], [] => true
  | x :: a', y :: b' => ccall_eqb x y && calls_eqb a' b'
  | _, _ => false
  end.

Definition all_ops : list op := [OpEq; OpNe; OpGt; OpLt; OpGe; OpLe; OpSet; OpNSet; OpOther].

Definition chain_ok (chain:list (string * list ccall)) : bool :=
  forallb (fun o => match chain_branch chain o, chain_branch expected_chain o with
                    | Some a, Some b => calls_eqb a b
                    | None, None => true
                    | _, _ => false
                    end) all_ops.

Lemma cval_eqb_eq a b : cval_eqb a b = true -> a = b.
Proof. destruct a, b; cbn; congruence. Qed.
Lemma clab_eqb_eq a b : clab_eqb a b = true -> a = b.
Proof. destruct a, b; cbn; congruence. Qed.
Lemma cond_eqb_eq a b : cond_eqb a b = true -> a = b.
Proof. destruct a, b; cbn; congruence. Qed.
Lemma ocond_eqb_eq a b : ocond_eqb a b = true -> a = b.
Proof. destruct a, b; cbn; try congruence. intros H. f_equal. apply cond_eqb_eq. exact H. Qed.
Lemma ccall_eqb_eq a b : ccall_eqb a b = true -> a = b.
Proof.
  destruct a, b; cbn; try congruence; intros H; repeat (apply andb_true_iff in H; destruct H as [H ?]);
    repeat match goal with
           | X: ocond_eqb _ _ = true |- _ => apply ocond_eqb_eq in X
           | X: cval_eqb _ _ = true |- _ => apply cval_eqb_eq in X
           | X: clab_eqb _ _ = true |- _ => apply clab_eqb_eq in X
           end; subst; reflexivity.
Qed.
Lemma calls_eqb_eq a : forall b, calls_eqb a b = true -> a = b.
Proof.
  induction a as [|x a IH]; intros [|y b] H; cbn in H; try congruence.
  apply andb_true_iff in H. destruct H as [H1 H2]. apply ccall_eqb_eq in H1. subst. f_equal. apply IH. exact H2.
Qed.

Lemma all_ops_complete o : In o all_ops.
Proof. destruct o; cbn; tauto. Qed.

(** A regenerated chain that passes the check generates, for EVERY condition, exactly the items of [gen_cond]. *)
Theorem chain_ok_sound chain : chain_ok chain = true ->
  forall le c mt nm n, chain_gen le chain c mt nm n = Some (gen_cond le c mt nm n).
Proof.
  unfold chain_ok. rewrite forallb_forall. intros H le c mt nm n.
  rewrite <- (gen_cond_is_chain le c mt nm n). unfold chain_gen.
  specialize (H (c_op c) (all_ops_complete _)).
  destruct (chain_branch chain (c_op c)) as [a|], (chain_branch expected_chain (c_op c)) as [b|]; try discriminate; [|reflexivity].
  apply calls_eqb_eq in H. subst. reflexivity.
Qed.

(** ** LdHi / LdLo: the model's offset is what the source computes, given the source's constants *)
Definition shape_ok (s:ld_shape) (endian:string) : bool :=
  String.eqb (ls_base s) "argumentOffset" && String.eqb (ls_stride s) "sizeOfUint64" &&
  String.eqb (ls_endian s) endian && String.eqb (ls_inc s) "uint32(sizeOfUint32)" &&
  String.eqb (ls_off s) "offset" && String.eqb (ls_size s) "sizeOfUint32" && Nat.eqb (ls_stmts s) 3.

(** offset := base + stride*arg (uint32 arithmetic); if the byte order is the named one, offset += inc *)
Definition shape_offset (base stride inc:N) (plus:bool) (arg:N) : N :=
  let off := (base + (stride * arg) mod two32) mod two32 in if plus then (off + inc) mod two32 else off.

Theorem ld_off_is_source arg plus : shape_offset 16 8 4 plus arg = ld_off arg plus.
Proof.
  unfold shape_offset, ld_off, two32. destruct plus; zify; Z.div_mod_to_equations; lia.
Qed.

(** ** Policy.Assemble: the layout of the final program as regenerated from the source *)
Inductive pinstr :=
| PILoad (off size:string)
| PIJumpIf (c:option cond) (val skip_true skip_false:string)
| PIJump (skip:string)
| PIRet (val:string)
| PIUnknown (src:string).
Inductive ppiece :=
| PInstr (i:pinstr)
| PSplice (name:string)
| PIf (cond:string) (a b:list ppiece)
| PReturn (src:string)
| PUnknown (src:string).

Section Layout.
Variable k : consts.
Variable ai : arch_info.
Variable default_action : N.
Variable x32 body : list instr.    (* the values of x32Filter and instructions *)

Definition jumpN_value : N := N.of_nat (List.length x32 + List.length body + 1).

(** the value of the Go expressions that occur as instruction operands (uint32 / uint8 conversions explicit) *)
Definition operand (e:string) : option N :=
  if String.eqb e "" then Some 0
  else if String.eqb e "1" then Some 1
  else if String.eqb e "archOffset" then Some 4
  else if String.eqb e "syscallNumOffset" then Some 0
  else if String.eqb e "uint32(p.arch.ID)" then Some (ai_id ai)
  else if String.eqb e "uint8(jumpN)" then Some (jumpN_value mod 256)
  else if String.eqb e "uint32(jumpN)" then Some (jumpN_value mod two32)
  else if String.eqb e "uint32(arch.X32.SeccompMask)" then Some (k_x32mask k)
  else if String.eqb e "uint32(ActionErrno) | uint32(errnoENOSYS)" then Some (N.lor (k_errno k) (k_enosys k))
  else if String.eqb e "returnValue(p.DefaultAction)" then Some (ret_word k default_action)
  else None.

Definition interp_pinstr (i:pinstr) : option instr :=
  match i with
  | PILoad off size => if String.eqb size "sizeOfUint32" then option_map ILd (operand off) else None
  | PIJumpIf (Some c) v st sf =>
      match operand v, operand st, operand sf with
      | Some v', Some t, Some f => Some (IJmpIf c v' t f)
      | _, _, _ => None
      end
  | PIJump s => option_map IJa (operand s)
  | PIRet v => option_map IRet (operand v)
  | _ => None
  end.

Fixpoint interp_pinstrs (l:list pinstr) : option (list instr) :=
  match l with
  | [] => Some []
  | i :: r => match interp_pinstr i, interp_pinstrs r with Some x, Some y => Some (x :: y) | _, _ => None end
  end.

Definition guard_of (e:string) : option bool :=
  if String.eqb e "jumpN <= 255" then Some (jumpN_value <=? 255) else None.

(** the program built by the append statements; [PReturn "return program, nil"] ends it *)
Fixpoint interp_layout (fuel:nat) (l:list ppiece) : option (list instr) :=
  match fuel with
  | O => None
  | S fuel' =>
    match l with
    | [] => None                         (* fell off the end without returning the program *)
    | PReturn s :: _ => if String.eqb s "return program, nil" then Some [] else None
    | PInstr i :: r => match interp_pinstr i, interp_layout fuel' r with Some x, Some y => Some (x :: y) | _, _ => None end
    | PSplice n :: r =>
        match (if String.eqb n "x32Filter" then Some x32 else if String.eqb n "instructions" then Some body else None), interp_layout fuel' r with
        | Some x, Some y => Some (x ++ y) | _, _ => None end
    | PIf c a b :: r =>
        match guard_of c with
        | Some g => match interp_branch fuel' (if g then a else b), interp_layout fuel' r with Some x, Some y => Some (x ++ y) | _, _ => None end
        | None => None
        end
    | PUnknown _ :: _ => None
    end
  end
with interp_branch (fuel:nat) (l:list ppiece) : option (list instr) :=
  match fuel with
  | O => None
  | S fuel' =>
    match l with
    | [] => Some []
    | PInstr i :: r => match interp_pinstr i, interp_branch fuel' r with Some x, Some y => Some (x :: y) | _, _ => None end
    | _ => None
    end
  end.
End Layout.

(** the layout, guard and helper the compiler proofs were written for *)
Definition expected_layout : list ppiece := [
  PInstr (PILoad "archOffset" "sizeOfUint32");
  PIf "jumpN <= 255" [PInstr (PIJumpIf (Some JNe) "uint32(p.arch.ID)" "uint8(jumpN)" "")]
                     [PInstr (PIJumpIf (Some JEq) "uint32(p.arch.ID)" "1" ""); PInstr (PIJump "uint32(jumpN)")];
  PInstr (PILoad "syscallNumOffset" "sizeOfUint32");
  PSplice "x32Filter"; PSplice "instructions";
  PInstr (PIRet "returnValue(p.DefaultAction)");
  PReturn "return program, nil" ]%string.
Definition expected_x32_guard : list pinstr :=
  [ PIJumpIf (Some JGe) "uint32(arch.X32.SeccompMask)" "" "1"; PIRet "uint32(ActionErrno) | uint32(errnoENOSYS)" ]%string.

(** the expected layout means exactly the program [compile] returns, for every architecture record, constants,
    default action and group code - both encodings of the architecture jump *)
Theorem expected_layout_is_compile k ai d body :
  interp_layout k ai d (x32_filter k ai) body 20 expected_layout =
  Some (prologue ai (jumpN_value (x32_filter k ai) body) ++ [ILd 0] ++ x32_filter k ai ++ body ++ [IRet (ret_word k d)]).
Proof.
  unfold expected_layout, prologue. cbn -[x32_filter jumpN_value N.leb N.modulo ret_word app].
  destruct (jumpN_value (x32_filter k ai) body <=? 255); cbn -[x32_filter jumpN_value N.modulo ret_word app];
    rewrite ?app_nil_r; reflexivity.
Qed.

Theorem expected_x32_guard_is_model k ai d :
  interp_pinstrs k ai d [] [] expected_x32_guard = Some [IJmpIf JGe (k_x32mask k) 0 1; IRet (N.lor (k_errno k) (k_enosys k))].
Proof. reflexivity. Qed.

(** ** Policy.Validate, and the statements of Policy.Assemble in front of `program := make(...)`, as regenerated templates *)
Inductive pvcond := PVDefaultUnnamed | PVNoGroups | PVOther (src:string).
Inductive apstmt :=
| APValidate        (* if err := p.Validate(); err != nil { return nil, err } *)
| APResolveArch     (* if p.arch == nil { a, err := arch.GetInfo(""); if err != nil { return nil, err }; p.arch = a } *)
| APDeclBody        (* var instructions []bpf.Instruction *)
| APGroups          (* for _, group := range p.Syscalls { if group.arch == nil { group.arch = p.arch };
                       groupInsts, err := group.assemble(); if err != nil { return nil, err };
                       instructions = append(instructions, groupInsts...) } *)
| APDeclX32         (* var x32Filter []bpf.Instruction *)
| APGuardX32        (* if <x32_guard_condition> { x32Filter = <x32_guard> } : see the x32 guard theorem *)
| APUnknown (src:string).

Section Prefix.
Variable le : bool.
Variable k : consts.
Variable ai : arch_info.

(** [Some (Some e)]: the condition holds and error [e] is returned; [Some None]: it does not hold *)
Definition pv_error (c:pvcond) (pol:policy) : option (option err) :=
  match c with
  | PVDefaultUnnamed => Some (if is_named k (p_default pol) then None else Some EDefaultAction)
  | PVNoGroups => Some (match p_groups pol with [] => Some ENoSyscalls | _ => None end)
  | PVOther _ => None
  end.
Fixpoint validate_by_template (tpl:list pvcond) (pol:policy) : option (option err) :=
  match tpl with
  | [] => Some None
  | c :: r => match pv_error c pol with
              | Some (Some e) => Some (Some e)
              | Some None => validate_by_template r pol
              | None => None
              end
  end.

Record hstate := { hs_validated : bool; hs_body : option (list instr); hs_done : bool }.

(** the value of `instructions` when `program := make(...)` is reached, or the error returned before *)
Fixpoint head_by_template (vt:list pvcond) (pre:list apstmt) (pol:policy) (h:hstate) : option (res (list instr)) :=
  match pre with
  | [] => match hs_body h with Some b => if hs_done h then Some (Ok b) else None | None => None end
  | s :: r =>
    match s with
    | APValidate => match validate_by_template vt pol with
                    | Some (Some e) => Some (Error e)
                    | Some None => head_by_template vt r pol {| hs_validated := true; hs_body := hs_body h; hs_done := hs_done h |}
                    | None => None
                    end
    | APResolveArch | APDeclX32 | APGuardX32 => head_by_template vt r pol h
    | APDeclBody => match hs_body h with
                    | None => head_by_template vt r pol {| hs_validated := hs_validated h; hs_body := Some []; hs_done := false |}
                    | Some _ => None
                    end
    | APGroups => if hs_validated h && negb (hs_done h) then
                    match hs_body h with
                    | Some [] => match compile_groups le k ai (p_groups pol) with
                                 | Error e => Some (Error e)
                                 | Ok b => head_by_template vt r pol {| hs_validated := true; hs_body := Some b; hs_done := true |}
                                 end
                    | _ => None
                    end
                  else None
    | APUnknown _ => None
    end
  end.

Definition compile_by_templates (vt:list pvcond) (pre:list apstmt) (layout:list ppiece) (pol:policy) : option (res (list instr)) :=
  match head_by_template vt pre pol {| hs_validated := false; hs_body := None; hs_done := false |} with
  | Some (Error e) => Some (Error e)
  | Some (Ok body) => match interp_layout k ai (p_default pol) (x32_filter k ai) body 20 layout with
                      | Some p => Some (Ok p)
                      | None => None
                      end
  | None => None
  end.
End Prefix.

Definition expected_policy_validate : list pvcond := [PVDefaultUnnamed; PVNoGroups].
Definition expected_assemble_prefix : list apstmt := [APValidate; APResolveArch; APDeclBody; APGroups; APDeclX32; APGuardX32].

(** Policy.Validate: an error exactly when the default action is not a named one or there is no group, in that order *)
Theorem expected_validate_is_model k pol :
  validate_by_template k expected_policy_validate pol =
  Some (if negb (is_named k (p_default pol)) then Some EDefaultAction
        else match p_groups pol with [] => Some ENoSyscalls | _ => None end).
Proof.
  unfold expected_policy_validate. cbn [validate_by_template pv_error].
  destruct (is_named k (p_default pol)); cbn [negb]; [|reflexivity].
  destruct (p_groups pol); reflexivity.
Qed.

(** the whole of Policy.Assemble, as the three expected templates render it, is the model's [compile] *)
Theorem expected_templates_are_compile le k ai pol :
  compile_by_templates le k ai expected_policy_validate expected_assemble_prefix expected_layout pol = Some (compile le k ai pol).
Proof.
  unfold compile_by_templates, expected_assemble_prefix. cbn [head_by_template].
  rewrite expected_validate_is_model. unfold compile.
  destruct (is_named k (p_default pol)); cbn [negb]; [|reflexivity].
  destruct (p_groups pol) as [|g gs] eqn:G; [reflexivity|].
  cbn [hs_body hs_validated hs_done andb negb].
  destruct (compile_groups le k ai (g :: gs)) as [body|e]; [|reflexivity].
  cbn [head_by_template hs_body hs_done]. rewrite expected_layout_is_compile. reflexivity.
Qed.
