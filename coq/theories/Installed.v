(** * Installed: what LoadFilter hands to the kernel (C08), part 1 - definitions.

    [installed p]   the struct sock_fprog LoadFilter builds for the instruction list [p]:
                    Len = uint16(len(sockFilter)), Filter = &sockFilter[0] with sockFilter = sockFilter(raw),
                    raw = bpf.Assemble(p).
    The control flow of LoadFilter is interpreted from its regenerated skeleton by Loader.v, where the helper
    sockFilter(raw) is taken to return "the same array". That function is a loop, which the skeleton language
    does not have: the extractor renders it as [SUnknown "<source>"]. This file READS that source text: a small
    tokenizer and a recogniser for the one loop shape

        for _, V := range SRC { DST = append(DST, T{ F1: V.G1, F2: V.G2, ... }) }

    give the field assignment [(F1,G1); (F2,G2); ...], whose meaning [copy_fun] is a map over the array.
    [sockfilter_sem] puts the pieces together for a regenerated function

        func sockFilter(SRC) { DST := make(_, 0, _); <the loop>; return DST }

    and is [None] for anything else, so a source the recogniser does not understand makes the per-run theorem
    fail. The names of the locals are free; the order of the fields is free; swapping Jt and Jf, dropping a field
    or copying from another field gives a function that is not the identity and the per-run theorem
    [sockfilter_check fn_sockFilter = true] (coq/properties/InstalledInst.v) fails. *)
From Coq Require Import List NArith Bool String Ascii.
From Seccomp Require Import Machine Raw Skeleton.
Import ListNotations.
Open Scope string_scope.
Open Scope list_scope.
Open Scope N_scope.

Definition installed (p:list instr) : N * list sock_filter := (fprog_len p, map encode p).

(** ** tokens: identifiers (letters, digits, '_', '.'), single punctuation characters; blanks separate *)
Definition is_ident_char (c:ascii) : bool :=
  let n := N_of_ascii c in
  ((48 <=? n) && (n <=? 57)) || ((65 <=? n) && (n <=? 90)) || ((97 <=? n) && (n <=? 122)) || (n =? 95) || (n =? 46).
Definition is_blank (c:ascii) : bool :=
  let n := N_of_ascii c in (n =? 32) || (n =? 9) || (n =? 10) || (n =? 13).

Definition flush (cur:string) : list string := match cur with EmptyString => [] | _ => [cur] end.

Fixpoint tokens_from (s cur:string) : list string :=
  match s with
  | EmptyString => flush cur
  | String c r =>
    if is_ident_char c then tokens_from r (cur ++ String c EmptyString)%string
    else if is_blank c then flush cur ++ tokens_from r EmptyString
    else flush cur ++ String c EmptyString :: tokens_from r EmptyString
  end.
Definition tokens (s:string) : list string := tokens_from s EmptyString.

Definition is_name (s:string) : bool :=
  match s with
  | String c _ => let n := N_of_ascii c in ((65 <=? n) && (n <=? 90)) || ((97 <=? n) && (n <=? 122)) || (n =? 95)
  | EmptyString => false
  end.

(** ** the recogniser *)
Definition expect (t:string) (l:list string) : option (list string) :=
  match l with x :: r => if String.eqb x t then Some r else None | [] => None end.
Definition name (l:list string) : option (string * list string) :=
  match l with x :: r => if is_name x then Some (x, r) else None | [] => None end.

(** [strip_prefix "v." "v.Op" = Some "Op"] *)
Fixpoint strip_prefix (p s:string) : option string :=
  match p, s with
  | EmptyString, _ => Some s
  | String a p', String b s' => if Ascii.eqb a b then strip_prefix p' s' else None
  | _, _ => None
  end.

(** F: V.G [,] ... up to (not including) the closing brace *)
Fixpoint parse_fields (v:string) (l:list string) {struct l} : option (list (string * string) * list string) :=
  match l with
  | [] => None
  | f :: r0 =>
    if String.eqb f "}" then Some ([], l) else
    match r0 with
    | colon :: e :: r =>
      if negb (is_name f && String.eqb colon ":") then None else
      match strip_prefix (v ++ ".")%string e with
      | None => None
      | Some g =>
        if negb (is_name g) then None else
        match r with
        | c :: r' =>
          if String.eqb c "," then
            match parse_fields v r' with Some (fs, l') => Some ((f, g) :: fs, l') | None => None end
          else if String.eqb c "}" then Some ([(f, g)], r) else None
        | [] => None
        end
      end
    | _ => None
    end
  end.

Notation "'do' x <- a ; b" := (match a with Some x => b | None => None end)
  (at level 200, x pattern, a at level 100, b at level 200, only parsing).

(** result: (SRC, DST, T, fields) *)
Definition parse_copy_loop (toks:list string) : option (string * string * string * list (string * string)) :=
  do l <- expect "for" toks; do l <- expect "_" l; do l <- expect "," l;
  do (v, l) <- name l; do l <- expect ":" l; do l <- expect "=" l; do l <- expect "range" l;
  do (src, l) <- name l; do l <- expect "{" l;
  do (dst, l) <- name l; do l <- expect "=" l; do l <- expect "append" l; do l <- expect "(" l;
  do l <- expect dst l; do l <- expect "," l;
  do (ty, l) <- name l; do l <- expect "{" l;
  do (fs, l) <- parse_fields v l;
  do l <- expect "}" l; do l <- expect ")" l; do l <- expect "}" l;
  match l with [] => Some (src, dst, ty, fs) | _ => None end.

(** the same copy written with an index:  for I := range SRC { DST[I] = T{F: SRC[I].G, ...} }  (DST made with len(SRC)).
    F : SRC [ I ] .G [,] ... up to (not including) the closing brace *)
Fixpoint parse_index_fields (src i:string) (l:list string) {struct l} : option (list (string * string) * list string) :=
  match l with
  | [] => None
  | f :: r0 =>
    if String.eqb f "}" then Some ([], l) else
    match r0 with
    | colon :: s :: lb :: i' :: rb :: dg :: r =>
      if negb (is_name f && String.eqb colon ":" && String.eqb s src && String.eqb lb "[" && String.eqb i' i && String.eqb rb "]") then None else
      match strip_prefix "." dg with
      | None => None
      | Some g =>
        if negb (is_name g) then None else
        match r with
        | c :: r' =>
          if String.eqb c "," then
            match parse_index_fields src i r' with Some (fs, l') => Some ((f, g) :: fs, l') | None => None end
          else if String.eqb c "}" then Some ([(f, g)], r) else None
        | [] => None
        end
      end
    | _ => None
    end
  end.

Definition parse_index_loop (toks:list string) : option (string * string * string * list (string * string)) :=
  do l <- expect "for" toks; do (i, l) <- name l; do l <- expect ":" l; do l <- expect "=" l; do l <- expect "range" l;
  do (src, l) <- name l; do l <- expect "{" l;
  do (dst, l) <- name l; do l <- expect "[" l; do l <- expect i l; do l <- expect "]" l; do l <- expect "=" l;
  do (ty, l) <- name l; do l <- expect "{" l;
  do (fs, l) <- parse_index_fields src i l;
  do l <- expect "}" l; do l <- expect "}" l;
  match l with [] => Some (src, dst, ty, fs) | _ => None end.

(** ... and with index and value:  for I, V := range SRC { DST[I] = T{F: V.G, ...} }  (DST made with len(SRC)) *)
Definition parse_index_value_loop (toks:list string) : option (string * string * string * list (string * string)) :=
  do l <- expect "for" toks; do (i, l) <- name l; do l <- expect "," l; do (v, l) <- name l;
  do l <- expect ":" l; do l <- expect "=" l; do l <- expect "range" l;
  do (src, l) <- name l; do l <- expect "{" l;
  do (dst, l) <- name l; do l <- expect "[" l; do l <- expect i l; do l <- expect "]" l; do l <- expect "=" l;
  do (ty, l) <- name l; do l <- expect "{" l;
  do (fs, l) <- parse_fields v l;
  do l <- expect "}" l; do l <- expect "}" l;
  match l with [] => Some (src, dst, ty, fs) | _ => None end.

(** ** meaning of a field assignment from bpf.RawInstruction{Op,Jt,Jf,K} to syscall.SockFilter{Code,Jt,Jf,K} *)
Fixpoint assoc_s (l:list (string * string)) (k:string) : option string :=
  match l with
  | [] => None
  | (a, b) :: r => if String.eqb a k then Some b else assoc_s r k
  end.

Definition raw_field (g:string) (r:sock_filter) : N :=
  if String.eqb g "Op" then sf_code r else if String.eqb g "Jt" then sf_jt r
  else if String.eqb g "Jf" then sf_jf r else sf_k r.
Definition known_src (g:string) : bool :=
  String.eqb g "Op" || String.eqb g "Jt" || String.eqb g "Jf" || String.eqb g "K".
Definition known_dst (f:string) : bool :=
  String.eqb f "Code" || String.eqb f "Jt" || String.eqb f "Jf" || String.eqb f "K".

(** a field that is not mentioned keeps Go's zero value *)
Definition dst_value (fs:list (string * string)) (f:string) (r:sock_filter) : N :=
  match assoc_s fs f with Some g => raw_field g r | None => 0 end.

Definition copy_fun (fs:list (string * string)) : option (sock_filter -> sock_filter) :=
  if forallb (fun p => known_dst (fst p) && known_src (snd p)) fs then
    Some (fun r => {| sf_code := dst_value fs "Code" r; sf_jt := dst_value fs "Jt" r;
                      sf_jf := dst_value fs "Jf" r; sf_k := dst_value fs "K" r |})
  else None.

(** the assignment copies Op, Jt, Jf, K into Code, Jt, Jf, K *)
Definition copy_is_identity (fs:list (string * string)) : bool :=
  forallb (fun p => known_dst (fst p) && known_src (snd p)) fs &&
  match assoc_s fs "Code", assoc_s fs "Jt", assoc_s fs "Jf", assoc_s fs "K" with
  | Some a, Some b, Some c, Some d => String.eqb a "Op" && String.eqb b "Jt" && String.eqb c "Jf" && String.eqb d "K"
  | _, _, _, _ => false
  end.

(** ** the regenerated function sockFilter *)
Definition sockfilter_fields (f:skfun) : option (list (string * string)) :=
  match fn_params f, fn_variadic f, fn_body f with
  | [param], false, [SAssign true (EId d) (EConv mk [_; ENum 0; _]); SUnknown src; SReturn [EId d']] =>
    if String.eqb mk "make" && String.eqb d d' then
      match parse_copy_loop (tokens src) with
      | Some (s, dst, ty, fs) =>
        if String.eqb s param && String.eqb dst d && String.eqb ty "syscall.SockFilter" then Some fs else None
      | None => None
      end
    else None
  | [param], false, [SAssign true (EId d) (EConv mk [_; EConv ln [EId param']]); SUnknown src; SReturn [EId d']] =>
    (* filled in place: one element per element of the parameter *)
    if String.eqb mk "make" && String.eqb ln "len" && String.eqb param' param && String.eqb d d' then
      match (match parse_index_loop (tokens src) with Some r => Some r | None => parse_index_value_loop (tokens src) end) with
      | Some (s, dst, ty, fs) =>
        if String.eqb s param && String.eqb dst d && String.eqb ty "syscall.SockFilter" then Some fs else None
      | None => None
      end
    else None
  | _, _, _ => None
  end.

Definition sockfilter_sem (f:skfun) : option (list sock_filter -> list sock_filter) :=
  match sockfilter_fields f with
  | Some fs => match copy_fun fs with Some g => Some (map g) | None => None end
  | None => None
  end.

Definition sockfilter_check (f:skfun) : bool :=
  match sockfilter_fields f with Some fs => copy_is_identity fs | None => false end.
