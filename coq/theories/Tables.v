(** * Tables: association tables (number, name) as arch/zsyscalls.go writes them, the two lookups,
    map inversion under an arbitrary iteration order, agreement with an oracle table. *)
From Coq Require Import List NArith Bool String Permutation Lia.
From Seccomp Require Import Policy.
Import ListNotations.
Open Scope N_scope.
Open Scope list_scope.

Definition table := list (N * string).
Definition nums (t:table) : list N := map fst t.
Definition names (t:table) : list string := map snd t.

Fixpoint lookup_num (t:table) (n:N) : option string :=
  match t with
  | [] => None
  | (n', s) :: r => if n' =? n then Some s else lookup_num r n
  end.

Fixpoint nodup_N (l:list N) : bool :=
  match l with [] => true | x :: r => negb (existsb (N.eqb x) r) && nodup_N r end.
Fixpoint nodup_S (l:list string) : bool :=
  match l with [] => true | x :: r => negb (existsb (String.eqb x) r) && nodup_S r end.

Lemma nodup_N_spec l : nodup_N l = true -> NoDup l.
Proof.
  induction l as [|x r IH]; cbn [nodup_N]; intros H; [constructor|].
  apply andb_true_iff in H. destruct H as [H1 H2]. constructor; [|auto].
  intro Hin. apply negb_true_iff in H1. assert (existsb (N.eqb x) r = true); [|congruence].
  apply existsb_exists. exists x. split; [exact Hin|apply N.eqb_refl].
Qed.
Lemma nodup_S_spec l : nodup_S l = true -> NoDup l.
Proof.
  induction l as [|x r IH]; cbn [nodup_S]; intros H; [constructor|].
  apply andb_true_iff in H. destruct H as [H1 H2]. constructor; [|auto].
  intro Hin. apply negb_true_iff in H1. assert (existsb (String.eqb x) r = true); [|congruence].
  apply existsb_exists. exists x. split; [exact Hin|apply String.eqb_refl].
Qed.

Lemma lookup_name_some_in t : forall s n, lookup_name t s = Some n -> In (n, s) t.
Proof.
  induction t as [|[n' s'] r IH]; cbn [lookup_name]; intros s n H; [discriminate|].
  destruct (String.eqb_spec s' s) as [->|Hne]; [injection H as ->; left; reflexivity|right; auto].
Qed.
Lemma lookup_num_some_in t : forall n s, lookup_num t n = Some s -> In (n, s) t.
Proof.
  induction t as [|[n' s'] r IH]; cbn [lookup_num]; intros n s H; [discriminate|].
  destruct (N.eqb_spec n' n) as [->|Hne]; [injection H as ->; left; reflexivity|right; auto].
Qed.
Lemma lookup_name_none t : forall s, lookup_name t s = None <-> ~ In s (names t).
Proof.
  induction t as [|[n' s'] r IH]; cbn [lookup_name names map]; intros s; [split; auto|].
  destruct (String.eqb_spec s' s) as [->|Hne].
  - split; [discriminate|]. intros H. exfalso. apply H. left. reflexivity.
  - rewrite IH. unfold names. cbn. split; [intros H [E|E]; [congruence|auto]|intros H E; apply H; right; exact E].
Qed.

Lemma lookup_name_in t : NoDup (names t) -> forall n s, In (n, s) t -> lookup_name t s = Some n.
Proof.
  induction t as [|[n' s'] r IH]; intros Hnd n s Hin; [destruct Hin|].
  cbn [names map] in Hnd. inversion Hnd as [|? ? Hnot Hr]; subst. cbn [lookup_name].
  destruct Hin as [E|Hin].
  - injection E as -> ->. rewrite String.eqb_refl. reflexivity.
  - destruct (String.eqb_spec s' s) as [->|Hne]; [|apply IH; assumption].
    exfalso. apply Hnot. change (In s (names r)). unfold names. apply in_map_iff. exists (n, s). auto.
Qed.
Lemma lookup_num_in t : NoDup (nums t) -> forall n s, In (n, s) t -> lookup_num t n = Some s.
Proof.
  induction t as [|[n' s'] r IH]; intros Hnd n s Hin; [destruct Hin|].
  cbn [nums map] in Hnd. inversion Hnd as [|? ? Hnot Hr]; subst. cbn [lookup_num].
  destruct Hin as [E|Hin].
  - injection E as -> ->. rewrite N.eqb_refl. reflexivity.
  - destruct (N.eqb_spec n' n) as [->|Hne]; [|apply IH; assumption].
    exfalso. apply Hnot. change (In n (nums r)). unfold nums. apply in_map_iff. exists (n, s). auto.
Qed.

(** the two lookups are mutual inverses on a table without repeated numbers or names *)
Theorem lookups_inverse t : NoDup (nums t) -> NoDup (names t) ->
  forall n s, lookup_num t n = Some s <-> lookup_name t s = Some n.
Proof.
  intros H1 H2 n s. split; intros H.
  - apply lookup_name_in; [exact H2|apply lookup_num_some_in; exact H].
  - apply lookup_num_in; [exact H1|apply lookup_name_some_in; exact H].
Qed.

(** arch.invert: `for k, v := range in { out[v] = k }` for an arbitrary iteration order [perm];
    a later assignment overwrites an earlier one *)
Definition invert_with (perm:table) (name:string) : option N :=
  fold_left (fun acc e => if String.eqb (snd e) name then Some (fst e) else acc) perm None.

Lemma invert_fold l name : NoDup (names l) -> forall acc,
  fold_left (fun acc e => if String.eqb (snd e) name then Some (fst e) else acc) l acc
  = match lookup_name l name with Some n => Some n | None => acc end.
Proof.
  induction l as [|[n s] r IH]; intros Hnd acc; [reflexivity|].
  cbn [names map] in Hnd. inversion Hnd as [|? ? Hnot Hr]; subst.
  cbn [fold_left lookup_name fst snd]. rewrite (IH Hr).
  destruct (String.eqb_spec s name) as [->|Hne]; [|reflexivity].
  assert (lookup_name r name = None) by (apply lookup_name_none; exact Hnot). rewrite H. reflexivity.
Qed.

Lemma names_perm t perm : Permutation t perm -> Permutation (names t) (names perm).
Proof. intros H. unfold names. apply Permutation_map. exact H. Qed.

Theorem invert_deterministic t perm name :
  Permutation t perm -> NoDup (names t) -> invert_with perm name = lookup_name t name.
Proof.
  intros Hp Hnd. unfold invert_with.
  assert (Hnd': NoDup (names perm)) by (eapply Permutation_NoDup; [apply names_perm; exact Hp|exact Hnd]).
  rewrite (invert_fold perm name Hnd' None).
  destruct (lookup_name t name) as [n|] eqn:E.
  - apply lookup_name_some_in in E. rewrite (lookup_name_in perm Hnd' n name); [reflexivity|].
    eapply Permutation_in; eauto.
  - destruct (lookup_name perm name) as [n|] eqn:E'; [|reflexivity].
    apply lookup_name_some_in in E'. apply lookup_name_none in E. exfalso. apply E.
    unfold names. apply in_map_iff. exists (n, name). split; [reflexivity|].
    eapply Permutation_in; [apply Permutation_sym; exact Hp|exact E'].
Qed.

(** agreement with an independent table wherever it lists the name *)
Definition agree_b (t o:table) : bool :=
  forallb (fun e => match lookup_name t (snd e) with Some n => n =? fst e | None => true end) o.

Lemma agree_spec t o : agree_b t o = true ->
  forall n s n', In (n, s) o -> lookup_name t s = Some n' -> n' = n.
Proof.
  unfold agree_b. rewrite forallb_forall. intros H n s n' Hin Hl.
  specialize (H (n, s) Hin). cbn [fst snd] in H. rewrite Hl in H. apply N.eqb_eq. exact H.
Qed.

(** ... and wherever it lists the NUMBER: the name the table gives a number is (one of) the name(s) the independent table
    gives it, up to the listed synonyms (a number that changed hands - e.g. through a generator that keeps the wrong one of
    two definitions - keeps passing the by-name test above, because the displaced name simply disappears) *)
Definition agree_num_b (syn:list (string * string)) (t o:table) : bool :=
  forallb (fun e =>
    match filter (fun x => fst x =? fst e) o with
    | [] => true
    | l => existsb (fun x => String.eqb (snd x) (snd e) ||
                             existsb (fun p => String.eqb (fst p) (snd e) && String.eqb (snd p) (snd x)) syn) l
    end) t.

Lemma agree_num_spec syn t o : agree_num_b syn t o = true ->
  forall n s, In (n, s) t -> (exists s0, In (n, s0) o) ->
  exists s', In (n, s') o /\ (s' = s \/ In (s, s') syn).
Proof.
  unfold agree_num_b. rewrite forallb_forall. intros H n s Hin [s0 Hs0]. specialize (H (n, s) Hin). cbn [fst snd] in H.
  destruct (filter (fun x => fst x =? n) o) as [|x l] eqn:F.
  - exfalso. assert (Hf: In (n, s0) (filter (fun x => fst x =? n) o)) by (apply filter_In; split; [exact Hs0|apply N.eqb_refl]).
    rewrite F in Hf. exact Hf.
  - apply existsb_exists in H. destruct H as [y [Hy Hc]].
    assert (Hyo: In y (filter (fun x => fst x =? n) o)) by (rewrite F; exact Hy).
    apply filter_In in Hyo. destruct Hyo as [Hyo Hn]. apply N.eqb_eq in Hn. destruct y as [yn ys]. cbn [fst snd] in *. subst yn.
    exists ys. split; [exact Hyo|]. apply orb_true_iff in Hc. destruct Hc as [E|E].
    + left. apply String.eqb_eq in E. exact E.
    + right. apply existsb_exists in E. destruct E as [[a b] [Hp E]]. cbn [fst snd] in E. apply andb_true_iff in E. destruct E as [E1 E2].
      apply String.eqb_eq in E1, E2. subst. exact Hp.
Qed.

(** generic association list over strings *)
Fixpoint assoc {A} (l:list (string * A)) (key:string) : option A :=
  match l with [] => None | (k, v) :: r => if String.eqb k key then Some v else assoc r key end.
