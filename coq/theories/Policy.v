(** * Policy: executable model of filter.go (Policy.Assemble and what it calls), after the
    repairs D1, D2, D4, D5, D6 (see DESIGN.md). *)
From Coq Require Import List NArith Bool Lia String.
From Seccomp Require Import Words Machine Result Assembler.
Import ListNotations.
Open Scope N_scope.
Open Scope list_scope.

(** ** Policy values *)
Inductive op := OpEq | OpNe | OpGt | OpLt | OpGe | OpLe | OpSet | OpNSet
              | OpOther.   (* any Operation string that is not one of the eight constants *)

Record cnd := { c_arg : N; c_op : op; c_val : N }.
Record nwc := { nc_name : string; nc_conds : list cnd }.
Record group := { g_names : list string; g_nwc : list nwc; g_action : N }.
Record policy := { p_default : N; p_groups : list group }.

(** arch.Info: the number->name table in source order *)
Record arch_info := { ai_name : string; ai_id : N; ai_mask : N; ai_table : list (N * string) }.

(** the constants of constants.go / arch that the compiler uses (regenerated from the source) *)
Record consts := {
  k_named_actions : list N;   (* keys of actionNames *)
  k_errno : N;                (* ActionErrno *)
  k_eperm : N;                (* errnoEPERM *)
  k_enosys : N;               (* errnoENOSYS *)
  k_x32mask : N;              (* arch.X32.SeccompMask *)
  k_x86_64_id : N             (* arch.X86_64.ID *)
}.

(** Go's typing: uint32 / uint64 fields *)
Definition wf_cnd (c:cnd) : Prop := c_arg c < two32 /\ c_val c < two64.
Definition wf_group (g:group) : Prop :=
  g_action g < two32 /\ Forall (fun nc => Forall wf_cnd (nc_conds nc)) (g_nwc g).
Definition wf_policy (p:policy) : Prop := p_default p < two32 /\ Forall wf_group (p_groups p).
Definition wf_arch (ai:arch_info) : Prop :=
  ai_id ai < two32 /\ ai_mask ai < two32 /\ Forall (fun e => fst e < two32) (ai_table ai).
Definition wf_consts (k:consts) : Prop :=
  k_errno k < two32 /\ k_eperm k < two32 /\ k_enosys k < two32 /\ k_x32mask k < two32 /\ k_x86_64_id k < two32.

(** ** Program.Ret *)
Definition ret_word (k:consts) (a:N) : N := if a =? k_errno k then N.lor a (k_eperm k) else a.

(** ** toSyscallsWithConditions *)
Fixpoint lookup_name (t:list (N*string)) (name:string) : option N :=
  match t with
  | [] => None
  | (n, s) :: r => if String.eqb s name then Some n else lookup_name r name
  end.

(** uint32(num | g.arch.SeccompMask) *)
Definition sysnum (ai:arch_info) (num:N) : N := (N.lor num (ai_mask ai)) mod two32.

Inductive entry := EU (num:N) | EC (num:N) (ls:list (list cnd)).
Definition entry_num (e:entry) : N := match e with EU n => n | EC n _ => n end.

Fixpoint get_syscall (es:list entry) (num:N) : option entry :=
  match es with
  | [] => None
  | e :: r => if entry_num e =? num then Some e else get_syscall r num
  end.

(** check.Conditions = append(check.Conditions, nc.Conditions) on the first entry with that number *)
Fixpoint add_list (es:list entry) (num:N) (cs:list cnd) : list entry :=
  match es with
  | [] => []
  | e :: r => if entry_num e =? num
              then match e with EC n ls => EC n (ls ++ [cs]) | EU n => EU n end :: r
              else e :: add_list r num cs
  end.

Definition op_valid (o:op) : bool := match o with OpOther => false | _ => true end.

(** ArgumentConditions.Validate: no problems *)
Definition conds_valid (cs:list cnd) : bool :=
  negb (match cs with [] => true | _ => false end) &&
  forallb (fun c => (c_arg c <=? 5) && op_valid (c_op c)) cs.

(** first loop: g.Names. State: entries so far, and whether a problem was recorded. *)
Fixpoint names_loop (ai:arch_info) (names:list string) (es:list entry) (bad:bool) : list entry * bool :=
  match names with
  | [] => (es, bad)
  | name :: rest =>
    match lookup_name (ai_table ai) name with
    | Some num =>
        let sc := sysnum ai num in
        match get_syscall es sc with
        | None => names_loop ai rest (es ++ [EU sc]) bad
        | Some _ => names_loop ai rest es true          (* duplicate *)
        end
    | None => names_loop ai rest es true                (* unknown *)
    end
  end.

(** second loop: g.NamesWithCondtions *)
Fixpoint nwc_loop (ai:arch_info) (ncs:list nwc) (es:list entry) (bad:bool) : list entry * bool :=
  match ncs with
  | [] => (es, bad)
  | nc :: rest =>
    match lookup_name (ai_table ai) (nc_name nc) with
    | Some num =>
        let sc := sysnum ai num in
        if negb (conds_valid (nc_conds nc)) then nwc_loop ai rest es true
        else match get_syscall es sc with
             | None => nwc_loop ai rest (es ++ [EC sc [nc_conds nc]]) bad
             | Some (EU _) => nwc_loop ai rest es true  (* conditional and unconditional *)
             | Some (EC _ _) => nwc_loop ai rest (add_list es sc (nc_conds nc)) bad
             end
    | None => nwc_loop ai rest es true
    end
  end.

Definition to_syscalls (ai:arch_info) (g:group) : res (list entry) :=
  let '(es1, bad1) := names_loop ai (g_names g) [] false in
  let '(es2, bad2) := nwc_loop ai (g_nwc g) es1 bad1 in
  if bad2 then Error EProblems else Ok es2.

(** ** SyscallWithConditions.Assemble: label-level code.
    Every generator takes the value [n] the next NewLabel call returns and gives back the new one. *)
Section Gen.
Variable le : bool.

Definition jmp_if_true (c:cond) (k:N) (tl n:label) : list item := [TJmpIf c k tl n; TLabel n].

(** one condition; [mt] / [nm] are the match / noMatch labels *)
Definition gen_cond (c:cnd) (mt nm n:label) : list item * label :=
  let a := c_arg c in let h := hi (c_val c) in let l := lo (c_val c) in
  let ldhi := TLd (ld_off a le) in let ldlo := TLd (ld_off a (negb le)) in
  match c_op c with
  | OpEq => (ldhi :: jmp_if_true JNe h nm n ++ [ldlo; TJmpIf JEq l mt nm], n+1)
  | OpNe => (ldhi :: jmp_if_true JNe h mt n ++ [ldlo; TJmpIf JNe l mt nm], n+1)
  | OpGt => (ldhi :: jmp_if_true JGt h mt n ++ jmp_if_true JNe h nm (n+1) ++ [ldlo; TJmpIf JGt l mt nm], n+2)
  | OpGe => (ldhi :: jmp_if_true JGt h mt n ++ jmp_if_true JNe h nm (n+1) ++ [ldlo; TJmpIf JGe l mt nm], n+2)
  | OpLt => (ldhi :: jmp_if_true JLt h mt n ++ jmp_if_true JNe h nm (n+1) ++ [ldlo; TJmpIf JLt l mt nm], n+2)
  | OpLe => (ldhi :: jmp_if_true JLt h mt n ++ jmp_if_true JNe h nm (n+1) ++ [ldlo; TJmpIf JLe l mt nm], n+2)
  | OpSet => (ldhi :: jmp_if_true JSet h mt n ++ [ldlo; TJmpIf JSet l mt nm], n+1)
  | OpNSet => (ldhi :: jmp_if_true JSet h nm n ++ [ldlo; TJmpIf JNSet l mt nm], n+1)
  | OpOther => ([], n)     (* the if/else chain has no default branch *)
  end.

(** the conditions of one list: nextArgument := NewLabel(); code; SetLabel(nextArgument) *)
Fixpoint gen_conds (cs:list cnd) (action nm n:label) : list item * label :=
  match cs with
  | [] => ([], n)
  | c :: rest =>
     let na := n in
     let mt := match rest with [] => action | _ => na end in
     let '(code, n1) := gen_cond c mt nm (n+1) in
     let '(more, n2) := gen_conds rest action nm n1 in
     (code ++ TLabel na :: more, n2)
  end.

(** one list: noMatch := NewLabel(); conditions; SetLabel(noMatch) *)
Definition gen_list (cs:list cnd) (action n:label) : list item * label :=
  let '(code, n1) := gen_conds cs action n (n+1) in (code ++ [TLabel n], n1).

Fixpoint gen_lists (ls:list (list cnd)) (action n:label) : list item * label :=
  match ls with
  | [] => ([], n)
  | cs :: rest => let '(code, n1) := gen_list cs action n in
                  let '(more, n2) := gen_lists rest action n1 in (code ++ more, n2)
  end.

Definition gen_ent (e:entry) (action n:label) : list item * label :=
  match e with
  | EU num => (jmp_if_true JEq num action n, n+1)
  | EC num ls =>
      let ns := n in       (* nextSyscall *)
      let '(code, n1) := gen_lists ls action (n+2) in
      (jmp_if_true JNe num ns (n+1) ++ code ++ [TLd 0; TLabel ns], n1)
  end.

Fixpoint gen_ents (es:list entry) (action n:label) : list item * label :=
  match es with
  | [] => ([], n)
  | e :: rest => let '(code, n1) := gen_ent e action n in
                 let '(more, n2) := gen_ents rest action n1 in (code ++ more, n2)
  end.

(** SyscallGroup.assemble: action := NewLabel() (= 2); entries; nextGroup := NewLabel(); Jmp(nextGroup);
    SetLabel(action); Ret(g.Action); SetLabel(nextGroup) *)
Definition gen_group (es:list entry) (w:N) : list item * label :=
  let '(code, n1) := gen_ents es 2 3 in
  (code ++ [TJaL n1; TLabel 2; TRet w; TLabel n1], n1+1).

Variable k : consts.

Definition compile_group (ai:arch_info) (g:group) : res (list instr) :=
  match g_names g, g_nwc g with
  | [], [] => Ok []
  | _, _ =>
    match to_syscalls ai g with
    | Error e => Error e
    | Ok es => let '(its, n) := gen_group es (ret_word k (g_action g)) in assemble its n
    end
  end.

Fixpoint compile_groups (ai:arch_info) (gs:list group) : res (list instr) :=
  match gs with
  | [] => Ok []
  | g :: rest =>
    match compile_group ai g with
    | Error e => Error e
    | Ok p => match compile_groups ai rest with Error e => Error e | Ok q => Ok (p ++ q) end
    end
  end.

Definition x32_filter (ai:arch_info) : list instr :=
  if ai_id ai =? k_x86_64_id k
  then [IJmpIf JGe (k_x32mask k) 0 1; IRet (N.lor (k_errno k) (k_enosys k))]
  else [].

Definition prologue (ai:arch_info) (jumpN:N) : list instr :=
  if jumpN <=? 255
  then [ILd 4; IJmpIf JNe (ai_id ai) (jumpN mod 256) 0]
  else [ILd 4; IJmpIf JEq (ai_id ai) 1 0; IJa (jumpN mod two32)].

Definition is_named (a:N) : bool := existsb (N.eqb a) (k_named_actions k).

(** Policy.Assemble *)
Definition compile (ai:arch_info) (pol:policy) : res (list instr) :=
  if negb (is_named (p_default pol)) then Error EDefaultAction else
  match p_groups pol with
  | [] => Error ENoSyscalls
  | gs =>
    match compile_groups ai gs with
    | Error e => Error e
    | Ok body =>
      let x32 := x32_filter ai in
      let jumpN := N.of_nat (List.length x32 + List.length body + 1) in
      Ok (prologue ai jumpN ++ [ILd 0] ++ x32 ++ body ++ [IRet (ret_word k (p_default pol))])
    end
  end.
End Gen.
