(** * TextProofs: parsing and printing of names (C14), alias resolution (C12), determinism under map
    iteration order (C13). *)
From Coq Require Import List NArith Bool String Ascii Permutation Lia.
From Seccomp Require Import Result Policy Tables Text.
Import ListNotations.
Open Scope N_scope.
Open Scope list_scope.

(** ** Actions *)
Theorem unpack_sound names s a : action_unpack names s = Some a -> In (a, lower s) names.
Proof. apply lookup_name_some_in. Qed.

Theorem unpack_unknown names s : ~ In (lower s) (Tables.names names) -> action_unpack names s = None.
Proof. intros H. apply lookup_name_none. exact H. Qed.

Theorem unpack_case_insensitive names s s' : lower s = lower s' -> action_unpack names s = action_unpack names s'.
Proof. unfold action_unpack. intros ->. reflexivity. Qed.

Definition all_lower (names:list (N*string)) : bool := forallb (fun e => String.eqb (lower (snd e)) (snd e)) names.

Theorem print_parse names a s :
  NoDup (nums names) -> NoDup (Tables.names names) -> all_lower names = true ->
  lookup_num names a = Some s -> action_unpack names (action_string names a) = Some a.
Proof.
  intros H1 H2 Hl Hs. unfold action_string, action_unpack. rewrite Hs.
  pose proof (lookup_num_some_in _ _ _ Hs) as Hin.
  unfold all_lower in Hl. rewrite forallb_forall in Hl. specialize (Hl _ Hin). cbn [snd] in Hl.
  apply String.eqb_eq in Hl. rewrite Hl. apply lookup_name_in; assumption.
Qed.

(** whatever order the map is iterated in, Unpack finds the same action *)
Theorem unpack_perm_invariant names perm s :
  Permutation names perm -> NoDup (Tables.names names) -> action_unpack_with perm s = action_unpack names s.
Proof. intros. unfold action_unpack_with, action_unpack. apply invert_deterministic; assumption. Qed.

(** ** Operations *)
Theorem operation_unpack_sound ops : forall s o, operation_unpack ops s = Some o -> In o ops /\ lower o = lower s.
Proof.
  induction ops as [|o' r IH]; cbn [operation_unpack]; intros s o H; [discriminate|].
  destruct (String.eqb_spec (lower o') (lower s)) as [E|E].
  - injection H as <-. split; [left; reflexivity|exact E].
  - destruct (IH s o H) as [A B]. split; [right; exact A|exact B].
Qed.

Theorem operation_unpack_unknown ops : forall s, ~ In (lower s) (map lower ops) -> operation_unpack ops s = None.
Proof.
  induction ops as [|o' r IH]; cbn [operation_unpack map]; intros s H; [reflexivity|].
  destruct (String.eqb_spec (lower o') (lower s)) as [E|E]; [exfalso; apply H; left; exact E|].
  apply IH. intro. apply H. right. assumption.
Qed.

Theorem operation_print_parse ops : NoDup (map lower ops) -> forall o, In o ops -> operation_unpack ops o = Some o.
Proof.
  induction ops as [|o' r IH]; intros Hnd o Hin; [destruct Hin|].
  cbn [map] in Hnd. inversion Hnd as [|? ? Hnot Hr]; subst. cbn [operation_unpack].
  destruct Hin as [->|Hin]; [rewrite String.eqb_refl; reflexivity|].
  destruct (String.eqb_spec (lower o') (lower o)) as [E|E]; [|apply IH; assumption].
  exfalso. apply Hnot. rewrite E. apply in_map. exact Hin.
Qed.

(** ** arch.GetInfo *)
Theorem get_info_case_insensitive aliases goarch s s' :
  s <> EmptyString -> s' <> EmptyString -> lower s = lower s' ->
  get_info aliases goarch s = get_info aliases goarch s'.
Proof. intros H H' E. unfold get_info. destruct s; [congruence|]. destruct s'; [congruence|]. rewrite E. reflexivity. Qed.

Lemma assoc_none {A} (l:list (string*A)) key : ~ In key (map fst l) -> assoc l key = None.
Proof.
  induction l as [|[k v] r IH]; cbn [assoc map fst]; intros H; [reflexivity|].
  destruct (String.eqb_spec k key) as [->|E]; [exfalso; apply H; left; reflexivity|].
  apply IH. intro. apply H. right. assumption.
Qed.

Theorem get_info_unknown aliases goarch s :
  s <> EmptyString -> ~ In (lower s) (map fst aliases) -> get_info aliases goarch s = Error EUnsupportedArch.
Proof. intros Hs H. unfold get_info. destruct s; [congruence|]. rewrite (assoc_none _ _ H). reflexivity. Qed.

Theorem get_info_ok_has_table aliases goarch s ai :
  get_info aliases goarch s = Ok ai -> ai_table ai <> [].
Proof.
  unfold get_info. destruct (assoc aliases _) as [ai'|]; [|discriminate].
  destruct (table_empty ai') eqn:E; [discriminate|]. intros H; injection H as <-.
  unfold table_empty in E. destruct (ai_table ai'); [discriminate|discriminate].
Qed.
