(** * KernelState: the part of the Linux kernel that seccomp(2), prctl(PR_SET_NO_NEW_PRIVS) and clone(2)
    read and write, as small total functions (a MODEL of the environment; no proofs in this file).

    Source: kernel/seccomp.c (v6.x: do_seccomp, seccomp_set_mode_strict, seccomp_set_mode_filter,
    seccomp_prepare_filter, seccomp_attach_filter, seccomp_can_sync_threads, seccomp_sync_threads),
    kernel/sys.c (prctl), kernel/fork.c (copy_seccomp).  The ORDER of the checks below is observable and
    was validated on the running kernel (6.18) with a throw-away program issuing raw system calls from
    fresh child processes (results recorded next to each step as "validated"):

      - SET_MODE_STRICT with flags != 0 or uargs != NULL            -> EINVAL        (validated; what Supported uses)
      - unknown op                                                   -> EINVAL        (validated, op = 7)
      - SET_MODE_FILTER:
         1. unknown flag bits (0x40, 0x80)                            -> EINVAL  (validated: wins over NULL prog,
                                                                                 over len = 0, over EACCES)
            TSYNC|NEW_LISTENER without TSYNC_ESRCH                   -> EINVAL  (validated)
            WAIT_KILLABLE_RECV without NEW_LISTENER                  -> EINVAL  (validated)
         2. NULL / unreadable sock_fprog                              -> EFAULT  (validated, also unprivileged)
         3. len = 0 or len > 4096                                     -> EINVAL  (validated: wins over EACCES and
                                                                                 over an unreadable filter array)
         4. neither no_new_privs nor CAP_SYS_ADMIN on the CALLER      -> EACCES  (validated: wins over an
                                                                                 unreadable array and a bad program)
         5. unreadable instruction array                              -> EFAULT  (validated)
         6. bpf_check_classic / seccomp_check_filter fail             -> EINVAL  (validated)
         7. caller already in strict mode                             -> EINVAL  (NOT observable: such a thread
                                                                                 is killed when it calls seccomp)
         8. NEW_LISTENER and a listener already in the caller's stack -> EBUSY   (validated)
         9. path length over 32768                                    -> ENOMEM  (validated: wins over a refused
                                                                                 thread-sync; see [path_len])
        10. TSYNC and some other thread is neither without filters nor
            carries an ancestor (suffix) of the caller's stack        -> r1 = tid of the FIRST such thread in
                                                                         thread-list (creation) order, errno 0;
                                                                         with TSYNC_ESRCH: errno ESRCH
                                                                         (validated incl. which thread is named;
                                                                         a thread AHEAD of the caller is refused)
        11. attach to the caller; with TSYNC every other thread receives the caller's whole stack and,
            if the caller has no_new_privs, that bit (validated: bit copied only when set on the caller);
            r1 = 0, or the new listener descriptor with NEW_LISTENER (validated: 3 in a fresh process)
      - prctl(PR_SET_NO_NEW_PRIVS, a2, a3, a4, a5): a2 != 1 or a3|a4|a5 != 0 -> EINVAL, else the bit is set on
        the CALLING THREAD only (validated: a sibling thread keeps 0)
      - clone: the child inherits no_new_privs, the filter stack, the mode and the credentials of the thread
        that calls clone (validated: threads the Go runtime starts later from an unfiltered thread have none)

    Kernel assumptions that are NOT validated by experiment but read from the source: the whole of steps 7-11
    runs under sighand->siglock (and cred_guard_mutex for TSYNC), the same lock clone takes in copy_seccomp
    and exit takes when unhashing a thread; hence every thread is either seen by the sync or is created
    afterwards from an already synchronised parent. This is what makes a thread-sync a single step here. *)
From Coq Require Import List NArith Bool.
From Seccomp Require Import Words Machine Raw KernelCheck.
Import ListNotations.
Open Scope N_scope.

(** errno values (asm-generic/errno-base.h, errno.h) *)
Definition ESRCH : N := 3.
Definition E2BIG : N := 7.
Definition ENOMEM : N := 12.
Definition EACCES : N := 13.
Definition EFAULT : N := 14.
Definition EBUSY : N := 16.
Definition EINVAL : N := 22.
Definition ENOSYS : N := 38.

(** what syscall.Syscall reports in r1 when the kernel returned an error: ^uintptr(0) *)
Definition MINUS1 : N := 18446744073709551615.

(** seccomp(2) operations and flags (include/uapi/linux/seccomp.h) *)
Definition SECCOMP_SET_MODE_STRICT : N := 0.
Definition SECCOMP_SET_MODE_FILTER : N := 1.
Definition FLAG_TSYNC : N := 1.
Definition FLAG_LOG : N := 2.
Definition FLAG_SPEC_ALLOW : N := 4.
Definition FLAG_NEW_LISTENER : N := 8.
Definition FLAG_TSYNC_ESRCH : N := 16.
Definition FLAG_WAIT_KILLABLE_RECV : N := 32.
Definition FLAG_MASK : N := 63.
Definition PR_SET_NO_NEW_PRIVS : N := 38.
Definition MAX_INSNS_PER_PATH : N := 32768.

Definition has_flag (flags f:N) : bool := negb (N.land flags f =? 0).

(** ** state *)
Record thread := {
  t_tid : N;
  t_nnp : bool;              (* no_new_privs *)
  t_filters : list N;        (* filter ids, newest first (the chain seccomp.filter -> prev -> ...) *)
  t_strict : bool;           (* SECCOMP_MODE_STRICT *)
  t_priv : bool              (* CAP_SYS_ADMIN in its user namespace *)
}.

Record kstate := {
  ks_threads : list thread;                  (* live threads, in creation order *)
  ks_next_tid : N;
  ks_next_fid : N;
  ks_progs : list (N * list sock_filter);    (* filter id -> installed program *)
  ks_listeners : list N;                     (* filter ids that carry a user-notification listener *)
  ks_next_fd : N                             (* next file descriptor (only for NEW_LISTENER's return value) *)
}.

Definition set_threads (st:kstate) (ts:list thread) : kstate :=
  {| ks_threads := ts; ks_next_tid := ks_next_tid st; ks_next_fid := ks_next_fid st;
     ks_progs := ks_progs st; ks_listeners := ks_listeners st; ks_next_fd := ks_next_fd st |}.

Fixpoint find_thread_in (ts:list thread) (tid:N) : option thread :=
  match ts with
  | [] => None
  | t :: r => if t_tid t =? tid then Some t else find_thread_in r tid
  end.
Definition find_thread (st:kstate) (tid:N) : option thread := find_thread_in (ks_threads st) tid.

Definition with_nnp (t:thread) (b:bool) : thread :=
  {| t_tid := t_tid t; t_nnp := b; t_filters := t_filters t; t_strict := t_strict t; t_priv := t_priv t |}.
Definition with_filters (t:thread) (fs:list N) : thread :=
  {| t_tid := t_tid t; t_nnp := t_nnp t; t_filters := fs; t_strict := t_strict t; t_priv := t_priv t |}.
Definition with_priv (t:thread) (b:bool) : thread :=
  {| t_tid := t_tid t; t_nnp := t_nnp t; t_filters := t_filters t; t_strict := t_strict t; t_priv := b |}.
Definition with_strict (t:thread) (b:bool) : thread :=
  {| t_tid := t_tid t; t_nnp := t_nnp t; t_filters := t_filters t; t_strict := b; t_priv := t_priv t |}.

(** apply [f] to the thread [tid], leave the others *)
Definition map_thread (tid:N) (f:thread -> thread) (ts:list thread) : list thread :=
  map (fun t => if t_tid t =? tid then f t else t) ts.

(** /proc/<pid>/task/<tid>/status: Seccomp (mode), Seccomp_filters, NoNewPrivs *)
Definition mode_of (t:thread) : N :=
  if t_strict t then 1 else match t_filters t with [] => 0 | _ => 2 end.
Definition status_of (st:kstate) (tid:N) : option (N * N * bool) :=
  match find_thread st tid with
  | Some t => Some (mode_of t, N.of_nat (length (t_filters t)), t_nnp t)
  | None => None
  end.

(** one process with a single thread *)
Definition init_state (tid:N) (priv:bool) : kstate :=
  {| ks_threads := [ {| t_tid := tid; t_nnp := false; t_filters := []; t_strict := false; t_priv := priv |} ];
     ks_next_tid := tid + 1; ks_next_fid := 1; ks_progs := []; ks_listeners := []; ks_next_fd := 3 |}.

(** ** prctl(PR_SET_NO_NEW_PRIVS) *)
Definition prctl_set_nnp (st:kstate) (tid:N) : kstate :=
  set_threads st (map_thread tid (fun t => with_nnp t true) (ks_threads st)).

(** prctl(option, a2, a3, a4, a5) as syscall.Syscall6 reports it: (state, r1, errno). Only the option the
    library uses is modelled; the kernel answers EINVAL for an option it does not know, and that is what the
    model answers for every other option. *)
Definition do_prctl (st:kstate) (tid:N) (option a2 a3 a4 a5:N) : kstate * N * N :=
  match find_thread st tid with
  | None => (st, MINUS1, ESRCH)            (* no such caller: cannot happen; keeps the function total *)
  | Some _ =>
    if option =? PR_SET_NO_NEW_PRIVS then
      if negb (a2 =? 1) || negb (a3 =? 0) || negb (a4 =? 0) || negb (a5 =? 0) then (st, MINUS1, EINVAL)
      else (prctl_set_nnp st tid, 0, 0)
    else (st, MINUS1, EINVAL)
  end.

(** ** seccomp(2) *)
(** is_ancestor(parent, child): the chain [a] is reached by following prev from [b] *)
Fixpoint is_suffix (a b:list N) {struct b} : bool :=
  if Nat.eqb (length a) (length b) then forallb (fun p => fst p =? snd p) (combine a b)
  else match b with
       | [] => false
       | _ :: b' => is_suffix a b'
       end.

(** seccomp_can_sync_threads, one thread *)
Definition can_sync (caller t:thread) : bool :=
  negb (t_strict t) && is_suffix (t_filters t) (t_filters caller).

Fixpoint first_unsyncable (caller:thread) (ts:list thread) : option N :=
  match ts with
  | [] => None
  | t :: r =>
    if t_tid t =? t_tid caller then first_unsyncable caller r
    else if can_sync caller t then first_unsyncable caller r
    else Some (t_tid t)
  end.

(** The length the kernel counts is the one AFTER its conversion of the classic program to the internal instruction set
    (bpf_migrate_filter / bpf_convert_filter, net/core/filter.c; always taken on x86_64 and arm64, where no classic JIT
    exists): a prologue of three instructions (A := 0; X := 0; CTX := R1), then per classic instruction
      RET k                       -> 2   (mov r0, k; exit)
      conditional jump            -> 1   when jf = 0, or when jt = 0 and the operation is JEQ / JGT / JGE (negated form);
                                     2   otherwise (Jxx + JA);
                                     +1  when the operand is an immediate with its sign bit set (loaded into a register first)
      everything else             -> 1   (exact for the loads of seccomp_data, JA and the ALU / memory instructions of the
                                          programs seccomp_check_filter admits, except division by X on kernels that
                                          still emit a run-time zero test - the library emits neither)
    Validated on the running kernel by filter chains filled up to the limit in steps of about twenty instructions
    (lib/loaderchecks.py, histories with policy kinds big / mid). *)
Definition conv_len (f:sock_filter) : N :=
  let code := sf_code f in
  if code =? 6 then 2
  else if (code mod 8 =? 5) && negb (code / 16 =? 0) then
    let op := code / 16 in
    (if ((code / 8) mod 2 =? 0) && (2147483648 <=? sf_k f) then 1 else 0) +
    (if sf_jf f =? 0 then 1
     else if (sf_jt f =? 0) && ((op =? 1) || (op =? 2) || (op =? 3)) then 1
     else 2)
  else 1.
Definition internal_len (p:list sock_filter) : N := fold_left (fun a f => a + conv_len f) p 3.

Fixpoint prog_len_of (progs:list (N * list sock_filter)) (fid:N) : N :=
  match progs with
  | [] => 0
  | (f, p) :: r => if f =? fid then internal_len p else prog_len_of r fid
  end.

(** seccomp_attach_filter: the (internal) length of the new program plus, for every filter already in the chain, its
    (internal) length + 4; [newlen] is the internal length of the new program. *)
Definition path_len (st:kstate) (caller:thread) (newlen:N) : N :=
  fold_left (fun acc fid => acc + prog_len_of (ks_progs st) fid + 4) (t_filters caller) newlen.

(** seccomp_sync_threads: every other thread gets the caller's stack, and its no_new_privs bit if set *)
Definition sync_thread (caller:thread) (t:thread) : thread :=
  if t_tid t =? t_tid caller then t
  else with_nnp (with_filters t (t_filters caller)) (t_nnp t || t_nnp caller).

Definition flags_ok (flags:N) : bool :=
  (N.ldiff flags FLAG_MASK =? 0)
  && negb (has_flag flags FLAG_TSYNC && has_flag flags FLAG_NEW_LISTENER && negb (has_flag flags FLAG_TSYNC_ESRCH))
  && negb (has_flag flags FLAG_WAIT_KILLABLE_RECV && negb (has_flag flags FLAG_NEW_LISTENER)).

(** steps 10-11 for a caller that passed every check: the new state and the value returned in r1 *)
Definition attach (st:kstate) (caller:thread) (flags:N) (p:list sock_filter) : kstate :=
  let fid := ks_next_fid st in
  let caller' := with_filters caller (fid :: t_filters caller) in
  let ts1 := map_thread (t_tid caller) (fun _ => caller') (ks_threads st) in
  let ts2 := if has_flag flags FLAG_TSYNC then map (sync_thread caller') ts1 else ts1 in
  let listen := has_flag flags FLAG_NEW_LISTENER in
  {| ks_threads := ts2; ks_next_tid := ks_next_tid st; ks_next_fid := fid + 1;
     ks_progs := (fid, p) :: ks_progs st;
     ks_listeners := if listen then fid :: ks_listeners st else ks_listeners st;
     ks_next_fd := if listen then ks_next_fd st + 1 else ks_next_fd st |}.

Definition attach_r1 (st:kstate) (flags:N) : N :=
  if has_flag flags FLAG_NEW_LISTENER then ks_next_fd st else 0.

(** SECCOMP_SET_MODE_FILTER for a caller that exists *)
Definition set_mode_filter (st:kstate) (caller:thread) (flags:N) (prog:option (N * list sock_filter))
  : kstate * N * N :=
  if negb (flags_ok flags) then (st, MINUS1, EINVAL) else
  match prog with
  | None => (st, MINUS1, EFAULT)
  | Some (len, arr) =>
    if (len =? 0) || (BPF_MAXINSNS <? len) then (st, MINUS1, EINVAL) else
    if negb (t_nnp caller || t_priv caller) then (st, MINUS1, EACCES) else
    if (N.of_nat (length arr) <? len) then (st, MINUS1, EFAULT) else
    let p := firstn (N.to_nat len) arr in
    if negb (kernel_check p) then (st, MINUS1, EINVAL) else
    if t_strict caller then (st, MINUS1, EINVAL) else
    if has_flag flags FLAG_NEW_LISTENER && existsb (fun f => existsb (N.eqb f) (ks_listeners st)) (t_filters caller)
    then (st, MINUS1, EBUSY) else
    if MAX_INSNS_PER_PATH <? path_len st caller (internal_len p) then (st, MINUS1, ENOMEM) else
    match (if has_flag flags FLAG_TSYNC then first_unsyncable caller (ks_threads st) else None) with
    | Some bad => if has_flag flags FLAG_TSYNC_ESRCH then (st, MINUS1, ESRCH) else (st, bad, 0)
    | None => (attach st caller flags p, attach_r1 st flags, 0)
    end
  end.

(** seccomp(op, flags, uargs) called by thread [tid], as syscall.Syscall reports it: (state, r1, errno).
    [prog = None] is a NULL (or unreadable) uargs; [Some (len, arr)] a readable struct sock_fprog whose
    filter pointer refers to the array [arr]. op and flags are `unsigned int` in the kernel. *)
Definition do_seccomp (st:kstate) (tid:N) (op flags:N) (prog:option (N * list sock_filter)) : kstate * N * N :=
  let op := op mod 4294967296 in
  let flags := flags mod 4294967296 in
  match find_thread st tid with
  | None => (st, MINUS1, ESRCH)            (* no such caller: cannot happen; keeps the function total *)
  | Some caller =>
    if op =? SECCOMP_SET_MODE_STRICT then
      match negb (flags =? 0), prog with
      | false, None =>
          (* seccomp_set_mode_strict: allowed unless a filter is already installed *)
          match t_filters caller with
          | [] => (set_threads st (map_thread tid (fun t => with_strict t true) (ks_threads st)), 0, 0)
          | _ => (st, MINUS1, EINVAL)
          end
      | _, _ => (st, MINUS1, EINVAL)
      end
    else if op =? SECCOMP_SET_MODE_FILTER then set_mode_filter st caller flags prog
    else (st, MINUS1, EINVAL)
  end.

(** ** The loader's own system calls are filtered too
    Every system call of a thread, seccomp(2) and prctl(2) included, is first judged by the filters the thread already
    carries (seccomp_run_filters): each program runs on the seccomp_data of the call, the result with the most
    restrictive action wins (actions compared as SIGNED 32-bit numbers; of equal actions the newest filter's), and only
    ALLOW / LOG let the call proceed. The record is the host's (this model is of the x86_64 kernel the checks run on):
    little-endian, AUDIT_ARCH_X86_64, seccomp = 317, prctl = 157; the instruction pointer and pointer arguments are
    not known to the model and read as 0 (a filter that inspects them is outside the model). *)
Definition AUDIT_ARCH_X86_64 : N := 3221225534.
Definition SYS_prctl : N := 157.
Definition SYS_seccomp : N := 317.
Definition RET_ACTION_FULL : N := 4294901760.   (* 0xffff0000 *)
Definition RET_DATA : N := 65535.
Definition RET_KILL_PROCESS : N := 2147483648.
Definition RET_ERRNO : N := 327680.
Definition RET_TRACE : N := 2146435072.
Definition RET_LOG : N := 2147221504.
Definition RET_ALLOW : N := 2147418112.
Definition MAX_ERRNO : N := 4095.

Fixpoint prog_of (progs:list (N * list sock_filter)) (fid:N) : list sock_filter :=
  match progs with
  | [] => []
  | (f, p) :: r => if f =? fid then p else prog_of r fid
  end.

(** the value one installed program returns for an event (a program that passed the verifier always returns) *)
Definition filter_ret (p:list sock_filter) (ev:event) : N :=
  match run_raw (word_at true ev) p 0 0 with ORet v => v | _ => 0 end.

(** position of an action in the kernel's signed order, as an unsigned number *)
Definition action_rank (r:N) : N :=
  let a := N.land r RET_ACTION_FULL in
  if RET_KILL_PROCESS <=? a then a - RET_KILL_PROCESS else a + RET_KILL_PROCESS.

Definition stack_ret (st:kstate) (t:thread) (ev:event) : N :=
  fold_left (fun acc fid => let r := filter_ret (prog_of (ks_progs st) fid) ev in
                            if action_rank r <? action_rank acc then r else acc)
            (t_filters t) RET_ALLOW.

Inductive verdict :=
| VGo                 (* ALLOW / LOG: the call is performed *)
| VRefuse (e:N)       (* ERRNO with data e > 0 (at most 4095), or TRACE without a tracer (ENOSYS): -1, errno e *)
| VSkip               (* ERRNO with data 0: the call "returns 0" without being performed *)
| VFatal.             (* KILL_*, TRAP, USER_NOTIF: the caller does not come back from the call *)

Definition verdict_of (r:N) : verdict :=
  let a := N.land r RET_ACTION_FULL in
  let d := N.land r RET_DATA in
  if (a =? RET_ALLOW) || (a =? RET_LOG) then VGo
  else if a =? RET_ERRNO then (if d =? 0 then VSkip else VRefuse (N.min d MAX_ERRNO))
  else if a =? RET_TRACE then VRefuse ENOSYS
  else VFatal.

Definition gate (st:kstate) (tid:N) (nr:N) (args:list N) : verdict :=
  match find_thread st tid with
  | Some t => verdict_of (stack_ret st t {| ev_nr := nr; ev_arch := AUDIT_ARCH_X86_64; ev_ip := 0; ev_args := args |})
  | None => VGo
  end.

(** what syscall.Syscall reports for a call the filters did not let through. [VFatal]: the thread never sees a result;
    the model answers with an errno outside the kernel's range so that histories stay total - no theorem and no replayed
    history continues after such a call. *)
Definition EDIED : N := 65536.
Definition gated (v:verdict) (st:kstate) (perform:kstate * N * N) : kstate * N * N :=
  match v with
  | VGo => perform
  | VRefuse e => (st, MINUS1, e)
  | VSkip => (st, 0, 0)
  | VFatal => (st, MINUS1, EDIED)
  end.

Definition do_seccomp_g (st:kstate) (tid:N) (op flags:N) (prog:option (N * list sock_filter)) : kstate * N * N :=
  gated (gate st tid SYS_seccomp [op; flags; 0; 0; 0; 0]) st (do_seccomp st tid op flags prog).

Definition do_prctl_g (st:kstate) (tid:N) (option a2 a3 a4 a5:N) : kstate * N * N :=
  gated (gate st tid SYS_prctl [option; a2; a3; a4; a5; 0]) st (do_prctl st tid option a2 a3 a4 a5).

(** ** clone / exit / credentials *)
(** clone(CLONE_THREAD) called by [parent]: the child inherits no_new_privs, filters, mode, credentials *)
Definition clone (st:kstate) (parent:N) : kstate * N :=
  match find_thread st parent with
  | None => (st, 0)
  | Some p =>
    let c := {| t_tid := ks_next_tid st; t_nnp := t_nnp p; t_filters := t_filters p;
                t_strict := t_strict p; t_priv := t_priv p |} in
    ({| ks_threads := ks_threads st ++ [c]; ks_next_tid := ks_next_tid st + 1; ks_next_fid := ks_next_fid st;
        ks_progs := ks_progs st; ks_listeners := ks_listeners st; ks_next_fd := ks_next_fd st |},
     t_tid c)
  end.

Definition exit_thread (st:kstate) (tid:N) : kstate :=
  set_threads st (filter (fun t => negb (t_tid t =? tid)) (ks_threads st)).

(** setuid(nobody) as the Go runtime performs it: on every thread of the process *)
Definition drop_priv (st:kstate) : kstate :=
  set_threads st (map (fun t => with_priv t false) (ks_threads st)).

(** the program a thread's newest filter runs (None: no filter) *)
Definition top_prog (st:kstate) (tid:N) : option (list sock_filter) :=
  match find_thread st tid with
  | Some t => match t_filters t with
              | f :: _ => option_map snd (find (fun e => fst e =? f) (ks_progs st))
              | [] => None
              end
  | None => None
  end.
