(** * CodegenTemplates: SyscallWithConditions.Assemble and SyscallGroup.assemble as REGENERATED builder templates
    (gen/GenCodegen.v: [entry_template], [group_template]) and their meaning as label-level items.
    The theorems say: the templates the proofs were written for mean exactly [gen_ent] / [gen_group] of Policy.v,
    for every entry list, action label, byte order and next label - by induction over the condition lists. *)
From Coq Require Import List NArith Bool String Lia.
From Seccomp Require Import Words Machine Result Assembler Policy Codegen.
Import ListNotations.
Open Scope N_scope.
Open Scope list_scope.

Inductive bval := BVNum | BVAction | BVOther (src:string).
Inductive bstmt :=
| BNew (v:string)                                  (* v := p.NewLabel() *)
| BJmpIfTrue (c:option cond) (v:bval) (l:string)   (* p.JmpIfTrue(c, v, l) *)
| BSetLabel (l:string) | BJmp (l:string) | BRet (v:bval)
| BEmit (i:pinstr)                                 (* p.instructions = append(p.instructions, i) *)
| BMatchIsActionOnLast (v:string)                  (* match := v; if this is the last condition { match = action } *)
| BChain (nomatch:string)                          (* the operation chain, with the names of match / noMatch *)
| BIfNoConditions (body:list bstmt)                (* if len(s.Conditions) == 0 { body } *)
| BForLists (body:list bstmt) | BForConds (body:list bstmt) | BForEntries (body:list bstmt)
| BAssembleEntry (l:string)                        (* syscall.Assemble(&p, l) *)
| BIfGroupEmptyReturnNothing | BToSyscalls | BIfErrReturn | BNewProgram | BReturn | BReturnAssembled
| BUnknown (src:string).

Record bstate := { bs_env : list (string * label); bs_next : label; bs_out : list item }.

Fixpoint env_get (env:list (string * label)) (v:string) : option label :=
  match env with [] => None | (k, l) :: r => if String.eqb k v then Some l else env_get r v end.

(** a Go `for ... range l` whose body declares its own locals: the environment is restored after every iteration;
    [run x is_last st] executes the body, [k] is what follows the loop *)
Fixpoint loop {A R:Type} (run : A -> bool -> bstate -> option (bstate * bool)) (k : bstate -> option R) (l:list A) (st:bstate) : option R :=
  match l with
  | [] => k st
  | x :: more =>
      match run x (match more with [] => true | _ => false end) st with
      | Some (st', false) => loop run k more {| bs_env := bs_env st; bs_next := bs_next st'; bs_out := bs_out st' |}
      | _ => None          (* a return inside the loop body is not expected *)
      end
  end.

Section Interp.
Variable le : bool.
Variable chain : list (string * list ccall).

(** what a run of statements is currently inside of *)
Record bctx := { bc_num : N; bc_lists : list (list cnd); bc_conds : list cnd; bc_cond : option (cnd * bool) (* condition, is last *) }.

Definition emit (st:bstate) (its:list item) : bstate :=
  {| bs_env := bs_env st; bs_next := bs_next st; bs_out := bs_out st ++ its |}.

(** outcome of a statement list: the new state, and whether a `return` was executed *)
Fixpoint run_entry (fuel:nat) (stmts:list bstmt) (cx:bctx) (st:bstate) : option (bstate * bool) :=
  match fuel with
  | O => None
  | S fuel' =>
    match stmts with
    | [] => Some (st, false)
    | s :: rest =>
      let continue st' := run_entry fuel' rest cx st' in
      match s with
      | BNew v => continue {| bs_env := (v, bs_next st) :: bs_env st; bs_next := bs_next st + 1; bs_out := bs_out st |}
      | BJmpIfTrue (Some c) BVNum l =>
          match env_get (bs_env st) l with
          | Some tl => continue {| bs_env := bs_env st; bs_next := bs_next st + 1;
                                   bs_out := bs_out st ++ [TJmpIf c (bc_num cx) tl (bs_next st); TLabel (bs_next st)] |}
          | None => None
          end
      | BSetLabel l => match env_get (bs_env st) l with Some x => continue (emit st [TLabel x]) | None => None end
      | BEmit (PILoad off size) =>
          if String.eqb off "syscallNumOffset" && String.eqb size "sizeOfUint32" then continue (emit st [TLd 0]) else None
      | BMatchIsActionOnLast v =>
          match bc_cond cx, env_get (bs_env st) v, env_get (bs_env st) "action" with
          | Some (_, last), Some x, Some a =>
              continue {| bs_env := ("match"%string, if last then a else x) :: bs_env st; bs_next := bs_next st; bs_out := bs_out st |}
          | _, _, _ => None
          end
      | BChain nmv =>
          match bc_cond cx, env_get (bs_env st) "match", env_get (bs_env st) nmv with
          | Some (c, _), Some mt, Some nm =>
              match chain_gen le chain c mt nm (bs_next st) with
              | Some (its, n') => continue {| bs_env := bs_env st; bs_next := n'; bs_out := bs_out st ++ its |}
              | None => None
              end
          | _, _, _ => None
          end
      | BIfNoConditions body =>
          match bc_lists cx with
          | [] => match run_entry fuel' body cx st with
                  | Some (st', true) => Some (st', true)
                  | Some (st', false) => continue st'
                  | None => None
                  end
          | _ :: _ => continue st
          end
      | BForLists body =>
          loop (fun cs (_:bool) st => run_entry fuel' body {| bc_num := bc_num cx; bc_lists := bc_lists cx; bc_conds := cs; bc_cond := None |} st)
               continue (bc_lists cx) st
      | BForConds body =>
          loop (fun c last st => run_entry fuel' body {| bc_num := bc_num cx; bc_lists := bc_lists cx; bc_conds := bc_conds cx; bc_cond := Some (c, last) |} st)
               continue (bc_conds cx) st
      | BReturn => Some (st, true)
      | _ => None
      end
    end
  end.

(** SyscallWithConditions.Assemble(p, action) on the builder whose next label is [n] *)
Definition entry_lists (e:entry) : list (list cnd) := match e with EU _ => [] | EC _ ls => ls end.

Definition interp_entry (tpl:list bstmt) (e:entry) (action n:label) : option (list item * label) :=
  match run_entry 12 tpl {| bc_num := entry_num e; bc_lists := entry_lists e; bc_conds := []; bc_cond := None |}
                  {| bs_env := [("action"%string, action)]; bs_next := n; bs_out := [] |} with
  | Some (st, _) => Some (bs_out st, bs_next st)
  | None => None
  end.

(** SyscallGroup.assemble: the statements between NewProgram() and `return p.Assemble()` *)
Fixpoint run_group (fuel:nat) (etpl:list bstmt) (stmts:list bstmt) (es:list entry) (w:N) (st:bstate) : option bstate :=
  match fuel with
  | O => None
  | S fuel' =>
    match stmts with
    | [] => None                      (* must end with `return p.Assemble()` *)
    | s :: rest =>
      match s with
      | BReturnAssembled => match rest with [] => Some st | _ => None end
      | BNew v => run_group fuel' etpl rest es w {| bs_env := (v, bs_next st) :: bs_env st; bs_next := bs_next st + 1; bs_out := bs_out st |}
      | BJmp l => match env_get (bs_env st) l with Some x => run_group fuel' etpl rest es w (emit st [TJaL x]) | None => None end
      | BSetLabel l => match env_get (bs_env st) l with Some x => run_group fuel' etpl rest es w (emit st [TLabel x]) | None => None end
      | BRet BVAction => run_group fuel' etpl rest es w (emit st [TRet w])
      | BForEntries [BAssembleEntry l] =>
          match env_get (bs_env st) l with
          | Some action =>
              loop (fun e (_:bool) st => match interp_entry etpl e action (bs_next st) with
                                         | Some (its, n') => Some ({| bs_env := bs_env st; bs_next := n'; bs_out := bs_out st ++ its |}, false)
                                         | None => None
                                         end)
                   (fun st => run_group fuel' etpl rest es w st) es st
          | None => None
          end
      | _ => None
      end
    end
  end.

(** the head of SyscallGroup.assemble: empty group -> nothing; toSyscallsWithConditions; error -> return; NewProgram
    (the first NewLabel of a fresh Program returns 2) *)
Definition interp_group (etpl gtpl:list bstmt) (es:list entry) (w:N) : option (list item * label) :=
  match gtpl with
  | BIfGroupEmptyReturnNothing :: BToSyscalls :: BIfErrReturn :: BNewProgram :: body =>
      match run_group 12 etpl body es w {| bs_env := []; bs_next := 2; bs_out := [] |} with
      | Some st => Some (bs_out st, bs_next st)
      | None => None
      end
  | _ => None
  end.
End Interp.

(** ** The templates the proofs were written for *)
Definition expected_entry_template : list bstmt := [
  BIfNoConditions [BJmpIfTrue (Some JEq) BVNum "action"; BReturn];
  BNew "L0";
  BJmpIfTrue (Some JNe) BVNum "L0";
  BForLists [BNew "L1"; BForConds [BNew "L2"; BMatchIsActionOnLast "L2"; BChain "L1"; BSetLabel "L2"]; BSetLabel "L1"];
  BEmit (PILoad "syscallNumOffset" "sizeOfUint32");
  BSetLabel "L0" ]%string.

Definition expected_group_template : list bstmt := [
  BIfGroupEmptyReturnNothing; BToSyscalls; BIfErrReturn; BNewProgram;
  BNew "L0"; BForEntries [BAssembleEntry "L0"]; BNew "L1"; BJmp "L1"; BSetLabel "L0"; BRet BVAction; BSetLabel "L1";
  BReturnAssembled ]%string.

(** ** The expected templates mean [gen_ent] / [gen_group] *)
Section Proofs.
Variable le : bool.
Variable chain : list (string * list ccall).
Hypothesis Hchain : forall c mt nm n, chain_gen le chain c mt nm n = Some (gen_cond le c mt nm n).

Definition cond_body : list bstmt := [BNew "L2"; BMatchIsActionOnLast "L2"; BChain "L1"; BSetLabel "L2"]%string.
Definition list_body : list bstmt := [BNew "L1"; BForConds cond_body; BSetLabel "L1"]%string.

(** one iteration of the condition loop *)
Lemma cond_iteration env a nm c last n out num ls cs :
  env_get env "action" = Some a -> env_get env "L1" = Some nm ->
  run_entry le chain 6 cond_body {| bc_num := num; bc_lists := ls; bc_conds := cs; bc_cond := Some (c, last) |}
            {| bs_env := env; bs_next := n; bs_out := out |}
  = let mt := if last then a else n in
    let '(code, n1) := gen_cond le c mt nm (n+1) in
    Some ({| bs_env := ("match"%string, mt) :: ("L2"%string, n) :: env; bs_next := n1; bs_out := (out ++ code) ++ [TLabel n] |}, false).
Proof.
  intros Ha Hn. unfold cond_body. cbn [run_entry bs_env bs_next bs_out bc_cond env_get String.eqb Ascii.eqb Bool.eqb].
  rewrite Ha. cbn [run_entry bs_env bs_next bs_out bc_cond env_get String.eqb Ascii.eqb Bool.eqb]. rewrite Hn.
  rewrite Hchain. destruct (gen_cond le c (if last then a else n) nm (n + 1)) as [code n1].
  cbn [run_entry bs_env bs_next bs_out bc_cond env_get String.eqb Ascii.eqb Bool.eqb emit]. reflexivity.
Qed.

Lemma conds_loop {R} (k:bstate -> option R) num ls cs0 : forall cs env a nm n out,
  env_get env "action" = Some a -> env_get env "L1" = Some nm ->
  loop (fun c last st => run_entry le chain 6 cond_body {| bc_num := num; bc_lists := ls; bc_conds := cs0; bc_cond := Some (c, last) |} st)
       k cs {| bs_env := env; bs_next := n; bs_out := out |}
  = let '(its, n') := gen_conds le cs a nm n in k {| bs_env := env; bs_next := n'; bs_out := out ++ its |}.
Proof.
  induction cs as [|c rest IH]; intros env a nm n out Ha Hn.
  - cbn [loop gen_conds]. rewrite app_nil_r. reflexivity.
  - cbn [loop gen_conds]. rewrite (cond_iteration env a nm c _ n out num ls cs0 Ha Hn).
    assert (E: (if match rest with [] => true | _ :: _ => false end then a else n) = match rest with [] => a | _ :: _ => n end)
      by (destruct rest; reflexivity).
    cbv zeta. rewrite E.
    destruct (gen_cond le c (match rest with [] => a | _ :: _ => n end) nm (n + 1)) as [code n1].
    cbn [bs_env bs_next bs_out]. rewrite (IH env a nm n1 _ Ha Hn).
    destruct (gen_conds le rest a nm n1) as [more n2].
    rewrite <- !app_assoc. reflexivity.
Qed.

(** one-step unfolding equations (all by computation); used instead of [cbn] so that loop bodies stay folded *)
Lemma step_new f v rest cx st :
  run_entry le chain (S f) (BNew v :: rest) cx st =
  run_entry le chain f rest cx {| bs_env := (v, bs_next st) :: bs_env st; bs_next := bs_next st + 1; bs_out := bs_out st |}.
Proof. reflexivity. Qed.
Lemma step_forconds f body rest cx st :
  run_entry le chain (S f) (BForConds body :: rest) cx st =
  loop (fun c last st => run_entry le chain f body {| bc_num := bc_num cx; bc_lists := bc_lists cx; bc_conds := bc_conds cx; bc_cond := Some (c, last) |} st)
       (fun st' => run_entry le chain f rest cx st') (bc_conds cx) st.
Proof. reflexivity. Qed.
Lemma step_forlists f body rest cx st :
  run_entry le chain (S f) (BForLists body :: rest) cx st =
  loop (fun cs (_:bool) st => run_entry le chain f body {| bc_num := bc_num cx; bc_lists := bc_lists cx; bc_conds := cs; bc_cond := None |} st)
       (fun st' => run_entry le chain f rest cx st') (bc_lists cx) st.
Proof. reflexivity. Qed.
Lemma step_setlabel f l rest cx st x : env_get (bs_env st) l = Some x ->
  run_entry le chain (S f) (BSetLabel l :: rest) cx st = run_entry le chain f rest cx (emit st [TLabel x]).
Proof. intros H. cbn [run_entry]. rewrite H. reflexivity. Qed.
Lemma step_nil f cx st : run_entry le chain (S f) [] cx st = Some (st, false).
Proof. reflexivity. Qed.
Lemma step_jt f c l rest cx st tl : env_get (bs_env st) l = Some tl ->
  run_entry le chain (S f) (BJmpIfTrue (Some c) BVNum l :: rest) cx st =
  run_entry le chain f rest cx {| bs_env := bs_env st; bs_next := bs_next st + 1;
                                  bs_out := bs_out st ++ [TJmpIf c (bc_num cx) tl (bs_next st); TLabel (bs_next st)] |}.
Proof. intros H. cbn [run_entry]. rewrite H. reflexivity. Qed.
Lemma step_reload f rest cx st :
  run_entry le chain (S f) (BEmit (PILoad "syscallNumOffset" "sizeOfUint32") :: rest) cx st = run_entry le chain f rest cx (emit st [TLd 0]).
Proof. reflexivity. Qed.

(** one iteration of the list loop: noMatch := NewLabel(); conditions; SetLabel(noMatch) *)
Lemma list_iteration env a cs n out num ls :
  env_get env "action" = Some a ->
  run_entry le chain 8 list_body {| bc_num := num; bc_lists := ls; bc_conds := cs; bc_cond := None |}
            {| bs_env := env; bs_next := n; bs_out := out |}
  = let '(code, n1) := gen_list le cs a n in
    Some ({| bs_env := ("L1"%string, n) :: env; bs_next := n1; bs_out := out ++ code |}, false).
Proof.
  intros Ha. unfold list_body. rewrite step_new, step_forconds. cbn [bs_env bs_next bs_out bc_conds bc_num bc_lists].
  rewrite (conds_loop _ num ls cs cs (("L1"%string, n) :: env) a n (n + 1) out).
  - unfold gen_list. destruct (gen_conds le cs a n (n + 1)) as [code n1].
    rewrite (step_setlabel _ _ _ _ _ n) by reflexivity. rewrite step_nil. unfold emit. cbn [bs_env bs_next bs_out].
    rewrite <- app_assoc. reflexivity.
  - cbn [env_get String.eqb Ascii.eqb Bool.eqb]. exact Ha.
  - reflexivity.
Qed.

Lemma lists_loop {R} (k:bstate -> option R) num ls0 : forall ls env a n out,
  env_get env "action" = Some a ->
  loop (fun cs (_:bool) st => run_entry le chain 8 list_body {| bc_num := num; bc_lists := ls0; bc_conds := cs; bc_cond := None |} st)
       k ls {| bs_env := env; bs_next := n; bs_out := out |}
  = let '(its, n') := gen_lists le ls a n in k {| bs_env := env; bs_next := n'; bs_out := out ++ its |}.
Proof.
  induction ls as [|cs rest IH]; intros env a n out Ha.
  - cbn [loop gen_lists]. rewrite app_nil_r. reflexivity.
  - cbn [loop gen_lists]. rewrite (list_iteration env a cs n out num ls0 Ha).
    destruct (gen_list le cs a n) as [code n1]. cbn [bs_env bs_next bs_out].
    rewrite (IH env a n1 _ Ha). destruct (gen_lists le rest a n1) as [more n2].
    rewrite <- app_assoc. reflexivity.
Qed.

(** SyscallWithConditions.Assemble = gen_ent *)
Theorem expected_entry_is_gen_ent e action n :
  match e with EC _ [] => False | _ => True end ->
  interp_entry le chain expected_entry_template e action n = Some (gen_ent le e action n).
Proof.
  intros Hne. unfold interp_entry, expected_entry_template. destruct e as [num|num ls].
  - (* no conditions: the early return *)
    cbn. reflexivity.
  - destruct ls as [|cs0 ls']; [destruct Hne|]. set (ls := cs0 :: ls').
    cbn [entry_num entry_lists].
    change (run_entry le chain 12 (BIfNoConditions [BJmpIfTrue (Some JEq) BVNum "action"%string; BReturn] :: ?r) ?cx ?st)
      with (run_entry le chain 11 r cx st).
    rewrite step_new. cbn [bs_env bs_next bs_out].
    rewrite (step_jt _ _ _ _ _ _ n) by reflexivity. cbn [bs_env bs_next bs_out bc_num app].
    rewrite step_forlists. cbn [bc_num bc_lists].
    rewrite (lists_loop _ num ls ls _ action (n + 1 + 1) _) by reflexivity.
    unfold gen_ent. replace (n + 1 + 1) with (n + 2) by lia.
    destruct (gen_lists le ls action (n + 2)) as [code n1].
    rewrite step_reload. unfold emit. cbn [bs_env bs_next bs_out].
    rewrite (step_setlabel _ _ _ _ _ n) by reflexivity. rewrite step_nil. unfold emit. cbn [bs_env bs_next bs_out].
    unfold jmp_if_true. rewrite <- !app_assoc. reflexivity.
Qed.

Definition entry_nondegenerate (e:entry) : Prop := match e with EC _ [] => False | _ => True end.

Lemma entries_loop {R} (k:bstate -> option R) action : forall es env n out,
  Forall entry_nondegenerate es ->
  loop (fun e (_:bool) st => match interp_entry le chain expected_entry_template e action (bs_next st) with
                             | Some (its, n') => Some ({| bs_env := bs_env st; bs_next := n'; bs_out := bs_out st ++ its |}, false)
                             | None => None
                             end) k es {| bs_env := env; bs_next := n; bs_out := out |}
  = let '(its, n') := gen_ents le es action n in k {| bs_env := env; bs_next := n'; bs_out := out ++ its |}.
Proof.
  induction es as [|e rest IH]; intros env n out Hnd.
  - cbn [loop gen_ents]. rewrite app_nil_r. reflexivity.
  - inversion Hnd as [|? ? He Hr]; subst. cbn [loop gen_ents bs_next bs_env bs_out].
    rewrite (expected_entry_is_gen_ent e action n He). destruct (gen_ent le e action n) as [code n1].
    cbn [bs_env bs_next bs_out]. rewrite (IH env n1 _ Hr). destruct (gen_ents le rest action n1) as [more n2].
    rewrite <- app_assoc. reflexivity.
Qed.

(** SyscallGroup.assemble (between NewProgram and p.Assemble) = gen_group *)
Theorem expected_group_is_gen_group es w :
  Forall entry_nondegenerate es ->
  interp_group le chain expected_entry_template expected_group_template es w = Some (gen_group le es w).
Proof.
  intros Hnd. unfold interp_group, expected_group_template.
  change (run_group le chain 12 expected_entry_template (BNew "L0"%string :: BForEntries [BAssembleEntry "L0"%string] :: ?r) es w
                    {| bs_env := []; bs_next := 2; bs_out := [] |})
    with (loop (fun e (_:bool) st => match interp_entry le chain expected_entry_template e 2 (bs_next st) with
                                     | Some (its, n') => Some ({| bs_env := bs_env st; bs_next := n'; bs_out := bs_out st ++ its |}, false)
                                     | None => None
                                     end)
               (fun st => run_group le chain 10 expected_entry_template r es w st) es
               {| bs_env := [("L0"%string, 2)]; bs_next := 3; bs_out := [] |}).
  rewrite (entries_loop _ 2 es _ 3 [] Hnd). unfold gen_group.
  destruct (gen_ents le es 2 3) as [code n1].
  cbn [run_group bs_env bs_next bs_out env_get String.eqb Ascii.eqb Bool.eqb emit]. rewrite <- !app_assoc. reflexivity.
Qed.
End Proofs.
