(** * DisasmProofs: theorems about the model of disasm.go (Disasm.v), for every input.

    - [parse_never_panics] / [parse_total]: no input reaches a panicking slice or index expression;
    - [read_error_is_error], [long_line_is_error], [done_means_complete]: an unreadable text is an
      error, never a (partial) list;
    - [function_scoped] (+ [function_scoped_text]): what is found after a function marker does not
      depend on anything before the marker;
    - [append_monotone] (+ [append_monotone_text]): appending lines never removes earlier results;
    - [reported_in_table]: every record's (Num, Name) is an entry of the parser's table. *)
From Coq Require Import List NArith ZArith Bool String Ascii Lia.
From Seccomp Require Import Disasm.
Import ListNotations.
Open Scope string_scope.
Open Scope N_scope.

(** ** Checked operations succeed under the guards the code uses *)
Lemma slice_from_some : forall n s, N.of_nat n <= length_N s -> exists r, slice_from n s = Some r.
Proof.
  induction n as [|n IH]; intros s H; cbn [slice_from]; [eexists; reflexivity|].
  destruct s as [|c r]; cbn [length_N] in H; [lia|]. apply IH. lia.
Qed.

Lemma function_name_total : forall line, exists f, function_name line = Some f.
Proof.
  intros line. unfold function_name.
  destruct (length_N function_marker <? length_N line) eqn:E; [|eexists; reflexivity].
  apply N.ltb_lt in E. change (length_N function_marker) with 4 in E.
  apply slice_from_some. change (N.of_nat 5) with 5. lia.
Qed.

Lemma len_gt_nth {A} : forall (l:list A) n, len_gt l n = true -> exists x, nth_error l n = Some x.
Proof.
  induction l as [|a l IH]; intros n H; cbn [len_gt] in H; [discriminate|].
  destruct n as [|n]; cbn [nth_error]; [eexists; reflexivity|]. apply IH. exact H.
Qed.

Lemma len_gt_slice {A} : forall (l:list A) n, len_gt l n = true -> exists r, list_slice_from n l = Some r.
Proof.
  induction l as [|a l IH]; intros n H; cbn [len_gt] in H; [discriminate|].
  destruct n as [|n]; cbn [list_slice_from]; [eexists; reflexivity|]. apply IH. exact H.
Qed.

Lemma new_syscall_total : forall line, exists s, new_syscall line = Some s.
Proof.
  intros line. unfold new_syscall.
  destruct (len_gt (fields line) 0) eqn:E0.
  - destruct (len_gt_nth _ _ E0) as [x ->].
    destruct (len_gt (fields line) 3) eqn:E3.
    + destruct (len_gt_slice _ _ E3) as [r ->]. cbn [option_map]. eexists; reflexivity.
    + eexists; reflexivity.
  - destruct (len_gt (fields line) 3) eqn:E3.
    + destruct (len_gt_slice _ _ E3) as [r ->]. cbn [option_map]. eexists; reflexivity.
    + eexists; reflexivity.
Qed.

Lemma last_instruction_total : forall win, exists i, last_instruction win = Some i.
Proof.
  intros win. unfold last_instruction. destruct (len_gt win 1) eqn:E; [|eexists; reflexivity].
  apply len_gt_nth. exact E.
Qed.

Lemma search_no_panic : forall sufs line win, search sufs line win <> PPanic.
Proof.
  intros sufs line win. unfold search. destruct (new_syscall_total line) as [s ->].
  destruct (find_syscall_num sufs win); discriminate.
Qed.

Lemma parse_x86_no_panic : forall p line caller win, parse_x86 p line caller win <> PPanic.
Proof.
  intros p line caller win. unfold parse_x86.
  destruct (is_raw_syscall p line && negb (is_syscall_function caller)).
  - destruct (last_instruction_total win) as [i ->].
    destruct (negb (is_empty i) && contains "XORL AX, AX" i).
    + destruct (new_syscall_total line) as [s ->]. discriminate.
    + apply search_no_panic.
  - destruct (is_function_call p line && is_syscall_function line); [apply search_no_panic|discriminate].
Qed.

(** ** The loop without the impossible outcome *)
Definition fname (line:string) : string :=
  match function_name line with Some f => f | None => EmptyString end.

Fixpoint run_pure (p:parser) (fn:string) (win:list string) (lines:list string) : list syscall :=
  match lines with
  | [] => []
  | line :: rest =>
      if has_prefix function_marker line then run_pure p (fname line) [] rest
      else match parse_x86 p line fn (line :: win) with
           | PFound s => match lookup_int (p_table p) (sc_num s) with
                         | None => run_pure p fn [] rest
                         | Some name => finish s name fn :: run_pure p fn [] rest
                         end
           | _ => run_pure p fn (line :: win) rest
           end
  end.

(** the state (function, instruction window) in which the loop is after [lines] *)
Fixpoint state_after (p:parser) (fn:string) (win:list string) (lines:list string) : string * list string :=
  match lines with
  | [] => (fn, win)
  | line :: rest =>
      if has_prefix function_marker line then state_after p (fname line) [] rest
      else match parse_x86 p line fn (line :: win) with
           | PFound _ => state_after p fn [] rest
           | _ => state_after p fn (line :: win) rest
           end
  end.

Lemma run_done : forall p lines fn win, run p fn win lines = Done (run_pure p fn win lines).
Proof.
  intros p lines. induction lines as [|line rest IH]; intros fn win; cbn [run run_pure]; [reflexivity|].
  destruct (has_prefix function_marker line).
  - unfold fname. destruct (function_name_total line) as [f ->]. apply IH.
  - pose proof (parse_x86_no_panic p line fn (line :: win)) as NP.
    destruct (parse_x86 p line fn (line :: win)) as [s| | |]; try apply IH; [|congruence].
    destruct (lookup_int (p_table p) (sc_num s)); [rewrite IH; reflexivity|apply IH].
Qed.

Lemma run_pure_app : forall p a b fn win,
  run_pure p fn win (a ++ b)%list =
  (run_pure p fn win a ++ run_pure p (fst (state_after p fn win a)) (snd (state_after p fn win a)) b)%list.
Proof.
  intros p a b. induction a as [|line rest IH]; intros fn win; cbn [app run_pure state_after fst snd]; [reflexivity|].
  destruct (has_prefix function_marker line); [apply IH|].
  destruct (parse_x86 p line fn (line :: win)) as [s| | |]; try apply IH.
  destruct (lookup_int (p_table p) (sc_num s)); [cbn [app]; f_equal|]; apply IH.
Qed.

Lemma run_pure_marker : forall p m body fn win fn' win', has_prefix function_marker m = true ->
  run_pure p fn win (m :: body) = run_pure p fn' win' (m :: body).
Proof. intros p m body fn win fn' win' H. cbn [run_pure]. rewrite H. reflexivity. Qed.

(** ** Totality *)
Theorem run_never_panics : forall p fn win lines, run p fn win lines <> Panic.
Proof. intros. rewrite run_done. discriminate. Qed.

Theorem parse_lines_total : forall p lines, exists recs, parse_lines p lines = Done recs.
Proof. intros. unfold parse_lines. rewrite run_done. eexists; reflexivity. Qed.

(** what parser.Parse returns, in closed form *)
Lemma parse_content : forall p data fails,
  parse p (Content data fails) =
  if snd (scan_lines data) then Failed ETooLong
  else if fails then Failed ERead
  else Done (run_pure p EmptyString [] (fst (scan_lines data))).
Proof.
  intros p data fails. unfold parse, parse_lines. destruct (scan_lines data) as [ls e]. rewrite run_done. reflexivity.
Qed.

Theorem parse_never_panics : forall p f, parse p f <> Panic.
Proof.
  intros p [|data fails]; [discriminate|]. rewrite parse_content.
  destruct (snd (scan_lines data)); [discriminate|]. destruct fails; discriminate.
Qed.

Theorem parse_total : forall p f, (exists recs, parse p f = Done recs) \/ (exists e, parse p f = Failed e).
Proof.
  intros p f. destruct (parse p f) as [recs|e|] eqn:E; [left; eexists; reflexivity|right; eexists; reflexivity|].
  exfalso. exact (parse_never_panics p f E).
Qed.

Theorem extract_never_panics : forall i386 x86_64 arch_id arch_mask f, extract_syscalls i386 x86_64 arch_id arch_mask f <> Panic.
Proof.
  intros. unfold extract_syscalls. destruct (selects arch_id arch_mask i386); [apply parse_never_panics|].
  destruct (selects arch_id arch_mask x86_64); [apply parse_never_panics|discriminate].
Qed.

(** ** Unreadable texts are errors *)
Theorem open_error_is_error : forall p, parse p OpenFails = Failed EOpen.
Proof. reflexivity. Qed.

(** the reader fails after delivering any prefix [data]: an error, never a list *)
Theorem read_error_is_error : forall p data, exists e, parse p (Content data true) = Failed e.
Proof.
  intros p data. rewrite parse_content. destruct (snd (scan_lines data)); eexists; reflexivity.
Qed.

Lemma take_tokens_long : forall toks tok, In tok toks -> max_token <= length_N tok -> snd (take_tokens toks) = true.
Proof.
  induction toks as [|t r IH]; intros tok Hin Hlen; [destruct Hin|]. cbn [take_tokens].
  destruct (max_token <=? length_N t) eqn:E; [reflexivity|].
  destruct Hin as [->|Hin]; [apply N.leb_gt in E; lia|].
  specialize (IH tok Hin Hlen). destruct (take_tokens r) as [ls e]. exact IH.
Qed.

(** some line (token of the scanner) of 65536 bytes or more: an error whatever the reader does *)
Theorem long_token_is_error : forall p data fails tok,
  In tok (scan_raw data) -> max_token <= length_N tok -> parse p (Content data fails) = Failed ETooLong.
Proof.
  intros p data fails tok Hin Hlen. rewrite parse_content. unfold scan_lines.
  rewrite (take_tokens_long _ _ Hin Hlen). reflexivity.
Qed.

Lemma take_tokens_short : forall toks, snd (take_tokens toks) = false ->
  Forall (fun t => length_N t < max_token) toks /\ fst (take_tokens toks) = map drop_cr toks.
Proof.
  induction toks as [|t r IH]; cbn [take_tokens map]; intros H; [split; [constructor|reflexivity]|].
  destruct (max_token <=? length_N t) eqn:E; [discriminate|]. apply N.leb_gt in E.
  destruct (take_tokens r) as [ls e]. cbn [fst snd] in *. destruct (IH H) as [F M]. split; [constructor; assumption|f_equal; exact M].
Qed.

(** conversely a list is returned only if the reader reached the end of the file and every line was
    shorter than the limit -- and then every line of the text was given to the loop *)
Theorem done_means_complete : forall p data fails recs, parse p (Content data fails) = Done recs ->
  fails = false /\ Forall (fun t => length_N t < max_token) (scan_raw data) /\
  parse_lines p (map drop_cr (scan_raw data)) = Done recs.
Proof.
  intros p data fails recs H. rewrite parse_content in H.
  destruct (snd (scan_lines data)) eqn:E; [discriminate|]. destruct fails; [discriminate|].
  unfold scan_lines in *. destruct (take_tokens_short _ E) as [F M]. rewrite M in H.
  split; [reflexivity|]. split; [exact F|]. unfold parse_lines. rewrite run_done. exact H.
Qed.

(** ** The scanner on concatenated texts *)
Definition nl : ascii := "010"%char.
Definition newline : string := String nl EmptyString.
Definition no_nl (s:string) : Prop := forall a b, s <> a ++ String nl b.

Lemma is_nl_true : forall c, is_nl c = true -> c = nl.
Proof.
  intros c H. unfold is_nl, byte in H. apply N.eqb_eq in H.
  rewrite <- (ascii_N_embedding c). rewrite H. reflexivity.
Qed.
Lemma is_nl_nl : is_nl nl = true.
Proof. reflexivity. Qed.

Lemma append_assoc : forall a b c:string, (a ++ b) ++ c = a ++ (b ++ c).
Proof. induction a as [|x a IH]; intros b c; cbn [append]; [reflexivity|]. rewrite IH. reflexivity. Qed.
Lemma append_nil_r : forall a:string, a ++ EmptyString = a.
Proof. induction a as [|x a IH]; cbn [append]; [reflexivity|]. rewrite IH. reflexivity. Qed.

Lemma scan_raw_nil : forall s, scan_raw s = [] -> s = EmptyString.
Proof.
  intros [|c r]; cbn [scan_raw]; [reflexivity|]. destruct (is_nl c); [discriminate|].
  destruct (scan_raw r); discriminate.
Qed.

(** a text that ends with a newline scans independently of what follows *)
Lemma scan_raw_app : forall a b, scan_raw ((a ++ newline) ++ b) = (scan_raw (a ++ newline) ++ scan_raw b)%list.
Proof.
  induction a as [|c a IH]; intros b.
  - cbn. reflexivity.
  - cbn [append scan_raw]. destruct (is_nl c).
    + rewrite IH. reflexivity.
    + rewrite IH. destruct (scan_raw (a ++ newline)) as [|h t] eqn:E.
      * apply scan_raw_nil in E. destruct a; discriminate.
      * reflexivity.
Qed.

Lemma take_tokens_app : forall x y,
  take_tokens (x ++ y)%list =
  if snd (take_tokens x) then (fst (take_tokens x), true)
  else ((fst (take_tokens x) ++ fst (take_tokens y))%list, snd (take_tokens y)).
Proof.
  induction x as [|t r IH]; intros y; cbn [app take_tokens fst snd].
  - destruct (take_tokens y); reflexivity.
  - destruct (max_token <=? length_N t); [reflexivity|]. rewrite IH.
    destruct (take_tokens r) as [ls e]. cbn [fst snd]. destruct e; reflexivity.
Qed.

Lemma scan_lines_app : forall a b,
  scan_lines ((a ++ newline) ++ b) =
  if snd (scan_lines (a ++ newline)) then (fst (scan_lines (a ++ newline)), true)
  else ((fst (scan_lines (a ++ newline)) ++ fst (scan_lines b))%list, snd (scan_lines b)).
Proof. intros a b. unfold scan_lines. rewrite scan_raw_app. apply take_tokens_app. Qed.

(** a line without newline is one token *)
Lemma no_nl_cons : forall c s, no_nl (String c s) -> is_nl c = false /\ no_nl s.
Proof.
  intros c s H. split.
  - destruct (is_nl c) eqn:E; [|reflexivity]. apply is_nl_true in E. subst c.
    exfalso. apply (H EmptyString s). reflexivity.
  - intros a b E. apply (H (String c a) b). cbn [append]. rewrite E. reflexivity.
Qed.

Lemma scan_raw_line : forall l b, no_nl l -> scan_raw (l ++ String nl b) = l :: scan_raw b.
Proof.
  induction l as [|c l IH]; intros b H; cbn [append scan_raw].
  - rewrite is_nl_nl. reflexivity.
  - destruct (no_nl_cons _ _ H) as [E H']. rewrite E. rewrite (IH b H'). reflexivity.
Qed.

Lemma scan_raw_last : forall l, no_nl l -> l <> EmptyString -> scan_raw l = [l].
Proof.
  induction l as [|c l IH]; intros H Hne; [congruence|]. cbn [scan_raw].
  destruct (no_nl_cons _ _ H) as [E H']. rewrite E.
  destruct l as [|d l]; [reflexivity|]. rewrite (IH H'); [reflexivity|discriminate].
Qed.

(** a line of 65536 bytes or more anywhere in the text (between line boundaries) *)
Theorem long_line_is_error : forall p a l b fails,
  (a = EmptyString \/ exists a', a = a' ++ newline) ->
  (b = EmptyString \/ exists b', b = String nl b') ->
  no_nl l -> max_token <= length_N l ->
  parse p (Content (a ++ l ++ b) fails) = Failed ETooLong.
Proof.
  intros p a l b fails Ha Hb Hl Hlen. apply long_token_is_error with (tok := l); [|exact Hlen].
  assert (Hin: In l (scan_raw (l ++ b))).
  { destruct Hb as [->|[b' ->]].
    - rewrite append_nil_r. rewrite scan_raw_last; [left; reflexivity|exact Hl|].
      intros ->. cbn in Hlen. unfold max_token in Hlen. lia.
    - rewrite scan_raw_line by exact Hl. left. reflexivity. }
  destruct Ha as [->|[a' ->]]; [exact Hin|].
  rewrite scan_raw_app. apply in_or_app. right. exact Hin.
Qed.

(** ** Function scoping and monotonicity, on lines *)
Theorem function_scoped : forall p pre marker body, has_prefix function_marker marker = true ->
  exists r1 r2, parse_lines p pre = Done r1 /\ parse_lines p (marker :: body) = Done r2 /\
                parse_lines p (pre ++ marker :: body)%list = Done (r1 ++ r2)%list.
Proof.
  intros p pre marker body H. unfold parse_lines. rewrite !run_done.
  eexists; eexists. split; [reflexivity|]. split; [reflexivity|]. f_equal.
  rewrite run_pure_app. f_equal. apply run_pure_marker. exact H.
Qed.

(** the same from any state of the loop: what follows a marker never depends on the state *)
Theorem function_scoped_state : forall p fn win fn' win' pre marker body, has_prefix function_marker marker = true ->
  exists r1 r2, run p fn win pre = Done r1 /\ run p fn' win' (marker :: body) = Done r2 /\
                run p fn win (pre ++ marker :: body)%list = Done (r1 ++ r2)%list.
Proof.
  intros p fn win fn' win' pre marker body H. rewrite !run_done.
  eexists; eexists. split; [reflexivity|]. split; [reflexivity|]. f_equal.
  rewrite run_pure_app. f_equal. apply run_pure_marker. exact H.
Qed.

Theorem append_monotone : forall p a b, exists ra rest,
  parse_lines p a = Done ra /\ parse_lines p (a ++ b)%list = Done (ra ++ rest)%list.
Proof.
  intros p a b. unfold parse_lines. rewrite !run_done. eexists; eexists. split; [reflexivity|].
  rewrite run_pure_app. reflexivity.
Qed.

(** ** The same on texts *)
Lemma has_prefix_drop_cr : forall p t, has_prefix p t = true -> forallb (fun c => negb (is_cr c)) (list_ascii_of_string p) = true ->
  has_prefix p (drop_cr t) = true.
Proof.
  induction p as [|a p IH]; intros t H Hp; [reflexivity|].
  destruct t as [|b t]; cbn [has_prefix] in H; [discriminate|].
  apply andb_true_iff in H. destruct H as [Hab Ht]. apply Ascii.eqb_eq in Hab. subst b.
  cbn [list_ascii_of_string forallb] in Hp. apply andb_true_iff in Hp. destruct Hp as [Ha Hp].
  apply negb_true_iff in Ha. cbn [drop_cr]. destruct (is_empty t) eqn:Et.
  - rewrite Ha. cbn [has_prefix]. rewrite Ascii.eqb_refl. exact Ht.
  - cbn [has_prefix]. rewrite Ascii.eqb_refl. cbn [andb]. apply IH; assumption.
Qed.

Lemma scan_raw_has_prefix : forall p b, has_prefix p b = true -> p <> EmptyString ->
  forallb (fun c => negb (is_nl c)) (list_ascii_of_string p) = true ->
  exists h t, scan_raw b = h :: t /\ has_prefix p h = true.
Proof.
  induction p as [|a p IH]; intros b H Hne Hp; [congruence|].
  destruct b as [|c b]; cbn [has_prefix] in H; [discriminate|].
  apply andb_true_iff in H. destruct H as [Hac Hb]. apply Ascii.eqb_eq in Hac. subst c.
  cbn [list_ascii_of_string forallb] in Hp. apply andb_true_iff in Hp. destruct Hp as [Ha Hp].
  apply negb_true_iff in Ha. cbn [scan_raw]. rewrite Ha.
  destruct p as [|a2 p].
  - destruct (scan_raw b) as [|h t]; eexists; eexists; (split; [reflexivity|]); cbn [has_prefix]; rewrite Ascii.eqb_refl; reflexivity.
  - destruct (IH b Hb) as [h [t [E Hh]]]; [discriminate|exact Hp|]. rewrite E.
    eexists; eexists. split; [reflexivity|]. cbn [has_prefix] in *. rewrite Ascii.eqb_refl. exact Hh.
Qed.

(** a text that starts with the function marker has a marker line as its first line *)
Lemma scan_lines_marker : forall b, has_prefix function_marker b = true -> snd (scan_lines b) = false ->
  exists m body, fst (scan_lines b) = m :: body /\ has_prefix function_marker m = true.
Proof.
  intros b H E. unfold scan_lines in *.
  destruct (scan_raw_has_prefix function_marker b H) as [h [t [Es Hh]]]; [discriminate|reflexivity|].
  rewrite Es in *. destruct (take_tokens_short _ E) as [_ M]. rewrite M. cbn [map].
  eexists; eexists. split; [reflexivity|]. apply has_prefix_drop_cr; [exact Hh|reflexivity].
Qed.

(** [a] is a text ending at a line boundary: appending [b] keeps every syscall found in [a] *)
Theorem append_monotone_text : forall p a b ra rb,
  (a = EmptyString \/ exists a', a = a' ++ newline) ->
  parse p (Content a false) = Done ra ->
  parse p (Content b false) = Done rb ->
  exists rest, parse p (Content (a ++ b) false) = Done (ra ++ rest)%list.
Proof.
  intros p a b ra rb Ha Pa Pb. destruct Ha as [->|[a' ->]].
  - cbn [append]. rewrite Pb. rewrite parse_content in Pa. cbn in Pa. injection Pa as <-. exists rb. reflexivity.
  - rewrite parse_content in *. rewrite scan_lines_app.
    destruct (snd (scan_lines (a' ++ newline))); [discriminate|].
    destruct (snd (scan_lines b)); [discriminate|]. cbn [fst snd].
    injection Pa as <-. rewrite run_pure_app. eexists. reflexivity.
Qed.

(** ... and if [b] starts with a function marker, its syscalls are those of [b] parsed alone: nothing
    in [a] (a decoy MOV, an unfinished window, the current function name) reaches them *)
Theorem function_scoped_text : forall p a b ra rb,
  (a = EmptyString \/ exists a', a = a' ++ newline) ->
  has_prefix function_marker b = true ->
  parse p (Content a false) = Done ra ->
  parse p (Content b false) = Done rb ->
  parse p (Content (a ++ b) false) = Done (ra ++ rb)%list.
Proof.
  intros p a b ra rb Ha Hb Pa Pb. destruct Ha as [->|[a' ->]].
  - cbn [append]. rewrite Pb. rewrite parse_content in Pa. cbn in Pa. injection Pa as <-. reflexivity.
  - rewrite parse_content in *. rewrite scan_lines_app.
    destruct (snd (scan_lines (a' ++ newline))); [discriminate|].
    destruct (snd (scan_lines b)) eqn:Eb; [discriminate|]. cbn [fst snd].
    injection Pa as <-. injection Pb as <-. rewrite run_pure_app. f_equal. f_equal.
    destruct (scan_lines_marker b Hb Eb) as [m [body [-> Hm]]]. apply run_pure_marker. exact Hm.
Qed.

(** ** Every reported syscall is an entry of the table *)
Lemma tbl_lookup_in : forall t n s, tbl_lookup t n = Some s -> In (n, s) t.
Proof.
  induction t as [|[n' s'] r IH]; cbn [tbl_lookup]; intros n s H; [discriminate|].
  destruct (N.eqb_spec n' n) as [->|Hne]; [injection H as ->; left; reflexivity|right; auto].
Qed.

Lemma lookup_int_in : forall t z s, lookup_int t z = Some s -> (0 <= z)%Z /\ In (Z.to_N z, s) t.
Proof.
  intros t z s H. unfold lookup_int in H. destruct (z <? 0)%Z eqn:E; [discriminate|].
  apply Z.ltb_ge in E. split; [exact E|apply tbl_lookup_in; exact H].
Qed.

Definition in_table (t:list (N * string)) (r:syscall) : Prop :=
  (0 <= sc_num r)%Z /\ In (Z.to_N (sc_num r), sc_name r) t.

Lemma run_pure_in_table : forall p lines fn win, Forall (in_table (p_table p)) (run_pure p fn win lines).
Proof.
  intros p lines. induction lines as [|line rest IH]; intros fn win; cbn [run_pure]; [constructor|].
  destruct (has_prefix function_marker line); [apply IH|].
  destruct (parse_x86 p line fn (line :: win)) as [s| | |]; try apply IH.
  destruct (lookup_int (p_table p) (sc_num s)) as [name|] eqn:E; [|apply IH].
  constructor; [|apply IH]. unfold in_table, finish. cbn [sc_num sc_name]. apply lookup_int_in. exact E.
Qed.

Theorem reported_in_table_lines : forall p lines recs, parse_lines p lines = Done recs -> Forall (in_table (p_table p)) recs.
Proof.
  intros p lines recs H. unfold parse_lines in H. rewrite run_done in H. injection H as <-. apply run_pure_in_table.
Qed.

Theorem reported_in_table : forall p f recs, parse p f = Done recs -> Forall (in_table (p_table p)) recs.
Proof.
  intros p [|data fails] recs H; [discriminate|]. rewrite parse_content in H.
  destruct (snd (scan_lines data)); [discriminate|]. destruct fails; [discriminate|].
  injection H as <-. apply run_pure_in_table.
Qed.

(** ExtractSyscalls: the table is that of the parser selected by (audit id, syscall mask) *)
Theorem extract_reported_in_table : forall i386 x86_64 arch_id arch_mask f recs,
  extract_syscalls i386 x86_64 arch_id arch_mask f = Done recs ->
  (selects arch_id arch_mask i386 = true /\ Forall (in_table (ar_table i386)) recs) \/
  (selects arch_id arch_mask i386 = false /\ selects arch_id arch_mask x86_64 = true /\ Forall (in_table (ar_table x86_64)) recs).
Proof.
  intros i386 x86_64 arch_id arch_mask f recs H. unfold extract_syscalls in H.
  destruct (selects arch_id arch_mask i386).
  - left. split; [reflexivity|]. exact (reported_in_table _ _ _ H).
  - destruct (selects arch_id arch_mask x86_64); [|discriminate].
    right. split; [reflexivity|]. split; [reflexivity|]. exact (reported_in_table _ _ _ H).
Qed.

Theorem extract_unsupported : forall i386 x86_64 arch_id arch_mask f,
  selects arch_id arch_mask i386 = false -> selects arch_id arch_mask x86_64 = false ->
  extract_syscalls i386 x86_64 arch_id arch_mask f = Failed EUnsupportedArch.
Proof. intros i386 x86_64 arch_id arch_mask f H1 H2. unfold extract_syscalls. rewrite H1, H2. reflexivity. Qed.

(** a record whose (id, mask) selects a parser and whose own table is that parser's table -- decidable,
    so that it can be checked by computation for every record of the regenerated arch package *)
Fixpoint tbl_eqb (a b:list (N * string)) : bool :=
  match a, b with
  | [], [] => true
  | (n, s) :: r, (n', s') :: r' => (n =? n') && String.eqb s s' && tbl_eqb r r'
  | _, _ => false
  end.

Lemma tbl_eqb_eq : forall a b, tbl_eqb a b = true -> a = b.
Proof.
  induction a as [|[n s] r IH]; intros [|[n' s'] r'] H; cbn [tbl_eqb] in H; try discriminate; [reflexivity|].
  apply andb_true_iff in H. destruct H as [H Hr]. apply andb_true_iff in H. destruct H as [Hn Hs].
  apply N.eqb_eq in Hn. apply String.eqb_eq in Hs. subst. f_equal. apply IH. exact Hr.
Qed.

Definition own_table_ok (i386 x86_64:arch_rec) (arch_id arch_mask:N) (table:list (N * string)) : bool :=
  if selects arch_id arch_mask i386 then tbl_eqb (ar_table i386) table
  else if selects arch_id arch_mask x86_64 then tbl_eqb (ar_table x86_64) table
  else true.

Theorem extract_reported_in_own_table : forall i386 x86_64 arch_id arch_mask table f recs,
  own_table_ok i386 x86_64 arch_id arch_mask table = true ->
  extract_syscalls i386 x86_64 arch_id arch_mask f = Done recs -> Forall (in_table table) recs.
Proof.
  intros i386 x86_64 arch_id arch_mask table f recs Hok H. unfold own_table_ok in Hok.
  destruct (extract_reported_in_table _ _ _ _ _ _ H) as [[E F]|[E1 [E2 F]]].
  - rewrite E in Hok. apply tbl_eqb_eq in Hok. rewrite <- Hok. exact F.
  - rewrite E1, E2 in Hok. apply tbl_eqb_eq in Hok. rewrite <- Hok. exact F.
Qed.

(** ** The same statements for ExtractSyscalls (whatever the two architecture records are) *)
Ltac by_parser i386 x86_64 arch_id arch_mask :=
  unfold extract_syscalls in *; destruct (selects arch_id arch_mask i386); [|destruct (selects arch_id arch_mask x86_64)].

Theorem extract_total : forall i386 x86_64 arch_id arch_mask f,
  (exists recs, extract_syscalls i386 x86_64 arch_id arch_mask f = Done recs) \/ (exists e, extract_syscalls i386 x86_64 arch_id arch_mask f = Failed e).
Proof.
  intros. by_parser i386 x86_64 arch_id arch_mask; [apply parse_total|apply parse_total|right; eexists; reflexivity].
Qed.

Theorem extract_open_error_is_error : forall i386 x86_64 arch_id arch_mask, exists e, extract_syscalls i386 x86_64 arch_id arch_mask OpenFails = Failed e.
Proof. intros. by_parser i386 x86_64 arch_id arch_mask; eexists; reflexivity. Qed.

Theorem extract_read_error_is_error : forall i386 x86_64 arch_id arch_mask data,
  exists e, extract_syscalls i386 x86_64 arch_id arch_mask (Content data true) = Failed e.
Proof.
  intros. by_parser i386 x86_64 arch_id arch_mask; [apply read_error_is_error|apply read_error_is_error|eexists; reflexivity].
Qed.

Theorem extract_long_line_is_error : forall i386 x86_64 arch_id arch_mask a l b fails,
  (a = EmptyString \/ exists a', a = a' ++ newline) ->
  (b = EmptyString \/ exists b', b = String nl b') ->
  no_nl l -> max_token <= length_N l ->
  exists e, extract_syscalls i386 x86_64 arch_id arch_mask (Content (a ++ l ++ b) fails) = Failed e.
Proof.
  intros i386 x86_64 arch_id arch_mask a l b fails Ha Hb Hl Hlen.
  by_parser i386 x86_64 arch_id arch_mask; eexists; [apply long_line_is_error; assumption|apply long_line_is_error; assumption|reflexivity].
Qed.

Theorem extract_done_means_complete : forall i386 x86_64 arch_id arch_mask data fails recs,
  extract_syscalls i386 x86_64 arch_id arch_mask (Content data fails) = Done recs ->
  fails = false /\ Forall (fun t => length_N t < max_token) (scan_raw data).
Proof.
  intros i386 x86_64 arch_id arch_mask data fails recs H.
  by_parser i386 x86_64 arch_id arch_mask; [| |discriminate]; destruct (done_means_complete _ _ _ _ H) as [F [L _]]; split; assumption.
Qed.

Theorem extract_function_scoped_text : forall i386 x86_64 arch_id arch_mask a b ra rb,
  (a = EmptyString \/ exists a', a = a' ++ newline) ->
  has_prefix function_marker b = true ->
  extract_syscalls i386 x86_64 arch_id arch_mask (Content a false) = Done ra ->
  extract_syscalls i386 x86_64 arch_id arch_mask (Content b false) = Done rb ->
  extract_syscalls i386 x86_64 arch_id arch_mask (Content (a ++ b) false) = Done (ra ++ rb)%list.
Proof.
  intros i386 x86_64 arch_id arch_mask a b ra rb Ha Hb Pa Pb.
  by_parser i386 x86_64 arch_id arch_mask; [| |discriminate]; apply function_scoped_text; assumption.
Qed.

Theorem extract_append_monotone_text : forall i386 x86_64 arch_id arch_mask a b ra rb,
  (a = EmptyString \/ exists a', a = a' ++ newline) ->
  extract_syscalls i386 x86_64 arch_id arch_mask (Content a false) = Done ra ->
  extract_syscalls i386 x86_64 arch_id arch_mask (Content b false) = Done rb ->
  exists rest, extract_syscalls i386 x86_64 arch_id arch_mask (Content (a ++ b) false) = Done (ra ++ rest)%list.
Proof.
  intros i386 x86_64 arch_id arch_mask a b ra rb Ha Pa Pb.
  by_parser i386 x86_64 arch_id arch_mask; [| |discriminate]; eapply append_monotone_text; eassumption.
Qed.

(** ** Non-vacuity: a concrete listing with two functions and a decoy MOV before the marker *)
Definition lf (s:string) : string := s ++ newline.

Definition demo_table : list (N * string) := [(0, "read"); (1, "write"); (39, "getpid"); (60, "exit")].

Definition demo_fun1 : string :=
  lf "TEXT main.first(SB) /src/main.go" ++
  lf "  main.go:10  0x401000  48c7c027000000  MOVQ $0x27, AX" ++
  lf "  main.go:11  0x401007  0f05            SYSCALL" ++
  lf "  main.go:12  0x401009  b83c000000      MOVL $60, AX".          (* decoy: loads 60 (exit), never used *)

Definition demo_fun2 : string :=
  lf "TEXT main.second(SB) /src/main.go" ++
  lf "  main.go:20  0x402000  0f05            SYSCALL" ++               (* no number in this function: skipped *)
  lf "  main.go:21  0x402002  48c7042401000000 MOVQ $0x1, 0(SP)" ++
  lf "  main.go:22  0x40200a  e8f1ffffff      CALL syscall.Syscall(SB)" ++
  lf "  main.go:23  0x40200f  31c0            XORL AX, AX" ++
  lf "  main.go:24  0x402011  0f05            SYSCALL".

Definition demo_parser := x86_64_parser demo_table.

Definition rec_of (num:Z) (name caller function location assembly:string) : syscall :=
  {| sc_num := num; sc_name := name; sc_caller := caller; sc_function := function;
     sc_location := location; sc_assembly := assembly |}.

Example demo_first : parse demo_parser (Content demo_fun1 false) =
  Done [rec_of 39 "getpid" "main.first(SB) /src/main.go" "SYSCALL" "main.go:11" "MOVQ $0x27, AX"].
Proof. vm_compute. reflexivity. Qed.

(** the site at main.go:20 directly follows the decoy "MOVL $60, AX" of the previous function, and it
    is NOT attributed the number 60: the marker has emptied the window *)
Example demo_both : parse demo_parser (Content (demo_fun1 ++ demo_fun2) false) =
  Done [rec_of 39 "getpid" "main.first(SB) /src/main.go" "SYSCALL" "main.go:11" "MOVQ $0x27, AX";
        rec_of 1 "write" "main.second(SB) /src/main.go" "CALL syscall.Syscall(SB)" "main.go:22" "MOVQ $0x1, 0(SP)";
        rec_of 0 "read" "main.second(SB) /src/main.go" "SYSCALL" "main.go:24" "XORL AX, AX"].
Proof. vm_compute. reflexivity. Qed.

(** without the marker line the decoy would be picked up: scoping is the marker's doing *)
Example demo_decoy_without_marker :
  parse demo_parser (Content (lf "  main.go:12  0x401009  b83c000000      MOVL $60, AX" ++
                              lf "  main.go:20  0x402000  0f05            SYSCALL") false) =
  Done [rec_of 60 "exit" "" "SYSCALL" "main.go:20" "MOVL $60, AX"].
Proof. vm_compute. reflexivity. Qed.

Example demo_truncated_is_error : parse demo_parser (Content demo_fun1 true) = Failed ERead.
Proof. vm_compute. reflexivity. Qed.

Example demo_directory_is_error : parse demo_parser (Content EmptyString true) = Failed ERead.
Proof. vm_compute. reflexivity. Qed.

Fixpoint repeat_string (n:nat) (s:string) : string :=
  match n with O => EmptyString | S k => s ++ repeat_string k s end.

(** 4096 * 16 = 65536 bytes without newline after a complete, well-formed function: an error, not
    the syscall found before it; one byte less is accepted *)
Definition sixteen : string := "0123456789abcdef".
Example demo_long_line_is_error :
  parse demo_parser (Content (demo_fun1 ++ repeat_string 4096 sixteen) false) = Failed ETooLong.
Proof. vm_compute. reflexivity. Qed.
Example demo_longest_line_is_read :
  parse demo_parser (Content (demo_fun1 ++ "123456789abcdef" ++ repeat_string 4095 sixteen) false) =
  Done [rec_of 39 "getpid" "main.first(SB) /src/main.go" "SYSCALL" "main.go:11" "MOVQ $0x27, AX"].
Proof. vm_compute. reflexivity. Qed.

(** a number that does not parse: the site is skipped (and the window kept); an unknown number is dropped *)
Example demo_bad_number :
  parse demo_parser (Content (lf "TEXT f" ++ lf "a b c MOVQ $0x1, AX" ++ lf "a b c MOVQ $zz, AX" ++ lf "a b c SYSCALL"
                              ++ lf "a b c MOVQ $999, AX" ++ lf "a b c SYSCALL" ++ lf "a b c SYSCALL") false) = Done [].
Proof. vm_compute. reflexivity. Qed.
