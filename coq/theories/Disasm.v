(** * Disasm: executable model of cmd/seccomp-profiler/disasm/disasm.go (as repaired by 4674cf4).

    Bytes are Coq [ascii], texts and lines are Coq [string]s (byte strings, no encoding assumed).
    Everything is total and structurally recursive; there is no fuel. Every Go operation that can
    panic (slice expression, index expression) is modelled by a *checked* operation returning
    [None], which the callers turn into the explicit outcome [Panic]; that no input reaches it is
    a theorem of DisasmProofs.v, not a property of the way the model is written.

    Modelled library behaviour (each validated against Go 1.23 by the correspondence check):
    - bufio.Scanner with ScanLines and the default 64 KiB token limit: [scan_lines];
    - strings.HasPrefix / Contains / Fields / Join: [has_prefix], [contains], [fields], [join_sp];
    - regexp (leftmost-first, greedy) for the two expressions of disasm.go: [regex_find];
    - strconv.ParseInt(s, 0, 64): [parse_int0];
    - os.Open / Read failures: the [file] oracle.
    This file contains definitions only; the proofs are in DisasmProofs.v. *)
From Coq Require Import List NArith ZArith Bool String Ascii.
Import ListNotations.
Open Scope string_scope.
Open Scope N_scope.

(** ** Outcomes *)
Inductive derr :=
| EUnsupportedArch   (* ExtractSyscalls: "unsupported architecture" *)
| EOpen              (* os.Open failed *)
| ETooLong           (* bufio.ErrTooLong reported by s.Err() *)
| ERead.             (* the reader failed (s.Err() is the reader's error) *)

Inductive outcome (A:Type) :=
| Done (a:A)         (* the Go function returned (value, nil) *)
| Failed (e:derr)    (* the Go function returned (nil, err) *)
| Panic.             (* the Go function panicked *)
Arguments Done {A} a.
Arguments Failed {A} e.
Arguments Panic {A}.

(** ** Bytes and byte strings *)
Definition byte (c:ascii) : N := N_of_ascii c.

Fixpoint length_N (s:string) : N :=
  match s with EmptyString => 0 | String _ r => N.succ (length_N r) end.

Definition is_empty (s:string) : bool := match s with EmptyString => true | _ => false end.

(** strings.HasPrefix(s, p) *)
Fixpoint has_prefix (p s:string) : bool :=
  match p with
  | EmptyString => true
  | String a p' => match s with
                   | EmptyString => false
                   | String b s' => Ascii.eqb a b && has_prefix p' s'
                   end
  end.

(** the rest of [s] after the prefix [p], if [s] starts with [p] *)
Fixpoint strip_prefix (p s:string) : option string :=
  match p with
  | EmptyString => Some s
  | String a p' => match s with
                   | EmptyString => None
                   | String b s' => if Ascii.eqb a b then strip_prefix p' s' else None
                   end
  end.

(** strings.Contains(s, sub) *)
Fixpoint contains (sub s:string) : bool :=
  if has_prefix sub s then true
  else match s with EmptyString => false | String _ r => contains sub r end.

(** Go's s[n:] : panics (None) when n > len(s) *)
Fixpoint slice_from (n:nat) (s:string) : option string :=
  match n with
  | O => Some s
  | S k => match s with EmptyString => None | String _ r => slice_from k r end
  end.

(** Go's l[n:] on slices *)
Fixpoint list_slice_from {A} (n:nat) (l:list A) : option (list A) :=
  match n with
  | O => Some l
  | S k => match l with [] => None | _ :: r => list_slice_from k r end
  end.

(** len(l) > n, without computing len(l) *)
Fixpoint len_gt {A} (l:list A) (n:nat) : bool :=
  match l with
  | [] => false
  | _ :: r => match n with O => true | S k => len_gt r k end
  end.

(** ** bufio.Scanner, ScanLines *)
Definition is_nl (c:ascii) : bool := byte c =? 10.
Definition is_cr (c:ascii) : bool := byte c =? 13.

(** the tokens of ScanLines before dropCR, without the size limit: the text split after every
    '\n'; a final unterminated non-empty piece is a token (delivered at EOF or after a read error) *)
Fixpoint scan_raw (s:string) : list string :=
  match s with
  | EmptyString => []
  | String c r =>
      if is_nl c then EmptyString :: scan_raw r
      else match scan_raw r with
           | [] => [String c EmptyString]
           | h :: t => String c h :: t
           end
  end.

(** dropCR: one trailing '\r' is removed *)
Fixpoint drop_cr (s:string) : string :=
  match s with
  | EmptyString => EmptyString
  | String c r => if is_empty r then (if is_cr c then EmptyString else s) else String c (drop_cr r)
  end.

(** bufio.MaxScanTokenSize = 64*1024: the scanner's buffer never grows beyond it, and a buffer of
    that size holding no '\n' is ErrTooLong -- a token of 65535 bytes (+ '\n') passes, 65536 fails,
    with or without final newline; the '\r' counts (measured against Go). *)
Definition max_token : N := 65536.

(** the lines delivered by s.Scan()/s.Text() in order, and whether scanning stopped with ErrTooLong *)
Fixpoint take_tokens (toks:list string) : list string * bool :=
  match toks with
  | [] => ([], false)
  | t :: r => if max_token <=? length_N t then ([], true)
              else let (ls, e) := take_tokens r in (drop_cr t :: ls, e)
  end.

Definition scan_lines (data:string) : list string * bool := take_tokens (scan_raw data).

(** ** strings.Fields *)
(** width in bytes of the white-space character (unicode.IsSpace) whose UTF-8 encoding starts [s],
    or 0. Go decodes runes; a byte that is not part of a valid encoding is U+FFFD (not a space) and
    one byte wide. Every space encoding starts with a lead byte (or is ASCII) and lead/ASCII bytes
    are never consumed as continuation bytes, so looking for these byte sequences at every position
    is the same as decoding. *)
Definition space_width (s:string) : nat :=
  match s with
  | EmptyString => 0%nat
  | String c r =>
      let b := byte c in
      if (b =? 9) || (b =? 10) || (b =? 11) || (b =? 12) || (b =? 13) || (b =? 32) then 1%nat
      else if b =? 194 (* C2 *) then
        match r with
        | String d _ => let e := byte d in if (e =? 133) || (e =? 160) then 2%nat else 0%nat   (* U+0085, U+00A0 *)
        | _ => 0%nat
        end
      else if b =? 225 (* E1 *) then
        match r with
        | String d (String f _) => if (byte d =? 154) && (byte f =? 128) then 3%nat else 0%nat   (* U+1680 *)
        | _ => 0%nat
        end
      else if b =? 226 (* E2 *) then
        match r with
        | String d (String f _) =>
            let e := byte d in let g := byte f in
            if e =? 128 then
              (if ((128 <=? g) && (g <=? 138)) (* U+2000..U+200A *)
                  || (g =? 168) || (g =? 169) (* U+2028, U+2029 *) || (g =? 175) (* U+202F *) then 3%nat else 0%nat)
            else if e =? 129 then (if g =? 159 then 3%nat else 0%nat)   (* U+205F *)
            else 0%nat
        | _ => 0%nat
        end
      else if b =? 227 (* E3 *) then
        match r with
        | String d (String f _) => if (byte d =? 128) && (byte f =? 128) then 3%nat else 0%nat   (* U+3000 *)
        | _ => 0%nat
        end
      else 0%nat
  end.

(** [fields_from skip s] = (fs, open): the fields of [s] after skipping [skip] bytes (the rest of a
    multi-byte space); [open] says that the first field starts at the first byte of [s] *)
Fixpoint fields_from (skip:nat) (s:string) : list string * bool :=
  match s with
  | EmptyString => ([], false)
  | String c r =>
      match skip with
      | S k => (fst (fields_from k r), false)
      | O =>
          match space_width s with
          | O => let (fs, op) := fields_from 0 r in
                 if op then match fs with
                            | f :: t => (String c f :: t, true)
                            | [] => ([String c EmptyString], true)
                            end
                 else (String c EmptyString :: fs, true)
          | S w => (fst (fields_from w r), false)
          end
      end
  end.

Definition fields (s:string) : list string := fst (fields_from 0 s).

(** strings.Join(l, " ") *)
Fixpoint join_sp (l:list string) : string :=
  match l with
  | [] => EmptyString
  | [x] => x
  | x :: r => x ++ String " "%char (join_sp r)
  end.

(** ** The regular expressions  MOV[A-Z]? \$(.+), 0\(SP\)   and   MOV[A-Z]? \$(.+), (?:AX|BP) *)
Definition is_upper (c:ascii) : bool := (65 <=? byte c) && (byte c <=? 90).

Fixpoint first_prefix (sufs:list string) (s:string) : option string :=
  match sufs with
  | [] => None
  | p :: r => if has_prefix p s then Some p else first_prefix r s
  end.

(** greedy [.+]/[.*] followed by one of the literal alternatives [sufs] (tried in order): the
    backtracking matcher gives up characters one at a time from the longest, so the LAST position
    of [s] at which an alternative matches wins. Result: (what the dots matched, the alternative). *)
Fixpoint last_suffix (sufs:list string) (s:string) : option (string * string) :=
  match s with
  | EmptyString => None      (* every alternative is non-empty *)
  | String c r =>
      match last_suffix sufs r with
      | Some (cap, suf) => Some (String c cap, suf)
      | None => match first_prefix sufs s with
                | Some suf => Some (EmptyString, suf)
                | None => None
                end
      end
  end.

(** a match starting exactly at the first byte of [s]: (matches[0], matches[1]) *)
Definition regex_at (sufs:list string) (s:string) : option (string * string) :=
  match strip_prefix "MOV" s with
  | None => None
  | Some r1 =>
      (* after the optional letter [pre]: " $", then .+ (at least one character), then a suffix *)
      let rest (pre r2:string) : option (string * string) :=
        match strip_prefix " $" r2 with
        | Some (String c r4) =>
            match last_suffix sufs r4 with
            | Some (cap, suf) => Some ("MOV" ++ pre ++ " $" ++ String c cap ++ suf, String c cap)
            | None => None
            end
        | _ => None
        end in
      (* [A-Z]? is greedy: first with the letter, then (backtracking) without *)
      let with_letter :=
        match r1 with
        | String c r2 => if is_upper c then rest (String c EmptyString) r2 else None
        | EmptyString => None
        end in
      match with_letter with
      | Some m => Some m
      | None => rest EmptyString r1
      end
  end.

(** leftmost: the smallest start position at which there is a match *)
Fixpoint regex_find (sufs:list string) (s:string) : option (string * string) :=
  match regex_at sufs s with
  | Some m => Some m
  | None => match s with EmptyString => None | String _ r => regex_find sufs r end
  end.

Definition call_suffixes : list string := [", 0(SP)"].      (* x86_64SyscallRegex *)
Definition raw_suffixes : list string := [", AX"; ", BP"].   (* x86_64RawSyscallRegex *)

(** ** strconv.ParseInt(s, 0, 64) *)
Definition lower_byte (b:N) : N := N.lor b 32.   (* strconv.lower: c | ('x' - 'X') *)

Definition digit_val (b:N) : option N :=
  if (48 <=? b) && (b <=? 57) then Some (b - 48)
  else let l := lower_byte b in
       if (97 <=? l) && (l <=? 122) then Some (l - 97 + 10) else None.

Definition two64 : N := 18446744073709551616.
Definition two63 : N := 9223372036854775808.

(** the digit loop of ParseUint: None = syntax or range error; Some (n, saw an underscore) *)
Fixpoint pu_loop (base:N) (s:string) (n:N) (us:bool) : option (N * bool) :=
  match s with
  | EmptyString => Some (n, us)
  | String c r =>
      let b := byte c in
      if b =? 95 (* '_', base argument 0 *) then pu_loop base r n true
      else match digit_val b with
           | None => None
           | Some d => if base <=? d then None
                       else let n1 := n * base + d in
                            if two64 <=? n1 then None (* range *) else pu_loop base r n1 us
           end
  end.

(** strconv.underscoreOK on a string without sign *)
Inductive uclass := UStart | UDigit | UUnderscore | UOther.

Fixpoint us_loop (hex:bool) (s:string) (i:uclass) : bool :=
  match s with
  | EmptyString => match i with UUnderscore => false | _ => true end
  | String c r =>
      let b := byte c in
      if ((48 <=? b) && (b <=? 57)) || (hex && (97 <=? lower_byte b) && (lower_byte b <=? 102))
      then us_loop hex r UDigit
      else if b =? 95 then match i with UDigit => us_loop hex r UUnderscore | _ => false end
      else match i with UUnderscore => false | _ => us_loop hex r UOther end
  end.

Definition underscore_ok (s:string) : bool :=
  match s with
  | String z (String p r) =>
      let l := lower_byte (byte p) in
      if (byte z =? 48) && ((l =? 98) || (l =? 111) || (l =? 120))
      then us_loop (l =? 120) r UDigit
      else us_loop false s UStart
  | _ => us_loop false s UStart
  end.

(** ParseUint(s, 0, 64) for a string without sign: None = error *)
Definition parse_uint0 (s:string) : option N :=
  match s with
  | EmptyString => None
  | String z r =>
      let '(base, digits) :=
        if byte z =? 48 then
          match r with
          | String p r2 =>
              let l := lower_byte (byte p) in
              if negb (is_empty r2) (* len(s) >= 3 *) && (l =? 98) then (2, r2)
              else if negb (is_empty r2) && (l =? 111) then (8, r2)
              else if negb (is_empty r2) && (l =? 120) then (16, r2)
              else (8, r)
          | EmptyString => (8, r)
          end
        else (10, s) in
      match pu_loop base digits 0 false with
      | None => None
      | Some (n, us) => if us && negb (underscore_ok s) then None else Some n
      end
  end.

(** ParseInt(s, 0, 64): None = any error (syntax or range) *)
Definition parse_int0 (s:string) : option Z :=
  match s with
  | EmptyString => None
  | String c r =>
      let '(neg, body) := if byte c =? 43 then (false, r) else if byte c =? 45 then (true, r) else (false, s) in
      match parse_uint0 body with
      | None => None
      | Some un =>
          if negb neg && (two63 <=? un) then None
          else if neg && (two63 <? un) then None
          else Some (if neg then Z.opp (Z.of_N un) else Z.of_N un)
      end
  end.

(** int(num): the identity where int has 64 bits (the harness runs on amd64) *)
Definition int_of_int64 (z:Z) : Z := z.

(** ** The parser *)
Record syscall := {
  sc_num : Z;             (* Num *)
  sc_name : string;       (* Name *)
  sc_caller : string;     (* Caller *)
  sc_function : string;   (* Function *)
  sc_location : string;   (* Location *)
  sc_assembly : string    (* Assembly *)
}.

Record parser := {
  p_table : list (N * string);      (* Info.SyscallNumbers *)
  p_call_op : string;               (* callOp *)
  p_raw : list string               (* rawSyscallInstructions *)
}.

Definition function_marker : string := "TEXT".

Definition syscall_functions : list string :=
  [ "syscall.Syscall(SB)"; "syscall.Syscall6(SB)"; "syscall.rawVforkSyscall(SB)";
    "syscall.RawSyscall(SB)"; "syscall.RawSyscall6(SB)"; "unix.RawSyscall(SB)";
    "unix.RawSyscall6(SB)"; "unix.RawSyscallNoError(SB)"; "unix.Syscall(SB)";
    "unix.Syscall6(SB)"; "unix.Syscall9(SB)"; "unix.SyscallNoError(SB)" ].

Definition is_syscall_function (f:string) : bool := existsb (fun p => contains p f) syscall_functions.
Definition is_raw_syscall (p:parser) (line:string) : bool := existsb (fun ins => contains ins line) (p_raw p).
Definition is_function_call (p:parser) (line:string) : bool := contains (p_call_op p) line.

(** SyscallNumbers[num] for a Go int key *)
Fixpoint tbl_lookup (t:list (N * string)) (n:N) : option string :=
  match t with
  | [] => None
  | (n', s) :: r => if n' =? n then Some s else tbl_lookup r n
  end.
Definition lookup_int (t:list (N * string)) (z:Z) : option string :=
  if (z <? 0)%Z then None else tbl_lookup t (Z.to_N z).

(** function = line[len(functionMarker)+1:] if len(line) > len(functionMarker), else "" *)
Definition function_name (line:string) : option string :=
  if length_N function_marker <? length_N line then slice_from 5 line else Some EmptyString.

(** newSyscall: Location = fields[0] if len(fields) > 0; Function = Join(fields[3:], " ") if len(fields) > 3.
    None = a panic of the index or slice expression *)
Definition new_syscall (line:string) : option syscall :=
  let fs := fields line in
  let loc := if len_gt fs 0 then nth_error fs 0 else Some EmptyString in
  let fn := if len_gt fs 3 then option_map join_sp (list_slice_from 3 fs) else Some EmptyString in
  match loc, fn with
  | Some l, Some f => Some {| sc_num := 0; sc_name := EmptyString; sc_caller := EmptyString;
                              sc_function := f; sc_location := l; sc_assembly := EmptyString |}
  | _, _ => None
  end.

(** The instruction window is kept most recent first: Go's instructions[len-1-k] is [nth k win].
    It contains the current line (Go appends the line before parsing it). *)

(** lastInstruction: instructions[len-2] if len >= 2, else "" *)
Definition last_instruction (win:list string) : option string :=
  if len_gt win 1 then nth_error win 1 else Some EmptyString.

Inductive found := FNum (num:Z) (assembly:string) | FError.

(** findSyscallNum with one matcher: backwards from the current line; the first line that matches
    decides -- if its operand does not parse, the whole search is an error *)
Fixpoint find_syscall_num (sufs:list string) (win:list string) : found :=
  match win with
  | [] => FError                              (* "... was not found" *)
  | line :: older =>
      match regex_find sufs line with
      | None => find_syscall_num sufs older
      | Some (whole, cap) =>
          match parse_int0 cap with
          | None => FError                    (* "failed to parse syscall number" *)
          | Some z => FNum (int_of_int64 z) whole
          end
      end
  end.

Inductive pres :=
| PFound (s:syscall)   (* returned (s, nil) with s non-nil *)
| PNone                (* (nil, nil): not a syscall site *)
| PWarn                (* (nil, err): reported on stderr, the line is skipped *)
| PPanic.

Definition with_num (s:syscall) (num:Z) (asm:string) : syscall :=
  {| sc_num := num; sc_name := sc_name s; sc_caller := sc_caller s; sc_function := sc_function s;
     sc_location := sc_location s; sc_assembly := asm |}.

Definition search (sufs:list string) (line:string) (win:list string) : pres :=
  match new_syscall line with
  | None => PPanic
  | Some s => match find_syscall_num sufs win with
              | FNum z a => PFound (with_num s z a)
              | FError => PWarn
              end
  end.

(** parseX86_64 (used for both architectures) *)
Definition parse_x86 (p:parser) (line caller:string) (win:list string) : pres :=
  if is_raw_syscall p line && negb (is_syscall_function caller) then
    match last_instruction win with
    | None => PPanic
    | Some inst =>
        if negb (is_empty inst) && contains "XORL AX, AX" inst then
          match new_syscall line with
          | None => PPanic
          | Some s => PFound (with_num s 0 "XORL AX, AX")
          end
        else search raw_suffixes line win
    end
  else if is_function_call p line && is_syscall_function line then search call_suffixes line win
  else PNone.

Definition finish (s:syscall) (name caller:string) : syscall :=
  {| sc_num := sc_num s; sc_name := name; sc_caller := caller; sc_function := sc_function s;
     sc_location := sc_location s; sc_assembly := sc_assembly s |}.

(** the loop of parser.Parse over the scanned lines, from the state (function, instructions) *)
Fixpoint run (p:parser) (fn:string) (win:list string) (lines:list string) : outcome (list syscall) :=
  match lines with
  | [] => Done []
  | line :: rest =>
      if has_prefix function_marker line then
        match function_name line with
        | None => Panic
        | Some f => run p f [] rest
        end
      else
        let win' := line :: win in
        match parse_x86 p line fn win' with
        | PPanic => Panic
        | PWarn => run p fn win' rest
        | PNone => run p fn win' rest
        | PFound s =>
            match lookup_int (p_table p) (sc_num s) with
            | None => run p fn [] rest           (* "unknown syscall": window already cleared *)
            | Some name =>
                match run p fn [] rest with
                | Done rs => Done (finish s name fn :: rs)
                | o => o
                end
            end
        end
  end.

Definition parse_lines (p:parser) (lines:list string) : outcome (list syscall) := run p EmptyString [] lines.

(** the file as the parser sees it: os.Open fails, or the reader delivers [data] and then reports
    end of file ([read_fails] = false) or an error ([read_fails] = true; a directory is
    [Content "" true]). After a read error bufio.Scanner still delivers the bytes it holds as a
    final token, exactly as at end of file. *)
Inductive file :=
| OpenFails
| Content (data:string) (read_fails:bool).

(** parser.Parse *)
Definition parse (p:parser) (f:file) : outcome (list syscall) :=
  match f with
  | OpenFails => Failed EOpen
  | Content data read_fails =>
      let (lines, too_long) := scan_lines data in
      match parse_lines p lines with
      | Done recs => if too_long then Failed ETooLong
                     else if read_fails then Failed ERead
                     else Done recs
      | o => o
      end
  end.

Definition x86_64_parser (table:list (N * string)) : parser :=
  {| p_table := table; p_call_op := "CALL"; p_raw := ["SYSCALL"] |}.
Definition i386_parser (table:list (N * string)) : parser :=
  {| p_table := table; p_call_op := "CALL"; p_raw := ["INT $0x80"; "SYSENTER"] |}.

(** an architecture record as far as ExtractSyscalls looks at it: Info.ID, Info.SeccompMask, Info.SyscallNumbers *)
Record arch_rec := { ar_id : N; ar_mask : N; ar_table : list (N * string) }.

(** arch.ID == parser.ID && arch.SeccompMask == parser.SeccompMask *)
Definition selects (arch_id arch_mask:N) (r:arch_rec) : bool := (arch_id =? ar_id r) && (arch_mask =? ar_mask r).

(** ExtractSyscalls (as repaired by 05effe1): the parser is chosen by the audit architecture id AND the
    syscall mask of the record passed in (i386 first; x32 shares the id of x86_64 and differs in the
    mask); the table used is the parser's own (arch.I386 / arch.X86_64). *)
Definition extract_syscalls (i386 x86_64:arch_rec) (arch_id arch_mask:N) (f:file) : outcome (list syscall) :=
  if selects arch_id arch_mask i386 then parse (i386_parser (ar_table i386)) f
  else if selects arch_id arch_mask x86_64 then parse (x86_64_parser (ar_table x86_64)) f
  else Failed EUnsupportedArch.
