(** * Words: 32/64-bit unsigned words as [N], hi/lo halves, and the arithmetic facts
    that make two 32-bit comparisons implement one 64-bit relation (property C02). *)
From Coq Require Import NArith ZArith Lia Bool.
From Coq Require Import ZifyN ZifyBool.
Open Scope N_scope.
Ltac Zify.zify_post_hook ::= Z.div_mod_to_equations.

Definition two32 : N := 4294967296.
Definition two64 : N := 18446744073709551616.

Definition hi (a:N) : N := a / two32.
Definition lo (a:N) : N := a mod two32.

Lemma lt64 a v : (a < v) <-> (hi a < hi v \/ (hi a = hi v /\ lo a < lo v)).
Proof. unfold hi, lo, two32. lia. Qed.

Lemma le64 a v : (a <= v) <-> (hi a < hi v \/ (hi a = hi v /\ lo a <= lo v)).
Proof. unfold hi, lo, two32. lia. Qed.

Lemma eq64 a v : (a = v) <-> (hi a = hi v /\ lo a = lo v).
Proof. unfold hi, lo, two32. lia. Qed.

Lemma two32_pow : two32 = 2^32. Proof. reflexivity. Qed.

Lemma hi_shiftr a : hi a = N.shiftr a 32.
Proof. unfold hi. rewrite two32_pow. now rewrite N.shiftr_div_pow2. Qed.
Lemma lo_land a : lo a = N.land a (N.ones 32).
Proof. unfold lo. rewrite two32_pow. now rewrite N.land_ones. Qed.

Lemma land_hi a v : hi (N.land a v) = N.land (hi a) (hi v).
Proof. rewrite !hi_shiftr. apply N.shiftr_land. Qed.
Lemma land_lo a v : lo (N.land a v) = N.land (lo a) (lo v).
Proof.
  rewrite !lo_land. apply N.bits_inj_iff; intro n. rewrite !N.land_spec.
  destruct (N.testbit a n), (N.testbit v n), (N.testbit (N.ones 32) n); reflexivity.
Qed.

Lemma land64_zero a v : N.land a v = 0 <-> (N.land (hi a) (hi v) = 0 /\ N.land (lo a) (lo v) = 0).
Proof.
  rewrite <- land_hi, <- land_lo. generalize (N.land a v). intro x.
  unfold hi, lo, two32. lia.
Qed.

Lemma hi_lt32 a : a < two64 -> hi a < two32.
Proof. unfold hi, two64, two32. lia. Qed.
Lemma lo_lt32 a : lo a < two32.
Proof. unfold lo, two32. lia. Qed.
Lemma hi_lo a : a = hi a * two32 + lo a.
Proof. unfold hi, lo, two32. lia. Qed.

(** ** Boolean forms, oriented as the compiler's lowering uses them *)
Lemma eqb64 a v : (a =? v) = (hi a =? hi v) && (lo a =? lo v).
Proof.
  destruct (N.eqb_spec a v) as [->|H]; [now rewrite !N.eqb_refl|].
  destruct (N.eqb_spec (hi a) (hi v)) as [E1|E1]; [|reflexivity].
  destruct (N.eqb_spec (lo a) (lo v)) as [E2|E2]; [|reflexivity].
  exfalso. apply H. apply eq64. auto.
Qed.

Lemma ltb64 a v : (a <? v) = (hi a <? hi v) || ((hi a =? hi v) && (lo a <? lo v)).
Proof.
  destruct (N.ltb_spec a v) as [H|H].
  - apply lt64 in H. destruct H as [H|[H1 H2]].
    + apply N.ltb_lt in H. now rewrite H.
    + rewrite H1, N.eqb_refl, N.ltb_irrefl. apply N.ltb_lt in H2. now rewrite H2.
  - destruct (N.ltb_spec (hi a) (hi v)) as [G|G]; [exfalso; assert (a < v) by (apply lt64; auto); lia|].
    destruct (N.eqb_spec (hi a) (hi v)) as [E|E]; [|reflexivity].
    destruct (N.ltb_spec (lo a) (lo v)) as [L|L]; [|reflexivity].
    exfalso. assert (a < v) by (apply lt64; auto). lia.
Qed.

Lemma leb64 a v : (a <=? v) = (hi a <? hi v) || ((hi a =? hi v) && (lo a <=? lo v)).
Proof.
  destruct (N.leb_spec a v) as [H|H].
  - apply le64 in H. destruct H as [H|[H1 H2]].
    + apply N.ltb_lt in H. now rewrite H.
    + rewrite H1, N.eqb_refl, N.ltb_irrefl. apply N.leb_le in H2. now rewrite H2.
  - destruct (N.ltb_spec (hi a) (hi v)) as [G|G]; [exfalso; assert (a <= v) by (apply le64; auto); lia|].
    destruct (N.eqb_spec (hi a) (hi v)) as [E|E]; [|reflexivity].
    destruct (N.leb_spec (lo a) (lo v)) as [L|L]; [|reflexivity].
    exfalso. assert (a <= v) by (apply le64; auto). lia.
Qed.

Lemma land0b64 a v : (N.land a v =? 0) = (N.land (hi a) (hi v) =? 0) && (N.land (lo a) (lo v) =? 0).
Proof.
  destruct (N.eqb_spec (N.land a v) 0) as [H|H].
  - apply land64_zero in H. destruct H as [-> ->]. reflexivity.
  - destruct (N.eqb_spec (N.land (hi a) (hi v)) 0) as [E1|E1]; [|reflexivity].
    destruct (N.eqb_spec (N.land (lo a) (lo v)) 0) as [E2|E2]; [|reflexivity].
    exfalso. apply H. apply land64_zero. auto.
Qed.
