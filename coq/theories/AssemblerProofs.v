(** * AssemblerProofs: the assembled instruction list behaves like the label-level program (C06). *)
From Coq Require Import List NArith Bool Lia.
From Seccomp Require Import Words Machine Result Assembler.
Import ListNotations.
Open Scope N_scope.

Definition labels_of (it:item) : list label :=
  match it with TJmpIf _ _ tl fl => [tl;fl] | TJaL l => [l] | TLabel l => [l] | _ => [] end.
(** every label occurring in [its] was returned by NewLabel before [f] *)
Definition below (f:label) (its:list item) := forall it l, In it its -> In l (labels_of it) -> l < f.

Definition is_real it := match it with TLabel _ => false | _ => true end.

Definition mode_ok (f:label) (m:mode) : Prop :=
  match m with Seek l => l < f | Skip k => k = 0 end.

Lemma relax_fresh_mono its f : f <= snd (relax its f).
Proof.
  revert f. induction its as [|it r IH]; intros f; simpl; [lia|].
  specialize (IH f). destruct (relax r f) as [r' f'] eqn:E. simpl in IH.
  destruct it; simpl; try lia.
  unfold fix_jump.
  destruct (far (dist tl r') || is255 (dist tl r') && far (dist fl r')),
           (far (dist fl r') || is255 (dist fl r') && far (dist tl r')); simpl; lia.
Qed.

Lemma below_tail f it r : below f (it :: r) -> below f r.
Proof. intros Hb x l Hx Hl. eapply Hb; [right; exact Hx|exact Hl]. Qed.

Section Proofs.
Variable ld : N -> option N.
Notation exec := (exec ld).
Notation run := (run ld).
Notation step := (step ld).

Lemma exec_app x y m a : exec (x ++ y) m a = cont ld (exec x m a) y.
Proof.
  revert m a. induction x as [|it r IH]; intros m a; simpl; [reflexivity|].
  destruct it, m; simpl; rewrite ?IH; try reflexivity;
  repeat match goal with |- context[if ?b then _ else _] => destruct b end; rewrite ?IH; try reflexivity.
  all: try (destruct (ld off); rewrite ?IH; reflexivity).
Qed.

(** equations of [exec] *)
Lemma exec_label_seek l' l r a :
  exec (TLabel l' :: r) (Seek l) a = if l' =? l then exec r (Skip 0) a else exec r (Seek l) a.
Proof. reflexivity. Qed.
Lemma exec_label_skip l' k r a : exec (TLabel l' :: r) (Skip k) a = exec r (Skip k) a.
Proof. reflexivity. Qed.
Lemma exec_real_seek it l r a : is_real it = true -> exec (it :: r) (Seek l) a = exec r (Seek l) a.
Proof. destruct it; simpl; congruence. Qed.
Lemma exec_real_skip0 it r a : is_real it = true ->
  exec (it :: r) (Skip 0) a = match step it a with SNext m' a' => exec r m' a' | SDone o => o end.
Proof. destruct it; simpl; congruence. Qed.
Lemma exec_real_skipS it k r a : is_real it = true -> k <> 0 ->
  exec (it :: r) (Skip k) a = exec r (Skip (N.pred k)) a.
Proof. intros H K. apply N.eqb_neq in K. destruct it; simpl in *; rewrite ?K; congruence. Qed.

Lemma at_label_ret l r v a : at_label l r = Some (TRet v) -> exec r (Seek l) a = ORet v.
Proof.
  induction r as [|it r IH]; simpl; [discriminate|].
  destruct it; simpl; auto.
  destruct (l0 =? l); auto.
  clear IH. induction r as [|it r IH]; simpl; [discriminate|].
  destruct it; simpl; try discriminate; auto.
  intros H; injection H as ->. reflexivity.
Qed.

Lemma tramp_real l r : is_real (tramp l r) = true.
Proof. unfold tramp. destruct (at_label l r) as [[]|]; reflexivity. Qed.

Lemma tramp_exec l r a : exec (tramp l r :: r) (Skip 0) a = exec r (Seek l) a.
Proof.
  rewrite exec_real_skip0 by apply tramp_real.
  unfold tramp. destruct (at_label l r) as [[]|] eqn:E; simpl; try reflexivity.
  symmetry. eapply at_label_ret; eauto.
Qed.

Lemma tramp_exec_mid l r mid a :
  exec (mid ++ r) (Seek l) a = exec r (Seek l) a ->
  exec (tramp l r :: mid ++ r) (Skip 0) a = exec r (Seek l) a.
Proof.
  intros H. rewrite exec_real_skip0 by apply tramp_real.
  unfold tramp. destruct (at_label l r) as [[]|] eqn:E; cbn [Machine.step]; try exact H.
  symmetry. eapply at_label_ret; eauto.
Qed.

(** ** Bridges preserve the meaning *)
Lemma fix_jump_exec c k tl fl r f m a :
  tl < f -> fl < f -> mode_ok f m ->
  exec (fst (fix_jump c k tl fl r f)) m a = exec (TJmpIf c k tl fl :: r) m a.
Proof.
  intros Ht Hf Hm.
  assert (Nf: forall l, l < f -> (f =? l) = false) by (intros; apply N.eqb_neq; lia).
  assert (Nf1: forall l, l < f -> (f+1 =? l) = false) by (intros; apply N.eqb_neq; lia).
  assert (Nff: (f =? f+1) = false) by (apply N.eqb_neq; lia).
  unfold fix_jump.
  destruct (far (dist tl r) || is255 (dist tl r) && far (dist fl r)),
           (far (dist fl r) || is255 (dist fl r) && far (dist tl r)); cbn [fst]; [ | | |reflexivity].
  - destruct m as [k0|l].
    + simpl in Hm; subst k0. rewrite !exec_real_skip0 by reflexivity. cbn [Machine.step].
      destruct (test c a k).
      * rewrite exec_label_seek, N.eqb_refl. apply (tramp_exec_mid tl r [TLabel (f+1); tramp fl r]). cbn [app].
        rewrite exec_label_seek, (Nf1 tl Ht). rewrite exec_real_seek by apply tramp_real. reflexivity.
      * rewrite exec_label_seek, Nff. rewrite exec_real_seek by apply tramp_real.
        rewrite exec_label_seek, N.eqb_refl. rewrite tramp_exec. reflexivity.
    + simpl in Hm. rewrite !exec_real_seek by reflexivity.
      rewrite exec_label_seek, (Nf l Hm). rewrite exec_real_seek by apply tramp_real.
      rewrite exec_label_seek, (Nf1 l Hm). rewrite exec_real_seek by apply tramp_real. reflexivity.
  - destruct m as [k0|l].
    + simpl in Hm; subst k0. rewrite !exec_real_skip0 by reflexivity. cbn [Machine.step].
      destruct (test c a k).
      * rewrite exec_label_seek, N.eqb_refl. rewrite tramp_exec. reflexivity.
      * rewrite exec_label_seek, (Nf fl Hf). rewrite exec_real_seek by apply tramp_real. reflexivity.
    + simpl in Hm. rewrite !exec_real_seek by reflexivity.
      rewrite exec_label_seek, (Nf l Hm). rewrite exec_real_seek by apply tramp_real. reflexivity.
  - destruct m as [k0|l].
    + simpl in Hm; subst k0. rewrite !exec_real_skip0 by reflexivity. cbn [Machine.step].
      destruct (test c a k).
      * rewrite exec_label_seek, (Nf tl Ht). rewrite exec_real_seek by apply tramp_real. reflexivity.
      * rewrite exec_label_seek, N.eqb_refl. rewrite tramp_exec. reflexivity.
    + simpl in Hm. rewrite !exec_real_seek by reflexivity.
      rewrite exec_label_seek, (Nf l Hm). rewrite exec_real_seek by apply tramp_real. reflexivity.
Qed.

Lemma relax_exec its : forall f m a,
  below f its -> mode_ok f m ->
  exec (fst (relax its f)) m a = exec its m a.
Proof.
  induction its as [|it r IH]; intros f m a Hb Hm; [reflexivity|]. cbn [relax].
  pose proof (below_tail _ _ _ Hb) as Hbr.
  pose proof (relax_fresh_mono r f) as Hmono.
  destruct (relax r f) as [r' f'] eqn:E. simpl in Hmono.
  assert (IH' : forall m a, mode_ok f m -> exec r' m a = exec r m a).
  { intros m0 a0 H2. specialize (IH f m0 a0 Hbr H2). rewrite E in IH. exact IH. }
  destruct it.
  - (* TLd *) cbn [fst]. destruct m as [k|l].
    + simpl in Hm; subst k. rewrite !exec_real_skip0 by reflexivity. cbn [Machine.step].
      destruct (ld off); [|reflexivity]. apply IH'. reflexivity.
    + rewrite !exec_real_seek by reflexivity. apply IH'. exact Hm.
  - (* TRet *) cbn [fst]. destruct m as [k|l].
    + simpl in Hm; subst k. rewrite !exec_real_skip0 by reflexivity. reflexivity.
    + rewrite !exec_real_seek by reflexivity. apply IH'. exact Hm.
  - (* TJmpIf *)
    assert (Ht: tl < f) by (eapply Hb; [left; reflexivity| simpl; auto]).
    assert (Hf: fl < f) by (eapply Hb; [left; reflexivity| simpl; auto]).
    rewrite fix_jump_exec.
    + destruct m as [k0|l].
      * simpl in Hm; subst k0. rewrite !exec_real_skip0 by reflexivity. cbn [Machine.step]. apply IH'.
        simpl. destruct (test c a k); assumption.
      * rewrite !exec_real_seek by reflexivity. apply IH'. exact Hm.
    + lia. + lia.
    + destruct m as [k0|l]; simpl in *; [assumption|lia].
  - (* TJaL *) cbn [fst]. destruct m as [k|l0].
    + simpl in Hm; subst k. rewrite !exec_real_skip0 by reflexivity. cbn [Machine.step]. apply IH'.
      simpl. eapply Hb; [left; reflexivity|simpl; auto].
    + rewrite !exec_real_seek by reflexivity. apply IH'. exact Hm.
  - (* TLabel *) cbn [fst]. destruct m as [k0|l0].
    + rewrite !exec_label_skip. apply IH'. exact Hm.
    + rewrite !exec_label_seek. destruct (l =? l0); apply IH'; try exact Hm. reflexivity.
Qed.

(** ** Resolved skips implement label seeking *)
Definition count (m:mode) (its:list item) : option N :=
  match m with Skip k => Some k | Seek l => dist l its end.

Lemma resolve_run its : forall p m a d,
  resolve its = Some p -> count m its = Some d ->
  exec its m a = run p d a.
Proof.
  induction its as [|it r IH]; intros p m a d Hr Hc.
  - simpl in Hr. injection Hr as <-. destruct m; simpl in *; [injection Hc as ->; reflexivity|discriminate].
  - destruct it.
    + (* TLd *) simpl in Hr. destruct (resolve r) as [p'|] eqn:E; [|discriminate]. injection Hr as <-.
      destruct m as [k|l]; simpl in Hc.
      * injection Hc as ->. destruct (N.eq_dec d 0) as [->|K].
        -- rewrite exec_real_skip0 by reflexivity. simpl. destruct (ld off); [|reflexivity]. apply IH; auto.
        -- rewrite exec_real_skipS by (reflexivity||assumption). simpl. apply N.eqb_neq in K. rewrite K. apply IH; auto.
      * rewrite exec_real_seek by reflexivity. destruct (dist l r) as [d'|] eqn:D; [|discriminate]. simpl in Hc. injection Hc as <-.
        simpl. replace (N.succ d' =? 0) with false by (symmetry; apply N.eqb_neq; lia). rewrite N.pred_succ. apply IH; auto.
    + (* TRet *) simpl in Hr. destruct (resolve r) as [p'|] eqn:E; [|discriminate]. injection Hr as <-.
      destruct m as [k|l]; simpl in Hc.
      * injection Hc as ->. destruct (N.eq_dec d 0) as [->|K].
        -- rewrite exec_real_skip0 by reflexivity. reflexivity.
        -- rewrite exec_real_skipS by (reflexivity||assumption). simpl. apply N.eqb_neq in K. rewrite K. apply IH; auto.
      * rewrite exec_real_seek by reflexivity. destruct (dist l r) as [d'|] eqn:D; [|discriminate]. simpl in Hc. injection Hc as <-.
        simpl. replace (N.succ d' =? 0) with false by (symmetry; apply N.eqb_neq; lia). rewrite N.pred_succ. apply IH; auto.
    + (* TJmpIf *) simpl in Hr.
      destruct (dist tl r) as [dt|] eqn:Dt; [|discriminate].
      destruct (dist fl r) as [df|] eqn:Df; [|discriminate].
      destruct (resolve r) as [p'|] eqn:E; [|discriminate].
      destruct ((dt <=? 255) && (df <=? 255) && negb ((dt =? 0) && (df =? 0))); [|discriminate].
      injection Hr as <-.
      destruct m as [k0|l]; simpl in Hc.
      * injection Hc as ->. destruct (N.eq_dec d 0) as [->|K].
        -- rewrite exec_real_skip0 by reflexivity. cbn [Machine.step]. simpl Machine.run.
           destruct (test c a k); apply IH; auto.
        -- rewrite exec_real_skipS by (reflexivity||assumption). simpl. apply N.eqb_neq in K. rewrite K. apply IH; auto.
      * rewrite exec_real_seek by reflexivity. destruct (dist l r) as [d'|] eqn:D; [|discriminate]. simpl in Hc. injection Hc as <-.
        simpl. replace (N.succ d' =? 0) with false by (symmetry; apply N.eqb_neq; lia). rewrite N.pred_succ. apply IH; auto.
    + (* TJaL *) simpl in Hr.
      destruct (dist l r) as [dl|] eqn:Dl; [|discriminate].
      destruct (resolve r) as [p'|] eqn:E; [|discriminate]. injection Hr as <-.
      destruct m as [k0|l0]; simpl in Hc.
      * injection Hc as ->. destruct (N.eq_dec d 0) as [->|K].
        -- rewrite exec_real_skip0 by reflexivity. cbn [Machine.step]. simpl Machine.run. apply IH; auto.
        -- rewrite exec_real_skipS by (reflexivity||assumption). simpl. apply N.eqb_neq in K. rewrite K. apply IH; auto.
      * rewrite exec_real_seek by reflexivity. destruct (dist l0 r) as [d'|] eqn:D; [|discriminate]. simpl in Hc. injection Hc as <-.
        simpl. replace (N.succ d' =? 0) with false by (symmetry; apply N.eqb_neq; lia). rewrite N.pred_succ. apply IH; auto.
    + (* TLabel *) simpl in Hr.
      destruct m as [k0|l0]; simpl in Hc.
      * injection Hc as ->. rewrite exec_label_skip. apply IH; auto.
      * rewrite exec_label_seek. destruct (l =? l0) eqn:L.
        -- injection Hc as <-. apply IH; auto.
        -- apply IH; auto.
Qed.

(** ** The main theorem of the assembler *)
Theorem assemble_correct its f p a :
  below f its -> assemble its f = Ok p ->
  run p 0 a = exec its (Skip 0) a.
Proof.
  intros Hb Ha. unfold assemble in Ha.
  destruct (negb (jumps_resolvable its)); [discriminate|].
  destruct (check_jumps (fst (relax its f))); [discriminate|].
  destruct (resolve (fst (relax its f))) as [p'|] eqn:R; [|discriminate].
  injection Ha as ->.
  rewrite <- (relax_exec its f (Skip 0) a Hb eq_refl).
  symmetry. apply resolve_run; [exact R|reflexivity].
Qed.
End Proofs.

(** ** [run] composes *)
Section RunFacts.
Variable ld : N -> option N.
Notation run := (run ld).

Lemma run_app p : forall q k a,
  run (p ++ q) k a = match run p k a with OEnd (Skip k') a' => run q k' a' | o => o end.
Proof.
  induction p as [|i p IH]; intros q k a; cbn [app Machine.run]; [reflexivity|].
  destruct (k =? 0); [|apply IH].
  destruct i; try apply IH; try reflexivity.
  destruct (ld off); [apply IH|reflexivity].
Qed.

Lemma run_end_skip p : forall k a m a', run p k a = OEnd m a' -> exists k', m = Skip k'.
Proof.
  induction p as [|i p IH]; intros k a m a' H; cbn [Machine.run] in H.
  - injection H as <- <-. eauto.
  - destruct (k =? 0); [|eapply IH; exact H].
    destruct i; try discriminate; try (eapply IH; exact H).
    destruct (ld off); [eapply IH; exact H|discriminate].
Qed.

Lemma run_skip_app x : forall y a, run (x ++ y) (N.of_nat (length x)) a = run y 0 a.
Proof.
  induction x as [|i x IH]; intros y a; [reflexivity|].
  cbn [app length Machine.run]. replace (N.of_nat (S (length x)) =? 0) with false by (symmetry; apply N.eqb_neq; lia).
  replace (N.pred (N.of_nat (S (length x)))) with (N.of_nat (length x)) by lia. apply IH.
Qed.
End RunFacts.

(** ** Reach: after [relax] every conditional branch whose label exists is within 255 *)
Definition nearq (d:option N) : Prop := match d with Some n => n <= 255 | None => True end.
Fixpoint reach_ok (its:list item) : Prop :=
  match its with
  | [] => True
  | TJmpIf _ _ tl fl :: r => nearq (dist tl r) /\ nearq (dist fl r) /\ reach_ok r
  | _ :: r => reach_ok r
  end.

Lemma reach_tramp l r x : reach_ok x -> reach_ok (tramp l r :: x).
Proof. unfold tramp. destruct (at_label l r) as [[]|]; simpl; auto. Qed.

Lemma dist_tramp l0 l r x : dist l0 (tramp l r :: x) = option_map N.succ (dist l0 x).
Proof. unfold tramp. destruct (at_label l r) as [[]|]; reflexivity. Qed.

Lemma tramp_cases l r : (exists v, tramp l r = TRet v) \/ tramp l r = TJaL l.
Proof. unfold tramp. destruct (at_label l r) as [[]|]; eauto. Qed.

Lemma fix_jump_reach c k tl fl r f :
  tl < f -> fl < f -> reach_ok r -> reach_ok (fst (fix_jump c k tl fl r f)).
Proof.
  intros Ht Hf Hr. unfold fix_jump.
  assert (Nt: (f =? tl) = false) by (apply N.eqb_neq; lia).
  assert (Nfl: (f =? fl) = false) by (apply N.eqb_neq; lia).
  destruct (tramp_cases tl r) as [[vt Et]|Et], (tramp_cases fl r) as [[vf Ef]|Ef]; rewrite ?Et, ?Ef.
  all: destruct (dist tl r) as [dt|] eqn:Dt, (dist fl r) as [df|] eqn:Df; simpl far; simpl is255; cbn [orb andb].
  all: repeat match goal with |- context[?a <? ?b] => destruct (N.ltb_spec a b) end;
       repeat match goal with |- context[?a =? 255] => destruct (N.eqb_spec a 255) end;
       cbn [orb andb fst]; cbn [reach_ok dist]; rewrite ?N.eqb_refl, ?Nt, ?Nfl, ?dist_tramp;
       cbn [dist]; rewrite ?N.eqb_refl, ?Nt, ?Nfl, ?dist_tramp, ?Dt, ?Df;
       replace (f =? f + 1) with false by (symmetry; apply N.eqb_neq; lia);
       cbn [option_map nearq]; rewrite ?N.eqb_refl; cbn [option_map nearq];
       repeat split; try lia; try exact I; try (apply reach_tramp; try apply reach_tramp; assumption); try assumption.
Qed.

Lemma relax_reach its : forall f, below f its -> reach_ok (fst (relax its f)).
Proof.
  induction its as [|it r IH]; intros f Hb; [exact I|]. cbn [relax].
  pose proof (below_tail _ _ _ Hb) as Hbr.
  pose proof (relax_fresh_mono r f) as Hmono.
  specialize (IH f Hbr).
  destruct (relax r f) as [r' f'] eqn:E. cbn [fst snd] in *.
  destruct it; cbn [fst reach_ok]; try exact IH.
  apply fix_jump_reach; [| |exact IH].
  - assert (tl < f) by (eapply Hb; [left; reflexivity|simpl; auto]). lia.
  - assert (fl < f) by (eapply Hb; [left; reflexivity|simpl; auto]). lia.
Qed.

Lemma reach_no_out_of_reach its : reach_ok its -> check_jumps its <> Some EOutOfReach.
Proof.
  induction its as [|it r IH]; intros H; cbn [check_jumps]; [discriminate|].
  destruct it; cbn [reach_ok] in H; try (apply IH; exact H).
  destruct H as (H1 & H2 & H3).
  destruct (dist tl r) as [dt|]; [|discriminate].
  destruct (dist fl r) as [df|]; [|discriminate].
  cbn [nearq] in H1, H2.
  replace (255 <? dt) with false by (symmetry; apply N.ltb_ge; lia).
  replace (255 <? df) with false by (symmetry; apply N.ltb_ge; lia).
  cbn [orb]. destruct ((dt =? 0) && (df =? 0)); [discriminate|]. apply IH; exact H3.
Qed.

(** Assemble never reports "jump destination out of reach": the bridges always suffice. *)
Theorem assemble_never_out_of_reach its f : below f its -> assemble its f <> Error EOutOfReach.
Proof.
  intros Hb. unfold assemble.
  destruct (negb (jumps_resolvable its)); [discriminate|].
  pose proof (reach_no_out_of_reach _ (relax_reach its f Hb)) as H.
  destruct (check_jumps (fst (relax its f))) as [e|]; [intro E; injection E as ->; congruence|].
  destruct (resolve (fst (relax its f))); discriminate.
Qed.

(** ** The builder: labels of a program all come from NewLabel *)
Definition bop_labels (o:bop) : list label :=
  match o with
  | BJmpIf _ _ tl fl => [tl; fl] | BJmpIfTrue _ _ tl => [tl] | BJmp l => [l] | BSetLabel l => [l]
  | _ => []
  end.

(** every label a call mentions is smaller than the counter [n] *)
Definition ops_below (n:label) (ops:list bop) : Prop := forall o l, In o ops -> In l (bop_labels o) -> l < n.

Lemma items_of_mono le rw ops : forall n, n <= snd (items_of le rw ops n).
Proof.
  induction ops as [|o rest IH]; intros n; cbn [items_of]; [simpl; lia|].
  destruct o; try (specialize (IH n); destruct (items_of le rw rest n); cbn [snd] in *; lia).
  - specialize (IH (n+1)). lia.
  - specialize (IH (n+1)). destruct (items_of le rw rest (n+1)); cbn [snd] in *; lia.
Qed.

Lemma items_of_below le rw ops : forall n f,
  ops_below f ops -> snd (items_of le rw ops n) <= f -> below f (fst (items_of le rw ops n)).
Proof.
  induction ops as [|o rest IH]; intros n f Ho Hn; cbn [items_of].
  - intros it lb [].
  - assert (Hrest: ops_below f rest) by (intros o' l' H1 H2; eapply Ho; [right; exact H1|exact H2]).
    assert (Hhere: forall l, In l (bop_labels o) -> l < f) by (intros l H; eapply Ho; [left; reflexivity|exact H]).
    cbn [items_of] in Hn.
    destruct o.
    + apply IH; assumption.
    + specialize (IH n f Hrest). destruct (items_of le rw rest n) as [r m]. cbn [fst snd] in *.
      intros it lb [<-|Hi] Hl; [apply Hhere; exact Hl| eapply IH; eauto].
    + pose proof (items_of_mono le rw rest (n+1)) as Hm.
      specialize (IH (n+1) f Hrest). destruct (items_of le rw rest (n+1)) as [r m]. cbn [fst snd] in *.
      intros it lb [<-|[<-|Hi]] Hl.
      * simpl in Hl. destruct Hl as [<-|[<-|[]]]; [apply Hhere; simpl; auto|lia].
      * simpl in Hl. destruct Hl as [<-|[]]. lia.
      * eapply IH; eauto.
    + specialize (IH n f Hrest). destruct (items_of le rw rest n) as [r m]. cbn [fst snd] in *.
      intros it lb [<-|Hi] Hl; [apply Hhere; exact Hl| eapply IH; eauto].
    + specialize (IH n f Hrest). destruct (items_of le rw rest n) as [r m]. cbn [fst snd] in *.
      intros it lb [<-|Hi] Hl; [apply Hhere; exact Hl| eapply IH; eauto].
    + specialize (IH n f Hrest). destruct (items_of le rw rest n) as [r m]. cbn [fst snd] in *.
      intros it lb [<-|Hi] Hl; [destruct Hl| eapply IH; eauto].
    + specialize (IH n f Hrest). destruct (items_of le rw rest n) as [r m]. cbn [fst snd] in *.
      intros it lb [<-|Hi] Hl; [destruct Hl| eapply IH; eauto].
    + specialize (IH n f Hrest). destruct (items_of le rw rest n) as [r m]. cbn [fst snd] in *.
      intros it lb [<-|Hi] Hl; [destruct Hl| eapply IH; eauto].
Qed.

(** The builder theorem: whatever the calls were (any order, any distances, labels set twice or never),
    if Assemble succeeds, the instruction list behaves like the label-level program on every load function
    (i.e. every event and byte order) and every initial accumulator. *)
Theorem build_correct le rw ops p :
  ops_below (snd (items_of le rw ops 2)) ops ->
  build le rw ops = Ok p ->
  forall ld a, run ld p 0 a = exec ld (fst (items_of le rw ops 2)) (Skip 0) a.
Proof.
  intros Ho Hb ld a. unfold build in Hb.
  pose proof (items_of_below le rw ops 2 _ Ho (N.le_refl _)) as Hbelow.
  destruct (items_of le rw ops 2) as [its n]. cbn [fst snd] in *.
  eapply assemble_correct; eauto.
Qed.

Definition ops_belowb (n:label) (ops:list bop) : bool :=
  forallb (fun o => forallb (fun l => l <? n) (bop_labels o)) ops.
Lemma ops_belowb_spec n ops : ops_belowb n ops = true -> ops_below n ops.
Proof.
  unfold ops_belowb, ops_below. rewrite forallb_forall. intros H o l Ho Hl.
  specialize (H o Ho). rewrite forallb_forall in H. apply N.ltb_lt. apply H. exact Hl.
Qed.
