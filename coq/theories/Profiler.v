(** * Profiler: executable model of cmd/seccomp-profiler/main.go (model only, no proofs).

    Part A - the set pipeline of [main]: the disassembly sites are deduplicated by syscall number through a Go
    map, the names are collected by ranging over that map, blacklisted names are removed (-b), always-allowed
    names that exist for the architecture are added (-allow, through a second Go map), the result is sorted
    with sort.Strings and becomes the single allow group of a policy whose default action is errno.

    Part B - the cache protocol of [doObjdump] (after the repair of defect D13) as a file-system state machine,
    with crashes, disassembler failures and I/O errors, and the protocol before the repair.

    ** What is assumed about the environment (stated here, used as hypotheses in ProfilerProofs.v)

    - F1 (a file is only what was written to it) A directory is a finite map from names to byte strings.
      create gives an empty file, write(2) appends the bytes written (or, when the process dies or the
      call fails in the middle, a prefix of them) to exactly the file it was issued on, remove deletes one name.
      Nothing else changes a file: no other process writes into the cache directory while a history runs (runs are
      sequential), the disk does not lose or reorder acknowledged writes.
    - F2 (rename atomicity) rename(temp, final) replaces the content seen under [final] by the complete content
      of [temp] in one step; a crash before it leaves [final] untouched, a crash after it leaves the new content.
    - F3 (names) the temporary names os.CreateTemp chooses ([<final>.tmp-<random>]) are never the final cache
      name of any binary, and CreateTemp (O_EXCL) never opens an existing file.
    - T1 (the disassembler) [go tool objdump] exits with status 0 only after it has written its complete
      output, and its complete output is a function of the binary's content.
    - H1 (hashes) the hexadecimal SHA-256 of a file has 64 bytes; equal hashes mean equal binaries
      (so [dump_of] can be indexed by the hash).
    A crash is the death of the process between (or inside) system calls: deferred calls do not run. *)
From Coq Require Import List NArith Bool String Ascii.
From Seccomp Require Import Result Policy Tables.
Import ListNotations.
Open Scope N_scope.
Open Scope list_scope.

(** * Part A: from discovered syscalls to the profile *)

(** membership in a Go [map[string]struct{}] *)
Definition mem_str (s:string) (l:list string) : bool := existsb (String.eqb s) l.

(** [m[k] = v] on a Go map kept as an association list (the position of a key is where it was first inserted;
    the order is irrelevant because every iteration goes through a shuffle) *)
Fixpoint map_set (m:list (N * string)) (k:N) (v:string) : list (N * string) :=
  match m with
  | [] => [(k, v)]
  | (k', v') :: r => if k' =? k then (k, v) :: r else (k', v') :: map_set r k v
  end.

(** [for _, s := range syscalls { m[s.Num] = s }]: of a disasm.Syscall only Num and Name reach the profile *)
Definition dedup_by_num (found:list (N * string)) : list (N * string) :=
  fold_left (fun m s => map_set m (fst s) (snd s)) found [].

(** filterBlacklist: the order of the input is kept *)
Definition filter_blacklist (bl names:list string) : list string :=
  filter (fun s => negb (mem_str s bl)) names.

(** a Go [map[string]struct{}] as a duplicate-free list *)
Definition set_add (m:list string) (s:string) : list string := if mem_str s m then m else m ++ [s].
Definition set_of (l:list string) : list string := fold_left set_add l [].

(** addWhitelist: [m] = the set of the names so far; every allow-listed name that is a key of
    archInfo.SyscallNames (the name table of the architecture) is added; the result is the key set of [m]
    (in map order: shuffled by the caller) *)
Definition add_whitelist (t:table) (al names:list string) : list string :=
  fold_left (fun m s => match lookup_name t s with Some _ => set_add m s | None => m end) al (set_of names).

(** sort.Strings: Go compares strings byte-wise, as [String.leb] does *)
Fixpoint insert_str (s:string) (l:list string) : list string :=
  match l with
  | [] => [s]
  | x :: r => if String.leb s x then s :: l else x :: insert_str s r
  end.
Definition sort_strings (l:list string) : list string := fold_right insert_str [] l.

(** The pipeline of main(). [sh1] and [sh2] stand for the iteration orders of the two Go maps: ARBITRARY
    functions that return a permutation of their argument (the theorems quantify over them).
    [len(blacklist) > 0] and [len(allowList) > 0] guard the two optional steps as in the source. *)
Definition profile_names (sh1:list (N * string) -> list (N * string)) (sh2:list string -> list string)
           (t:table) (found:list (N * string)) (bl al:list string) : list string :=
  let names0 := map snd (sh1 (dedup_by_num found)) in
  let names1 := match bl with [] => names0 | _ => filter_blacklist bl names0 end in
  let names2 := match al with [] => names1 | _ => sh2 (add_whitelist t al names1) end in
  sort_strings names2.

(** the deterministic instance (identity iteration orders) used by the correspondence check *)
Definition profile_names_id := profile_names (fun l => l) (fun l => l).

(** writeProfileConfig / the code template: default errno, one allow group with the names *)
Definition profile_policy (k:consts) (allow:N) (names:list string) : policy :=
  {| p_default := k_errno k;
     p_groups := [ {| g_names := names; g_nwc := []; g_action := allow |} ] |}.

(** the syscall numbers a list of names stands for on an architecture *)
Definition listed (ai:arch_info) (names:list string) (nr:N) : bool :=
  existsb (fun name => match lookup_name (ai_table ai) name with
                       | Some num => nr =? sysnum ai num
                       | None => false
                       end) names.

(** ** Flag values: stringSlice.Set = strings.FieldsFunc(value, IsSpace or ',' or ';'), accumulated over the
    occurrences of the flag. Separators are modelled on ASCII (tab, LF, VT, FF, CR, space, comma, semicolon);
    values with bytes >= 0x80 are outside the model. *)
Definition is_sep (c:ascii) : bool :=
  let n := N_of_ascii c in ((9 <=? n) && (n <=? 13)) || (n =? 32) || (n =? 44) || (n =? 59).

(** [cur] is the field being read, reversed *)
Fixpoint rev_string (acc:string) (s:string) : string :=
  match s with EmptyString => acc | String c r => rev_string (String c acc) r end.
Fixpoint fields_aux (s:string) (cur:string) : list string :=
  match s with
  | EmptyString => match cur with EmptyString => [] | _ => [rev_string EmptyString cur] end
  | String c r =>
      if is_sep c
      then match cur with EmptyString => fields_aux r EmptyString
                     | _ => rev_string EmptyString cur :: fields_aux r EmptyString end
      else fields_aux r (String c cur)
  end.
Definition flag_fields (value:string) : list string := fields_aux value EmptyString.
Definition flag_values (occurrences:list string) : list string := flat_map flag_fields occurrences.

(** * Part B: the cache of disassemblies *)

(** ** Byte strings with N-valued sizes *)
Fixpoint slen (s:string) : N := match s with EmptyString => 0 | String _ r => N.succ (slen r) end.
Fixpoint stake (n:N) (s:string) : string :=
  match s with
  | EmptyString => EmptyString
  | String c r => if n =? 0 then EmptyString else String c (stake (N.pred n) r)
  end.
Fixpoint sdrop (n:N) (s:string) : string :=
  match s with
  | EmptyString => EmptyString
  | String c r => if n =? 0 then s else sdrop (N.pred n) r
  end.
Fixpoint sconcat (l:list string) : string :=
  match l with [] => EmptyString | s :: r => (s ++ sconcat r)%string end.
Definition is_empty (s:string) : bool := match s with EmptyString => true | _ => false end.

(** ** The directory *)
Inductive fname :=
| Final (p:N)            (* cachedDumpFile(binary): determined by the path [p] of the binary *)
| Temp (p:N) (x:N).      (* <final>.tmp-<x>: the name os.CreateTemp chose (F3: distinct from every Final) *)

Definition fname_eqb (a b:fname) : bool :=
  match a, b with
  | Final p, Final q => p =? q
  | Temp p x, Temp q y => (p =? q) && (x =? y)
  | _, _ => false
  end.

Definition fs := list (fname * string).

Fixpoint fs_get (d:fs) (f:fname) : option string :=
  match d with
  | [] => None
  | (g, c) :: r => if fname_eqb g f then Some c else fs_get r f
  end.
Fixpoint fs_remove (d:fs) (f:fname) : fs :=
  match d with
  | [] => []
  | (g, c) :: r => if fname_eqb g f then fs_remove r f else (g, c) :: fs_remove r f
  end.
Definition fs_set (d:fs) (f:fname) (c:string) : fs := (f, c) :: fs_remove d f.

(** the system calls of doObjdump that change the directory *)
Inductive op :=
| OCreate (f:fname)                (* open with O_CREAT and O_EXCL or O_TRUNC: [f] is now an empty file *)
| OAppend (f:fname) (bs:string)    (* write(2) on the descriptor of [f], positioned at its end *)
| ORename (a b:fname)              (* rename(2) *)
| ORemove (f:fname).               (* unlink(2); removing a missing name changes nothing *)

Definition apply_op (d:fs) (o:op) : fs :=
  match o with
  | OCreate f => fs_set d f EmptyString
  | OAppend f bs => match fs_get d f with Some c => fs_set d f (c ++ bs)%string | None => d end
  | ORename a b => match fs_get d a with Some c => fs_set (fs_remove d a) b c | None => d end
  | ORemove f => fs_remove d f
  end.
Definition apply_ops (d:fs) (ops:list op) : fs := fold_left apply_op ops d.

(** ** bufio.Writer over the cache file.
    The state of the writer is its buffer ([bufsize] = 4096 in the program). *)
Section Protocol.
Variable bufsize : N.

(** Writer.WriteString (the underlying *os.File is an io.StringWriter): returns the write(2) calls issued
    and the new buffer *)
Definition bw_write_string (buf s:string) : list string * string :=
  let avail := bufsize - slen buf in
  if slen s <=? avail then ([], (buf ++ s)%string)
  else if is_empty buf then ([s], EmptyString)                     (* large write, empty buffer: passed through *)
  else let full := (buf ++ stake avail s)%string in
       let rest := sdrop avail s in
       if slen rest <=? bufsize then ([full], rest) else ([full; rest], EmptyString).

(** The copy goroutine of os/exec: io.Copy(out, pipe) = Writer.ReadFrom(pipe). A chunk of tool output is read
    into the free part of the buffer; a full buffer is flushed at once; with an empty buffer Writer.ReadFrom
    hands over to os.File.ReadFrom, which writes every chunk it reads straight to the file. *)
Definition bw_read_chunk (buf c:string) : list string * string :=
  if is_empty c then ([], buf)
  else if is_empty buf then ([c], EmptyString)
  else let avail := bufsize - slen buf in
       if slen c <? avail then ([], (buf ++ c)%string)
       else let full := (buf ++ stake avail c)%string in
            let rest := sdrop avail c in
            if is_empty rest then ([full], EmptyString) else ([full; rest], EmptyString).

Fixpoint bw_read_chunks (buf:string) (cs:list string) : list string * string :=
  match cs with
  | [] => ([], buf)
  | c :: r => let '(w1, b1) := bw_read_chunk buf c in
              let '(w2, b2) := bw_read_chunks b1 r in (w1 ++ w2, b2)
  end.

(** Writer.Flush *)
Definition bw_flush (buf:string) : list string := if is_empty buf then [] else [buf].

(** ** One run of doObjdump *)
Inductive tool_end :=
| TOk          (* exit status 0 *)
| TFail        (* non-zero exit status (or killed) after the chunks *)
| TMissing.    (* exec: "go": executable file not found in $PATH *)

Record run_cfg := {
  r_path : N;                (* identifies the path of the binary, hence the final cache name *)
  r_hash : string;           (* hex SHA-256 of the binary's content at the time of the run *)
  r_suffix : N;              (* the random part of the name CreateTemp tries *)
  r_chunks : list string;    (* what the disassembler writes, in the pieces the copy goroutine reads *)
  r_tool : tool_end
}.

Definition hashline (h:string) : string := (h ++ String (ascii_of_N 10) EmptyString)%string.

(** the test in front of "Using cached objdump.": [n == len(buf) && hash == string(buf)] with a 64-byte buffer.
    (A read of a regular file is short only at its end.) *)
Definition cache_hit (d:fs) (c:run_cfg) : bool :=
  match fs_get d (Final (r_path c)) with
  | Some content => let b := stake 64 content in (slen b =? 64) && String.eqb (r_hash c) b
  | None => false
  end.

Inductive outcome :=
| Dump (content:string)    (* doObjdump returned the cache file; this is what ExtractSyscalls will read *)
| Failed.                  (* doObjdump returned an error: log.Fatal, exit status 1, no profile *)

Definition appends (f:fname) (ws:list string) : list op := map (OAppend f) ws.

(** the write(2) calls up to the end of the disassembler, and the buffer left *)
Definition writes_of (c:run_cfg) : list string * string :=
  let '(w1, b1) := bw_write_string EmptyString (hashline (r_hash c)) in
  match r_tool c with
  | TMissing => (w1, b1)                    (* cmd.Run fails before anything is read *)
  | _ => let '(w2, b2) := bw_read_chunks b1 (r_chunks c) in (w1 ++ w2, b2)
  end.

(** The directory-changing system calls of a run that is not interrupted, in order (repaired protocol):
    CreateTemp; the writes; then either (tool failed) the deferred Remove, or Flush, Rename and the deferred
    Remove (which finds nothing). Close changes nothing in the directory. *)
Definition run_ops (c:run_cfg) (d:fs) : list op :=
  if cache_hit d c then [] else
  let t := Temp (r_path c) (r_suffix c) in
  match fs_get d t with
  | Some _ => []                             (* CreateTemp: the name exists (the real call retries another) *)
  | None =>
    let '(ws, b) := writes_of c in
    match r_tool c with
    | TOk => OCreate t :: appends t (ws ++ bw_flush b) ++ [ORename t (Final (r_path c)); ORemove t]
    | _ => OCreate t :: appends t ws ++ [ORemove t]
    end
  end.

Definition run_outcome (c:run_cfg) (d d':fs) : outcome :=
  (* [d]: directory before, [d']: after the run's operations *)
  if cache_hit d c then match fs_get d (Final (r_path c)) with Some x => Dump x | None => Failed end
  else match fs_get d (Temp (r_path c) (r_suffix c)), r_tool c with
       | None, TOk => match fs_get d' (Final (r_path c)) with Some x => Dump x | None => Failed end
       | _, _ => Failed
       end.

(** a complete run *)
Definition run_complete (c:run_cfg) (d:fs) : fs * outcome :=
  let d' := apply_ops d (run_ops c d) in (d', run_outcome c d d').

(** ** Interrupted runs. What an interruption leaves applied is a prefix of the operations, the last write
    possibly cut short. *)
Definition cut (i:nat) (j:N) (ops:list op) : list op :=
  firstn i ops ++ match nth_error ops i with
                  | Some (OAppend f bs) => [OAppend f (stake j bs)]
                  | _ => []
                  end.

(** the process dies at the first write that would take its file beyond [lim] bytes (RLIMIT_FSIZE: the
    bytes that fit are written, the next write raises SIGXFSZ). [sz] is the size of the file written so far *)
Fixpoint cut_at_size (lim sz:N) (ops:list op) : list op :=
  match ops with
  | [] => []
  | OAppend f bs :: r =>
      if sz + slen bs <=? lim then OAppend f bs :: cut_at_size lim (sz + slen bs) r
      else [OAppend f (stake (lim - sz) bs)]
  | o :: r => o :: cut_at_size lim sz r
  end.

(** the process is killed while the disassembler is still running, after everything the disassembler wrote so
    far ([r_chunks]) went through the copy goroutine: CreateTemp and the writes have happened *)
Definition killed_ops (c:run_cfg) (d:fs) : list op :=
  if cache_hit d c then [] else
  match fs_get d (Temp (r_path c) (r_suffix c)) with
  | Some _ => []
  | None => OCreate (Temp (r_path c) (r_suffix c)) :: appends (Temp (r_path c) (r_suffix c)) (fst (writes_of c))
  end.

Inductive crash_point :=
| AtOp (i:nat) (j:N)      (* after [i] operations and [j] bytes of the next write *)
| AtSize (lim:N)          (* at the first write exceeding a file size limit *)
| AtKill.                 (* while waiting for the disassembler *)

Definition crash_ops (cp:crash_point) (c:run_cfg) (d:fs) : list op :=
  match cp with
  | AtOp i j => cut i j (run_ops c d)
  | AtSize lim => cut_at_size lim 0 (run_ops c d)
  | AtKill => killed_ops c d
  end.

(** a run in a history *)
Inductive hrun :=
| Complete (c:run_cfg)                    (* runs to its end (successfully or with a failing disassembler) *)
| Crash (c:run_cfg) (cp:crash_point)      (* the process dies: nothing deferred runs *)
| IOFail (c:run_cfg) (cp:crash_point).     (* an operation fails at that point (a write: after the bytes that
                                             fit, e.g. EFBIG under a file size limit, ENOSPC): doObjdump returns
                                             the error and its deferred Remove runs *)

Definition hrun_cfg (h:hrun) : run_cfg := match h with Complete c => c | Crash c _ => c | IOFail c _ => c end.

Definition exec_hrun (d:fs) (h:hrun) : fs :=
  match h with
  | Complete c => apply_ops d (run_ops c d)
  | Crash c cp => apply_ops d (crash_ops cp c d)
  | IOFail c cp => apply_ops d (crash_ops cp c d ++ [ORemove (Temp (r_path c) (r_suffix c))])
  end.
Definition exec_history (d:fs) (hs:list hrun) : fs := fold_left exec_hrun hs d.

(** ** The protocol before the repair (defect D13): os.Create(final), deferred Flush, hash line first *)
Definition old_run_ops (c:run_cfg) (d:fs) : list op :=
  if cache_hit d c then [] else
  let f := Final (r_path c) in
  let '(ws, b) := writes_of c in
  OCreate f :: appends f (ws ++ bw_flush b).     (* the deferred Flush runs on the error paths too *)

Definition old_run_outcome (c:run_cfg) (d d':fs) : outcome :=
  if cache_hit d c then match fs_get d (Final (r_path c)) with Some x => Dump x | None => Failed end
  else match r_tool c with
       | TOk => match fs_get d' (Final (r_path c)) with Some x => Dump x | None => Failed end
       | _ => Failed
       end.

Definition old_crash_ops (cp:crash_point) (c:run_cfg) (d:fs) : list op :=
  match cp with
  | AtOp i j => cut i j (old_run_ops c d)
  | AtSize lim => cut_at_size lim 0 (old_run_ops c d)
  | AtKill => if cache_hit d c then [] else OCreate (Final (r_path c)) :: appends (Final (r_path c)) (fst (writes_of c))
  end.

Definition old_exec_hrun (d:fs) (h:hrun) : fs :=
  match h with
  | Complete c => apply_ops d (old_run_ops c d)
  | Crash c cp => apply_ops d (old_crash_ops cp c d)
  | IOFail c cp => apply_ops d (old_crash_ops cp c d)
  end.
Definition old_exec_history (d:fs) (hs:list hrun) : fs := fold_left old_exec_hrun hs d.
Definition old_run_complete (c:run_cfg) (d:fs) : fs * outcome :=
  let d' := apply_ops d (old_run_ops c d) in (d', old_run_outcome c d d').

End Protocol.

(** the program's buffer: bufio.NewWriter uses defaultBufSize *)
Definition go_bufsize : N := 4096.
