(** * CompileProofs: the compiled filter decides every event as the specification says
    (C01, C02, C03, C04). *)
From Coq Require Import List NArith Bool Lia.
From Seccomp Require Import Words Machine Result Assembler AssemblerProofs Policy Spec.
Import ListNotations.
Open Scope N_scope.
Open Scope list_scope.

(** ** Pure facts (kept outside sections) *)
Lemma neq_lt (x y:N) : x < y -> (y =? x) = false.
Proof. intros; apply N.eqb_neq; lia. Qed.

Definition marker (it:item) : list label := match it with TLabel l => [l] | _ => [] end.
Definition markers (its:list item) : list label := flat_map marker its.
Lemma markers_app x y : markers (x ++ y) = markers x ++ markers y.
Proof. unfold markers. apply flat_map_app. Qed.

Definition in_range (lo hi:label) (ls:list label) := forall l, In l ls -> lo <= l < hi.

Lemma in_range_app lo hi x y : in_range lo hi x -> in_range lo hi y -> in_range lo hi (x ++ y).
Proof. intros Hx Hy l H. apply in_app_or in H. destruct H; auto. Qed.
Lemma in_range_weaken lo hi lo' hi' x : in_range lo hi x -> lo' <= lo -> hi <= hi' -> in_range lo' hi' x.
Proof. intros H H1 H2 l Hl. apply H in Hl. lia. Qed.
Lemma in_range_nil lo hi : in_range lo hi [].
Proof. intros l []. Qed.

(** ** The words the generated loads read *)
Lemma le5_cases (i:N) : i <= 5 -> i = 0 \/ i = 1 \/ i = 2 \/ i = 3 \/ i = 4 \/ i = 5.
Proof. lia. Qed.

Lemma word_at_hi le ev i : i <= 5 -> word_at le ev (ld_off i le) = Some (hi (arg ev i)).
Proof.
  intros H. destruct (le5_cases i H) as [->|[->|[->|[->|[->| ->]]]]]; destruct le; reflexivity.
Qed.
Lemma word_at_lo le ev i : i <= 5 -> word_at le ev (ld_off i (negb le)) = Some (lo (arg ev i)).
Proof.
  intros H. destruct (le5_cases i H) as [->|[->|[->|[->|[->| ->]]]]]; destruct le; reflexivity.
Qed.
Lemma word_at_nr le ev : word_at le ev 0 = Some (ev_nr ev).
Proof. reflexivity. Qed.
Lemma word_at_arch le ev : word_at le ev 4 = Some (ev_arch ev).
Proof. reflexivity. Qed.

Section Gen.
Variable le : bool.
Variable ev : event.
Notation ld := (word_at le ev).
Notation ex := (exec ld).

Lemma seek_through b : forall l r a, ~ In l (markers b) -> ex (b ++ r) (Seek l) a = ex r (Seek l) a.
Proof.
  induction b as [|it b IH]; intros l r a H; [reflexivity|].
  cbn [app]. destruct it; try (rewrite exec_real_seek by reflexivity; apply IH; intro; apply H; simpl; auto).
  rewrite exec_label_seek. destruct (l0 =? l) eqn:E.
  - apply N.eqb_eq in E. subst. exfalso. apply H. simpl. auto.
  - apply IH. intro. apply H. simpl. auto.
Qed.

Lemma jt_exec c k tl n r a :
  tl < n ->
  ex (jmp_if_true c k tl n ++ r) (Skip 0) a = if test c a k then ex r (Seek tl) a else ex r (Skip 0) a.
Proof.
  intros H. unfold jmp_if_true. cbn [app].
  rewrite exec_real_skip0 by reflexivity. cbn [step].
  destruct (test c a k).
  - rewrite exec_label_seek, (neq_lt _ _ H). reflexivity.
  - rewrite exec_label_seek, N.eqb_refl. reflexivity.
Qed.

Lemma ld_exec off w r a : ld off = Some w -> ex (TLd off :: r) (Skip 0) a = ex r (Skip 0) w.
Proof. intros H. rewrite exec_real_skip0 by reflexivity. cbn [step]. rewrite H. reflexivity. Qed.

Lemma jif_exec c k tl fl r a : ex (TJmpIf c k tl fl :: r) (Skip 0) a = ex r (Seek (if test c a k then tl else fl)) a.
Proof. rewrite exec_real_skip0 by reflexivity. reflexivity. Qed.

Lemma seek_jt c k tl n l r a : l < n -> ex (jmp_if_true c k tl n ++ r) (Seek l) a = ex r (Seek l) a.
Proof.
  intros H. unfold jmp_if_true. cbn [app]. rewrite exec_real_seek by reflexivity.
  rewrite exec_label_seek, (neq_lt _ _ H). reflexivity.
Qed.

Lemma seek_ld_jif l x c k t f r a : ex (TLd x :: TJmpIf c k t f :: r) (Seek l) a = ex r (Seek l) a.
Proof. rewrite !exec_real_seek by reflexivity. reflexivity. Qed.

(** ** One condition (C02): the code exits to [mt] iff the 64-bit relation holds, else to [nm] *)
Lemma cond_exec c mt nm n r a :
  mt < n -> nm < n -> c_arg c <= 5 -> op_valid (c_op c) = true ->
  exists a', ex (fst (gen_cond le c mt nm n) ++ r) (Skip 0) a = ex r (Seek (if cond_holds ev c then mt else nm)) a'.
Proof.
  intros Hmt Hnm Harg Hop. unfold gen_cond, cond_holds. destruct c as [i o v]; cbn [c_arg c_op c_val] in *.
  assert (Hmt1: mt < n + 1) by lia. assert (Hnm1: nm < n + 1) by lia.
  pose proof (word_at_hi le ev i Harg) as Lh. pose proof (word_at_lo le ev i Harg) as Ll.
  destruct o; cbn [fst rel]; try discriminate; cbn [app]; rewrite <- ?app_assoc; cbn [app].
  - (* Eq *)
    rewrite (ld_exec _ _ _ _ Lh), jt_exec by assumption. cbn [test].
    rewrite (eqb64 (arg ev i) v).
    destruct (hi (arg ev i) =? hi v); cbn [negb andb].
    + rewrite (ld_exec _ _ _ _ Ll), jif_exec. cbn [test]. eexists. reflexivity.
    + rewrite seek_ld_jif. eexists. reflexivity.
  - (* Ne *)
    rewrite (ld_exec _ _ _ _ Lh), jt_exec by assumption. cbn [test].
    rewrite (eqb64 (arg ev i) v).
    destruct (hi (arg ev i) =? hi v); cbn [negb andb].
    + rewrite (ld_exec _ _ _ _ Ll), jif_exec. cbn [test]. eexists. reflexivity.
    + rewrite seek_ld_jif. eexists. reflexivity.
  - (* Gt *)
    rewrite (ld_exec _ _ _ _ Lh), jt_exec by assumption. cbn [test].
    rewrite (ltb64 v (arg ev i)).
    destruct (hi v <? hi (arg ev i)); cbn [orb].
    + rewrite seek_jt by assumption. rewrite seek_ld_jif. eexists. reflexivity.
    + rewrite jt_exec by assumption. cbn [test]. rewrite (N.eqb_sym (hi v)).
      destruct (hi (arg ev i) =? hi v); cbn [negb andb].
      * rewrite (ld_exec _ _ _ _ Ll), jif_exec. cbn [test]. eexists. reflexivity.
      * rewrite seek_ld_jif. eexists. reflexivity.
  - (* Lt *)
    rewrite (ld_exec _ _ _ _ Lh), jt_exec by assumption. cbn [test].
    rewrite (ltb64 (arg ev i) v).
    destruct (hi (arg ev i) <? hi v); cbn [orb].
    + rewrite seek_jt by assumption. rewrite seek_ld_jif. eexists. reflexivity.
    + rewrite jt_exec by assumption. cbn [test].
      destruct (hi (arg ev i) =? hi v); cbn [negb andb].
      * rewrite (ld_exec _ _ _ _ Ll), jif_exec. cbn [test]. eexists. reflexivity.
      * rewrite seek_ld_jif. eexists. reflexivity.
  - (* Ge *)
    rewrite (ld_exec _ _ _ _ Lh), jt_exec by assumption. cbn [test].
    rewrite (leb64 v (arg ev i)).
    destruct (hi v <? hi (arg ev i)); cbn [orb].
    + rewrite seek_jt by assumption. rewrite seek_ld_jif. eexists. reflexivity.
    + rewrite jt_exec by assumption. cbn [test]. rewrite (N.eqb_sym (hi v)).
      destruct (hi (arg ev i) =? hi v); cbn [negb andb].
      * rewrite (ld_exec _ _ _ _ Ll), jif_exec. cbn [test]. eexists. reflexivity.
      * rewrite seek_ld_jif. eexists. reflexivity.
  - (* Le *)
    rewrite (ld_exec _ _ _ _ Lh), jt_exec by assumption. cbn [test].
    rewrite (leb64 (arg ev i) v).
    destruct (hi (arg ev i) <? hi v); cbn [orb].
    + rewrite seek_jt by assumption. rewrite seek_ld_jif. eexists. reflexivity.
    + rewrite jt_exec by assumption. cbn [test].
      destruct (hi (arg ev i) =? hi v); cbn [negb andb].
      * rewrite (ld_exec _ _ _ _ Ll), jif_exec. cbn [test]. eexists. reflexivity.
      * rewrite seek_ld_jif. eexists. reflexivity.
  - (* Set *)
    rewrite (ld_exec _ _ _ _ Lh), jt_exec by assumption. cbn [test].
    rewrite (land0b64 (arg ev i) v).
    destruct (N.land (hi (arg ev i)) (hi v) =? 0); cbn [negb andb].
    + rewrite (ld_exec _ _ _ _ Ll), jif_exec. cbn [test]. eexists. reflexivity.
    + rewrite seek_ld_jif. eexists. reflexivity.
  - (* NSet *)
    rewrite (ld_exec _ _ _ _ Lh), jt_exec by assumption. cbn [test].
    rewrite (land0b64 (arg ev i) v).
    destruct (N.land (hi (arg ev i)) (hi v) =? 0); cbn [negb andb].
    + rewrite (ld_exec _ _ _ _ Ll), jif_exec. cbn [test]. eexists. reflexivity.
    + rewrite seek_ld_jif. eexists. reflexivity.
Qed.
End Gen.

(** ** Freshness: the markers a generator places are the labels it allocated *)
Lemma gen_cond_fresh le c mt nm n :
  n <= snd (gen_cond le c mt nm n) /\ in_range n (snd (gen_cond le c mt nm n)) (markers (fst (gen_cond le c mt nm n))).
Proof.
  unfold gen_cond, jmp_if_true. destruct (c_op c); cbn [fst snd]; (split; [lia|]); intros l H; simpl in H; lia.
Qed.

Lemma gen_conds_fresh le cs : forall action nm n,
  n <= snd (gen_conds le cs action nm n) /\
  in_range n (snd (gen_conds le cs action nm n)) (markers (fst (gen_conds le cs action nm n))).
Proof.
  induction cs as [|c rest IH]; intros action nm n; cbn [gen_conds].
  - cbn. split; [lia|]. intros l [].
  - pose proof (gen_cond_fresh le c (match rest with [] => action | _ => n end) nm (n+1)) as [F1 F2].
    destruct (gen_cond le c _ nm (n+1)) as [code n1]. cbn [fst snd] in *.
    specialize (IH action nm n1). destruct (gen_conds le rest action nm n1) as [more n2]. cbn [fst snd] in *.
    destruct IH as [G1 G2]. split; [lia|].
    intros l H. rewrite markers_app in H. apply in_app_or in H. destruct H as [H|H].
    + apply F2 in H. lia.
    + simpl in H. destruct H as [<-|H]; [lia|]. apply G2 in H. lia.
Qed.

Lemma gen_list_fresh le cs action n :
  n < snd (gen_list le cs action n) /\
  in_range n (snd (gen_list le cs action n)) (markers (fst (gen_list le cs action n))).
Proof.
  unfold gen_list. pose proof (gen_conds_fresh le cs action n (n+1)) as [G1 G2].
  destruct (gen_conds le cs action n (n+1)) as [code n1]. cbn [fst snd] in *. split; [lia|].
  intros l H. rewrite markers_app in H. apply in_app_or in H. destruct H as [H|H].
  - apply G2 in H. lia.
  - simpl in H. destruct H as [<-|[]]. lia.
Qed.

Lemma gen_lists_fresh le ls : forall action n,
  n <= snd (gen_lists le ls action n) /\
  in_range n (snd (gen_lists le ls action n)) (markers (fst (gen_lists le ls action n))).
Proof.
  induction ls as [|cs rest IH]; intros action n; cbn [gen_lists].
  - cbn. split; [lia|]. intros l [].
  - pose proof (gen_list_fresh le cs action n) as [F1 F2].
    destruct (gen_list le cs action n) as [code n1]. cbn [fst snd] in *.
    specialize (IH action n1). destruct (gen_lists le rest action n1) as [more n2]. cbn [fst snd] in *.
    destruct IH as [G1 G2]. split; [lia|]. intros l H. rewrite markers_app in H.
    apply in_app_or in H. destruct H as [H|H]; [apply F2 in H|apply G2 in H]; lia.
Qed.

Lemma gen_ent_fresh le e action n :
  n < snd (gen_ent le e action n) /\
  in_range n (snd (gen_ent le e action n)) (markers (fst (gen_ent le e action n))).
Proof.
  destruct e as [num|num ls]; cbn [gen_ent].
  - cbn. split; [lia|]. intros l [<-|[]]; lia.
  - pose proof (gen_lists_fresh le ls action (n+2)) as [G1 G2].
    destruct (gen_lists le ls action (n+2)) as [code n1]. cbn [fst snd] in *. split; [lia|].
    intros l H. unfold jmp_if_true in H. cbn [app] in H. simpl in H. destruct H as [<-|H]; [lia|].
    change (In l (markers (code ++ [TLd 0; TLabel n]))) in H. rewrite markers_app in H.
    apply in_app_or in H. destruct H as [H|H]; [apply G2 in H; lia|]. simpl in H. destruct H as [<-|[]]. lia.
Qed.

Lemma gen_ents_fresh le es : forall action n,
  n <= snd (gen_ents le es action n) /\
  in_range n (snd (gen_ents le es action n)) (markers (fst (gen_ents le es action n))).
Proof.
  induction es as [|e rest IH]; intros action n; cbn [gen_ents].
  - cbn. split; [lia|]. intros l [].
  - pose proof (gen_ent_fresh le e action n) as [F1 F2].
    destruct (gen_ent le e action n) as [code n1]. cbn [fst snd] in *.
    specialize (IH action n1). destruct (gen_ents le rest action n1) as [more n2]. cbn [fst snd] in *.
    destruct IH as [G1 G2]. split; [lia|]. intros l H. rewrite markers_app in H.
    apply in_app_or in H. destruct H as [H|H]; [apply F2 in H|apply G2 in H]; lia.
Qed.

(** ** Entry validity as established by toSyscallsWithConditions *)
Definition cnd_ok (c:cnd) : Prop := c_arg c <= 5 /\ op_valid (c_op c) = true.
Definition list_ok (cs:list cnd) : Prop := cs <> [] /\ Forall cnd_ok cs.
Definition entry_ok (e:entry) : Prop :=
  match e with EU _ => True | EC _ ls => ls <> [] /\ Forall list_ok ls end.

Section Gen2.
Variable le : bool.
Variable ev : event.
Notation ld := (word_at le ev).
Notation ex := (exec ld).
Notation nr := (ev_nr ev).

Definition entry_matches (e:entry) : bool :=
  match e with
  | EU num => nr =? num
  | EC num ls => (nr =? num) && existsb (list_holds ev) ls
  end.

Lemma conds_exec cs : forall action nm n r a,
  cs <> [] -> Forall cnd_ok cs -> action < n -> nm < n ->
  exists a', ex (fst (gen_conds le cs action nm n) ++ r) (Skip 0) a
           = ex r (Seek (if list_holds ev cs then action else nm)) a'.
Proof.
  induction cs as [|c rest IH]; intros action nm n r a Hne Hok Ha Hn; [congruence|].
  inversion Hok as [|? ? [Hc1 Hc2] Hrest]; subst.
  unfold list_holds in *. cbn [gen_conds forallb].
  pose proof (gen_cond_fresh le c (match rest with [] => action | _ => n end) nm (n+1)) as [F1 F2].
  pose proof (cond_exec le ev c (match rest with [] => action | _ => n end) nm (n+1)) as CE.
  destruct (gen_cond le c _ nm (n+1)) as [code n1]. cbn [fst snd] in *.
  pose proof (gen_conds_fresh le rest action nm n1) as [G1 G2].
  specialize (IH action nm n1).
  destruct (gen_conds le rest action nm n1) as [more n2]. cbn [fst snd] in *.
  rewrite <- app_assoc. cbn [app].
  destruct (CE (TLabel n :: more ++ r) a) as [a1 E1]; [destruct rest; lia|lia|assumption|assumption|].
  rewrite E1. clear E1 CE.
  destruct (cond_holds ev c); cbn [andb].
  - destruct rest as [|c2 rest2].
    + cbn [forallb]. exists a1. rewrite exec_label_seek. rewrite (neq_lt _ _ Ha).
      apply seek_through. intro H. apply G2 in H. lia.
    + rewrite exec_label_seek, N.eqb_refl.
      destruct (IH r a1) as [a2 E2]; [congruence|assumption|lia|lia|].
      exists a2. exact E2.
  - exists a1. rewrite exec_label_seek. rewrite (neq_lt _ _ Hn).
    apply seek_through. intro H. apply G2 in H. lia.
Qed.

Lemma list_exec cs action n r a :
  list_ok cs -> action < n ->
  exists a', ex (fst (gen_list le cs action n) ++ r) (Skip 0) a
           = if list_holds ev cs then ex r (Seek action) a' else ex r (Skip 0) a'.
Proof.
  intros [Hne Hok] Ha. unfold gen_list.
  pose proof (conds_exec cs action n (n+1)) as CE.
  destruct (gen_conds le cs action n (n+1)) as [code n1]. cbn [fst snd] in *.
  rewrite <- app_assoc. destruct (CE ([TLabel n] ++ r) a) as [a1 E]; [assumption|assumption|lia|lia|].
  rewrite E. exists a1. cbn [app]. rewrite exec_label_seek.
  destruct (list_holds ev cs).
  - rewrite (neq_lt _ _ Ha). reflexivity.
  - rewrite N.eqb_refl. reflexivity.
Qed.

Lemma lists_exec ls : forall action n r a,
  Forall list_ok ls -> action < n ->
  exists a', ex (fst (gen_lists le ls action n) ++ r) (Skip 0) a
           = if existsb (list_holds ev) ls then ex r (Seek action) a' else ex r (Skip 0) a'.
Proof.
  induction ls as [|cs rest IH]; intros action n r a Hok Ha; cbn [gen_lists existsb].
  - exists a. reflexivity.
  - inversion Hok as [|? ? Hcs Hrest]; subst.
    pose proof (gen_list_fresh le cs action n) as [F1 F2].
    pose proof (list_exec cs action n) as LE.
    destruct (gen_list le cs action n) as [code n1]. cbn [fst snd] in *.
    pose proof (gen_lists_fresh le rest action n1) as [G1 G2].
    specialize (IH action n1).
    destruct (gen_lists le rest action n1) as [more n2]. cbn [fst snd] in *.
    rewrite <- app_assoc. destruct (LE (more ++ r) a Hcs Ha) as [a1 E]. rewrite E.
    destruct (list_holds ev cs); cbn [orb].
    + exists a1. apply seek_through. intro H. apply G2 in H. lia.
    + apply IH; [assumption|lia].
Qed.

(** one entry: given A = nr, it exits to [action] iff it matches; otherwise it ends with A = nr again *)
Lemma ent_exec e action n r :
  entry_ok e -> action < n ->
  if entry_matches e
  then exists a', ex (fst (gen_ent le e action n) ++ r) (Skip 0) nr = ex r (Seek action) a'
  else ex (fst (gen_ent le e action n) ++ r) (Skip 0) nr = ex r (Skip 0) nr.
Proof.
  intros Hok Ha. destruct e as [num|num ls]; cbn [gen_ent entry_matches].
  - cbn [fst]. rewrite jt_exec by assumption. cbn [test].
    destruct (nr =? num); [exists nr|]; reflexivity.
  - destruct Hok as [Hne Hok].
    pose proof (gen_lists_fresh le ls action (n+2)) as [G1 G2].
    pose proof (lists_exec ls action (n+2)) as LE.
    destruct (gen_lists le ls action (n+2)) as [code n1]. cbn [fst snd] in *.
    rewrite <- !app_assoc. rewrite jt_exec by lia. cbn [test].
    destruct (nr =? num) eqn:En; cbn [negb andb].
    + destruct (LE ([TLd 0; TLabel n] ++ r) nr Hok) as [a1 E]; [lia|]. rewrite E.
      destruct (existsb (list_holds ev) ls).
      * exists a1. cbn [app]. rewrite exec_real_seek by reflexivity. rewrite exec_label_seek, (neq_lt _ _ Ha). reflexivity.
      * cbn [app]. rewrite (ld_exec le ev 0 nr) by apply word_at_nr. rewrite exec_label_skip. reflexivity.
    + rewrite seek_through by (intro H; apply G2 in H; lia).
      cbn [app]. rewrite exec_real_seek by reflexivity. rewrite exec_label_seek, N.eqb_refl. reflexivity.
Qed.

Lemma ents_exec es : forall action n r,
  Forall entry_ok es -> action < n ->
  if existsb entry_matches es
  then exists a', ex (fst (gen_ents le es action n) ++ r) (Skip 0) nr = ex r (Seek action) a'
  else ex (fst (gen_ents le es action n) ++ r) (Skip 0) nr = ex r (Skip 0) nr.
Proof.
  induction es as [|e rest IH]; intros action n r Hok Ha; cbn [gen_ents existsb].
  - reflexivity.
  - inversion Hok as [|? ? He Hrest]; subst.
    pose proof (gen_ent_fresh le e action n) as [F1 F2].
    pose proof (ent_exec e action n) as EE.
    destruct (gen_ent le e action n) as [code n1]. cbn [fst snd] in *.
    pose proof (gen_ents_fresh le rest action n1) as [G1 G2].
    specialize (IH action n1).
    destruct (gen_ents le rest action n1) as [more n2]. cbn [fst snd] in *.
    rewrite <- app_assoc. specialize (EE (more ++ r) He Ha).
    destruct (entry_matches e); cbn [orb].
    + destruct EE as [a1 E]. exists a1. rewrite E. apply seek_through. intro H. apply G2 in H. lia.
    + rewrite EE. apply IH; [assumption|lia].
Qed.

(** the label-level group: returns its word on a match, otherwise falls through with A = nr *)
Lemma group_exec es w :
  Forall entry_ok es ->
  ex (fst (gen_group le es w)) (Skip 0) nr
  = if existsb entry_matches es then ORet w else OEnd (Skip 0) nr.
Proof.
  intros Hok. unfold gen_group.
  pose proof (gen_ents_fresh le es 2 3) as [G1 G2].
  pose proof (ents_exec es 2 3) as EE.
  destruct (gen_ents le es 2 3) as [code n1]. cbn [fst snd] in *.
  specialize (EE [TJaL n1; TLabel 2; TRet w; TLabel n1] Hok ltac:(lia)).
  destruct (existsb entry_matches es).
  - destruct EE as [a1 E]. rewrite E.
    rewrite exec_real_seek by reflexivity. rewrite exec_label_seek, N.eqb_refl.
    rewrite exec_real_skip0 by reflexivity. reflexivity.
  - rewrite EE. rewrite exec_real_skip0 by reflexivity. cbn [step].
    rewrite exec_label_seek. replace (2 =? n1) with false by (symmetry; apply N.eqb_neq; lia).
    rewrite exec_real_seek by reflexivity. rewrite exec_label_seek, N.eqb_refl. reflexivity.
Qed.
End Gen2.

(** ** All labels of a group program are below the final counter (needed to apply the assembler theorem) *)
Lemma below_app f x y : below f x -> below f y -> below f (x ++ y).
Proof. intros Hx Hy it l Hin Hl. apply in_app_or in Hin. destruct Hin; [eapply Hx|eapply Hy]; eauto. Qed.
Lemma below_mono f f' x : below f x -> f <= f' -> below f' x.
Proof. intros H Hle it l Hin Hl. specialize (H it l Hin Hl). lia. Qed.

Ltac solve_below :=
  let it := fresh "it" in let l := fresh "l" in let Hin := fresh "Hin" in let Hl := fresh "Hl" in
  intros it l Hin Hl; simpl in Hin;
  repeat (destruct Hin as [<-|Hin]; [simpl in Hl; repeat (destruct Hl as [<-|Hl]; [lia|]); try contradiction|]);
  try contradiction.

Lemma gen_cond_below le c mt nm n :
  mt < n -> nm < n -> below (snd (gen_cond le c mt nm n)) (fst (gen_cond le c mt nm n)).
Proof.
  intros H1 H2. unfold gen_cond, jmp_if_true. destruct (c_op c); cbn [fst snd app]; solve_below.
Qed.

Lemma gen_conds_below le cs : forall action nm n,
  action < n -> nm < n -> below (snd (gen_conds le cs action nm n)) (fst (gen_conds le cs action nm n)).
Proof.
  induction cs as [|c rest IH]; intros action nm n Ha Hn; cbn [gen_conds].
  - cbn. intros it l [].
  - pose proof (gen_cond_fresh le c (match rest with [] => action | _ => n end) nm (n+1)) as [F1 _].
    pose proof (gen_cond_below le c (match rest with [] => action | _ => n end) nm (n+1)) as B.
    destruct (gen_cond le c _ nm (n+1)) as [code n1]. cbn [fst snd] in *.
    pose proof (gen_conds_fresh le rest action nm n1) as [G1 _].
    specialize (IH action nm n1).
    destruct (gen_conds le rest action nm n1) as [more n2]. cbn [fst snd] in *.
    apply below_app.
    + eapply below_mono; [apply B; [destruct rest; lia|lia]|lia].
    + intros it l [<-|Hin] Hl; [simpl in Hl; destruct Hl as [<-|[]]; lia|].
      eapply IH; eauto; lia.
Qed.

Lemma gen_list_below le cs action n :
  action < n -> below (snd (gen_list le cs action n)) (fst (gen_list le cs action n)).
Proof.
  intros Ha. unfold gen_list.
  pose proof (gen_conds_fresh le cs action n (n+1)) as [G1 _].
  pose proof (gen_conds_below le cs action n (n+1)) as B.
  destruct (gen_conds le cs action n (n+1)) as [code n1]. cbn [fst snd] in *.
  apply below_app; [apply B; lia|]. solve_below.
Qed.

Lemma gen_lists_below le ls : forall action n,
  action < n -> below (snd (gen_lists le ls action n)) (fst (gen_lists le ls action n)).
Proof.
  induction ls as [|cs rest IH]; intros action n Ha; cbn [gen_lists].
  - cbn. intros it l [].
  - pose proof (gen_list_fresh le cs action n) as [F1 _].
    pose proof (gen_list_below le cs action n Ha) as B.
    destruct (gen_list le cs action n) as [code n1]. cbn [fst snd] in *.
    pose proof (gen_lists_fresh le rest action n1) as [G1 _].
    specialize (IH action n1).
    destruct (gen_lists le rest action n1) as [more n2]. cbn [fst snd] in *.
    apply below_app; [eapply below_mono; [exact B|lia]|apply IH; lia].
Qed.

Lemma gen_ent_below le e action n :
  action < n -> below (snd (gen_ent le e action n)) (fst (gen_ent le e action n)).
Proof.
  intros Ha. destruct e as [num|num ls]; cbn [gen_ent].
  - unfold jmp_if_true. cbn [fst snd]. solve_below.
  - pose proof (gen_lists_fresh le ls action (n+2)) as [G1 _].
    pose proof (gen_lists_below le ls action (n+2)) as B.
    destruct (gen_lists le ls action (n+2)) as [code n1]. cbn [fst snd] in *.
    apply below_app; [unfold jmp_if_true; solve_below|].
    apply below_app; [apply B; lia|]. solve_below.
Qed.

Lemma gen_ents_below le es : forall action n,
  action < n -> below (snd (gen_ents le es action n)) (fst (gen_ents le es action n)).
Proof.
  induction es as [|e rest IH]; intros action n Ha; cbn [gen_ents].
  - cbn. intros it l [].
  - pose proof (gen_ent_fresh le e action n) as [F1 _].
    pose proof (gen_ent_below le e action n Ha) as B.
    destruct (gen_ent le e action n) as [code n1]. cbn [fst snd] in *.
    pose proof (gen_ents_fresh le rest action n1) as [G1 _].
    specialize (IH action n1).
    destruct (gen_ents le rest action n1) as [more n2]. cbn [fst snd] in *.
    apply below_app; [eapply below_mono; [exact B|lia]|apply IH; lia].
Qed.

Lemma gen_group_below le es w : below (snd (gen_group le es w)) (fst (gen_group le es w)).
Proof.
  unfold gen_group.
  pose proof (gen_ents_fresh le es 2 3) as [G1 _].
  pose proof (gen_ents_below le es 2 3 ltac:(lia)) as B.
  destruct (gen_ents le es 2 3) as [code n1]. cbn [fst snd] in *.
  apply below_app; [eapply below_mono; [exact B|lia]|]. solve_below.
Qed.

(** ** toSyscallsWithConditions: the entries it builds are valid and match exactly the events the group lists *)
Lemma conds_valid_ok cs : conds_valid cs = true -> list_ok cs.
Proof.
  unfold conds_valid, list_ok. intros H. apply andb_true_iff in H. destruct H as [H1 H2]. split.
  - destruct cs; [discriminate|congruence].
  - rewrite forallb_forall in H2. apply Forall_forall. intros c Hc. specialize (H2 c Hc).
    apply andb_true_iff in H2. destruct H2 as [A B]. split; [apply N.leb_le; exact A|exact B].
Qed.

Lemma get_syscall_none_notin es num : get_syscall es num = None -> Forall (fun e => entry_num e <> num) es.
Proof.
  induction es as [|e r IH]; cbn [get_syscall]; intros H; [constructor|].
  destruct (entry_num e =? num) eqn:E; [discriminate|]. constructor; [apply N.eqb_neq; exact E|auto].
Qed.

Section ToSyscalls.
Variable ai : arch_info.
Variable ev : event.
Notation nr := (ev_nr ev).
Notation em := (entry_matches ev).

Lemma existsb_snoc {A} (f:A -> bool) l x : existsb f (l ++ [x]) = existsb f l || f x.
Proof. rewrite existsb_app. cbn. rewrite orb_false_r. reflexivity. Qed.

Lemma add_list_spec es : forall sc n ls cs,
  get_syscall es sc = Some (EC n ls) -> Forall entry_ok es -> list_ok cs ->
  Forall entry_ok (add_list es sc cs) /\
  existsb em (add_list es sc cs) = existsb em es || ((nr =? sc) && list_holds ev cs).
Proof.
  induction es as [|e r IH]; intros sc n ls cs Hg Hok Hcs; cbn [get_syscall] in Hg; [discriminate|].
  inversion Hok as [|? ? He Hr]; subst. cbn [add_list].
  destruct (entry_num e =? sc) eqn:E.
  - injection Hg as ->. cbn [entry_num] in E. apply N.eqb_eq in E. subst n. split.
    + constructor; [|exact Hr]. cbn [entry_ok] in *. destruct He as [Hne Hls]. split.
      * destruct ls; discriminate.
      * apply Forall_app. split; [exact Hls|constructor; [exact Hcs|constructor]].
    + cbn [existsb entry_matches]. rewrite existsb_snoc.
      destruct (nr =? sc), (existsb (list_holds ev) ls), (list_holds ev cs), (existsb em r); reflexivity.
  - destruct (IH sc n ls cs Hg Hr Hcs) as [I1 I2]. split; [constructor; assumption|].
    cbn [existsb]. rewrite I2. destruct (em e), (existsb em r); reflexivity.
Qed.

Lemma names_loop_spec names : forall es bad es' bad',
  names_loop ai names es bad = (es', bad') -> Forall entry_ok es ->
  Forall entry_ok es' /\
  (bad' = false -> bad = false /\ existsb em es' = existsb em es || existsb (name_matches ai ev) names).
Proof.
  induction names as [|name rest IH]; intros es bad es' bad' H Hok; cbn [names_loop] in H.
  - injection H as <- <-. split; [exact Hok|]. intros ->. split; [reflexivity|]. cbn. rewrite orb_false_r. reflexivity.
  - cbn [existsb]. unfold name_matches at 1.
    destruct (lookup_name (ai_table ai) name) as [num|].
    + destruct (get_syscall es (sysnum ai num)) eqn:G.
      * destruct (IH _ _ _ _ H Hok) as [I1 I2]. split; [exact I1|]. intros Hb. destruct (I2 Hb). discriminate.
      * assert (Hok': Forall entry_ok (es ++ [EU (sysnum ai num)])) by (apply Forall_app; split; [exact Hok|constructor; [exact I|constructor]]).
        destruct (IH _ _ _ _ H Hok') as [I1 I2]. split; [exact I1|]. intros Hb. destruct (I2 Hb) as [-> I3].
        split; [reflexivity|]. rewrite I3, existsb_snoc. cbn [entry_matches].
        destruct (existsb em es), (nr =? sysnum ai num), (existsb (name_matches ai ev) rest); reflexivity.
    + destruct (IH _ _ _ _ H Hok) as [I1 I2]. split; [exact I1|]. intros Hb. destruct (I2 Hb). discriminate.
Qed.

Lemma nwc_loop_spec ncs : forall es bad es' bad',
  nwc_loop ai ncs es bad = (es', bad') -> Forall entry_ok es ->
  Forall entry_ok es' /\
  (bad' = false -> bad = false /\ existsb em es' = existsb em es || existsb (nwc_matches ai ev) ncs).
Proof.
  induction ncs as [|nc rest IH]; intros es bad es' bad' H Hok; cbn [nwc_loop] in H.
  - injection H as <- <-. split; [exact Hok|]. intros ->. split; [reflexivity|]. cbn. rewrite orb_false_r. reflexivity.
  - cbn [existsb]. unfold nwc_matches at 1. unfold name_matches.
    destruct (lookup_name (ai_table ai) (nc_name nc)) as [num|].
    + destruct (conds_valid (nc_conds nc)) eqn:V; cbn [negb] in H.
      * pose proof (conds_valid_ok _ V) as Hcs.
        destruct (get_syscall es (sysnum ai num)) as [[n0|n0 ls0]|] eqn:G.
        -- destruct (IH _ _ _ _ H Hok) as [I1 I2]. split; [exact I1|]. intros Hb. destruct (I2 Hb). discriminate.
        -- destruct (add_list_spec es _ _ _ _ G Hok Hcs) as [A1 A2].
           destruct (IH _ _ _ _ H A1) as [I1 I2]. split; [exact I1|]. intros Hb. destruct (I2 Hb) as [-> I3].
           split; [reflexivity|]. rewrite I3, A2.
           destruct (existsb em es), ((nr =? sysnum ai num) && list_holds ev (nc_conds nc)), (existsb (nwc_matches ai ev) rest); reflexivity.
        -- assert (Hok': Forall entry_ok (es ++ [EC (sysnum ai num) [nc_conds nc]])).
           { apply Forall_app; split; [exact Hok|]. constructor; [|constructor]. cbn. split; [discriminate|]. constructor; [exact Hcs|constructor]. }
           destruct (IH _ _ _ _ H Hok') as [I1 I2]. split; [exact I1|]. intros Hb. destruct (I2 Hb) as [-> I3].
           split; [reflexivity|]. rewrite I3, existsb_snoc. cbn [entry_matches existsb]. rewrite orb_false_r.
           destruct (existsb em es), ((nr =? sysnum ai num) && list_holds ev (nc_conds nc)), (existsb (nwc_matches ai ev) rest); reflexivity.
      * destruct (IH _ _ _ _ H Hok) as [I1 I2]. split; [exact I1|]. intros Hb. destruct (I2 Hb). discriminate.
    + destruct (IH _ _ _ _ H Hok) as [I1 I2]. split; [exact I1|]. intros Hb. destruct (I2 Hb). discriminate.
Qed.

Lemma to_syscalls_spec g es :
  to_syscalls ai g = Ok es ->
  Forall entry_ok es /\ existsb em es = group_matches ai ev g.
Proof.
  unfold to_syscalls, group_matches. intros H.
  destruct (names_loop ai (g_names g) [] false) as [es1 bad1] eqn:N1.
  destruct (nwc_loop ai (g_nwc g) es1 bad1) as [es2 bad2] eqn:N2.
  destruct bad2; [discriminate|]. injection H as <-.
  destruct (names_loop_spec _ _ _ _ _ N1 (Forall_nil _)) as [A1 A2].
  destruct (nwc_loop_spec _ _ _ _ _ N2 A1) as [B1 B2].
  split; [exact B1|]. destruct (B2 eq_refl) as [-> B3]. destruct (A2 eq_refl) as [_ A3].
  rewrite B3, A3. reflexivity.
Qed.
End ToSyscalls.

(** ** Groups at the instruction level *)
Section Compile.
Variable le : bool.
Variable k : consts.
Variable ai : arch_info.
Variable ev : event.
Notation ld := (word_at le ev).
Notation rn := (run ld).
Notation nr := (ev_nr ev).

Lemma compile_group_sem g p :
  compile_group le k ai g = Ok p ->
  rn p 0 nr = if group_matches ai ev g then ORet (ret_word k (g_action g)) else OEnd (Skip 0) nr.
Proof.
  unfold compile_group. intros H.
  assert (Hmain: forall es, to_syscalls ai g = Ok es ->
            (let '(its, n) := gen_group le es (ret_word k (g_action g)) in assemble its n) = Ok p ->
            rn p 0 nr = if group_matches ai ev g then ORet (ret_word k (g_action g)) else OEnd (Skip 0) nr).
  { intros es Hes Ha. destruct (to_syscalls_spec ai ev g es Hes) as [Hok Hm].
    pose proof (gen_group_below le es (ret_word k (g_action g))) as Hb.
    pose proof (group_exec le ev es (ret_word k (g_action g)) Hok) as GE.
    destruct (gen_group le es (ret_word k (g_action g))) as [its n]. cbn [fst snd] in *.
    rewrite (assemble_correct ld its n p nr Hb Ha). rewrite GE, Hm. reflexivity. }
  destruct (g_names g) as [|n0 ns] eqn:En.
  - destruct (g_nwc g) as [|w0 ws] eqn:Ew.
    + injection H as <-. unfold group_matches. rewrite En, Ew. reflexivity.
    + destruct (to_syscalls ai g) as [es|e] eqn:T; [|discriminate]. eapply Hmain; eauto.
  - destruct (to_syscalls ai g) as [es|e] eqn:T; [|discriminate]. eapply Hmain; eauto.
Qed.

Lemma compile_groups_sem gs : forall body tail,
  compile_groups le k ai gs = Ok body ->
  rn (body ++ tail) 0 nr =
  match first_group ai ev gs with
  | Some g => ORet (ret_word k (g_action g))
  | None => rn tail 0 nr
  end.
Proof.
  induction gs as [|g rest IH]; intros body tail H; cbn [compile_groups first_group] in *.
  - injection H as <-. reflexivity.
  - destruct (compile_group le k ai g) as [p|e] eqn:G; [|discriminate].
    destruct (compile_groups le k ai rest) as [q|e] eqn:R; [|discriminate].
    injection H as <-. rewrite <- app_assoc, run_app. rewrite (compile_group_sem g p G).
    destruct (group_matches ai ev g); [reflexivity|]. apply IH. reflexivity.
Qed.

(** ** The prologue: architecture test (both encodings), syscall number load, x32 guard *)
Lemma x32_filter_sem body d :
  rn (x32_filter k ai ++ body ++ [IRet d]) 0 nr =
  if (ai_id ai =? k_x86_64_id k) && (k_x32mask k <=? nr) then ORet (N.lor (k_errno k) (k_enosys k))
  else rn (body ++ [IRet d]) 0 nr.
Proof.
  unfold x32_filter. destruct (ai_id ai =? k_x86_64_id k); cbn [andb app]; [|reflexivity].
  cbn [run N.eqb test]. destruct (k_x32mask k <=? nr); cbn [run N.eqb N.pred]; reflexivity.
Qed.

Lemma prologue_sem rest :
  N.of_nat (length rest) < two32 ->
  forall d, rn (prologue ai (N.of_nat (length rest)) ++ rest ++ [IRet d]) 0 0 =
  if ev_arch ev =? ai_id ai then rn (rest ++ [IRet d]) 0 (ev_arch ev) else ORet d.
Proof.
  intros Hlen d. unfold prologue.
  destruct (N.leb_spec (N.of_nat (length rest)) 255) as [Hs|Hs].
  - cbn [app run N.eqb]. rewrite word_at_arch. cbn [run N.eqb test].
    destruct (ev_arch ev =? ai_id ai); cbn [negb].
    + reflexivity.
    + rewrite N.mod_small by lia. apply run_skip_app.
  - cbn [app run N.eqb]. rewrite word_at_arch. cbn [run N.eqb test].
    destruct (ev_arch ev =? ai_id ai).
    + cbn [run N.eqb N.pred]. reflexivity.
    + cbn [run N.eqb]. rewrite N.mod_small by exact Hlen. apply run_skip_app.
Qed.

(** ** Main theorem: the compiled program decides every event as [decide] says.
    The only side condition is that the program has fewer than 2^32 instructions
    (Policy.Assemble stores the architecture jump distance in a uint32). *)
Theorem compile_correct pol p :
  compile le k ai pol = Ok p ->
  N.of_nat (length p) < two32 ->
  run_event le p ev = ORet (decide k ai pol ev).
Proof.
  unfold compile, run_event, decide. intros H Hlen.
  destruct (negb (is_named k (p_default pol))); [discriminate|].
  destruct (p_groups pol) as [|g0 gs0] eqn:Eg; [discriminate|]. rewrite <- Eg in *. clear Eg g0 gs0.
  destruct (compile_groups le k ai (p_groups pol)) as [body|e] eqn:B; [|discriminate].
  injection H as <-. cbv zeta in *.
  set (d := ret_word k (p_default pol)) in *.
  set (rest := [ILd 0] ++ x32_filter k ai ++ body).
  assert (Hjn: N.of_nat (length (x32_filter k ai) + length body + 1) = N.of_nat (length rest)).
  { unfold rest. rewrite !app_length. cbn [length]. f_equal. lia. }
  rewrite Hjn.
  assert (E: ILd 0 :: x32_filter k ai ++ body ++ [IRet d] = rest ++ [IRet d])
    by (unfold rest; rewrite <- !app_assoc; reflexivity).
  cbn [app] in Hlen |- *. rewrite E in Hlen |- *. clear E.
  rewrite prologue_sem.
  - destruct (ev_arch ev =? ai_id ai); cbn [negb]; [|reflexivity].
    unfold rest. rewrite <- !app_assoc. cbn [app run N.eqb]. rewrite word_at_nr.
    rewrite x32_filter_sem.
    destruct ((ai_id ai =? k_x86_64_id k) && (k_x32mask k <=? nr)); [reflexivity|].
    rewrite (compile_groups_sem _ body [IRet d] B).
    destruct (first_group ai ev (p_groups pol)); reflexivity.
  - rewrite !app_length in Hlen. unfold two32 in *. lia.
Qed.
End Compile.
