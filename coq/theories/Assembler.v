(** * Assembler: executable model of Program.Assemble (assembler.go, after the repair of D3).

    [relax] places the bridges: the conditional jumps are visited from the last to the first;
    a branch whose destination is more than 255 instructions away is redirected to a bridge
    placed directly behind the jump (a copy of the destination if that is a return, otherwise an
    unconditional jump to the label). [resolve] then computes every skip from the final positions. *)
From Coq Require Import List NArith Bool Lia.
From Seccomp Require Import Words Machine Result.
Import ListNotations.
Open Scope N_scope.

(** number of real instructions before the first marker [l]; [None] if [l] is not set ahead.
    This is Go's [destination]: the first index in [labels[l]] beyond the jump. *)
Fixpoint dist (l:label) (its:list item) : option N :=
  match its with
  | [] => None
  | TLabel l' :: r => if l' =? l then Some 0 else dist l r
  | _ :: r => option_map N.succ (dist l r)
  end.

Fixpoint first_real (its:list item) : option item :=
  match its with [] => None | TLabel _ :: r => first_real r | it :: _ => Some it end.

(** the instruction the first marker [l] ahead stands in front of *)
Fixpoint at_label (l:label) (its:list item) : option item :=
  match its with
  | [] => None
  | TLabel l' :: r => if l' =? l then first_real r else at_label l r
  | _ :: r => at_label l r
  end.

(** insertBridge: early return if the destination is a return, else a long jump *)
Definition tramp (l:label) (r:list item) : item :=
  match at_label l r with Some (TRet v) => TRet v | _ => TJaL l end.

Definition far (d: option N) : bool := match d with Some n => 255 <? n | None => false end.
Definition is255 (d: option N) : bool := match d with Some n => n =? 255 | None => false end.

(** bridgeLongBranches for one jump; [r] is the already final suffix, [f] the next fresh label *)
Definition fix_jump (c:cond) (k:N) (tl fl:label) (r:list item) (f:label) : list item * label :=
  let dt := dist tl r in let df := dist fl r in
  let bt := far dt || (is255 dt && far df) in
  let bf := far df || (is255 df && far dt) in
  match bt, bf with
  | false, false => (TJmpIf c k tl fl :: r, f)
  | true, false => (TJmpIf c k f fl :: TLabel f :: tramp tl r :: r, f+1)
  | false, true => (TJmpIf c k tl f :: TLabel f :: tramp fl r :: r, f+1)
  | true, true => (TJmpIf c k f (f+1) :: TLabel f :: tramp tl r :: TLabel (f+1) :: tramp fl r :: r, f+2)
  end.

Fixpoint relax (its:list item) (f:label) : list item * label :=
  match its with
  | [] => ([], f)
  | it :: r => let '(r', f') := relax r f in
     match it with
     | TJmpIf c k tl fl => fix_jump c k tl fl r' f'
     | _ => (it :: r', f')
     end
  end.

Definition is_some {A} (o:option A) : bool := match o with Some _ => true | None => false end.

(** first phase of Assemble: every label of a conditional jump must be set ahead *)
Fixpoint jumps_resolvable (its:list item) : bool :=
  match its with
  | [] => true
  | TJmpIf _ _ tl fl :: r => is_some (dist tl r) && is_some (dist fl r) && jumps_resolvable r
  | _ :: r => jumps_resolvable r
  end.

(** second phase, conditional jumps in program order *)
Fixpoint check_jumps (its:list item) : option err :=
  match its with
  | [] => None
  | TJmpIf _ _ tl fl :: r =>
      match dist tl r, dist fl r with
      | Some dt, Some df =>
          if (255 <? dt) || (255 <? df) then Some EOutOfReach
          else if (dt =? 0) && (df =? 0) then Some EUseless
          else check_jumps r
      | _, _ => Some EBackward
      end
  | _ :: r => check_jumps r
  end.

(** final positions -> skips; markers disappear *)
Fixpoint resolve (its:list item) : option (list instr) :=
  match its with
  | [] => Some []
  | TLabel _ :: r => resolve r
  | TLd o :: r => option_map (cons (ILd o)) (resolve r)
  | TRet v :: r => option_map (cons (IRet v)) (resolve r)
  | TJaL l :: r => match dist l r, resolve r with Some d, Some p => Some (IJa d :: p) | _, _ => None end
  | TJmpIf c k tl fl :: r =>
      match dist tl r, dist fl r, resolve r with
      | Some dt, Some df, Some p =>
          if (dt <=? 255) && (df <=? 255) && negb ((dt =? 0) && (df =? 0))
          then Some (IJmpIf c k dt df :: p) else None
      | _, _, _ => None
      end
  end.

(** Program.Assemble; [f] is the value the next NewLabel call would return *)
Definition assemble (its:list item) (f:label) : res (list instr) :=
  if negb (jumps_resolvable its) then Error EBackward else
  let r := fst (relax its f) in
  match check_jumps r with
  | Some e => Error e
  | None => match resolve r with Some p => Ok p | None => Error EBackward end
  end.

(** ** The public builder (assembler.go): calls -> items.
    Labels are the integers the real NewLabel returns (2, 3, ...). *)
Inductive bop :=
| BNewLabel
| BJmpIf (c:cond) (k:N) (tl fl:label)
| BJmpIfTrue (c:cond) (k:N) (tl:label)
| BJmp (l:label)
| BSetLabel (l:label)
| BRet (action:N)
| BLdHi (i:N)
| BLdLo (i:N).

Section Builder.
Variable le : bool.
Variable ret_word : N -> N.   (* Program.Ret's encoding of an action, see Policy.v *)

(** uint32 arithmetic of LdHi / LdLo *)
Definition ld_off (i:N) (plus4:bool) : N := (16 + 8*i + (if plus4 then 4 else 0)) mod two32.

Fixpoint items_of (ops:list bop) (next:label) : list item * label :=
  match ops with
  | [] => ([], next)
  | o :: rest =>
    match o with
    | BNewLabel => items_of rest (next+1)
    | BJmpIf c k tl fl => let '(r, n) := items_of rest next in (TJmpIf c k tl fl :: r, n)
    | BJmpIfTrue c k tl => let '(r, n) := items_of rest (next+1) in (TJmpIf c k tl next :: TLabel next :: r, n)
    | BJmp l => let '(r, n) := items_of rest next in (TJaL l :: r, n)
    | BSetLabel l => let '(r, n) := items_of rest next in (TLabel l :: r, n)
    | BRet a => let '(r, n) := items_of rest next in (TRet (ret_word a) :: r, n)
    | BLdHi i => let '(r, n) := items_of rest next in (TLd (ld_off i le) :: r, n)
    | BLdLo i => let '(r, n) := items_of rest next in (TLd (ld_off i (negb le)) :: r, n)
    end
  end.

(** NewProgram(); the calls; Assemble() *)
Definition build (ops:list bop) : res (list instr) :=
  let '(its, n) := items_of ops 2 in assemble its n.
End Builder.
