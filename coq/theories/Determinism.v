(** * Determinism: places where the Go code iterates over a map (C13).
    Program.updateIndices visits every entry of the label map ([labels map[Label][]Index]) and bumps the indices
    that lie behind an insertion point. The visit order is Go's map iteration order: arbitrary. *)
From Coq Require Import List NArith Bool Permutation.
Import ListNotations.
Open Scope N_scope.

Definition bump (after:N) (i:N) : N := if after <=? i then i + 1 else i.

(** the sweep over the entries in the order [entries] *)
Definition sweep (after:N) (entries:list (N * list N)) : list (N * list N) :=
  map (fun e => (fst e, map (bump after) (snd e))) entries.

Fixpoint lookup_label (m:list (N * list N)) (l:N) : option (list N) :=
  match m with
  | [] => None
  | (k, v) :: r => if k =? l then Some v else lookup_label r l
  end.

Lemma lookup_label_in m : NoDup (map fst m) -> forall l v, In (l, v) m -> lookup_label m l = Some v.
Proof.
  induction m as [|[k w] r IH]; intros Hnd l v Hin; [destruct Hin|].
  cbn [map fst] in Hnd. inversion Hnd as [|? ? Hnot Hr]; subst. cbn [lookup_label].
  destruct Hin as [E|Hin].
  - injection E as -> ->. rewrite N.eqb_refl. reflexivity.
  - destruct (N.eqb_spec k l) as [->|Hne]; [|apply IH; assumption].
    exfalso. apply Hnot. apply in_map_iff. exists (l, v). split; [reflexivity|exact Hin].
Qed.

Lemma lookup_label_none m l : ~ In l (map fst m) -> lookup_label m l = None.
Proof.
  induction m as [|[k w] r IH]; intros H; [reflexivity|]. cbn [lookup_label].
  destruct (N.eqb_spec k l) as [->|Hne]; [exfalso; apply H; left; reflexivity|].
  apply IH. intro. apply H. right. assumption.
Qed.

Lemma lookup_label_some_in m : forall l v, lookup_label m l = Some v -> In (l, v) m.
Proof.
  induction m as [|[k w] r IH]; intros l v H; [discriminate|]. cbn [lookup_label] in H.
  destruct (N.eqb_spec k l) as [->|Hne]; [injection H as ->; left; reflexivity|right; apply IH; exact H].
Qed.

Lemma sweep_keys after m : map fst (sweep after m) = map fst m.
Proof. unfold sweep. rewrite map_map. reflexivity. Qed.

Lemma lookup_perm m m' : Permutation m m' -> NoDup (map fst m) -> forall l, lookup_label m' l = lookup_label m l.
Proof.
  intros Hp Hnd l.
  assert (Hnd': NoDup (map fst m')) by (eapply Permutation_NoDup; [apply Permutation_map; exact Hp|exact Hnd]).
  destruct (lookup_label m l) as [v|] eqn:E.
  - apply lookup_label_some_in in E. apply lookup_label_in; [exact Hnd'|]. eapply Permutation_in; eauto.
  - destruct (lookup_label m' l) as [v|] eqn:E'; [|reflexivity].
    apply lookup_label_some_in in E'. apply Permutation_sym in Hp. pose proof (Permutation_in _ Hp E') as Hin.
    rewrite (lookup_label_in m Hnd l v Hin) in E. discriminate.
Qed.

Theorem sweep_perm_invariant (labels perm:list (N * list N)) after l :
  Permutation labels perm -> NoDup (map fst labels) ->
  lookup_label (sweep after perm) l = lookup_label (sweep after labels) l.
Proof.
  intros Hp Hnd. apply lookup_perm.
  - unfold sweep. apply Permutation_map. exact Hp.
  - rewrite sweep_keys. exact Hnd.
Qed.

(** and the sweep does what it should: every index at or behind the insertion point moves by one *)
Theorem sweep_spec after m l v : NoDup (map fst m) -> lookup_label m l = Some v ->
  lookup_label (sweep after m) l = Some (map (bump after) v).
Proof.
  intros Hnd H. apply lookup_label_in; [rewrite sweep_keys; exact Hnd|].
  apply lookup_label_some_in in H. unfold sweep. apply in_map_iff. exists (l, v). split; [reflexivity|exact H].
Qed.
