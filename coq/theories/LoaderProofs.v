(** * LoaderProofs: C09, C10, C11 over the kernel model (KernelState.v) and the loader obtained from the
    regenerated skeletons (Loader.v).

    Structure.
    1. [ref_load] / [load_spec]: what one call of LoadFilter does, as a function of the OS thread [t] the
       goroutine is pinned to, over an ABSTRACT kernel. That the interpretation of the regenerated skeletons
       satisfies [load_spec] ([supp_spec], [setnnp_spec]) is proved on every run, by symbolic execution of
       gen/GenSkeletons.v (coq/properties/LoaderInst.v, tactic [prove_spec] below).
    2. Facts about the kernel model ([do_seccomp_filter_cases] ...).
    3. One-step theorems for any [load] satisfying [load_spec] over the concrete kernel model.
    4. Histories: lists of operations folded over the kernel state; the one-step theorems hold at every
       reachable state because well-formedness is preserved ([run_hist_wf]); the thread-sync invariant
       ([covered]) is preserved by every later operation.

    Kernel assumptions (part of the MODEL, see KernelState.v): a thread-sync is atomic with respect to thread
    creation and exit (one step here; sighand->siglock in Linux), a new thread inherits filters and
    no_new_privs from the thread that calls clone, filters are never removed from a thread. *)
From Coq Require Import List NArith Bool String Lia.
From Seccomp Require Import Machine Raw Result KernelCheck KernelState Skeleton Loader.
Import ListNotations.
Close Scope string_scope.
Open Scope list_scope.
Open Scope N_scope.

(** ** 1. the specification of one call *)
Section Spec.
Variable K : Type.
Variable ksec : K -> N -> N -> N -> option (N * list sock_filter) -> K * N * N.
Variable kprctl : K -> N -> N -> N -> N -> N -> N -> K * N * N.

(** the thread of a goroutine after [j] statement boundaries: the oracle's choice if it is not pinned *)
Definition thread_at (w:world K) (j:nat) : N :=
  match w_pins w with O => w_sched w (j + w_step w)%nat | S _ => w_cur w end.

(** struct sock_fprog built by LoadFilter for the instruction list [p] *)
Definition sec_arg (p:list instr) : option (N * list sock_filter) :=
  Some (xcount (raw_of p) mod 65536, raw_of p).

(** LoadFilter on thread [t]: new kernel state, result, seccomp(2) calls made *)
Definition ref_install (t:N) (k1:K) (f:filt) (p:list instr) : K * lres * list sec_call :=
  let fl := f_flag f mod 18446744073709551616 in         (* uintptr(flags) *)
  let b := ksec k1 t SECCOMP_SET_MODE_FILTER fl (sec_arg p) in
  (fst (fst b),
   if num_eqb (snd b) 0 && (num_eqb (snd (fst b)) 0 || num_eqb (N.land (f_flag f) FLAG_TSYNC) 0)
   then LNil else LErr,
   [(t, SECCOMP_SET_MODE_FILTER, fl, sec_arg p)]).

Definition ref_load (t:N) (k:K) (f:filt) : K * lres * list sec_call :=
  match f_prog f with
  | Error _ => (k, LErr, [])
  | Ok p =>
    if f_nnp f then
      let a := kprctl k t PR_SET_NO_NEW_PRIVS 1 0 0 0 in
      if num_eqb (snd a) 0 then ref_install t (fst (fst a)) f p else (fst (fst a), LErr, [])
    else ref_install t k f p
  end.

Definition same_goroutine (w w':world K) : Prop :=
  w_pins w' = w_pins w /\ w_sched w' = w_sched w /\ (w_pins w <> O -> w_cur w' = w_cur w).

Definition load_spec (load:world K -> filt -> world K * lres) : Prop :=
  forall w f, exists j,
    let t := thread_at w j in
    let ref := ref_load t (w_k w) f in
    w_k (fst (load w f)) = fst (fst ref) /\
    snd (load w f) = snd (fst ref) /\
    w_log (fst (load w f)) = snd ref ++ w_log w /\
    same_goroutine w (fst (load w f)).

Definition supp_spec (supp:world K -> world K * option bool) : Prop :=
  forall w, exists j,
    let t := thread_at w j in
    let fl := 1 mod 18446744073709551616 in               (* uintptr(1) *)
    let b := ksec (w_k w) t SECCOMP_SET_MODE_STRICT fl None in
    w_k (fst (supp w)) = fst (fst b) /\
    snd (supp w) = Some (negb (num_eqb (snd b) 0) && num_eqb (snd b) EINVAL) /\
    w_log (fst (supp w)) = (t, SECCOMP_SET_MODE_STRICT, fl, None) :: w_log w /\
    same_goroutine w (fst (supp w)).

Definition setnnp_spec (setnnp:world K -> world K * lres) : Prop :=
  forall w, exists j,
    let t := thread_at w j in
    let a := kprctl (w_k w) t PR_SET_NO_NEW_PRIVS 1 0 0 0 in
    w_k (fst (setnnp w)) = fst (fst a) /\
    snd (setnnp w) = (if num_eqb (snd a) 0 then LNil else LErr) /\
    same_goroutine w (fst (setnnp w)).
End Spec.

(** *** the per-run proof that the regenerated skeletons satisfy the specifications
    [probe_j]: the statement boundary at which the kernel is entered, found by running the skeleton once on a
    probe world whose scheduler oracle names "thread i" at step i and whose kernel answers 0. *)
Definition probe_world : world unit :=
  {| w_k := tt; w_cur := 0; w_pins := 0; w_sched := fun i => N.of_nat i; w_step := 0; w_log := [] |}.
Definition probe_ksec (k:unit) (t op fl:N) (p:option (N * list sock_filter)) : unit * N * N := (tt, 0, 0).
Definition probe_kprctl (k:unit) (t o a2 a3 a4 a5:N) : unit * N * N := (tt, 0, 0).
Definition probe_j (funs:list skfun) (lc:lconsts) (name:string) (args:list (value xval)) : nat :=
  let '(w, _, _) := run unit probe_ksec probe_kprctl funs lc probe_world name args in
  match w_log w with
  | (t, _, _, _) :: _ => N.to_nat t
  | [] => O
  end.
Ltac split_ifs :=
  repeat match goal with
         | |- context [if ?b then _ else _] =>
             lazymatch b with
             | context [if _ then _ else _] => fail
             | _ => destruct b eqn:?
             end
         end.

Ltac sym_eval :=
  lazy -[num_eqb N.land N.modulo raw_of xcount].

Ltac finish_spec j :=
  exists j; sym_eval; split_ifs; repeat split; (reflexivity || congruence).

(** [load_spec _ _ _ (load_sem _ _ _ funs lc)]: case split on the filter and on the pin count, find the
    statement boundary with the probe, evaluate symbolically, compare with [ref_load] *)
Ltac prove_load_spec :=
  lazymatch goal with
  | |- forall K ksec kprctl, load_spec K ksec kprctl (load_sem K ksec kprctl ?funs ?lc) =>
    let w := fresh "w" in let f := fresh "f" in
    intros ? ? ? w f;
    destruct w as [k cur pins sched step lg];
    destruct f as [nnp flag pr];
    destruct pr as [p|e]; destruct nnp; destruct pins;
    unfold load_sem, run, run_fun, thread_at, ref_load, ref_install, same_goroutine, sec_arg, FUEL;
    [ let j := eval vm_compute in (probe_j funs lc "LoadFilter"%string [filt_value {| f_nnp := true; f_flag := 0; f_prog := Ok [] |}]) in finish_spec j
    | finish_spec O
    | let j := eval vm_compute in (probe_j funs lc "LoadFilter"%string [filt_value {| f_nnp := false; f_flag := 0; f_prog := Ok [] |}]) in finish_spec j
    | finish_spec O
    | finish_spec O | finish_spec O | finish_spec O | finish_spec O ]
  end.

Ltac prove_supp_spec :=
  lazymatch goal with
  | |- forall K ksec kprctl, supp_spec K ksec (supported_sem K ksec kprctl ?funs ?lc) =>
    let w := fresh "w" in
    intros ? ? ? w;
    destruct w as [k cur pins sched step lg];
    destruct pins;
    unfold supported_sem, run, run_fun, thread_at, same_goroutine, FUEL;
    [ let j := eval vm_compute in (probe_j funs lc "Supported"%string []) in finish_spec j
    | finish_spec O ]
  end.

Ltac prove_setnnp_spec :=
  lazymatch goal with
  | |- forall K ksec kprctl, setnnp_spec K kprctl (set_nnp_sem K ksec kprctl ?funs ?lc) =>
    let w := fresh "w" in
    intros ? ? ? w;
    destruct w as [k cur pins sched step lg];
    destruct pins;
    unfold set_nnp_sem, run, run_fun, thread_at, same_goroutine, FUEL;
    [ first [ finish_spec 4%nat | finish_spec 3%nat | finish_spec 5%nat | finish_spec 2%nat | finish_spec 6%nat
            | finish_spec 1%nat | finish_spec 7%nat | finish_spec 0%nat | finish_spec 8%nat | finish_spec 9%nat
            | finish_spec 10%nat | finish_spec 11%nat | finish_spec 12%nat ]
    | finish_spec O ]
  end.

(** ** 2. the kernel model *)
Definition tids (st:kstate) : list N := map t_tid (ks_threads st).
Definition live (st:kstate) (t:N) : Prop := exists th, find_thread st t = Some th.

Record wf (st:kstate) : Prop := {
  wf_next : ks_next_tid st <> 0;
  wf_nodup : NoDup (tids st);
  wf_tid : Forall (fun t => t_tid t <> 0 /\ t_tid t < ks_next_tid st) (ks_threads st);
  wf_fid : Forall (fun t => Forall (fun f => f < ks_next_fid st) (t_filters t)) (ks_threads st)
}.

Lemma find_in : forall ts tid th, find_thread_in ts tid = Some th -> In th ts /\ t_tid th = tid.
Proof.
  induction ts as [|a ts IH]; cbn [find_thread_in]; intros tid th H; [discriminate|].
  destruct (t_tid a =? tid) eqn:E.
  - inversion H; subst. apply N.eqb_eq in E. split; [left; reflexivity|assumption].
  - destruct (IH _ _ H); split; [right; assumption|assumption].
Qed.

Lemma in_find : forall ts th, In th ts -> exists th', find_thread_in ts (t_tid th) = Some th'.
Proof.
  induction ts as [|a ts IH]; cbn [find_thread_in In]; intros th H; [contradiction|].
  destruct (t_tid a =? t_tid th) eqn:E; [eauto|].
  destruct H as [->|H]; [rewrite N.eqb_refl in E; discriminate | auto].
Qed.

Lemma first_unsyncable_in : forall c ts bad, first_unsyncable c ts = Some bad -> In bad (map t_tid ts).
Proof.
  induction ts as [|a ts IH]; cbn [first_unsyncable map In]; intros bad H; [discriminate|].
  destruct (t_tid a =? t_tid c); [auto|].
  destruct (can_sync c a); [auto|]. inversion H; auto.
Qed.

Lemma wf_tid_nonzero : forall st t, wf st -> In t (tids st) -> t <> 0.
Proof.
  intros st t W H. unfold tids in H. apply in_map_iff in H. destruct H as [th [<- Hin]].
  pose proof (wf_tid _ W) as F. rewrite Forall_forall in F. apply F; auto.
Qed.

(** the three outcomes of seccomp(SET_MODE_FILTER): an error, a refused thread-sync, an attach *)
Lemma do_seccomp_filter_cases : forall st tid flags prog st' r1 e,
  flags < 4294967296 ->
  do_seccomp st tid SECCOMP_SET_MODE_FILTER flags prog = (st', r1, e) ->
  (st' = st /\ e <> 0) \/
  (st' = st /\ e = 0 /\ has_flag flags FLAG_TSYNC = true /\
     exists caller, find_thread st tid = Some caller /\ first_unsyncable caller (ks_threads st) = Some r1) \/
  (e = 0 /\ exists caller len arr,
     find_thread st tid = Some caller /\ prog = Some (len, arr) /\
     st' = attach st caller flags (firstn (N.to_nat len) arr) /\ r1 = attach_r1 st flags /\
     (t_nnp caller || t_priv caller = true) /\
     (has_flag flags FLAG_TSYNC = true -> first_unsyncable caller (ks_threads st) = None)).
Proof.
  intros st tid flags prog st' r1 e Hf H. unfold do_seccomp in H.
  rewrite (N.mod_small flags) in H by exact Hf.
  change (SECCOMP_SET_MODE_FILTER mod 4294967296) with 1 in H. cbn [N.eqb Pos.eqb SECCOMP_SET_MODE_STRICT SECCOMP_SET_MODE_FILTER] in H.
  destruct (find_thread st tid) as [caller|] eqn:Ef.
  2:{ inversion H; subst. left. split; [reflexivity|discriminate]. }
  unfold set_mode_filter in H.
  repeat match type of H with
         | (if ?b then _ else _) = _ => destruct b eqn:?
         | match ?x with _ => _ end = _ => destruct x eqn:?
         end;
  inversion H; subst; clear H;
  try (left; split; [reflexivity|discriminate]).
  - (* refused *) right; left. repeat split; auto.
    + destruct (has_flag flags FLAG_TSYNC); [reflexivity|discriminate].
    + exists caller. split; auto. destruct (has_flag flags FLAG_TSYNC); [assumption|discriminate].
  - (* attached *) right; right. split; [reflexivity|].
    eexists caller, _, _. repeat split; try reflexivity.
    + apply negb_false_iff; assumption.
    + intro HT. rewrite HT in *. assumption.
Qed.

(** the threads after an attach *)
Definition attached_thread (caller:thread) (fid:N) : thread := with_filters caller (fid :: t_filters caller).

Lemma attach_threads : forall st caller flags p th',
  In th' (ks_threads (attach st caller flags p)) ->
  exists th, In th (ks_threads st) /\
    th' = (if t_tid th =? t_tid caller then attached_thread caller (ks_next_fid st)
           else if has_flag flags FLAG_TSYNC
                then with_nnp (with_filters th (ks_next_fid st :: t_filters caller)) (t_nnp th || t_nnp caller)
                else th).
Proof.
  intros st caller flags p th' H. unfold attach in H. cbn [ks_threads] in H.
  destruct (has_flag flags FLAG_TSYNC).
  - apply in_map_iff in H. destruct H as [x [<- Hx]].
    unfold map_thread in Hx. apply in_map_iff in Hx. destruct Hx as [th [<- Hth]].
    exists th. split; [assumption|].
    destruct (t_tid th =? t_tid caller) eqn:E.
    + unfold sync_thread. cbn [with_filters t_tid]. rewrite N.eqb_refl. reflexivity.
    + unfold sync_thread. cbn [with_filters t_tid t_filters t_nnp]. rewrite E. reflexivity.
  - unfold map_thread in H. apply in_map_iff in H. destruct H as [th [<- Hth]].
    exists th. split; [assumption|]. destruct (t_tid th =? t_tid caller); reflexivity.
Qed.

Lemma attach_threads_conv : forall st caller flags p th,
  In th (ks_threads st) ->
  In (if t_tid th =? t_tid caller then attached_thread caller (ks_next_fid st)
      else if has_flag flags FLAG_TSYNC
           then with_nnp (with_filters th (ks_next_fid st :: t_filters caller)) (t_nnp th || t_nnp caller)
           else th) (ks_threads (attach st caller flags p)).
Proof.
  intros st caller flags p th H. unfold attach. cbn [ks_threads].
  destruct (has_flag flags FLAG_TSYNC).
  - apply in_map_iff. exists (if t_tid th =? t_tid caller then attached_thread caller (ks_next_fid st) else th).
    split.
    + destruct (t_tid th =? t_tid caller) eqn:E; unfold sync_thread.
      * cbn [attached_thread with_filters t_tid]. rewrite N.eqb_refl. reflexivity.
      * cbn [with_filters t_tid t_filters t_nnp]. rewrite E. reflexivity.
    + unfold map_thread. apply in_map_iff. exists th. split; [|assumption].
      destruct (t_tid th =? t_tid caller); reflexivity.
  - unfold map_thread. apply in_map_iff. exists th. split; [|assumption].
    destruct (t_tid th =? t_tid caller); reflexivity.
Qed.

Lemma attach_tids : forall st caller flags p, tids (attach st caller flags p) = tids st.
Proof.
  intros. unfold tids, attach. cbn [ks_threads].
  assert (E1: map t_tid (map_thread (t_tid caller) (fun _ => with_filters caller (ks_next_fid st :: t_filters caller)) (ks_threads st))
              = map t_tid (ks_threads st)).
  { unfold map_thread. rewrite map_map. apply map_ext_in. intros a _.
    destruct (t_tid a =? t_tid caller) eqn:E; [|reflexivity]. apply N.eqb_eq in E. cbn. auto. }
  destruct (has_flag flags FLAG_TSYNC); [|exact E1].
  rewrite map_map. rewrite <- E1. apply map_ext. intro a.
  unfold sync_thread. destruct (_ =? _); reflexivity.
Qed.

(** ** 3. one call of LoadFilter over the concrete kernel model *)
Definition kworld := world kstate.

Definition wf_filt (f:filt) : Prop := f_flag f < 4294967296.    (* FilterFlag is a uint32 *)

Definition has_top (st:kstate) (t fid:N) : Prop :=
  exists th, In th (ks_threads st) /\ t_tid th = t /\ hd_error (t_filters th) = Some fid.
Definition all_have_top (st:kstate) (fid:N) : Prop :=
  Forall (fun th => hd_error (t_filters th) = Some fid) (ks_threads st).
Definition fresh_fid (st:kstate) (fid:N) : Prop :=
  Forall (fun th => ~ In fid (t_filters th)) (ks_threads st).
(** thread ids and filter stacks *)
Definition stacks (st:kstate) : list (N * list N) := map (fun th => (t_tid th, t_filters th)) (ks_threads st).
(** thread ids and no_new_privs bits *)
Definition nnp_bits (st:kstate) : list (N * bool) := map (fun th => (t_tid th, t_nnp th)) (ks_threads st).

(** the state in which seccomp(2) is entered by thread [t] *)
Definition pre_seccomp (st:kstate) (t:N) (f:filt) : kstate :=
  if f_nnp f then prctl_set_nnp st t else st.

(** what LoadFilter hands to the kernel for the instruction list [p] *)
Definition fprog (p:list instr) : option (N * list sock_filter) := Some (fprog_len p, map encode p).

Lemma sec_arg_fprog : forall p, sec_arg p = fprog p.
Proof. intro p. unfold sec_arg, fprog, xcount, raw_of, fprog_len. rewrite map_length. reflexivity. Qed.

Lemma do_prctl_nnp : forall st t,
  do_prctl st t PR_SET_NO_NEW_PRIVS 1 0 0 0 =
  match find_thread st t with Some _ => (prctl_set_nnp st t, 0, 0) | None => (st, MINUS1, ESRCH) end.
Proof. intros. unfold do_prctl. destruct (find_thread st t); reflexivity. Qed.

Lemma prctl_set_nnp_stacks : forall st t, stacks (prctl_set_nnp st t) = stacks st.
Proof.
  intros. unfold stacks, prctl_set_nnp, set_threads, map_thread. cbn [ks_threads].
  rewrite map_map. apply map_ext. intro a. destruct (_ =? _); reflexivity.
Qed.

Lemma prctl_set_nnp_wf : forall st t, wf st -> wf (prctl_set_nnp st t).
Proof.
  intros st t [Z A B C].
  constructor; unfold tids, prctl_set_nnp, set_threads, map_thread in *; cbn [ks_threads ks_next_tid ks_next_fid].
  - assumption.
  - rewrite map_map. erewrite map_ext; [exact A|]. intro a. destruct (_ =? _); reflexivity.
  - rewrite Forall_forall in *. intros x Hx. apply in_map_iff in Hx. destruct Hx as [a [<- Ha]].
    specialize (B a Ha). destruct (_ =? _); cbn; assumption.
  - rewrite Forall_forall in *. intros x Hx. apply in_map_iff in Hx. destruct Hx as [a [<- Ha]].
    specialize (C a Ha). destruct (_ =? _); cbn; assumption.
Qed.

Lemma prctl_set_nnp_find : forall st t t',
  find_thread (prctl_set_nnp st t) t' =
  option_map (fun th => if t_tid th =? t then with_nnp th true else th) (find_thread st t').
Proof.
  intros st t t'. unfold find_thread, prctl_set_nnp, set_threads, map_thread. cbn [ks_threads].
  induction (ks_threads st) as [|a ts IH]; cbn [map find_thread_in option_map]; [reflexivity|].
  destruct (t_tid a =? t) eqn:E; cbn [with_nnp t_tid]; destruct (t_tid a =? t') eqn:E'; cbn [option_map];
    try rewrite E; auto.
Qed.

(** a thread that is not live cannot enter the kernel: the model answers ESRCH and changes nothing *)
Lemma do_seccomp_dead : forall st t op fl pr, find_thread st t = None -> do_seccomp st t op fl pr = (st, MINUS1, ESRCH).
Proof. intros. unfold do_seccomp. rewrite H. reflexivity. Qed.

Section OneStep.
Variable load : kworld -> filt -> kworld * lres.
Hypothesis Hload : load_spec kstate do_seccomp do_prctl load.

(** [load_spec] with the prctl step resolved *)
Lemma load_step : forall w f, wf_filt f -> exists j,
  let t := thread_at kstate w j in
  let w' := fst (load w f) in
  same_goroutine kstate w w' /\
  match f_prog f with
  | Error _ => w_k w' = w_k w /\ snd (load w f) = LErr /\ w_log w' = w_log w
  | Ok p =>
    let st1 := pre_seccomp (w_k w) t f in
    let r := do_seccomp st1 t SECCOMP_SET_MODE_FILTER (f_flag f) (fprog p) in
    (f_nnp f = true /\ find_thread (w_k w) t = None /\ w_k w' = w_k w /\ snd (load w f) = LErr /\ w_log w' = w_log w)
    \/
    ((f_nnp f = true -> live (w_k w) t) /\
     w_k w' = fst (fst r) /\
     snd (load w f) = (if (snd r =? 0) && ((snd (fst r) =? 0) || negb (has_flag (f_flag f) FLAG_TSYNC)) then LNil else LErr) /\
     w_log w' = (t, SECCOMP_SET_MODE_FILTER, f_flag f, fprog p) :: w_log w)
  end.
Proof.
  intros w f Wf. destruct (Hload w f) as [j [Hk [Hr [Hl Hg]]]]. cbv zeta in *. exists j.
  split; [exact Hg|]. clear Hg.
  unfold ref_load, ref_install in *. unfold wf_filt in Wf.
  rewrite (N.mod_small (f_flag f)) in * by lia.
  destruct (f_prog f) as [p|e].
  2:{ cbn [fst snd] in *. rewrite app_nil_l in Hl. auto. }
  rewrite sec_arg_fprog in *. unfold pre_seccomp, num_eqb, has_flag in *.
  destruct (f_nnp f).
  - rewrite do_prctl_nnp in *.
    destruct (find_thread (w_k w) (thread_at kstate w j)) eqn:Ef; cbn [fst snd] in *.
    + right. change (0 =? 0) with true in *. cbv iota in *. cbn [fst snd] in *.
      split; [intros _; eexists; eassumption|].
      rewrite negb_involutive. auto.
    + left. change (ESRCH =? 0) with false in *. cbv iota in *. cbn [fst snd] in *.
      rewrite app_nil_l in Hl. auto.
  - right. cbn [fst snd] in *. split; [discriminate|]. rewrite negb_involutive. auto.
Qed.

(** C09: nil only if the new filter is in force *)
Theorem load_nil_in_force_step : forall w f,
  wf (w_k w) -> wf_filt f ->
  snd (load w f) = LNil ->
  exists j p, f_prog f = Ok p /\
    let t := thread_at kstate w j in
    let st1 := pre_seccomp (w_k w) t f in
    let st' := w_k (fst (load w f)) in
    let fid := ks_next_fid st1 in
    has_top st' t fid /\ fresh_fid st1 fid /\ stacks st1 = stacks (w_k w) /\
    top_prog st' t = Some (firstn (N.to_nat (fprog_len p)) (map encode p)) /\
    (has_flag (f_flag f) FLAG_TSYNC = true -> all_have_top st' fid) /\
    w_log (fst (load w f)) = (t, SECCOMP_SET_MODE_FILTER, f_flag f, fprog p) :: w_log w.
Proof.
  intros w f W Wf Hnil.
  destruct (load_step w f Wf) as [j [_ H]]. cbv zeta in H. exists j.
  destruct (f_prog f) as [p|] eqn:Ep.
  2:{ destruct H as [_ [H _]]. rewrite H in Hnil. discriminate. }
  exists p. split; [reflexivity|]. cbv zeta.
  destruct H as [[_ [_ [_ [H _]]]]|[_ [Hk [Hr Hl]]]]; [rewrite H in Hnil; discriminate|].
  set (t := thread_at kstate w j) in *.
  set (st1 := pre_seccomp (w_k w) t f) in *.
  assert (W1: wf st1) by (unfold st1, pre_seccomp; destruct (f_nnp f); [apply prctl_set_nnp_wf|]; assumption).
  assert (S1: stacks st1 = stacks (w_k w)) by (unfold st1, pre_seccomp; destruct (f_nnp f); [apply prctl_set_nnp_stacks|reflexivity]).
  destruct (do_seccomp st1 t SECCOMP_SET_MODE_FILTER (f_flag f) (fprog p)) as [[st2 r1] e2] eqn:Es.
  cbn [fst snd] in *. rewrite Hr in Hnil.
  destruct (e2 =? 0) eqn:Ee; [|discriminate Hnil]. apply N.eqb_eq in Ee. subst e2. cbn [andb] in Hnil.
  destruct (do_seccomp_filter_cases _ _ _ _ _ _ _ Wf Es)
    as [[_ Hc]|[[_ [_ [HT [caller [Hfind Hun]]]]]|[_ [caller [len [arr [Hfind [Hprog [Hst' [Hr1 [_ Hsync]]]]]]]]]]].
  - contradiction Hc; reflexivity.
  - (* refused thread-sync: r1 is a thread id, never 0 *)
    exfalso. rewrite HT in Hnil. cbn [negb] in Hnil. rewrite orb_false_r in Hnil.
    destruct (r1 =? 0) eqn:E0; [|discriminate Hnil]. apply N.eqb_eq in E0. subst r1.
    apply first_unsyncable_in in Hun. exact (wf_tid_nonzero _ _ W1 Hun eq_refl).
  - unfold fprog in Hprog. inversion Hprog; subst len arr. clear Hprog.
    apply find_in in Hfind. destruct Hfind as [Hin Htid].
    rewrite Hk, Hst'.
    pose proof (attach_threads_conv st1 caller (f_flag f) (firstn (N.to_nat (fprog_len p)) (map encode p)) caller Hin) as Hc.
    rewrite N.eqb_refl in Hc.
    repeat split.
    + exists (attached_thread caller (ks_next_fid st1)). repeat split; [exact Hc|cbn; exact Htid].
    + pose proof (wf_fid _ W1) as F. unfold fresh_fid. rewrite Forall_forall in *. intros th Hth Hi.
      specialize (F th Hth). rewrite Forall_forall in F. specialize (F _ Hi). lia.
    + exact S1.
    + unfold top_prog, find_thread.
      destruct (in_find _ _ Hc) as [th' Hth'].
      cbn [attached_thread with_filters t_tid] in Hth'. rewrite Htid in Hth'.
      destruct (find_in _ _ _ Hth') as [Hin' Htid'].
      apply attach_threads in Hin'. destruct Hin' as [th0 [Hin0 Heq]].
      assert (E0: t_tid th0 = t_tid caller).
      { destruct (t_tid th0 =? t_tid caller) eqn:E; [apply N.eqb_eq; exact E|].
        exfalso. subst th'. destruct (has_flag (f_flag f) FLAG_TSYNC); cbn in Htid'; rewrite Htid' in E;
          rewrite Htid in E; rewrite N.eqb_refl in E; discriminate. }
      rewrite E0, N.eqb_refl in Heq. subst th'. rewrite Hth'. cbn [attached_thread with_filters t_filters].
      unfold attach. cbn [ks_progs find fst snd]. rewrite N.eqb_refl. reflexivity.
    + intro HT. unfold all_have_top. rewrite Forall_forall. intros th' Hth'.
      apply attach_threads in Hth'. destruct Hth' as [th [_ ->]]. rewrite HT.
      destruct (t_tid th =? t_tid caller); reflexivity.
    + exact Hl.
Qed.

Lemma attach_changes : forall st caller flags p, attach st caller flags p <> st.
Proof. intros st caller flags p H. apply (f_equal ks_next_fid) in H. unfold attach in H. cbn in H. lia. Qed.

(** C09: whenever the kernel attaches nothing (its state is unchanged: an errno, or the positive thread id of a
    refused thread-sync), LoadFilter returns an error and no thread's filter stack has changed *)
Theorem load_unattached_is_error_step : forall w f p,
  wf (w_k w) -> wf_filt f -> f_prog f = Ok p ->
  exists j, let t := thread_at kstate w j in
  let st1 := pre_seccomp (w_k w) t f in
  fst (fst (do_seccomp st1 t SECCOMP_SET_MODE_FILTER (f_flag f) (fprog p))) = st1 ->
  snd (load w f) = LErr /\ stacks (w_k (fst (load w f))) = stacks (w_k w).
Proof.
  intros w f p W Wf Ep. destruct (load_step w f Wf) as [j [_ H]]. cbv zeta in H. exists j. cbv zeta. intro Hun.
  rewrite Ep in H.
  destruct H as [[_ [_ [Hk [Hr _]]]]|[_ [Hk [Hr _]]]]; [rewrite Hk; auto|].
  set (t := thread_at kstate w j) in *. set (st1 := pre_seccomp (w_k w) t f) in *.
  assert (W1: wf st1) by (unfold st1, pre_seccomp; destruct (f_nnp f); [apply prctl_set_nnp_wf|]; assumption).
  assert (S1: stacks st1 = stacks (w_k w)) by (unfold st1, pre_seccomp; destruct (f_nnp f); [apply prctl_set_nnp_stacks|reflexivity]).
  destruct (do_seccomp st1 t SECCOMP_SET_MODE_FILTER (f_flag f) (fprog p)) as [[st2 r1] e2] eqn:Es.
  cbn [fst snd] in *. rewrite Hun in *. rewrite Hk. split; [|exact S1]. rewrite Hr.
  destruct (do_seccomp_filter_cases _ _ _ _ _ _ _ Wf Es)
    as [[_ Hc]|[[_ [-> [HT [caller [Hfind Hu]]]]]|[_ [caller [len [arr [_ [_ [Hst' _]]]]]]]]].
  - destruct (e2 =? 0) eqn:E; [apply N.eqb_eq in E; contradiction|reflexivity].
  - rewrite HT. cbn [negb]. rewrite orb_false_r.
    destruct (r1 =? 0) eqn:E0; [|reflexivity]. apply N.eqb_eq in E0. subst r1.
    apply first_unsyncable_in in Hu. exfalso. exact (wf_tid_nonzero _ _ W1 Hu eq_refl).
  - exfalso. symmetry in Hst'. exact (attach_changes _ _ _ _ Hst').
Qed.

(** C09: a load that fails before reaching the kernel changes nothing *)
Theorem assemble_fail_no_effect_step : forall w f e,
  f_prog f = Error e ->
  w_k (fst (load w f)) = w_k w /\ snd (load w f) = LErr /\ w_log (fst (load w f)) = w_log w.
Proof.
  intros w f e Ep. destruct (Hload w f) as [j [Hk [Hr [Hl _]]]]. cbv zeta in *.
  unfold ref_load in *. rewrite Ep in *. cbn [fst snd] in *. rewrite app_nil_l in Hl. auto.
Qed.

Lemma prctl_set_nnp_other : forall st t th',
  In th' (ks_threads (prctl_set_nnp st t)) -> t_tid th' <> t -> In th' (ks_threads st).
Proof.
  intros st t th' H Hne. unfold prctl_set_nnp, set_threads, map_thread in H. cbn [ks_threads] in H.
  apply in_map_iff in H. destruct H as [a [<- Ha]].
  destruct (t_tid a =? t) eqn:E; [|exact Ha].
  exfalso. apply Hne. cbn. apply N.eqb_eq. exact E.
Qed.

Lemma prctl_set_nnp_tids : forall st t, tids (prctl_set_nnp st t) = tids st.
Proof.
  intros. unfold tids, prctl_set_nnp, set_threads, map_thread. cbn [ks_threads].
  rewrite map_map. apply map_ext. intro a. destruct (_ =? _); reflexivity.
Qed.

(** every kernel state LoadFilter can leave behind: unchanged, after the prctl, or after an attach *)
Lemma load_outcomes : forall w f, wf_filt f -> exists j,
  let t := thread_at kstate w j in
  let st' := w_k (fst (load w f)) in
  let st1 := pre_seccomp (w_k w) t f in
  st' = w_k w \/ st' = st1 \/
  (exists caller p, f_prog f = Ok p /\ find_thread st1 t = Some caller /\
     st' = attach st1 caller (f_flag f) (firstn (N.to_nat (fprog_len p)) (map encode p)) /\
     (has_flag (f_flag f) FLAG_TSYNC = true -> first_unsyncable caller (ks_threads st1) = None)).
Proof.
  intros w f Wf. destruct (load_step w f Wf) as [j [_ H]]. cbv zeta in H. exists j. cbv zeta.
  destruct (f_prog f) as [p|e] eqn:Ep; [|left; apply H].
  destruct H as [[_ [_ [Hk _]]]|[_ [Hk _]]]; [left; exact Hk|].
  destruct (do_seccomp (pre_seccomp (w_k w) (thread_at kstate w j) f) (thread_at kstate w j)
              SECCOMP_SET_MODE_FILTER (f_flag f) (fprog p)) as [[st2 r1] e2] eqn:Es.
  cbn [fst] in Hk.
  destruct (do_seccomp_filter_cases _ _ _ _ _ _ _ Wf Es)
    as [[-> _]|[[-> _]|[_ [caller [len [arr [Hfind [Hprog [Hst' [_ [_ Hs]]]]]]]]]]].
  - right; left; exact Hk.
  - right; left; exact Hk.
  - right; right. unfold fprog in Hprog. inversion Hprog; subst len arr.
    exists caller, p. rewrite Hk. auto.
Qed.

(** C10: without thread-sync every other thread is left exactly as it was *)
Theorem no_tsync_untouched_step : forall w f,
  wf_filt f -> has_flag (f_flag f) FLAG_TSYNC = false ->
  exists j, let t := thread_at kstate w j in
  tids (w_k (fst (load w f))) = tids (w_k w) /\
  forall th', In th' (ks_threads (w_k (fst (load w f)))) -> t_tid th' <> t -> In th' (ks_threads (w_k w)).
Proof.
  intros w f Wf HT. destruct (load_outcomes w f Wf) as [j H]. cbv zeta in H. exists j. cbv zeta.
  set (t := thread_at kstate w j) in *.
  assert (P1: tids (pre_seccomp (w_k w) t f) = tids (w_k w))
    by (unfold pre_seccomp; destruct (f_nnp f); [apply prctl_set_nnp_tids|reflexivity]).
  assert (P2: forall th', In th' (ks_threads (pre_seccomp (w_k w) t f)) -> t_tid th' <> t -> In th' (ks_threads (w_k w)))
    by (unfold pre_seccomp; destruct (f_nnp f); [apply prctl_set_nnp_other|auto]).
  destruct H as [->|[->|[caller [p [_ [Hfind [-> _]]]]]]]; [auto|auto|].
  split; [rewrite attach_tids; exact P1|].
  intros th' Hin Hne. apply attach_threads in Hin. destruct Hin as [th [Hth ->]].
  apply find_in in Hfind. destruct Hfind as [_ Htid].
  rewrite HT in *. destruct (t_tid th =? t_tid caller) eqn:E.
  - exfalso. apply Hne. cbn. exact Htid.
  - apply P2; [exact Hth|]. intro Hc. rewrite <- Htid in Hc. rewrite Hc, N.eqb_refl in E. discriminate.
Qed.

(** C10: the flag word, and the program, reach the kernel unmodified *)
Theorem flag_passthrough_step : forall w f,
  wf_filt f ->
  w_log (fst (load w f)) = w_log w \/
  exists t p, f_prog f = Ok p /\
    w_log (fst (load w f)) = (t, SECCOMP_SET_MODE_FILTER, f_flag f, Some (fprog_len p, map encode p)) :: w_log w.
Proof.
  intros w f Wf. destruct (load_step w f Wf) as [j [_ H]]. cbv zeta in H.
  destruct (f_prog f) as [p|e]; [|left; apply H].
  destruct H as [[_ [_ [_ [_ Hl]]]]|[_ [_ [_ Hl]]]]; [left; exact Hl|].
  right. exists (thread_at kstate w j), p. split; [reflexivity|exact Hl].
Qed.

(** C11: the bit is set before the install and on the thread that installs *)
Theorem nnp_before_install_step : forall w f p,
  wf_filt f -> f_nnp f = true -> f_prog f = Ok p ->
  exists j, let t := thread_at kstate w j in
  live (w_k w) t ->
  let st1 := prctl_set_nnp (w_k w) t in
  (exists caller, find_thread st1 t = Some caller /\ t_nnp caller = true) /\
  w_k (fst (load w f)) = fst (fst (do_seccomp st1 t SECCOMP_SET_MODE_FILTER (f_flag f) (fprog p))) /\
  snd (load w f) = (let r := do_seccomp st1 t SECCOMP_SET_MODE_FILTER (f_flag f) (fprog p) in
                    if (snd r =? 0) && ((snd (fst r) =? 0) || negb (has_flag (f_flag f) FLAG_TSYNC)) then LNil else LErr).
Proof.
  intros w f p Wf Hn Ep. destruct (load_step w f Wf) as [j [_ H]]. cbv zeta in H. exists j. cbv zeta.
  intros [th Hth]. rewrite Ep in H. unfold pre_seccomp in H. rewrite Hn in H.
  destruct H as [[_ [Hdead _]]|[_ [Hk [Hr _]]]]; [rewrite Hdead in Hth; discriminate|].
  split; [|auto].
  rewrite prctl_set_nnp_find, Hth. cbn [option_map].
  apply find_in in Hth. destruct Hth as [_ ->]. rewrite N.eqb_refl. eexists; split; [reflexivity|reflexivity].
Qed.

(** what makes the kernel accept the attach, apart from the privilege test *)
Definition attachable (st:kstate) (caller:thread) (flags:N) (p:list instr) : Prop :=
  flags_ok flags = true /\ has_flag flags FLAG_NEW_LISTENER = false /\
  0 < fprog_len p /\ fprog_len p <= BPF_MAXINSNS /\
  kernel_check (firstn (N.to_nat (fprog_len p)) (map encode p)) = true /\
  t_strict caller = false /\
  path_len st caller (internal_len (firstn (N.to_nat (fprog_len p)) (map encode p))) <= MAX_INSNS_PER_PATH /\
  (has_flag flags FLAG_TSYNC = true -> first_unsyncable caller (ks_threads st) = None).

Lemma fprog_len_le : forall p, fprog_len p <= N.of_nat (List.length (map encode p)).
Proof. intro p. unfold fprog_len. rewrite map_length. apply N.mod_le. discriminate. Qed.

Lemma do_seccomp_attaches : forall st t caller flags p,
  flags < 4294967296 -> find_thread st t = Some caller ->
  t_nnp caller || t_priv caller = true -> attachable st caller flags p ->
  do_seccomp st t SECCOMP_SET_MODE_FILTER flags (fprog p) =
  (attach st caller flags (firstn (N.to_nat (fprog_len p)) (map encode p)), 0, 0).
Proof.
  intros st t caller flags p Hf Hfind Hpriv [A1 [A2 [A3 [A4 [A5 [A6 [A7 A8]]]]]]].
  unfold do_seccomp. rewrite (N.mod_small flags) by exact Hf. rewrite Hfind.
  change (SECCOMP_SET_MODE_FILTER mod 4294967296 =? SECCOMP_SET_MODE_STRICT) with false.
  change (SECCOMP_SET_MODE_FILTER mod 4294967296 =? SECCOMP_SET_MODE_FILTER) with true. cbv iota.
  unfold set_mode_filter, fprog, attach_r1. rewrite A1, A2, Hpriv, A5, A6. cbn [negb andb].
  replace (fprog_len p =? 0) with false by (symmetry; apply N.eqb_neq; lia).
  replace (BPF_MAXINSNS <? fprog_len p) with false by (symmetry; apply N.ltb_ge; exact A4).
  replace (N.of_nat (List.length (map encode p)) <? fprog_len p) with false by (symmetry; apply N.ltb_ge; apply fprog_len_le).
  replace (MAX_INSNS_PER_PATH <? path_len st caller (internal_len (firstn (N.to_nat (fprog_len p)) (map encode p)))) with false by (symmetry; apply N.ltb_ge; exact A7).
  cbn [orb].
  destruct (has_flag flags FLAG_TSYNC); [rewrite (A8 eq_refl)|]; reflexivity.
Qed.

(** C11: with NoNewPrivs requested a valid filter loads whatever the privileges and whatever the schedule *)
Theorem unprivileged_can_load_step : forall w f p,
  wf_filt f -> f_nnp f = true -> f_prog f = Ok p ->
  exists j, let t := thread_at kstate w j in
  forall caller, find_thread (w_k w) t = Some caller ->
  attachable (prctl_set_nnp (w_k w) t) (with_nnp caller true) (f_flag f) p ->
  snd (load w f) = LNil.
Proof.
  intros w f p Wf Hn Ep. destruct (nnp_before_install_step w f p Wf Hn Ep) as [j H]. cbv zeta in H.
  exists j. cbv zeta. intros caller Hfind Hatt.
  destruct (H (ex_intro _ caller Hfind)) as [_ [_ Hr]]. rewrite Hr.
  assert (Hf1: find_thread (prctl_set_nnp (w_k w) (thread_at kstate w j)) (thread_at kstate w j) = Some (with_nnp caller true)).
  { rewrite prctl_set_nnp_find, Hfind. cbn [option_map]. apply find_in in Hfind. destruct Hfind as [_ ->].
    rewrite N.eqb_refl. reflexivity. }
  rewrite (do_seccomp_attaches _ _ _ _ _ Wf Hf1 eq_refl Hatt). reflexivity.
Qed.

(** C11: not requested => every bit is left as it was, except that a successful thread-sync (the kernel's
    doing) hands a bit the caller ALREADY had to the other threads *)
Theorem nnp_untouched_step : forall w f,
  wf_filt f -> f_nnp f = false ->
  forall th', In th' (ks_threads (w_k (fst (load w f)))) ->
  exists th, In th (ks_threads (w_k w)) /\ t_tid th = t_tid th' /\
    (t_nnp th' = t_nnp th \/
     (has_flag (f_flag f) FLAG_TSYNC = true /\ exists c, In c (ks_threads (w_k w)) /\ t_nnp c = true)).
Proof.
  intros w f Wf Hn th' Hin. destruct (load_outcomes w f Wf) as [j H]. cbv zeta in H.
  unfold pre_seccomp in H. rewrite Hn in H.
  destruct H as [E|[E|[caller [p [_ [Hfind [E Hs]]]]]]]; rewrite E in Hin;
    [exists th'; split; [exact Hin|split; [reflexivity|left; reflexivity]]
    |exists th'; split; [exact Hin|split; [reflexivity|left; reflexivity]]|].
  apply attach_threads in Hin. destruct Hin as [th [Hth ->]]. apply find_in in Hfind. destruct Hfind as [Hc _].
  destruct (t_tid th =? t_tid caller) eqn:Et.
  - exists caller. apply N.eqb_eq in Et. cbn. auto.
  - destruct (has_flag (f_flag f) FLAG_TSYNC) eqn:HT.
    + exists th. split; [exact Hth|]. split; [reflexivity|]. cbn [with_nnp t_nnp].
      destruct (t_nnp caller) eqn:Ec.
      * right. split; [reflexivity|]. exists caller. auto.
      * left. apply orb_false_r.
    + exists th. auto.
Qed.

(** C11: not requested and no privilege => an error, and nothing is installed *)
Theorem unprivileged_without_nnp_fails_step : forall w f,
  wf (w_k w) -> wf_filt f -> f_nnp f = false ->
  (forall th, In th (ks_threads (w_k w)) -> t_nnp th = false /\ t_priv th = false) ->
  snd (load w f) = LErr /\ w_k (fst (load w f)) = w_k w.
Proof.
  intros w f W Wf Hn Hun. destruct (load_step w f Wf) as [j [_ H]]. cbv zeta in H.
  destruct (f_prog f) as [p|e]; [|destruct H as [H1 [H2 _]]; auto].
  unfold pre_seccomp in H. rewrite Hn in H.
  destruct H as [[_ [_ [Hk [Hr _]]]]|[_ [Hk [Hr _]]]]; [auto|].
  destruct (do_seccomp (w_k w) (thread_at kstate w j) SECCOMP_SET_MODE_FILTER (f_flag f) (fprog p)) as [[st2 r1] e2] eqn:Es.
  cbn [fst snd] in *. rewrite Hk, Hr.
  destruct (do_seccomp_filter_cases _ _ _ _ _ _ _ Wf Es)
    as [[-> Hc]|[[-> [-> [HT [caller [Hfind Hu]]]]]|[_ [caller [len [arr [Hfind [_ [_ [_ [Hp _]]]]]]]]]]].
  - split; [|reflexivity]. destruct (e2 =? 0) eqn:E; [apply N.eqb_eq in E; contradiction|reflexivity].
  - split; [|reflexivity]. rewrite HT. cbn [negb]. rewrite orb_false_r.
    destruct (r1 =? 0) eqn:E0; [|reflexivity]. apply N.eqb_eq in E0. subst r1.
    apply first_unsyncable_in in Hu. exfalso. exact (wf_tid_nonzero _ _ W Hu eq_refl).
  - exfalso. apply find_in in Hfind. destruct Hfind as [Hin _]. destruct (Hun _ Hin) as [A B].
    rewrite A, B in Hp. discriminate.
Qed.
End OneStep.

(** *** the ways the kernel declines (each leaves the state unchanged: see [load_unattached_is_error_step]) *)
Lemma declines_unknown_flags : forall st t caller flags prog,
  flags < 4294967296 -> find_thread st t = Some caller -> flags_ok flags = false ->
  do_seccomp st t SECCOMP_SET_MODE_FILTER flags prog = (st, MINUS1, EINVAL).
Proof.
  intros. unfold do_seccomp. rewrite (N.mod_small flags) by assumption. rewrite H0.
  change (SECCOMP_SET_MODE_FILTER mod 4294967296 =? SECCOMP_SET_MODE_STRICT) with false.
  change (SECCOMP_SET_MODE_FILTER mod 4294967296 =? SECCOMP_SET_MODE_FILTER) with true. cbv iota.
  unfold set_mode_filter. rewrite H1. reflexivity.
Qed.

Lemma declines_oversize : forall st t caller flags len arr,
  flags < 4294967296 -> find_thread st t = Some caller -> flags_ok flags = true ->
  len = 0 \/ BPF_MAXINSNS < len ->
  do_seccomp st t SECCOMP_SET_MODE_FILTER flags (Some (len, arr)) = (st, MINUS1, EINVAL).
Proof.
  intros st t caller flags len arr Hf Hfind Hok Hlen. unfold do_seccomp. rewrite (N.mod_small flags) by assumption. rewrite Hfind.
  change (SECCOMP_SET_MODE_FILTER mod 4294967296 =? SECCOMP_SET_MODE_STRICT) with false.
  change (SECCOMP_SET_MODE_FILTER mod 4294967296 =? SECCOMP_SET_MODE_FILTER) with true. cbv iota.
  unfold set_mode_filter. rewrite Hok. cbn [negb].
  replace ((len =? 0) || (BPF_MAXINSNS <? len)) with true; [reflexivity|].
  symmetry. apply orb_true_iff. destruct Hlen as [->|H]; [left; reflexivity|right; apply N.ltb_lt; exact H].
Qed.

Lemma declines_unprivileged : forall st t caller flags len arr,
  flags < 4294967296 -> find_thread st t = Some caller -> flags_ok flags = true ->
  0 < len -> len <= BPF_MAXINSNS -> t_nnp caller = false -> t_priv caller = false ->
  do_seccomp st t SECCOMP_SET_MODE_FILTER flags (Some (len, arr)) = (st, MINUS1, EACCES).
Proof.
  intros st t caller flags len arr Hf Hfind Hok H0 H1 Hn Hp. unfold do_seccomp. rewrite (N.mod_small flags) by assumption. rewrite Hfind.
  change (SECCOMP_SET_MODE_FILTER mod 4294967296 =? SECCOMP_SET_MODE_STRICT) with false.
  change (SECCOMP_SET_MODE_FILTER mod 4294967296 =? SECCOMP_SET_MODE_FILTER) with true. cbv iota.
  unfold set_mode_filter. rewrite Hok, Hn, Hp. cbn [negb orb].
  replace (len =? 0) with false by (symmetry; apply N.eqb_neq; lia).
  replace (BPF_MAXINSNS <? len) with false by (symmetry; apply N.ltb_ge; exact H1).
  reflexivity.
Qed.

Lemma declines_bad_program : forall st t caller flags len arr,
  flags < 4294967296 -> find_thread st t = Some caller -> flags_ok flags = true ->
  0 < len -> len <= BPF_MAXINSNS -> t_nnp caller || t_priv caller = true -> len <= N.of_nat (List.length arr) ->
  kernel_check (firstn (N.to_nat len) arr) = false ->
  do_seccomp st t SECCOMP_SET_MODE_FILTER flags (Some (len, arr)) = (st, MINUS1, EINVAL).
Proof.
  intros st t caller flags len arr Hf Hfind Hok H0 H1 Hp Hl Hk. unfold do_seccomp. rewrite (N.mod_small flags) by assumption. rewrite Hfind.
  change (SECCOMP_SET_MODE_FILTER mod 4294967296 =? SECCOMP_SET_MODE_STRICT) with false.
  change (SECCOMP_SET_MODE_FILTER mod 4294967296 =? SECCOMP_SET_MODE_FILTER) with true. cbv iota.
  unfold set_mode_filter. rewrite Hok, Hp, Hk. cbn [negb orb].
  replace (len =? 0) with false by (symmetry; apply N.eqb_neq; lia).
  replace (BPF_MAXINSNS <? len) with false by (symmetry; apply N.ltb_ge; exact H1).
  replace (N.of_nat (List.length arr) <? len) with false by (symmetry; apply N.ltb_ge; exact Hl).
  reflexivity.
Qed.

Lemma declines_thread_sync : forall st t caller flags p bad,
  flags < 4294967296 -> find_thread st t = Some caller ->
  t_nnp caller || t_priv caller = true ->
  flags_ok flags = true -> has_flag flags FLAG_NEW_LISTENER = false ->
  0 < fprog_len p -> fprog_len p <= BPF_MAXINSNS ->
  kernel_check (firstn (N.to_nat (fprog_len p)) (map encode p)) = true ->
  t_strict caller = false -> path_len st caller (internal_len (firstn (N.to_nat (fprog_len p)) (map encode p))) <= MAX_INSNS_PER_PATH ->
  has_flag flags FLAG_TSYNC = true -> has_flag flags FLAG_TSYNC_ESRCH = false ->
  first_unsyncable caller (ks_threads st) = Some bad ->
  do_seccomp st t SECCOMP_SET_MODE_FILTER flags (fprog p) = (st, bad, 0).
Proof.
  intros st t caller flags p bad Hf Hfind Hpriv A1 A2 A3 A4 A5 A6 A7 HT HE Hu.
  unfold do_seccomp. rewrite (N.mod_small flags) by exact Hf. rewrite Hfind.
  change (SECCOMP_SET_MODE_FILTER mod 4294967296 =? SECCOMP_SET_MODE_STRICT) with false.
  change (SECCOMP_SET_MODE_FILTER mod 4294967296 =? SECCOMP_SET_MODE_FILTER) with true. cbv iota.
  unfold set_mode_filter, fprog. rewrite A1, A2, Hpriv, A5, A6, HT, Hu, HE. cbn [negb andb].
  replace (fprog_len p =? 0) with false by (symmetry; apply N.eqb_neq; lia).
  replace (BPF_MAXINSNS <? fprog_len p) with false by (symmetry; apply N.ltb_ge; exact A4).
  replace (N.of_nat (List.length (map encode p)) <? fprog_len p) with false by (symmetry; apply N.ltb_ge; apply fprog_len_le).
  replace (MAX_INSNS_PER_PATH <? path_len st caller (internal_len (firstn (N.to_nat (fprog_len p)) (map encode p)))) with false by (symmetry; apply N.ltb_ge; exact A7).
  reflexivity.
Qed.

(** *** Supported() *)
Lemma strict_probe : forall st t,
  do_seccomp st t SECCOMP_SET_MODE_STRICT (1 mod 18446744073709551616) None =
  match find_thread st t with Some _ => (st, MINUS1, EINVAL) | None => (st, MINUS1, ESRCH) end.
Proof. intros. unfold do_seccomp. destruct (find_thread st t); reflexivity. Qed.

Section Supported.
Variable supp : kworld -> kworld * option bool.
Hypothesis Hsupp : supp_spec kstate do_seccomp supp.

(** C09: probing for support never changes process state (and answers true on this kernel model) *)
Theorem supported_pure_step : forall w,
  w_k (fst (supp w)) = w_k w /\
  exists j, (live (w_k w) (thread_at kstate w j) -> snd (supp w) = Some true) /\
    w_log (fst (supp w)) = (thread_at kstate w j, SECCOMP_SET_MODE_STRICT, 1, None) :: w_log w.
Proof.
  intro w. destruct (Hsupp w) as [j [Hk [Hr [Hl _]]]]. cbv zeta in Hk, Hr, Hl.
  rewrite strict_probe in Hk, Hr. change (1 mod 18446744073709551616) with 1 in Hl.
  split.
  - etransitivity; [exact Hk|]. destruct (find_thread _ _); reflexivity.
  - exists j. split; [|exact Hl]. intros [th Hth]. rewrite Hth in Hr. exact Hr.
Qed.
End Supported.

(** ** 4. histories *)
Lemma attach_wf : forall st t caller flags p, wf st -> find_thread st t = Some caller -> wf (attach st caller flags p).
Proof.
  intros st t caller flags p [Z A B C] Hfind. apply find_in in Hfind. destruct Hfind as [Hc _].
  rewrite Forall_forall in B, C.
  constructor.
  - exact Z.
  - rewrite attach_tids. exact A.
  - rewrite Forall_forall. intros th' Hin. apply attach_threads in Hin. destruct Hin as [th [Hth ->]].
    change (ks_next_tid (attach st caller flags p)) with (ks_next_tid st).
    destruct (t_tid th =? t_tid caller); [exact (B _ Hc)|].
    destruct (has_flag flags FLAG_TSYNC); exact (B _ Hth).
  - rewrite Forall_forall. intros th' Hin. apply attach_threads in Hin. destruct Hin as [th [Hth ->]].
    change (ks_next_fid (attach st caller flags p)) with (ks_next_fid st + 1).
    assert (Hcal: Forall (fun f => f < ks_next_fid st + 1) (ks_next_fid st :: t_filters caller)).
    { constructor; [lia|]. specialize (C _ Hc). rewrite Forall_forall in *. intros x Hx. specialize (C x Hx). lia. }
    destruct (t_tid th =? t_tid caller); [exact Hcal|].
    destruct (has_flag flags FLAG_TSYNC); [exact Hcal|].
    specialize (C _ Hth). rewrite Forall_forall in *. intros x Hx. specialize (C x Hx). lia.
Qed.

Lemma clone_wf : forall st parent, wf st -> wf (fst (clone st parent)).
Proof.
  intros st parent W. unfold clone. destruct (find_thread st parent) as [p|] eqn:Ef; [|exact W].
  destruct W as [Z A B C]. apply find_in in Ef. destruct Ef as [Hp _].
  rewrite Forall_forall in B, C. cbn [fst].
  constructor; unfold tids; cbn [ks_threads ks_next_tid ks_next_fid].
  - lia.
  - rewrite map_app. cbn [map t_tid].
    assert (Hn: ~ In (ks_next_tid st) (tids st)).
    { intro Hi. unfold tids in Hi. apply in_map_iff in Hi. destruct Hi as [th [E Hth]].
      destruct (B _ Hth) as [_ Hlt]. lia. }
    clear - A Hn. unfold tids in *. induction (map t_tid (ks_threads st)) as [|x l IH]; cbn.
    + constructor; [intros []|constructor].
    + inversion A; subst. constructor.
      * intro Hi. apply in_app_or in Hi. destruct Hi as [Hi|[Hi|[]]]; [contradiction|]. apply Hn. left. symmetry. exact Hi.
      * apply IH; [assumption|]. intro Hi. apply Hn. right. exact Hi.
  - rewrite Forall_forall. intros th Hin. apply in_app_or in Hin. destruct Hin as [Hin|[<-|[]]].
    + destruct (B _ Hin). split; [assumption|lia].
    + cbn [t_tid]. split; [exact Z|lia].
  - rewrite Forall_forall. intros th Hin. apply in_app_or in Hin. destruct Hin as [Hin|[<-|[]]].
    + exact (C _ Hin).
    + cbn [t_filters]. exact (C _ Hp).
Qed.

Lemma map_filter_tid : forall (ts:list thread) tid,
  map t_tid (filter (fun t => negb (t_tid t =? tid)) ts) = filter (fun x => negb (x =? tid)) (map t_tid ts).
Proof.
  induction ts as [|a ts IH]; intro tid; cbn; [reflexivity|].
  destruct (negb (t_tid a =? tid)); cbn; rewrite IH; reflexivity.
Qed.

Lemma exit_wf : forall st tid, wf st -> wf (exit_thread st tid).
Proof.
  intros st tid [Z A B C]. unfold exit_thread, set_threads.
  constructor; unfold tids in *; cbn [ks_threads ks_next_tid ks_next_fid].
  - exact Z.
  - rewrite map_filter_tid. apply NoDup_filter. exact A.
  - rewrite Forall_forall in *. intros x Hx. apply filter_In in Hx. apply B. tauto.
  - rewrite Forall_forall in *. intros x Hx. apply filter_In in Hx. apply C. tauto.
Qed.

Lemma drop_priv_wf : forall st, wf st -> wf (drop_priv st).
Proof.
  intros st [Z A B C]. unfold drop_priv, set_threads.
  constructor; unfold tids in *; cbn [ks_threads ks_next_tid ks_next_fid].
  - exact Z.
  - rewrite map_map. cbn. exact A.
  - rewrite Forall_forall in *. intros x Hx. apply in_map_iff in Hx. destruct Hx as [a [<- Ha]]. cbn. exact (B _ Ha).
  - rewrite Forall_forall in *. intros x Hx. apply in_map_iff in Hx. destruct Hx as [a [<- Ha]]. cbn. exact (C _ Ha).
Qed.

(** operations of a history; [sched] is the scheduler oracle for the goroutine that makes the call, [pinned]
    says whether the caller holds runtime.LockOSThread already *)
Inductive hop :=
| HLoad (tid:N) (pinned:bool) (sched:nat -> N) (f:filt)
| HSupported (tid:N) (pinned:bool) (sched:nat -> N)
| HSpawn (parent:N)            (* the thread [parent] creates a thread (clone) *)
| HExit (tid:N)
| HDropPriv                    (* setuid to an unprivileged user *)
| HBlock (tid:N)               (* the thread enters a blocking system call: no effect on seccomp state *)
| HWake (tid:N).

Definition mk_world (st:kstate) (tid:N) (pinned:bool) (sched:nat -> N) : kworld :=
  {| w_k := st; w_cur := tid; w_pins := if pinned then 1%nat else 0%nat; w_sched := sched; w_step := 0%nat; w_log := [] |}.

Definition op_ok (o:hop) : Prop := match o with HLoad _ _ _ f => wf_filt f | _ => True end.

Section Histories.
Variable load : kworld -> filt -> kworld * lres.
Variable supp : kworld -> kworld * option bool.
Hypothesis Hload : load_spec kstate do_seccomp do_prctl load.
Hypothesis Hsupp : supp_spec kstate do_seccomp supp.

Definition apply_op (st:kstate) (o:hop) : kstate :=
  match o with
  | HLoad tid pinned sched f => w_k (fst (load (mk_world st tid pinned sched) f))
  | HSupported tid pinned sched => w_k (fst (supp (mk_world st tid pinned sched)))
  | HSpawn parent => fst (clone st parent)
  | HExit tid => exit_thread st tid
  | HDropPriv => drop_priv st
  | HBlock _ | HWake _ => st
  end.

Definition run_hist (st:kstate) (ops:list hop) : kstate := fold_left apply_op ops st.

Lemma run_hist_snoc : forall st pre o, run_hist st (pre ++ [o]) = apply_op (run_hist st pre) o.
Proof. intros. unfold run_hist. rewrite fold_left_app. reflexivity. Qed.

Lemma run_hist_app : forall st a b, run_hist st (a ++ b) = run_hist (run_hist st a) b.
Proof. intros. unfold run_hist. apply fold_left_app. Qed.

Lemma pre_seccomp_wf : forall st t f, wf st -> wf (pre_seccomp st t f).
Proof. intros. unfold pre_seccomp. destruct (f_nnp f); [apply prctl_set_nnp_wf|]; assumption. Qed.

Lemma apply_op_wf : forall st o, wf st -> op_ok o -> wf (apply_op st o).
Proof.
  intros st o W Hok. destruct o as [tid pinned sched f|tid pinned sched|parent|tid| |tid|tid]; cbn [apply_op].
  - destruct (load_outcomes load Hload (mk_world st tid pinned sched) f Hok) as [j H]. cbv zeta in H.
    change (w_k (mk_world st tid pinned sched)) with st in H.
    destruct H as [->|[->|[caller [p [_ [Hfind [-> _]]]]]]].
    + exact W.
    + apply pre_seccomp_wf; exact W.
    + eapply attach_wf; [apply pre_seccomp_wf; exact W|exact Hfind].
  - destruct (supported_pure_step supp Hsupp (mk_world st tid pinned sched)) as [-> _]. exact W.
  - apply clone_wf; exact W.
  - apply exit_wf; exact W.
  - apply drop_priv_wf; exact W.
  - exact W.
  - exact W.
Qed.

(** every state a history can reach is well formed: the one-step theorems apply at every point of every history *)
Theorem run_hist_wf : forall ops st, wf st -> Forall op_ok ops -> wf (run_hist st ops).
Proof.
  induction ops as [|o ops IH]; intros st W Hok; cbn [run_hist fold_left]; [exact W|].
  inversion Hok; subst. apply IH; [apply apply_op_wf; assumption|assumption].
Qed.

(** *** C09 over histories *)
Theorem load_nil_in_force : forall st0 pre tid pinned sched f,
  wf st0 -> Forall op_ok pre -> wf_filt f ->
  let w := mk_world (run_hist st0 pre) tid pinned sched in
  snd (load w f) = LNil ->
  exists j p, f_prog f = Ok p /\
    let t := thread_at kstate w j in
    let st1 := pre_seccomp (w_k w) t f in
    let st' := run_hist st0 (pre ++ [HLoad tid pinned sched f]) in
    let fid := ks_next_fid st1 in
    has_top st' t fid /\ fresh_fid st1 fid /\ stacks st1 = stacks (w_k w) /\
    top_prog st' t = Some (firstn (N.to_nat (fprog_len p)) (map encode p)) /\
    (has_flag (f_flag f) FLAG_TSYNC = true -> all_have_top st' fid) /\
    (pinned = true -> t = tid).
Proof.
  intros st0 pre tid pinned sched f W Hok Wf w Hnil.
  destruct (load_nil_in_force_step load Hload w f (run_hist_wf _ _ W Hok) Wf Hnil) as [j [p [Ep H]]].
  exists j, p. split; [exact Ep|]. cbv zeta in *.
  rewrite run_hist_snoc. cbn [apply_op].
  destruct H as [H1 [H2 [H3 [H4 [H5 _]]]]]. repeat split; try assumption.
  intros ->. reflexivity.
Qed.

Theorem load_unattached_is_error : forall st0 pre tid pinned sched f p,
  wf st0 -> Forall op_ok pre -> wf_filt f -> f_prog f = Ok p ->
  let w := mk_world (run_hist st0 pre) tid pinned sched in
  exists j, let t := thread_at kstate w j in
  let st1 := pre_seccomp (w_k w) t f in
  fst (fst (do_seccomp st1 t SECCOMP_SET_MODE_FILTER (f_flag f) (fprog p))) = st1 ->
  snd (load w f) = LErr /\
  stacks (run_hist st0 (pre ++ [HLoad tid pinned sched f])) = stacks (run_hist st0 pre).
Proof.
  intros st0 pre tid pinned sched f p W Hok Wf Ep w.
  destruct (load_unattached_is_error_step load Hload w f p (run_hist_wf _ _ W Hok) Wf Ep) as [j H].
  exists j. cbv zeta in *. intro Hun. destruct (H Hun) as [H1 H2]. split; [exact H1|].
  rewrite run_hist_snoc. cbn [apply_op]. exact H2.
Qed.

Theorem assemble_fail_no_effect : forall st0 pre tid pinned sched f e,
  f_prog f = Error e ->
  let w := mk_world (run_hist st0 pre) tid pinned sched in
  snd (load w f) = LErr /\ w_log (fst (load w f)) = [] /\
  run_hist st0 (pre ++ [HLoad tid pinned sched f]) = run_hist st0 pre.
Proof.
  intros st0 pre tid pinned sched f e Ep w.
  destruct (assemble_fail_no_effect_step load Hload w f e Ep) as [H1 [H2 H3]].
  split; [exact H2|]. split; [exact H3|].
  rewrite run_hist_snoc. cbn [apply_op]. exact H1.
Qed.

Theorem supported_pure : forall st0 pre tid pinned sched,
  run_hist st0 (pre ++ [HSupported tid pinned sched]) = run_hist st0 pre.
Proof.
  intros. rewrite run_hist_snoc. cbn [apply_op].
  apply (supported_pure_step supp Hsupp).
Qed.

(** *** C10 over histories *)
Definition covered (fid:N) (st:kstate) : Prop := Forall (fun th => In fid (t_filters th)) (ks_threads st).

Lemma pre_seccomp_filters : forall st t f th1, In th1 (ks_threads (pre_seccomp st t f)) ->
  exists c, In c (ks_threads st) /\ t_filters c = t_filters th1.
Proof.
  intros st t f th1 H. unfold pre_seccomp in H. destruct (f_nnp f); [|eauto].
  unfold prctl_set_nnp, set_threads, map_thread in H. cbn [ks_threads] in H.
  apply in_map_iff in H. destruct H as [a [<- Ha]]. exists a. split; [exact Ha|]. destruct (_ =? _); reflexivity.
Qed.

(** filters are never removed: every thread after an operation carries at least the stack of some thread
    that existed before it (itself, its creator, or - after a thread-sync - the loading thread) *)
Lemma op_filters_mono : forall st o th', op_ok o ->
  In th' (ks_threads (apply_op st o)) ->
  exists c, In c (ks_threads st) /\ incl (t_filters c) (t_filters th').
Proof.
  intros st o th' Hok Hin. destruct o as [tid pinned sched f|tid pinned sched|parent|tid| |tid|tid]; cbn [apply_op] in Hin.
  - destruct (load_outcomes load Hload (mk_world st tid pinned sched) f Hok) as [j H]. cbv zeta in H.
    change (w_k (mk_world st tid pinned sched)) with st in H.
    destruct H as [E|[E|[caller [p [_ [Hfind [E _]]]]]]]; rewrite E in Hin.
    + exists th'. split; [exact Hin|apply incl_refl].
    + destruct (pre_seccomp_filters _ _ _ _ Hin) as [c [Hc Ec]]. exists c. split; [exact Hc|]. rewrite Ec. apply incl_refl.
    + apply attach_threads in Hin. destruct Hin as [th [Hth ->]].
      apply find_in in Hfind. destruct Hfind as [Hcal _].
      destruct (pre_seccomp_filters _ _ _ _ Hcal) as [c [Hc Ec]].
      destruct (pre_seccomp_filters _ _ _ _ Hth) as [c2 [Hc2 Ec2]].
      destruct (t_tid th =? t_tid caller).
      * exists c. split; [exact Hc|]. rewrite Ec. cbn. apply incl_tl, incl_refl.
      * destruct (has_flag (f_flag f) FLAG_TSYNC).
        -- exists c. split; [exact Hc|]. rewrite Ec. cbn. apply incl_tl, incl_refl.
        -- exists c2. split; [exact Hc2|]. rewrite Ec2. apply incl_refl.
  - destruct (supported_pure_step supp Hsupp (mk_world st tid pinned sched)) as [E _]. rewrite E in Hin.
    exists th'. split; [exact Hin|apply incl_refl].
  - unfold clone in Hin. destruct (find_thread st parent) as [p|] eqn:Ef; cbn [fst ks_threads] in Hin.
    + apply in_app_or in Hin. destruct Hin as [Hin|[<-|[]]].
      * exists th'. split; [exact Hin|apply incl_refl].
      * apply find_in in Ef. exists p. split; [apply Ef|apply incl_refl].
    + exists th'. split; [exact Hin|apply incl_refl].
  - unfold exit_thread, set_threads in Hin. cbn [ks_threads] in Hin. apply filter_In in Hin.
    exists th'. split; [apply Hin|apply incl_refl].
  - unfold drop_priv, set_threads in Hin. cbn [ks_threads] in Hin. apply in_map_iff in Hin. destruct Hin as [a [<- Ha]].
    exists a. split; [exact Ha|apply incl_refl].
  - exists th'. split; [exact Hin|apply incl_refl].
  - exists th'. split; [exact Hin|apply incl_refl].
Qed.

Theorem covered_preserved : forall fid ops st, Forall op_ok ops -> covered fid st -> covered fid (run_hist st ops).
Proof.
  intros fid. induction ops as [|o ops IH]; intros st Hok Hc; cbn [run_hist fold_left]; [exact Hc|].
  inversion Hok; subst. apply IH; [assumption|].
  unfold covered in *. rewrite Forall_forall in *. intros th' Hin.
  destruct (op_filters_mono st o th' H1 Hin) as [c [Hcin Hincl]]. apply Hincl. exact (Hc _ Hcin).
Qed.

(** thread-sync requested and nil returned: the new filter is in the stack of every thread that exists at
    that moment AND of every thread that exists after any continuation of the history (threads spawned later
    by any thread, whatever was blocked or running) *)
Theorem tsync_covers_all : forall st0 pre tid pinned sched f post,
  wf st0 -> Forall op_ok pre -> wf_filt f -> Forall op_ok post ->
  has_flag (f_flag f) FLAG_TSYNC = true ->
  snd (load (mk_world (run_hist st0 pre) tid pinned sched) f) = LNil ->
  exists fid,
    (forall th, In th (ks_threads (run_hist st0 pre)) -> ~ In fid (t_filters th)) /\
    all_have_top (run_hist st0 (pre ++ [HLoad tid pinned sched f])) fid /\
    covered fid (run_hist st0 (pre ++ HLoad tid pinned sched f :: post)).
Proof.
  intros st0 pre tid pinned sched f post W Hok Wf Hpost HT Hnil.
  destruct (load_nil_in_force st0 pre tid pinned sched f W Hok Wf Hnil) as [j [p [_ H]]]. cbv zeta in H.
  destruct H as [_ [Hfresh [Hst [_ [Hall _]]]]].
  eexists. split; [|split; [exact (Hall HT)|]].
  - intros th Hth Hi. unfold fresh_fid in Hfresh. rewrite Forall_forall in Hfresh.
    change (w_k (mk_world (run_hist st0 pre) tid pinned sched)) with (run_hist st0 pre) in *.
    assert (Hin: In (t_tid th, t_filters th) (stacks (run_hist st0 pre))).
    { unfold stacks. apply in_map_iff. exists th. auto. }
    rewrite <- Hst in Hin. unfold stacks in Hin. apply in_map_iff in Hin. destruct Hin as [th1 [E1 Hth1]].
    inversion E1. apply (Hfresh th1 Hth1). rewrite H1. exact Hi.
  - replace (pre ++ HLoad tid pinned sched f :: post) with ((pre ++ [HLoad tid pinned sched f]) ++ post)
      by (rewrite <- app_assoc; reflexivity).
    rewrite run_hist_app. apply covered_preserved; [exact Hpost|].
    specialize (Hall HT). unfold covered, all_have_top in *. rewrite Forall_forall in *. intros th Hth.
    specialize (Hall th Hth). destruct (t_filters th); [discriminate|]. inversion Hall. left. reflexivity.
Qed.

Theorem no_tsync_untouched : forall st0 pre tid pinned sched f,
  wf_filt f -> has_flag (f_flag f) FLAG_TSYNC = false ->
  let w := mk_world (run_hist st0 pre) tid pinned sched in
  exists j, let t := thread_at kstate w j in
  let st' := run_hist st0 (pre ++ [HLoad tid pinned sched f]) in
  tids st' = tids (run_hist st0 pre) /\
  (forall th', In th' (ks_threads st') -> t_tid th' <> t -> In th' (ks_threads (run_hist st0 pre))) /\
  (pinned = true -> t = tid).
Proof.
  intros st0 pre tid pinned sched f Wf HT w.
  destruct (no_tsync_untouched_step load Hload w f Wf HT) as [j [H1 H2]]. exists j. cbv zeta.
  rewrite run_hist_snoc. cbn [apply_op].
  split; [exact H1|]. split; [exact H2|]. intros ->. reflexivity.
Qed.

Theorem flag_passthrough : forall st0 pre tid pinned sched f,
  wf_filt f ->
  let w := mk_world (run_hist st0 pre) tid pinned sched in
  w_log (fst (load w f)) = [] \/
  exists t p, f_prog f = Ok p /\
    w_log (fst (load w f)) = [(t, SECCOMP_SET_MODE_FILTER, f_flag f, Some (fprog_len p, map encode p))].
Proof. intros. apply (flag_passthrough_step load Hload w f H). Qed.

(** *** C11 over histories *)
Theorem nnp_before_install_same_thread : forall st0 pre tid pinned sched f p,
  wf_filt f -> f_nnp f = true -> f_prog f = Ok p ->
  let w := mk_world (run_hist st0 pre) tid pinned sched in
  exists j, let t := thread_at kstate w j in
  live (run_hist st0 pre) t ->
  let st1 := prctl_set_nnp (run_hist st0 pre) t in
  (exists caller, find_thread st1 t = Some caller /\ t_nnp caller = true) /\
  run_hist st0 (pre ++ [HLoad tid pinned sched f]) = fst (fst (do_seccomp st1 t SECCOMP_SET_MODE_FILTER (f_flag f) (fprog p))).
Proof.
  intros st0 pre tid pinned sched f p Wf Hn Ep w.
  destruct (nnp_before_install_step load Hload w f p Wf Hn Ep) as [j H]. exists j. cbv zeta in *.
  intro Hl. destruct (H Hl) as [H1 [H2 _]]. split; [exact H1|].
  rewrite run_hist_snoc. cbn [apply_op]. exact H2.
Qed.

Theorem unprivileged_can_load : forall st0 pre tid pinned sched f p,
  wf_filt f -> f_nnp f = true -> f_prog f = Ok p ->
  let w := mk_world (run_hist st0 pre) tid pinned sched in
  exists j, let t := thread_at kstate w j in
  forall caller, find_thread (run_hist st0 pre) t = Some caller ->
  attachable (prctl_set_nnp (run_hist st0 pre) t) (with_nnp caller true) (f_flag f) p ->
  snd (load w f) = LNil.
Proof. intros. apply (unprivileged_can_load_step load Hload w f p H H0 H1). Qed.

Theorem nnp_untouched : forall st0 pre tid pinned sched f,
  wf_filt f -> f_nnp f = false ->
  forall th', In th' (ks_threads (run_hist st0 (pre ++ [HLoad tid pinned sched f]))) ->
  exists th, In th (ks_threads (run_hist st0 pre)) /\ t_tid th = t_tid th' /\
    (t_nnp th' = t_nnp th \/
     (has_flag (f_flag f) FLAG_TSYNC = true /\ exists c, In c (ks_threads (run_hist st0 pre)) /\ t_nnp c = true)).
Proof.
  intros st0 pre tid pinned sched f Wf Hn th' Hin.
  rewrite run_hist_snoc in Hin. cbn [apply_op] in Hin.
  exact (nnp_untouched_step load Hload (mk_world (run_hist st0 pre) tid pinned sched) f Wf Hn th' Hin).
Qed.

Theorem unprivileged_without_nnp_fails : forall st0 pre tid pinned sched f,
  wf st0 -> Forall op_ok pre -> wf_filt f -> f_nnp f = false ->
  (forall th, In th (ks_threads (run_hist st0 pre)) -> t_nnp th = false /\ t_priv th = false) ->
  snd (load (mk_world (run_hist st0 pre) tid pinned sched) f) = LErr /\
  run_hist st0 (pre ++ [HLoad tid pinned sched f]) = run_hist st0 pre.
Proof.
  intros st0 pre tid pinned sched f W Hok Wf Hn Hun.
  destruct (unprivileged_without_nnp_fails_step load Hload (mk_world (run_hist st0 pre) tid pinned sched) f
              (run_hist_wf _ _ W Hok) Wf Hn Hun) as [H1 H2].
  split; [exact H1|]. rewrite run_hist_snoc. cbn [apply_op]. exact H2.
Qed.
End Histories.

(** ** 5. defect D8, kept as a refutation: without the two LockOSThread statements the C11 theorem is false.
    [strip_locks] removes every runtime.LockOSThread / UnlockOSThread call (also deferred ones) from the
    regenerated functions; on the result there is a schedule - the goroutine runs prctl on thread 100 and is
    moved to thread 101 before seccomp - under which an unprivileged process asking for NoNewPrivs gets an
    error and no filter. The check is a closed computation on the regenerated skeleton. *)
Definition is_lock (c:ex) : bool :=
  match ex_path c with
  | Some p => String.eqb p "runtime.LockOSThread" || String.eqb p "runtime.UnlockOSThread"
  | None => false
  end.

Fixpoint strip_locks_sk (s:sk) : list sk :=
  match s with
  | SCall _ _ c _ => if is_lock c then [] else [s]
  | SDefer c _ => if is_lock c then [] else [s]
  | SIf c t e => [SIf c (flat_map strip_locks_sk t) (flat_map strip_locks_sk e)]
  | SBlock b => [SBlock (flat_map strip_locks_sk b)]
  | _ => [s]
  end.

Definition strip_locks (funs:list skfun) : list skfun :=
  map (fun f => {| fn_name := fn_name f; fn_params := fn_params f; fn_variadic := fn_variadic f;
                   fn_body := flat_map strip_locks_sk (fn_body f) |}) funs.

Definition has_locks (funs:list skfun) : bool :=
  existsb (fun f => existsb (String.eqb "runtime.LockOSThread") (calls_of (fn_body f))
                    && existsb (String.eqb "defer runtime.UnlockOSThread") (calls_of (fn_body f))) funs.

Definition d8_state : kstate :=
  fst (clone (init_state 100 false) 100).          (* two unprivileged threads, 100 and 101 *)
Definition d8_filt : filt :=
  {| f_nnp := true; f_flag := 0; f_prog := Ok [ILd 0; IRet 2147418112] |}.
Definition d8_sched (m:nat) : nat -> N := fun i => if Nat.ltb i m then 100 else 101.
Definition d8_world (m:nat) : kworld :=
  {| w_k := d8_state; w_cur := 100; w_pins := 0%nat; w_sched := d8_sched m; w_step := 0%nat; w_log := [] |}.

Definition d8_fails (funs:list skfun) (lc:lconsts) (m:nat) : bool :=
  match load_sem kstate do_seccomp do_prctl funs lc (d8_world m) d8_filt with
  | (w', LErr) => forallb (fun th => match t_filters th with [] => true | _ => false end) (ks_threads (w_k w'))
                  && existsb (fun th => t_nnp th) (ks_threads (w_k w'))
  | _ => false
  end.
Definition d8_check (funs:list skfun) (lc:lconsts) : bool :=
  existsb (d8_fails (strip_locks funs) lc) (seq 0 80).

Theorem unpinned_refuted : forall funs lc, d8_check funs lc = true ->
  exists sched,
    (forall i, live d8_state (sched i)) /\
    (forall th, In th (ks_threads d8_state) -> t_priv th = false) /\
    f_nnp d8_filt = true /\
    let w := {| w_k := d8_state; w_cur := 100; w_pins := 0%nat; w_sched := sched; w_step := 0%nat; w_log := [] |} in
    snd (load_sem kstate do_seccomp do_prctl (strip_locks funs) lc w d8_filt) = LErr.
Proof.
  intros funs lc H. unfold d8_check in H. apply existsb_exists in H. destruct H as [m [_ Hm]].
  exists (d8_sched m). split; [|split; [|split; [reflexivity|]]].
  - intro i. unfold d8_sched. destruct (Nat.ltb i m); eexists; vm_compute; reflexivity.
  - intros th Hin. vm_compute in Hin. destruct Hin as [<-|[<-|[]]]; reflexivity.
  - cbv zeta. unfold d8_fails, d8_world in Hm.
    destruct (load_sem kstate do_seccomp do_prctl (strip_locks funs) lc _ d8_filt) as [w' r].
    cbn [snd]. destruct r; [discriminate|reflexivity|discriminate].
Qed.

(** ** 6. a reference Supported(): C10 and C11 do not speak about Supported, their theorems hold for histories
    interleaved with ANY probe function that satisfies [supp_spec]; this one exists (non-vacuity) *)
Definition ref_supported (w:kworld) : kworld * option bool :=
  let t := thread_at kstate w 0 in
  let fl := 1 mod 18446744073709551616 in
  let b := do_seccomp (w_k w) t SECCOMP_SET_MODE_STRICT fl None in
  ({| w_k := fst (fst b); w_cur := w_cur w; w_pins := w_pins w; w_sched := w_sched w; w_step := w_step w;
      w_log := (t, SECCOMP_SET_MODE_STRICT, fl, None) :: w_log w |},
   Some (negb (num_eqb (snd b) 0) && num_eqb (snd b) EINVAL)).

Lemma ref_supported_spec : supp_spec kstate do_seccomp ref_supported.
Proof.
  intro w. exists 0%nat. cbv zeta. unfold ref_supported, same_goroutine. cbn [fst snd w_k w_log w_pins w_sched w_cur].
  repeat split; reflexivity.
Qed.
