(** * LoaderProofs: C09, C10, C11 over the kernel model (KernelState.v) and the loader obtained from the
    regenerated skeletons (Loader.v).

    Structure.
    1. [ref_load] / [load_spec]: what one call of LoadFilter does, as a function of the OS thread [t] the
       goroutine is pinned to, over an ABSTRACT kernel. That the interpretation of the regenerated skeletons
       satisfies [load_spec] ([supp_spec], [setnnp_spec]) is proved on every run, by symbolic execution of
       gen/GenSkeletons.v (coq/properties/LoaderInst.v, tactic [prove_spec] below).
    2. Facts about the kernel model ([do_seccomp_filter_cases] ...).
    3. One-step theorems for any [load] satisfying [load_spec] over the concrete kernel model.
    4. Histories: lists of operations folded over the kernel state; the one-step theorems hold at every
       reachable state because well-formedness is preserved ([run_hist_wf]); the thread-sync invariant
       ([covered]) is preserved by every later operation.

    Kernel assumptions (part of the MODEL, see KernelState.v): a thread-sync is atomic with respect to thread
    creation and exit (one step here; sighand->siglock in Linux), a new thread inherits filters and
    no_new_privs from the thread that calls clone, filters are never removed from a thread. *)
From Coq Require Import List NArith Bool String Lia.
From Seccomp Require Import Machine Raw Result KernelCheck KernelState Skeleton Loader.
Import ListNotations.
Close Scope string_scope.
Open Scope list_scope.
Open Scope N_scope.

(** ** 1. the specification of one call *)
Section Spec.
Variable K : Type.
Variable ksec : K -> N -> N -> N -> option (N * list sock_filter) -> K * N * N.
Variable kprctl : K -> N -> N -> N -> N -> N -> N -> K * N * N.

(** the thread of a goroutine after [j] statement boundaries: the oracle's choice if it is not pinned *)
Definition thread_at (w:world K) (j:nat) : N :=
  match w_pins w with O => w_sched w (j + w_step w)%nat | S _ => w_cur w end.

(** struct sock_fprog built by LoadFilter for the instruction list [p] *)
Definition sec_arg (p:list instr) : option (N * list sock_filter) :=
  Some (xcount (raw_of p) mod 65536, raw_of p).

(** LoadFilter on thread [t]: new kernel state, result, seccomp(2) calls made *)
Definition ref_install (t:N) (k1:K) (f:filt) (p:list instr) : K * lres * list sec_call :=
  let fl := f_flag f mod 18446744073709551616 in         (* uintptr(flags) *)
  let b := ksec k1 t SECCOMP_SET_MODE_FILTER fl (sec_arg p) in
  (fst (fst b),
   if num_eqb (snd b) 0 && (num_eqb (snd (fst b)) 0 || num_eqb (N.land (f_flag f) FLAG_TSYNC) 0)
   then LNil else LErr,
   [(t, SECCOMP_SET_MODE_FILTER, fl, sec_arg p)]).

Definition ref_load (t:N) (k:K) (f:filt) : K * lres * list sec_call :=
  match f_prog f with
  | Error _ => (k, LErr, [])
  | Ok p =>
    if f_nnp f then
      let a := kprctl k t PR_SET_NO_NEW_PRIVS 1 0 0 0 in
      if num_eqb (snd a) 0 then ref_install t (fst (fst a)) f p else (fst (fst a), LErr, [])
    else ref_install t k f p
  end.

Definition same_goroutine (w w':world K) : Prop :=
  w_pins w' = w_pins w /\ w_sched w' = w_sched w /\ (w_pins w <> O -> w_cur w' = w_cur w).

Definition load_spec (load:world K -> filt -> world K * lres) : Prop :=
  forall w f, exists j,
    let t := thread_at w j in
    let ref := ref_load t (w_k w) f in
    w_k (fst (load w f)) = fst (fst ref) /\
    snd (load w f) = snd (fst ref) /\
    w_log (fst (load w f)) = snd ref ++ w_log w /\
    same_goroutine w (fst (load w f)).

Definition supp_spec (supp:world K -> world K * option bool) : Prop :=
  forall w, exists j,
    let t := thread_at w j in
    let fl := 1 mod 18446744073709551616 in               (* uintptr(1) *)
    let b := ksec (w_k w) t SECCOMP_SET_MODE_STRICT fl None in
    w_k (fst (supp w)) = fst (fst b) /\
    snd (supp w) = Some (negb (num_eqb (snd b) 0) && num_eqb (snd b) EINVAL) /\
    w_log (fst (supp w)) = (t, SECCOMP_SET_MODE_STRICT, fl, None) :: w_log w /\
    same_goroutine w (fst (supp w)).

Definition setnnp_spec (setnnp:world K -> world K * lres) : Prop :=
  forall w, exists j,
    let t := thread_at w j in
    let a := kprctl (w_k w) t PR_SET_NO_NEW_PRIVS 1 0 0 0 in
    w_k (fst (setnnp w)) = fst (fst a) /\
    snd (setnnp w) = (if num_eqb (snd a) 0 then LNil else LErr) /\
    same_goroutine w (fst (setnnp w)).
End Spec.

(** *** the per-run proof that the regenerated skeletons satisfy the specifications
    [probe_j]: the statement boundary at which the kernel is entered, found by running the skeleton once on a
    probe world whose scheduler oracle names "thread i" at step i and whose kernel answers 0. *)
Definition probe_world : world unit :=
  {| w_k := tt; w_cur := 0; w_pins := 0; w_sched := fun i => N.of_nat i; w_step := 0; w_log := [] |}.
Definition probe_ksec (k:unit) (t op fl:N) (p:option (N * list sock_filter)) : unit * N * N := (tt, 0, 0).
Definition probe_kprctl (k:unit) (t o a2 a3 a4 a5:N) : unit * N * N := (tt, 0, 0).
Definition probe_j (funs:list skfun) (lc:lconsts) (name:string) (args:list (value xval)) : nat :=
  let '(w, _, _) := run unit probe_ksec probe_kprctl funs lc probe_world name args in
  match w_log w with
  | (t, _, _, _) :: _ => N.to_nat t
  | [] => O
  end.
Ltac split_ifs :=
  repeat match goal with
         | |- context [if ?b then _ else _] =>
             lazymatch b with
             | context [if _ then _ else _] => fail
             | _ => destruct b eqn:?
             end
         end.

Ltac sym_eval :=
  lazy -[num_eqb N.land N.modulo raw_of xcount].

Ltac finish_spec j :=
  exists j; sym_eval; split_ifs; repeat split; (reflexivity || congruence).

(** [load_spec _ _ _ (load_sem _ _ _ funs lc)]: case split on the filter and on the pin count, find the
    statement boundary with the probe, evaluate symbolically, compare with [ref_load] *)
Ltac prove_load_spec :=
  lazymatch goal with
  | |- forall K ksec kprctl, load_spec K ksec kprctl (load_sem K ksec kprctl ?funs ?lc) =>
    let w := fresh "w" in let f := fresh "f" in
    intros ? ? ? w f;
    destruct w as [k cur pins sched step lg];
    destruct f as [nnp flag pr];
    destruct pr as [p|e]; destruct nnp; destruct pins;
    unfold load_sem, run, run_fun, thread_at, ref_load, ref_install, same_goroutine, sec_arg, FUEL;
    [ let j := eval vm_compute in (probe_j funs lc "LoadFilter"%string [filt_value {| f_nnp := true; f_flag := 0; f_prog := Ok [] |}]) in finish_spec j
    | finish_spec O
    | let j := eval vm_compute in (probe_j funs lc "LoadFilter"%string [filt_value {| f_nnp := false; f_flag := 0; f_prog := Ok [] |}]) in finish_spec j
    | finish_spec O
    | finish_spec O | finish_spec O | finish_spec O | finish_spec O ]
  end.

Ltac prove_supp_spec :=
  lazymatch goal with
  | |- forall K ksec kprctl, supp_spec K ksec (supported_sem K ksec kprctl ?funs ?lc) =>
    let w := fresh "w" in
    intros ? ? ? w;
    destruct w as [k cur pins sched step lg];
    destruct pins;
    unfold supported_sem, run, run_fun, thread_at, same_goroutine, FUEL;
    [ let j := eval vm_compute in (probe_j funs lc "Supported"%string []) in finish_spec j
    | finish_spec O ]
  end.

Ltac prove_setnnp_spec :=
  lazymatch goal with
  | |- forall K ksec kprctl, setnnp_spec K kprctl (set_nnp_sem K ksec kprctl ?funs ?lc) =>
    let w := fresh "w" in
    intros ? ? ? w;
    destruct w as [k cur pins sched step lg];
    destruct pins;
    unfold set_nnp_sem, run, run_fun, thread_at, same_goroutine, FUEL;
    [ first [ finish_spec 4%nat | finish_spec 3%nat | finish_spec 5%nat | finish_spec 2%nat | finish_spec 6%nat
            | finish_spec 1%nat | finish_spec 7%nat | finish_spec 0%nat | finish_spec 8%nat | finish_spec 9%nat
            | finish_spec 10%nat | finish_spec 11%nat | finish_spec 12%nat ]
    | finish_spec O ]
  end.

(** ** 2. the kernel model *)
Definition tids (st:kstate) : list N := map t_tid (ks_threads st).
Definition live (st:kstate) (t:N) : Prop := exists th, find_thread st t = Some th.

Record wf (st:kstate) : Prop := {
  wf_next : ks_next_tid st <> 0;
  wf_nodup : NoDup (tids st);
  wf_tid : Forall (fun t => t_tid t <> 0 /\ t_tid t < ks_next_tid st) (ks_threads st);
  wf_fid : Forall (fun t => Forall (fun f => f < ks_next_fid st) (t_filters t)) (ks_threads st)
}.

Lemma find_in : forall ts tid th, find_thread_in ts tid = Some th -> In th ts /\ t_tid th = tid.
Proof.
  induction ts as [|a ts IH]; cbn [find_thread_in]; intros tid th H; [discriminate|].
  destruct (t_tid a =? tid) eqn:E.
  - inversion H; subst. apply N.eqb_eq in E. split; [left; reflexivity|assumption].
  - destruct (IH _ _ H); split; [right; assumption|assumption].
Qed.

Lemma in_find : forall ts th, In th ts -> exists th', find_thread_in ts (t_tid th) = Some th'.
Proof.
  induction ts as [|a ts IH]; cbn [find_thread_in In]; intros th H; [contradiction|].
  destruct (t_tid a =? t_tid th) eqn:E; [eauto|].
  destruct H as [->|H]; [rewrite N.eqb_refl in E; discriminate | auto].
Qed.

Lemma first_unsyncable_in : forall c ts bad, first_unsyncable c ts = Some bad -> In bad (map t_tid ts).
Proof.
  induction ts as [|a ts IH]; cbn [first_unsyncable map In]; intros bad H; [discriminate|].
  destruct (t_tid a =? t_tid c); [auto|].
  destruct (can_sync c a); [auto|]. inversion H; auto.
Qed.

Lemma wf_tid_nonzero : forall st t, wf st -> In t (tids st) -> t <> 0.
Proof.
  intros st t W H. unfold tids in H. apply in_map_iff in H. destruct H as [th [<- Hin]].
  pose proof (wf_tid _ W) as F. rewrite Forall_forall in F. apply F; auto.
Qed.

(** the three outcomes of seccomp(SET_MODE_FILTER): an error, a refused thread-sync, an attach *)
Lemma do_seccomp_filter_cases : forall st tid flags prog st' r1 e,
  flags < 4294967296 ->
  do_seccomp st tid SECCOMP_SET_MODE_FILTER flags prog = (st', r1, e) ->
  (st' = st /\ e <> 0) \/
  (st' = st /\ e = 0 /\ has_flag flags FLAG_TSYNC = true /\
     exists caller, find_thread st tid = Some caller /\ first_unsyncable caller (ks_threads st) = Some r1) \/
  (e = 0 /\ exists caller len arr,
     find_thread st tid = Some caller /\ prog = Some (len, arr) /\
     st' = attach st caller flags (firstn (N.to_nat len) arr) /\ r1 = attach_r1 st flags /\
     (t_nnp caller || t_priv caller = true) /\
     (has_flag flags FLAG_TSYNC = true -> first_unsyncable caller (ks_threads st) = None)).
Proof.
  intros st tid flags prog st' r1 e Hf H. unfold do_seccomp in H.
  rewrite (N.mod_small flags) in H by exact Hf.
  change (SECCOMP_SET_MODE_FILTER mod 4294967296) with 1 in H. cbn [N.eqb Pos.eqb SECCOMP_SET_MODE_STRICT SECCOMP_SET_MODE_FILTER] in H.
  destruct (find_thread st tid) as [caller|] eqn:Ef.
  2:{ inversion H; subst. left. split; [reflexivity|discriminate]. }
  unfold set_mode_filter in H.
  repeat match type of H with
         | (if ?b then _ else _) = _ => destruct b eqn:?
         | match ?x with _ => _ end = _ => destruct x eqn:?
         end;
  inversion H; subst; clear H;
  try (left; split; [reflexivity|discriminate]).
  - (* refused *) right; left. repeat split; auto.
    + destruct (has_flag flags FLAG_TSYNC); [reflexivity|discriminate].
    + exists caller. split; auto. destruct (has_flag flags FLAG_TSYNC); [assumption|discriminate].
  - (* attached *) right; right. split; [reflexivity|].
    eexists caller, _, _. repeat split; try reflexivity.
    + apply negb_false_iff; assumption.
    + intro HT. rewrite HT in *. assumption.
Qed.

(** the threads after an attach *)
Definition attached_thread (caller:thread) (fid:N) : thread := with_filters caller (fid :: t_filters caller).

Lemma attach_threads : forall st caller flags p th',
  In th' (ks_threads (attach st caller flags p)) ->
  exists th, In th (ks_threads st) /\
    th' = (if t_tid th =? t_tid caller then attached_thread caller (ks_next_fid st)
           else if has_flag flags FLAG_TSYNC
                then with_nnp (with_filters th (ks_next_fid st :: t_filters caller)) (t_nnp th || t_nnp caller)
                else th).
Proof.
  intros st caller flags p th' H. unfold attach in H. cbn [ks_threads] in H.
  destruct (has_flag flags FLAG_TSYNC).
  - apply in_map_iff in H. destruct H as [x [<- Hx]].
    unfold map_thread in Hx. apply in_map_iff in Hx. destruct Hx as [th [<- Hth]].
    exists th. split; [assumption|].
    destruct (t_tid th =? t_tid caller) eqn:E.
    + unfold sync_thread. cbn [with_filters t_tid]. rewrite N.eqb_refl. reflexivity.
    + unfold sync_thread. cbn [with_filters t_tid t_filters t_nnp]. rewrite E. reflexivity.
  - unfold map_thread in H. apply in_map_iff in H. destruct H as [th [<- Hth]].
    exists th. split; [assumption|]. destruct (t_tid th =? t_tid caller); reflexivity.
Qed.

Lemma attach_threads_conv : forall st caller flags p th,
  In th (ks_threads st) ->
  In (if t_tid th =? t_tid caller then attached_thread caller (ks_next_fid st)
      else if has_flag flags FLAG_TSYNC
           then with_nnp (with_filters th (ks_next_fid st :: t_filters caller)) (t_nnp th || t_nnp caller)
           else th) (ks_threads (attach st caller flags p)).
Proof.
  intros st caller flags p th H. unfold attach. cbn [ks_threads].
  destruct (has_flag flags FLAG_TSYNC).
  - apply in_map_iff. exists (if t_tid th =? t_tid caller then attached_thread caller (ks_next_fid st) else th).
    split.
    + destruct (t_tid th =? t_tid caller) eqn:E; unfold sync_thread.
      * cbn [attached_thread with_filters t_tid]. rewrite N.eqb_refl. reflexivity.
      * cbn [with_filters t_tid t_filters t_nnp]. rewrite E. reflexivity.
    + unfold map_thread. apply in_map_iff. exists th. split; [|assumption].
      destruct (t_tid th =? t_tid caller); reflexivity.
  - unfold map_thread. apply in_map_iff. exists th. split; [|assumption].
    destruct (t_tid th =? t_tid caller); reflexivity.
Qed.

Lemma attach_tids : forall st caller flags p, tids (attach st caller flags p) = tids st.
Proof.
  intros. unfold tids, attach. cbn [ks_threads].
  assert (E1: map t_tid (map_thread (t_tid caller) (fun _ => with_filters caller (ks_next_fid st :: t_filters caller)) (ks_threads st))
              = map t_tid (ks_threads st)).
  { unfold map_thread. rewrite map_map. apply map_ext_in. intros a _.
    destruct (t_tid a =? t_tid caller) eqn:E; [|reflexivity]. apply N.eqb_eq in E. cbn. auto. }
  destruct (has_flag flags FLAG_TSYNC); [|exact E1].
  rewrite map_map. rewrite <- E1. apply map_ext. intro a.
  unfold sync_thread. destruct (_ =? _); reflexivity.
Qed.

