(** * InstalledProofs: C08 over the kernel MODEL (KernelState.v) - the program handed to the kernel is the
    compiled one, an over-long program can never be installed in part, and the installed program decides as the
    policy says.

    PARTIAL: these are theorems about the model. That Linux executes a classic-BPF seccomp filter as [run_raw]
    says, that it reads [len] instructions from the array, and that it maps the returned word to EPERM / SIGSYS /
    "allow" is validated by the C08 experiment on the running kernel (lib/kernelchecks.py), not proved.

    On truncation. LoadFilter stores len(sockFilter) in the 16-bit field sock_fprog.len. For a program of n
    instructions the kernel therefore sees n mod 65536 instructions of the same array: a PREFIX when
    n >= 65536. [prefix_rejected] shows that no proper prefix of a compiled program of more than 258
    instructions passes the kernel's verifier: such a program starts with
        ld arch; jeq arch,1,0; ja jumpN        with jumpN = n - 4,
    and in a prefix of m < n instructions that unconditional jump leaves the program (the verifier demands
    jumpN < m - 3), while a prefix of one or two instructions does not end in a return. Hence
    [oversize_rejected]: for EVERY n > 4096 (below 2^32) the kernel model answers an error and changes nothing,
    whatever the truncated length is (0, 1..4096 or more). No truncated filter can be installed. *)
From Coq Require Import String List NArith Bool Lia PeanoNat.
From Seccomp Require Import Words Machine Result Assembler Policy Spec Raw KernelCheck KernelState
                            CompileProofs ValidProofs Skeleton Loader LoaderProofs Installed.
Import ListNotations.
Close Scope string_scope.
Open Scope list_scope.
Open Scope N_scope.

(** ** 1. sockFilter is the identity on the array *)
Lemma copy_identity_sound : forall fs,
  copy_is_identity fs = true -> exists g, copy_fun fs = Some g /\ forall r, g r = r.
Proof.
  intros fs H. unfold copy_is_identity in H. apply andb_true_iff in H. destruct H as [Hk H].
  unfold copy_fun. rewrite Hk. eexists. split; [reflexivity|].
  intro r. unfold dst_value.
  destruct (assoc_s fs "Code") as [a|]; [|discriminate H].
  destruct (assoc_s fs "Jt") as [b|]; [|discriminate H].
  destruct (assoc_s fs "Jf") as [c|]; [|discriminate H].
  destruct (assoc_s fs "K") as [d|]; [|discriminate H].
  apply andb_true_iff in H. destruct H as [H Hd].
  apply andb_true_iff in H. destruct H as [H Hc].
  apply andb_true_iff in H. destruct H as [Ha Hb].
  apply String.eqb_eq in Ha, Hb, Hc, Hd. subst. destruct r; reflexivity.
Qed.

Theorem sockfilter_identity : forall f,
  sockfilter_check f = true -> exists g, sockfilter_sem f = Some g /\ forall raw, g raw = raw.
Proof.
  intros f H. unfold sockfilter_check in H. unfold sockfilter_sem.
  destruct (sockfilter_fields f) as [fs|]; [|discriminate H].
  destruct (copy_identity_sound _ H) as [g [E Hg]]. rewrite E. eexists. split; [reflexivity|].
  intro raw. induction raw as [|r raw IH]; cbn [map]; [reflexivity|]. rewrite Hg, IH. reflexivity.
Qed.

(** ** 2. proper prefixes of long compiled programs are not valid filters *)
Lemma kernel_check_parts : forall p, kernel_check p = true -> classic_insns_ok p = true /\ last_is_ret p = true.
Proof.
  intros p H. unfold kernel_check, bpf_check_classic in H. cbv zeta in H.
  apply andb_true_iff in H. destruct H as [H _].
  apply andb_true_iff in H. destruct H as [_ H].
  apply andb_true_iff in H. destruct H as [H _].
  apply andb_true_iff in H. exact H.
Qed.

(** the long form of the architecture test *)
Lemma long_shape : forall le k ai pol p,
  compile le k ai pol = Ok p -> (258 < length p)%nat ->
  exists tl jn, p = ILd 4 :: IJmpIf JEq (ai_id ai) 1 0 :: IJa (jn mod two32) :: tl /\ N.of_nat (length tl) = jn + 1.
Proof.
  intros le k ai pol p H Hlen. destruct (compile_shape _ _ _ _ _ H) as (body & _ & E).
  set (x32 := x32_filter k ai) in *.
  set (jn := N.of_nat (length x32 + length body + 1)) in *.
  unfold prologue in E. destruct (jn <=? 255) eqn:Ej.
  - exfalso. apply N.leb_le in Ej. subst p. cbn [app length] in Hlen. rewrite !app_length in Hlen.
    cbn [length] in Hlen. unfold jn in Ej. lia.
  - exists ([ILd 0] ++ x32 ++ body ++ [IRet (ret_word k (p_default pol))]), jn. split; [exact E|].
    rewrite !app_length. cbn [length]. unfold jn. lia.
Qed.

Theorem prefix_rejected : forall le k ai pol p m,
  compile le k ai pol = Ok p -> (258 < length p)%nat -> N.of_nat (length p) < two32 ->
  (m < length p)%nat -> kernel_check (firstn m (map encode p)) = false.
Proof.
  intros le k ai pol p m H Hlen H32 Hm.
  destruct (kernel_check (firstn m (map encode p))) eqn:E; [exfalso|reflexivity].
  destruct (long_shape _ _ _ _ _ H Hlen) as (tl & jn & -> & Hl).
  apply kernel_check_parts in E. destruct E as [C L].
  cbn [length] in Hm, H32.
  destruct m as [|[|[|m]]]; cbn [map firstn] in C, L.
  - discriminate L.
  - discriminate L.
  - unfold last_is_ret in L. cbn in L. discriminate L.
  - cbn [classic_insns_ok] in C.
    apply andb_true_iff in C. destruct C as [_ C].
    apply andb_true_iff in C. destruct C as [_ C].
    apply andb_true_iff in C. destruct C as [C _].
    apply classic_ja in C; [|reflexivity]. cbn [encode sf_k] in C.
    rewrite firstn_length, map_length in C.
    rewrite N.mod_small in C by (unfold two32 in *; lia).
    lia.
Qed.

(** ** 3. an over-long program is refused whatever its truncated length *)
Lemma set_mode_filter_rejects : forall st caller flags len arr,
  len = 0 \/ BPF_MAXINSNS < len \/ kernel_check (firstn (N.to_nat len) arr) = false ->
  exists e, set_mode_filter st caller flags (Some (len, arr)) = (st, MINUS1, e) /\ e <> 0.
Proof.
  intros st caller flags len arr H. unfold set_mode_filter.
  destruct (negb (flags_ok flags)); [eexists; split; [reflexivity|discriminate]|].
  destruct ((len =? 0) || (BPF_MAXINSNS <? len)) eqn:E1; [eexists; split; [reflexivity|discriminate]|].
  destruct (negb (t_nnp caller || t_priv caller)); [eexists; split; [reflexivity|discriminate]|].
  destruct (N.of_nat (length arr) <? len); [eexists; split; [reflexivity|discriminate]|].
  destruct (negb (kernel_check (firstn (N.to_nat len) arr))) eqn:E2; [eexists; split; [reflexivity|discriminate]|].
  exfalso. apply orb_false_iff in E1. destruct E1 as [A B].
  apply N.eqb_neq in A. apply N.ltb_ge in B. apply negb_false_iff in E2.
  destruct H as [H|[H|H]]; [contradiction|lia|rewrite H in E2; discriminate].
Qed.

Theorem oversize_rejected : forall le k ai pol p st t flags,
  compile le k ai pol = Ok p -> (4096 < length p)%nat -> N.of_nat (length p) < two32 ->
  exists e, do_seccomp st t SECCOMP_SET_MODE_FILTER flags (Some (installed p)) = (st, MINUS1, e) /\ e <> 0.
Proof.
  intros le k ai pol p st t flags H Hlen H32. unfold do_seccomp.
  change (SECCOMP_SET_MODE_FILTER mod 4294967296 =? SECCOMP_SET_MODE_STRICT) with false.
  change (SECCOMP_SET_MODE_FILTER mod 4294967296 =? SECCOMP_SET_MODE_FILTER) with true. cbv iota.
  destruct (find_thread st t) as [caller|]; [|eexists; split; [reflexivity|discriminate]].
  unfold installed. apply set_mode_filter_rejects.
  destruct (N.eq_dec (fprog_len p) 0) as [E0|E0]; [left; exact E0|right].
  destruct (N.lt_ge_cases BPF_MAXINSNS (fprog_len p)) as [E1|E1]; [left; exact E1|right].
  apply (prefix_rejected le k ai pol); [exact H|lia|exact H32|].
  unfold BPF_MAXINSNS in E1. lia.
Qed.

(** the bound 2^16 is where the truncation starts: below it the length field is exact *)
Lemma fprog_len_exact : forall p, N.of_nat (length p) < 65536 -> fprog_len p = N.of_nat (length p).
Proof. intros p H. unfold fprog_len. apply N.mod_small. exact H. Qed.

Lemma installed_whole : forall p, N.of_nat (length p) < 65536 ->
  firstn (N.to_nat (fst (installed p))) (snd (installed p)) = map encode p.
Proof.
  intros p H. unfold installed. cbn [fst snd]. rewrite fprog_len_exact by exact H.
  rewrite Nnat.Nat2N.id. apply firstn_all2. rewrite map_length. apply le_n.
Qed.

(** ** 4. the installed program decides as the policy says *)
Theorem kernel_decides : forall le k ai pol p ev,
  compile le k ai pol = Ok p -> (length p <= 4096)%nat ->
  let prog := firstn (N.to_nat (fst (installed p))) (snd (installed p)) in    (* what the kernel reads *)
  prog = map encode p /\
  kernel_check prog = true /\
  run_raw (word_at le ev) prog 0 0 = ORet (decide k ai pol ev).
Proof.
  intros le k ai pol p ev H Hlen. cbv zeta. rewrite installed_whole by lia.
  split; [reflexivity|]. split.
  - exact (compiled_kernel_valid le k ai pol p H Hlen).
  - exact (compiled_no_fault le k ai pol p ev H Hlen).
Qed.

(** ** 5. through LoadFilter (any function satisfying the loader specification: the per-run instance is
    LoaderInst.kload, obtained from the regenerated skeleton of LoadFilter) *)
Lemma top_prog_by_hd : forall st tid th fid,
  find_thread st tid = Some th -> hd_error (t_filters th) = Some fid ->
  top_prog st tid = option_map snd (find (fun e => fst e =? fid) (ks_progs st)).
Proof.
  intros st tid th fid Hf Hh. unfold top_prog. rewrite Hf.
  destruct (t_filters th) as [|f r]; [discriminate Hh|]. inversion Hh. reflexivity.
Qed.

Lemma nodup_map_inj : forall {A B} (f:A -> B) (l:list A),
  NoDup (map f l) -> forall a b, In a l -> In b l -> f a = f b -> a = b.
Proof.
  intros A B f l. induction l as [|x l IH]; cbn [map In]; intros ND a b Ha Hb E; [contradiction|].
  inversion ND as [|? ? Hx ND']; subst.
  destruct Ha as [->|Ha], Hb as [->|Hb].
  - reflexivity.
  - exfalso. apply Hx. rewrite E. apply in_map. exact Hb.
  - exfalso. apply Hx. rewrite <- E. apply in_map. exact Ha.
  - exact (IH ND' a b Ha Hb E).
Qed.

Lemma wf_same_tid : forall st a b, wf st -> In a (ks_threads st) -> In b (ks_threads st) -> t_tid a = t_tid b -> a = b.
Proof. intros st a b W. exact (nodup_map_inj t_tid (ks_threads st) (wf_nodup _ W) a b). Qed.

Section WithLoader.
Variable load : kworld -> filt -> kworld * lres.
Hypothesis Hload : load_spec kstate do_seccomp do_prctl load.

(** every seccomp(2) call LoadFilter makes carries the compiled program: length field and array *)
Theorem handed_is_compiled : forall w f,
  wf_filt f ->
  w_log (fst (load w f)) = w_log w \/
  exists t p, f_prog f = Ok p /\
    w_log (fst (load w f)) = (t, SECCOMP_SET_MODE_FILTER, f_flag f, Some (installed p)) :: w_log w.
Proof. intros w f Wf. exact (flag_passthrough_step load Hload w f Wf). Qed.

(** after a successful load: that call was made, and the calling thread's newest filter is what the kernel read
    from it *)
Theorem installed_is_compiled : forall w f,
  wf (w_k w) -> wf_filt f -> snd (load w f) = LNil ->
  exists t p, f_prog f = Ok p /\
    w_log (fst (load w f)) = (t, SECCOMP_SET_MODE_FILTER, f_flag f, Some (installed p)) :: w_log w /\
    top_prog (w_k (fst (load w f))) t = Some (firstn (N.to_nat (fst (installed p))) (snd (installed p))).
Proof.
  intros w f W Wf Hnil.
  destruct (load_nil_in_force_step load Hload w f W Wf Hnil) as [j [p [Ep H]]]. cbv zeta in H.
  destruct H as [_ [_ [_ [Ht [_ Hl]]]]].
  exists (thread_at kstate w j), p. split; [exact Ep|]. split; [exact Hl|exact Ht].
Qed.

(** a successful load implies a program of at most 4096 instructions: longer ones are refused *)
Theorem loaded_is_small : forall w f le k ai pol p,
  wf_filt f -> f_prog f = compile le k ai pol -> compile le k ai pol = Ok p -> N.of_nat (length p) < two32 ->
  snd (load w f) = LNil -> (length p <= 4096)%nat.
Proof.
  intros w f le k ai pol p Wf Ef Ec H32 Hnil.
  destruct (Nat.le_gt_cases (length p) 4096) as [Hle|Hgt]; [exact Hle|exfalso].
  destruct (load_step load Hload w f Wf) as [j [_ H]]. cbv zeta in H.
  rewrite Ef, Ec in H.
  destruct H as [[_ [_ [_ [Hr _]]]]|[_ [_ [Hr _]]]]; [rewrite Hr in Hnil; discriminate|].
  unfold fprog in Hr.
  destruct (oversize_rejected le k ai pol p (pre_seccomp (w_k w) (thread_at kstate w j) f) (thread_at kstate w j)
              (f_flag f) Ec Hgt H32) as [e [Er He]].
  unfold installed in Er. rewrite Er in Hr. cbn [fst snd] in Hr.
  apply N.eqb_neq in He. rewrite He in Hr. cbn [andb] in Hr. rewrite Hr in Hnil. discriminate.
Qed.

(** C08, model part: after a successful load the kernel model's decision for the loading thread - and, with
    thread-sync, for every thread of the process - is the policy's, on every event *)
Theorem loaded_filter_decides : forall w f le k ai pol p,
  wf (w_k w) -> wf_filt f -> f_prog f = compile le k ai pol -> compile le k ai pol = Ok p ->
  N.of_nat (length p) < two32 -> snd (load w f) = LNil ->
  let st' := w_k (fst (load w f)) in
  exists t fid,
    top_prog st' t = Some (map encode p) /\
    option_map snd (find (fun e => fst e =? fid) (ks_progs st')) = Some (map encode p) /\
    (forall ev, run_raw (word_at le ev) (map encode p) 0 0 = ORet (decide k ai pol ev)) /\
    (has_flag (f_flag f) FLAG_TSYNC = true ->
     all_have_top st' fid /\
     forall th, In th (ks_threads st') -> top_prog st' (t_tid th) = Some (map encode p)).
Proof.
  intros w f le k ai pol p W Wf Ef Ec H32 Hnil. cbv zeta.
  pose proof (loaded_is_small w f le k ai pol p Wf Ef Ec H32 Hnil) as Hsmall.
  destruct (load_nil_in_force_step load Hload w f W Wf Hnil) as [j [p' [Ep H]]]. cbv zeta in H.
  rewrite Ef, Ec in Ep. inversion Ep. subst p'. clear Ep.
  destruct H as [Htop [_ [_ [Ht [Hall _]]]]].
  set (t := thread_at kstate w j) in *.
  set (st' := w_k (fst (load w f))) in *.
  set (fid := ks_next_fid (pre_seccomp (w_k w) t f)) in *.
  assert (Ew: firstn (N.to_nat (fprog_len p)) (map encode p) = map encode p).
  { exact (installed_whole p ltac:(lia)). }
  rewrite Ew in Ht.
  assert (Hfind: option_map snd (find (fun e => fst e =? fid) (ks_progs st')) = Some (map encode p)).
  { unfold top_prog in Ht. destruct (find_thread st' t) as [th|] eqn:Ef'; [|discriminate Ht].
    destruct Htop as [th0 [Hin0 [Htid0 Hhd0]]].
    destruct (t_filters th) as [|f0 r0] eqn:Et; [discriminate Ht|].
    (* the thread found for t is the one that carries fid on top: thread ids are unique in a wf state *)
    assert (Wst': wf st').
    { destruct (load_outcomes load Hload w f Wf) as [j' Ho]. cbv zeta in Ho.
      fold st' in Ho.
      destruct Ho as [->|[->|[caller [p0 [_ [Hfc [-> _]]]]]]].
      - exact W.
      - apply pre_seccomp_wf. exact W.
      - eapply attach_wf; [apply pre_seccomp_wf; exact W|exact Hfc]. }
    apply find_in in Ef'. destruct Ef' as [Hin Htid].
    assert (th = th0).
    { apply (wf_same_tid st'); auto. congruence. }
    subst th0. rewrite Et in Hhd0. inversion Hhd0. subst f0. exact Ht. }
  exists t, fid. split; [exact Ht|]. split; [exact Hfind|]. split.
  - intro ev. exact (compiled_no_fault le k ai pol p ev Ec Hsmall).
  - intro HT. specialize (Hall HT). split; [exact Hall|].
    intros th Hth. destruct (in_find _ _ Hth) as [th' Hf'].
    pose proof (find_in _ _ _ Hf') as [Hin' _].
    unfold all_have_top in Hall. rewrite Forall_forall in Hall.
    rewrite (top_prog_by_hd st' (t_tid th) th' fid Hf' (Hall th' Hin')). exact Hfind.
Qed.
End WithLoader.
