(** * Result: outcomes of the modelled Go functions. Error messages are abstracted to classes. *)
Inductive err :=
| EDefaultAction      (* Policy.Validate: default action has no name *)
| ENoSyscalls         (* Policy.Validate: no groups *)
| EProblems           (* toSyscallsWithConditions: unknown / duplicate / conditional+unconditional /
                         argument index / operation / empty condition list *)
| EBackward           (* Program.Assemble: "backward jumps are not supported" (label not set ahead) *)
| EUseless            (* Program.Assemble: "useless jump found" *)
| EOutOfReach         (* Program.Assemble: "jump destination out of reach" *)
| EUnsupportedArch.   (* arch.GetInfo *)

Inductive res (A:Type) := Ok (x:A) | Error (e:err).
Arguments Ok {A} x.
Arguments Error {A} e.
