(** * Text: the text forms of actions, operations and filter flags (filter.go), and arch.GetInfo. *)
From Coq Require Import List NArith Bool String Ascii Lia.
From Seccomp Require Import Result Policy Tables.
Import ListNotations.
Open Scope N_scope.
Open Scope list_scope.

(** strings.ToLower, as far as its result can be an ASCII string: ASCII letters are lowered, and the two
    non-ASCII runes whose Unicode lower case is an ASCII letter are mapped to it: U+212A KELVIN SIGN (E2 84 AA)
    -> "k", U+0130 LATIN CAPITAL LETTER I WITH DOT ABOVE (C4 B0) -> "i". Every other non-ASCII byte is kept
    (Go maps such runes to other non-ASCII runes, so neither result can equal an ASCII name). *)
Definition lower_ascii (c:ascii) : ascii :=
  let n := N_of_ascii c in if (65 <=? n) && (n <=? 90) then ascii_of_N (n + 32) else c.

Fixpoint lower (s:string) : string :=
  match s with
  | EmptyString => EmptyString
  | String c r =>
    match N_of_ascii c, r with
    | 226, String c2 (String c3 r') =>
        if (N_of_ascii c2 =? 132) && (N_of_ascii c3 =? 170) then String "k"%char (lower r')
        else String c (lower r)
    | 196, String c2 r' =>
        if N_of_ascii c2 =? 176 then String "i"%char (lower r') else String c (lower r)
    | _, _ => String (lower_ascii c) (lower r)
    end
  end.

(** ** Action.Unpack / String, for the name table [names] (actionNames) *)
Definition name_of (names:list (N*string)) (a:N) : option string := lookup_num names a.

(** Unpack iterates over the map and compares every name with the lowered input *)
Definition action_unpack_with (perm:list (N*string)) (s:string) : option N := invert_with perm (lower s).
Definition action_unpack (names:list (N*string)) (s:string) : option N := lookup_name names (lower s).
Definition action_string (names:list (N*string)) (a:N) : string :=
  match lookup_num names a with Some s => s | None => "unknown"%string end.

(** ** Operation.Unpack over the Operations list *)
Fixpoint operation_unpack (ops:list string) (s:string) : option string :=
  match ops with
  | [] => None
  | o :: r => if String.eqb (lower o) (lower s) then Some o else operation_unpack r s
  end.

(** ** FilterFlag.String (after the repair of D10: bits in ascending order) *)
Fixpoint join (sep:string) (l:list string) : string :=
  match l with
  | [] => EmptyString
  | [x] => x
  | x :: r => append x (append sep (join sep r))
  end.

(** bits 0..31 in ascending order: collect the names of the named set bits, clear them *)
Fixpoint flag_bits (names:list (N*string)) (bits:list N) (f:N) : list string * N :=
  match bits with
  | [] => ([], f)
  | b :: r =>
    let flag := N.shiftl 1 b in
    match lookup_num names flag with
    | Some nm => if negb (N.land f flag =? 0)
                 then let '(l, f') := flag_bits names r (N.lxor f flag) in (nm :: l, f')
                 else flag_bits names r f
    | None => flag_bits names r f
    end
  end.

Definition bits32 : list N := map N.of_nat (seq 0 32).

Definition flag_string (names:list (N*string)) (f:N) : string :=
  match lookup_num names f with
  | Some nm => nm
  | None => let '(l, f') := flag_bits names bits32 f in
            join "|" (l ++ (if f' =? 0 then [] else ["unknown"%string]))
  end.

(** ** arch.GetInfo *)
Definition table_empty (ai:arch_info) : bool := match ai_table ai with [] => true | _ => false end.

Definition get_info (aliases:list (string * arch_info)) (goarch:string) (name:string) : res arch_info :=
  let key := match name with EmptyString => goarch | _ => lower name end in
  match assoc aliases key with
  | Some ai => if table_empty ai then Error EUnsupportedArch else Ok ai
  | None => Error EUnsupportedArch
  end.
