(** * Spec: the reference decision of a policy on an event. This function *is* the statement of
    C01, C03 and C04; it is written against the policy as the user wrote it (not against the
    compiler's intermediate form). *)
From Coq Require Import List NArith Bool Lia String.
From Seccomp Require Import Words Machine Result Policy.
Import ListNotations.
Open Scope N_scope.
Open Scope list_scope.

(** the unsigned 64-bit relation of an operation (C02) *)
Definition rel (o:op) (a v:N) : bool :=
  match o with
  | OpEq => a =? v | OpNe => negb (a =? v)
  | OpGt => v <? a | OpLt => a <? v | OpGe => v <=? a | OpLe => a <=? v
  | OpSet => negb (N.land a v =? 0) | OpNSet => N.land a v =? 0
  | OpOther => false
  end.

Definition cond_holds (ev:event) (c:cnd) : bool := rel (c_op c) (arg ev (c_arg c)) (c_val c).

(** all conditions of a list (AND) *)
Definition list_holds (ev:event) (cs:list cnd) : bool := forallb (cond_holds ev) cs.

Definition name_matches (ai:arch_info) (ev:event) (name:string) : bool :=
  match lookup_name (ai_table ai) name with
  | Some num => ev_nr ev =? sysnum ai num
  | None => false
  end.

Definition nwc_matches (ai:arch_info) (ev:event) (nc:nwc) : bool :=
  name_matches ai ev (nc_name nc) && list_holds ev (nc_conds nc).

(** a group lists the event: by an unconditional name, or by a conditional entry one of whose
    lists holds (entries with the same name are alternatives: OR) *)
Definition group_matches (ai:arch_info) (ev:event) (g:group) : bool :=
  existsb (name_matches ai ev) (g_names g) || existsb (nwc_matches ai ev) (g_nwc g).

Fixpoint first_group (ai:arch_info) (ev:event) (gs:list group) : option group :=
  match gs with
  | [] => None
  | g :: r => if group_matches ai ev g then Some g else first_group ai ev r
  end.

Definition decide (k:consts) (ai:arch_info) (pol:policy) (ev:event) : N :=
  if negb (ev_arch ev =? ai_id ai) then ret_word k (p_default pol)
  else if (ai_id ai =? k_x86_64_id k) && (k_x32mask k <=? ev_nr ev) then N.lor (k_errno k) (k_enosys k)
  else match first_group ai ev (p_groups pol) with
       | Some g => ret_word k (g_action g)
       | None => ret_word k (p_default pol)
       end.
