(** * CoreExamples: the hypotheses of the core theorems are satisfiable (non-vacuity), on a small concrete
    architecture record and constant record. Everything here is decided by [vm_compute]. *)
From Coq Require Import List NArith Bool String.
From Seccomp Require Import Words Machine Result Assembler Policy Spec CompileProofs CoreTheorems.
Import ListNotations.
Open Scope N_scope.
Open Scope string_scope.

Definition ex_consts : consts :=
  {| k_named_actions := [0; 2147483648; 196608; 327680; 2146435072; 2147221504; 2147418112];
     k_errno := 327680; k_eperm := 1; k_enosys := 38; k_x32mask := 1073741824; k_x86_64_id := 3221225534 |}.
Definition ex_arch : arch_info :=
  {| ai_name := "x86_64"; ai_id := 3221225534; ai_mask := 0;
     ai_table := [(0, "read"); (1, "write"); (2, "open"); (39, "getpid"); (60, "exit")] |}.
Definition ALLOW : N := 2147418112.
Definition TRAP : N := 196608.
Definition ERRNO : N := 327680.

(** three groups; "open" is listed by the second and the third group; write carries a condition *)
Definition ex_policy : policy :=
  {| p_default := ERRNO;
     p_groups := [ {| g_names := ["read"]; g_nwc := [ {| nc_name := "write"; nc_conds := [ {| c_arg := 0; c_op := OpLe; c_val := 2 |} ] |} ]; g_action := ALLOW |};
                   {| g_names := ["open"]; g_nwc := []; g_action := TRAP |};
                   {| g_names := ["open"; "exit"]; g_nwc := []; g_action := 0 |} ] |}.
Definition ev_of (nr archw a0:N) : event := {| ev_nr := nr; ev_arch := archw; ev_ip := 0; ev_args := [a0; 0; 0; 0; 0; 0] |}.

Definition ex_prog : list instr :=
  match compile true ex_consts ex_arch ex_policy with Ok p => p | Error _ => [] end.

Example ex_compiles : exists p, compile true ex_consts ex_arch ex_policy = Ok p /\ p <> [] /\ N.of_nat (List.length p) < two32.
Proof. exists ex_prog. vm_compute. repeat split; discriminate. Qed.

(** decided by the SECOND group although a later group lists the number too *)
Example ex_second_group :
  native_event ex_consts ex_arch (ev_of 2 3221225534 0) /\
  run_event true ex_prog (ev_of 2 3221225534 0) = ORet TRAP /\
  first_group ex_arch (ev_of 2 3221225534 0) (p_groups ex_policy) = nth_error (p_groups ex_policy) 1.
Proof. vm_compute. repeat split; intros; try discriminate; reflexivity. Qed.

Example ex_default_and_errno : run_event true ex_prog (ev_of 39 3221225534 0) = ORet 327681.
Proof. vm_compute. reflexivity. Qed.

(** the 64-bit condition: write(fd <= 2) allowed; fd = 2^32 (low word 0) is not *)
Example ex_condition :
  run_event true ex_prog (ev_of 1 3221225534 2) = ORet ALLOW /\
  run_event true ex_prog (ev_of 1 3221225534 3) = ORet 327681 /\
  run_event true ex_prog (ev_of 1 3221225534 4294967296) = ORet 327681 /\
  run_event false (match compile false ex_consts ex_arch ex_policy with Ok p => p | Error _ => [] end) (ev_of 1 3221225534 4294967296) = ORet 327681.
Proof. vm_compute. repeat split; reflexivity. Qed.

(** foreign architecture (i386 id) and the x32 bit *)
Example ex_foreign_and_x32 :
  run_event true ex_prog (ev_of 0 1073741827 0) = ORet 327681 /\
  run_event true ex_prog (ev_of (1073741824 + 0) 3221225534 0) = ORet (327680 + 38) /\
  run_event true ex_prog (ev_of 4294967295 3221225534 0) = ORet (327680 + 38).
Proof. vm_compute. repeat split; reflexivity. Qed.

Example ex_single_cond_hyps :
  exists p, compile true ex_consts ex_arch (single_cond_policy ERRNO ALLOW "write" {| c_arg := 5; c_op := OpSet; c_val := 9223372036854775808 |}) = Ok p
            /\ lookup_name (ai_table ex_arch) "write" = Some 1.
Proof. eexists. split; vm_compute; reflexivity. Qed.

(** an unmatched conditional entry (group 0, entry 0, on an event whose fd is 7) *)
Example ex_unmatched_entry :
  nth_error (p_groups ex_policy) 0 <> None /\
  nwc_matches ex_arch (ev_of 1 3221225534 7) {| nc_name := "write"; nc_conds := [ {| c_arg := 0; c_op := OpLe; c_val := 2 |} ] |} = false.
Proof. vm_compute. split; [discriminate|reflexivity]. Qed.
