(** * ValidationTemplates: the loops of SyscallGroup.toSyscallsWithConditions as REGENERATED decision templates
    (gen/GenCodegen.v: [names_loop_template], [nwc_loop_template]) and their meaning as transformers of the entry
    list and the "problem recorded" flag. The expected templates mean exactly [names_loop] / [nwc_loop] of Policy.v. *)
From Coq Require Import List NArith Bool String Lia.
From Seccomp Require Import Words Machine Result Assembler Policy.
Import ListNotations.
Open Scope N_scope.
Open Scope list_scope.

Inductive vcond := VCFound | VCNoEntry | VCInvalid | VCEntryUnconditional | VCOther (src:string).
Inductive vstmt :=
| VLetMasked | VLetCheck | VLetInvalid | VLetSingleton          (* bindings: syscall, check, invalidArguments, conditions *)
| VAppendUnconditional | VAppendConditional | VAddAlternative
| VProblem | VContinue
| VIf (c:vcond) (a b:list vstmt)
| VUnknown (src:string).

Section Interp.
Variable fnd : option N.           (* g.arch.SyscallNames[name]: the number, if found *)
Variable masked : N.               (* uint32(num | g.arch.SeccompMask) *)
Variable conds : list cnd.         (* nc.Conditions (unused in the loop over g.Names) *)

Definition vcond_holds (c:vcond) (es:list entry) : option bool :=
  match c with
  | VCFound => Some (match fnd with Some _ => true | None => false end)
  | VCNoEntry => Some (match get_syscall es masked with None => true | Some _ => false end)
  | VCInvalid => Some (negb (conds_valid conds))
  | VCEntryUnconditional => Some (match get_syscall es masked with Some (EU _) => true | _ => false end)
  | VCOther _ => None
  end.

(** one iteration of a loop body: (entries, problem flag) -> (entries', flag', continue-d) *)
Fixpoint run_v (fuel:nat) (stmts:list vstmt) (es:list entry) (bad:bool) : option (list entry * bool * bool) :=
  match fuel with
  | O => None
  | S fuel' =>
    match stmts with
    | [] => Some (es, bad, false)
    | s :: rest =>
      match s with
      | VLetMasked | VLetCheck | VLetInvalid | VLetSingleton => run_v fuel' rest es bad
      | VAppendUnconditional => run_v fuel' rest (es ++ [EU masked]) bad
      | VAppendConditional => run_v fuel' rest (es ++ [EC masked [conds]]) bad
      | VAddAlternative => run_v fuel' rest (add_list es masked conds) bad
      | VProblem => run_v fuel' rest es true
      | VContinue => Some (es, bad, true)
      | VIf c a b =>
          match vcond_holds c es with
          | Some g => match run_v fuel' (if g then a else b) es bad with
                      | Some (es', bad', true) => Some (es', bad', true)
                      | Some (es', bad', false) => run_v fuel' rest es' bad'
                      | None => None
                      end
          | None => None
          end
      | VUnknown _ => None
      end
    end
  end.
End Interp.

Definition masked_of (ai:arch_info) (fnd:option N) : N := match fnd with Some num => sysnum ai num | None => 0 end.

Fixpoint names_by_template (ai:arch_info) (tpl:list vstmt) (names:list string) (es:list entry) (bad:bool) : option (list entry * bool) :=
  match names with
  | [] => Some (es, bad)
  | name :: rest =>
      let fnd := lookup_name (ai_table ai) name in
      match run_v fnd (masked_of ai fnd) [] 10 tpl es bad with
      | Some (es', bad', _) => names_by_template ai tpl rest es' bad'
      | None => None
      end
  end.

Fixpoint nwc_by_template (ai:arch_info) (tpl:list vstmt) (ncs:list nwc) (es:list entry) (bad:bool) : option (list entry * bool) :=
  match ncs with
  | [] => Some (es, bad)
  | nc :: rest =>
      let fnd := lookup_name (ai_table ai) (nc_name nc) in
      match run_v fnd (masked_of ai fnd) (nc_conds nc) 10 tpl es bad with
      | Some (es', bad', _) => nwc_by_template ai tpl rest es' bad'
      | None => None
      end
  end.

(** normal form produced by the translator: bindings left out, guard clauses and negated conditions rendered as if/else *)
Definition expected_names_template : list vstmt :=
  [VIf VCFound [VIf VCNoEntry [VAppendUnconditional] [VProblem]] [VProblem]].
Definition expected_nwc_template : list vstmt :=
  [VIf VCFound [VIf VCInvalid [VProblem] [VIf VCNoEntry [VAppendConditional] [VIf VCEntryUnconditional [VProblem] [VAddAlternative]]]] [VProblem]].

(** one-step unfolding equations (by computation); normalising [run_v] on a stuck condition would explore every branch *)
Section Steps.
Variables (fnd:option N) (mk:N) (conds:list cnd).
Lemma v_nil f es bad : run_v fnd mk conds (S f) [] es bad = Some (es, bad, false).
Proof. reflexivity. Qed.
Lemma v_if f c a b rest es bad g : vcond_holds fnd mk conds c es = Some g ->
  run_v fnd mk conds (S f) (VIf c a b :: rest) es bad =
  match run_v fnd mk conds f (if g then a else b) es bad with
  | Some (es', bad', true) => Some (es', bad', true)
  | Some (es', bad', false) => run_v fnd mk conds f rest es' bad'
  | None => None
  end.
Proof. intros H. cbn [run_v]. rewrite H. reflexivity. Qed.
Lemma v_let1 f rest es bad : run_v fnd mk conds (S f) (VLetMasked :: rest) es bad = run_v fnd mk conds f rest es bad.
Proof. reflexivity. Qed.
Lemma v_let2 f rest es bad : run_v fnd mk conds (S f) (VLetCheck :: rest) es bad = run_v fnd mk conds f rest es bad.
Proof. reflexivity. Qed.
Lemma v_let3 f rest es bad : run_v fnd mk conds (S f) (VLetInvalid :: rest) es bad = run_v fnd mk conds f rest es bad.
Proof. reflexivity. Qed.
Lemma v_let4 f rest es bad : run_v fnd mk conds (S f) (VLetSingleton :: rest) es bad = run_v fnd mk conds f rest es bad.
Proof. reflexivity. Qed.
Lemma v_app_u f rest es bad : run_v fnd mk conds (S f) (VAppendUnconditional :: rest) es bad = run_v fnd mk conds f rest (es ++ [EU mk]) bad.
Proof. reflexivity. Qed.
Lemma v_app_c f rest es bad : run_v fnd mk conds (S f) (VAppendConditional :: rest) es bad = run_v fnd mk conds f rest (es ++ [EC mk [conds]]) bad.
Proof. reflexivity. Qed.
Lemma v_add f rest es bad : run_v fnd mk conds (S f) (VAddAlternative :: rest) es bad = run_v fnd mk conds f rest (add_list es mk conds) bad.
Proof. reflexivity. Qed.
Lemma v_problem f rest es bad : run_v fnd mk conds (S f) (VProblem :: rest) es bad = run_v fnd mk conds f rest es true.
Proof. reflexivity. Qed.
Lemma v_continue f rest es bad : run_v fnd mk conds (S f) (VContinue :: rest) es bad = Some (es, bad, true).
Proof. reflexivity. Qed.
End Steps.

Ltac vstep :=
  repeat first [ rewrite v_nil | rewrite v_let1 | rewrite v_let2 | rewrite v_let3 | rewrite v_let4 | rewrite v_app_u | rewrite v_app_c
               | rewrite v_add | rewrite v_problem | rewrite v_continue ].

Theorem expected_names_is_names_loop ai : forall names es bad,
  names_by_template ai expected_names_template names es bad = Some (names_loop ai names es bad).
Proof.
  induction names as [|name rest IH]; intros es bad; [reflexivity|].
  cbn [names_by_template names_loop]. unfold expected_names_template.
  destruct (lookup_name (ai_table ai) name) as [num|].
  - cbn [masked_of]. rewrite (v_if _ _ _ _ _ _ _ _ _ _ true) by reflexivity.
    destruct (get_syscall es (sysnum ai num)) as [e|] eqn:G.
    + rewrite (v_if _ _ _ _ _ _ _ _ _ _ false) by (cbn [vcond_holds]; rewrite G; reflexivity). vstep. apply IH.
    + rewrite (v_if _ _ _ _ _ _ _ _ _ _ true) by (cbn [vcond_holds]; rewrite G; reflexivity). vstep. apply IH.
  - rewrite (v_if _ _ _ _ _ _ _ _ _ _ false) by reflexivity. vstep. apply IH.
Qed.

Theorem expected_nwc_is_nwc_loop ai : forall ncs es bad,
  nwc_by_template ai expected_nwc_template ncs es bad = Some (nwc_loop ai ncs es bad).
Proof.
  induction ncs as [|nc rest IH]; intros es bad; [reflexivity|].
  cbn [nwc_by_template nwc_loop]. unfold expected_nwc_template.
  destruct (lookup_name (ai_table ai) (nc_name nc)) as [num|].
  - cbn [masked_of]. rewrite (v_if _ _ _ _ _ _ _ _ _ _ true) by reflexivity.
    destruct (conds_valid (nc_conds nc)) eqn:V; cbn [negb].
    + rewrite (v_if _ _ _ _ _ _ _ _ _ _ false) by (cbn [vcond_holds]; rewrite V; reflexivity).
      destruct (get_syscall es (sysnum ai num)) as [[n0|n0 ls0]|] eqn:G.
      * rewrite (v_if _ _ _ _ _ _ _ _ _ _ false) by (cbn [vcond_holds]; rewrite G; reflexivity).
        rewrite (v_if _ _ _ _ _ _ _ _ _ _ true) by (cbn [vcond_holds]; rewrite G; reflexivity). vstep. apply IH.
      * rewrite (v_if _ _ _ _ _ _ _ _ _ _ false) by (cbn [vcond_holds]; rewrite G; reflexivity).
        rewrite (v_if _ _ _ _ _ _ _ _ _ _ false) by (cbn [vcond_holds]; rewrite G; reflexivity). vstep. apply IH.
      * rewrite (v_if _ _ _ _ _ _ _ _ _ _ true) by (cbn [vcond_holds]; rewrite G; reflexivity). vstep. apply IH.
    + rewrite (v_if _ _ _ _ _ _ _ _ _ _ true) by (cbn [vcond_holds]; rewrite V; reflexivity). vstep. apply IH.
  - rewrite (v_if _ _ _ _ _ _ _ _ _ _ false) by reflexivity. vstep. apply IH.
Qed.

(** toSyscallsWithConditions as a whole: both loops, then `if len(problems) > 0 { error }` *)
Definition to_syscalls_by_template (ai:arch_info) (ntpl wtpl:list vstmt) (g:group) : option (res (list entry)) :=
  match names_by_template ai ntpl (g_names g) [] false with
  | Some (es1, bad1) =>
      match nwc_by_template ai wtpl (g_nwc g) es1 bad1 with
      | Some (es2, bad2) => Some (if bad2 then Error EProblems else Ok es2)
      | None => None
      end
  | None => None
  end.

Theorem expected_templates_are_to_syscalls ai g :
  to_syscalls_by_template ai expected_names_template expected_nwc_template g = Some (to_syscalls ai g).
Proof.
  unfold to_syscalls_by_template, to_syscalls. rewrite expected_names_is_names_loop.
  destruct (names_loop ai (g_names g) [] false) as [es1 bad1]. rewrite expected_nwc_is_nwc_loop.
  destruct (nwc_loop ai (g_nwc g) es1 bad1) as [es2 bad2]. reflexivity.
Qed.

(** ** ArgumentConditions.Validate as a REGENERATED template: the conditions under which a problem is recorded,
    once for the list ([vt_list]) and once per condition ([vt_each]); no problem recorded = valid. *)
Inductive vexp :=
| VLenZero                                  (* len(a) == 0 *)
| VArgLt (k:N) | VArgGt (k:N) | VArgGe (k:N) | VArgLe (k:N) | VArgEq (k:N)      (* condition.Argument against a constant *)
| VOpInvalid                                (* !condition.Operation.valid() *)
| VTrue | VFalse
| VNot (a:vexp) | VOr (a b:vexp) | VAnd (a b:vexp)
| VXOther (src:string).

Record validate_tpl := { vt_list : list vexp; vt_each : list vexp }.

Fixpoint vx_known (e:vexp) : bool :=
  match e with
  | VXOther _ => false
  | VNot a => vx_known a
  | VOr a b | VAnd a b => vx_known a && vx_known b
  | _ => true
  end.
(** an expression outside the loop can only speak about the list *)
Fixpoint vx_listlevel (e:vexp) : bool :=
  match e with
  | VLenZero | VTrue | VFalse => true
  | VNot a => vx_listlevel a
  | VOr a b | VAnd a b => vx_listlevel a && vx_listlevel b
  | _ => false
  end.

Fixpoint vx_eval (e:vexp) (empty:bool) (arg:N) (opbad:bool) : bool :=
  match e with
  | VLenZero => empty
  | VArgLt k => arg <? k
  | VArgGt k => k <? arg
  | VArgGe k => k <=? arg
  | VArgLe k => arg <=? k
  | VArgEq k => arg =? k
  | VOpInvalid => opbad
  | VTrue => true
  | VFalse => false
  | VNot a => negb (vx_eval a empty arg opbad)
  | VOr a b => vx_eval a empty arg opbad || vx_eval b empty arg opbad
  | VAnd a b => vx_eval a empty arg opbad && vx_eval b empty arg opbad
  | VXOther _ => false
  end.

Fixpoint vx_consts (e:vexp) : list N :=
  match e with
  | VArgLt k | VArgGt k | VArgGe k | VArgLe k | VArgEq k => [k]
  | VNot a => vx_consts a
  | VOr a b | VAnd a b => vx_consts a ++ vx_consts b
  | _ => []
  end.

Definition is_nil {A} (l:list A) : bool := match l with [] => true | _ => false end.

(** what the template means: valid = no problem recorded *)
Definition tpl_conds_valid (t:validate_tpl) (cs:list cnd) : bool :=
  negb (existsb (fun e => vx_eval e (is_nil cs) 0 false) (vt_list t)) &&
  forallb (fun c => negb (existsb (fun e => vx_eval e false (c_arg c) (negb (op_valid (c_op c)))) (vt_each t))) cs.

(** *** deciding "the template means conds_valid" by evaluation at finitely many argument indices *)
Definition reps (ks:list N) : list N := 0 :: flat_map (fun k => [k - 1; k; k + 1]) ks.

Definition each_problem (es:list vexp) (a:N) (ob:bool) : bool := existsb (fun e => vx_eval e false a ob) es.

Definition validate_ok (t:validate_tpl) : bool :=
  forallb vx_known (vt_list t) && forallb vx_listlevel (vt_list t) && forallb vx_known (vt_each t) &&
  existsb (fun e => vx_eval e true 0 false) (vt_list t) &&
  negb (existsb (fun e => vx_eval e false 0 false) (vt_list t)) &&
  forallb (fun a => forallb (fun ob => Bool.eqb (each_problem (vt_each t) a ob) (negb ((a <=? 5) && negb ob))) [true; false])
          (reps (5 :: flat_map vx_consts (vt_each t))).

(** the largest constant below [a] *)
Fixpoint max_below (ks:list N) (a:N) : option N :=
  match ks with
  | [] => None
  | k :: r => match max_below r a with
              | Some m => if (k <? a) && (m <? k) then Some k else Some m
              | None => if k <? a then Some k else None
              end
  end.

Lemma max_below_spec : forall ks a,
  match max_below ks a with
  | Some m => In m ks /\ m < a /\ forall k, In k ks -> k < a -> k <= m
  | None => forall k, In k ks -> a <= k
  end.
Proof.
  induction ks as [|k r IH]; intros a; cbn [max_below].
  - intros k [].
  - specialize (IH a). destruct (max_below r a) as [m|].
    + destruct IH as [Hin [Hlt Hmax]].
      destruct (k <? a) eqn:E1; cbn [andb].
      * destruct (m <? k) eqn:E2.
        -- apply N.ltb_lt in E1, E2. split; [left; reflexivity|]. split; [exact E1|].
           intros k' [<-|Hk'] Hl; [lia|]. specialize (Hmax k' Hk' Hl). lia.
        -- apply N.ltb_lt in E1. apply N.ltb_ge in E2. split; [right; exact Hin|]. split; [exact Hlt|].
           intros k' [<-|Hk'] Hl; [lia|]. apply Hmax; assumption.
      * apply N.ltb_ge in E1. split; [right; exact Hin|]. split; [exact Hlt|].
        intros k' [<-|Hk'] Hl; [lia|]. apply Hmax; assumption.
    + destruct (k <? a) eqn:E1.
      * apply N.ltb_lt in E1. split; [left; reflexivity|]. split; [exact E1|].
        intros k' [<-|Hk'] Hl; [lia|]. specialize (IH k' Hk'). lia.
      * apply N.ltb_ge in E1. intros k' [<-|Hk']; [exact E1|]. apply IH. exact Hk'.
Qed.

Definition same_side (r a k:N) : Prop := (r <? k) = (a <? k) /\ (r =? k) = (a =? k).

Lemma rep_exists : forall ks a, exists r, In r (reps ks) /\ forall k, In k ks -> same_side r a k.
Proof.
  intros ks a. destruct (existsb (N.eqb a) ks) eqn:Hmem.
  - apply existsb_exists in Hmem. destruct Hmem as [k [Hk E]]. apply N.eqb_eq in E. subst k.
    exists a. split.
    + right. apply in_flat_map. exists a. split; [exact Hk|]. right. left. reflexivity.
    + intros k _. split; reflexivity.
  - assert (Hnot: forall k, In k ks -> a <> k).
    { intros k Hk E. subst k. rewrite <- not_true_iff_false in Hmem. apply Hmem. apply existsb_exists. exists a. split; [exact Hk|apply N.eqb_refl]. }
    pose proof (max_below_spec ks a) as S. destruct (max_below ks a) as [m|].
    + destruct S as [Hin [Hlt Hmax]]. exists (m + 1). split.
      * right. apply in_flat_map. exists m. split; [exact Hin|]. right. right. left. reflexivity.
      * intros k Hk. specialize (Hnot k Hk). unfold same_side.
        destruct (N.lt_ge_cases k a) as [L|G].
        -- specialize (Hmax k Hk L).
           replace (m + 1 <? k) with false by (symmetry; apply N.ltb_ge; lia).
           replace (a <? k) with false by (symmetry; apply N.ltb_ge; lia).
           replace (m + 1 =? k) with false by (symmetry; apply N.eqb_neq; lia).
           replace (a =? k) with false by (symmetry; apply N.eqb_neq; lia). split; reflexivity.
        -- assert (a < k) by lia.
           replace (m + 1 <? k) with true by (symmetry; apply N.ltb_lt; lia).
           replace (a <? k) with true by (symmetry; apply N.ltb_lt; lia).
           replace (m + 1 =? k) with false by (symmetry; apply N.eqb_neq; lia).
           replace (a =? k) with false by (symmetry; apply N.eqb_neq; lia). split; reflexivity.
    + exists 0. split; [left; reflexivity|].
      intros k Hk. specialize (S k Hk). specialize (Hnot k Hk). unfold same_side. assert (a < k) by lia.
      replace (0 <? k) with true by (symmetry; apply N.ltb_lt; lia).
      replace (a <? k) with true by (symmetry; apply N.ltb_lt; lia).
      replace (0 =? k) with false by (symmetry; apply N.eqb_neq; lia).
      replace (a =? k) with false by (symmetry; apply N.eqb_neq; lia). split; reflexivity.
Qed.

Lemma cmp_via : forall x k,
  (k <? x) = negb (x <? k) && negb (x =? k) /\ (k <=? x) = negb (x <? k) /\ (x <=? k) = (x <? k) || (x =? k).
Proof.
  intros x k. destruct (N.compare_spec x k) as [E|L|G].
  - subst. rewrite N.ltb_irrefl, N.eqb_refl, N.leb_refl. repeat split.
  - replace (x <? k) with true by (symmetry; apply N.ltb_lt; exact L).
    replace (x =? k) with false by (symmetry; apply N.eqb_neq; lia).
    replace (k <? x) with false by (symmetry; apply N.ltb_ge; lia).
    replace (k <=? x) with false by (symmetry; apply N.leb_gt; lia).
    replace (x <=? k) with true by (symmetry; apply N.leb_le; lia). repeat split.
  - replace (x <? k) with false by (symmetry; apply N.ltb_ge; lia).
    replace (x =? k) with false by (symmetry; apply N.eqb_neq; lia).
    replace (k <? x) with true by (symmetry; apply N.ltb_lt; lia).
    replace (k <=? x) with true by (symmetry; apply N.leb_le; lia).
    replace (x <=? k) with false by (symmetry; apply N.leb_gt; lia). repeat split.
Qed.

Lemma vx_eval_same : forall e em r a ob,
  (forall k, In k (vx_consts e) -> same_side r a k) -> vx_eval e em r ob = vx_eval e em a ob.
Proof.
  induction e as [ |k|k|k|k|k| | | |e1 IH1|e1 IH1 e2 IH2|e1 IH1 e2 IH2|s]; intros em r a ob H; cbn [vx_eval vx_consts] in *; try reflexivity.
  - destruct (H k (or_introl eq_refl)) as [A B]. exact A.
  - destruct (H k (or_introl eq_refl)) as [A B]. destruct (cmp_via r k) as [-> _]. destruct (cmp_via a k) as [-> _]. rewrite A, B. reflexivity.
  - destruct (H k (or_introl eq_refl)) as [A B]. destruct (cmp_via r k) as [_ [-> _]]. destruct (cmp_via a k) as [_ [-> _]]. rewrite A. reflexivity.
  - destruct (H k (or_introl eq_refl)) as [A B]. destruct (cmp_via r k) as [_ [_ ->]]. destruct (cmp_via a k) as [_ [_ ->]]. rewrite A, B. reflexivity.
  - destruct (H k (or_introl eq_refl)) as [A B]. exact B.
  - rewrite (IH1 em r a ob H). reflexivity.
  - rewrite (IH1 em r a ob), (IH2 em r a ob); [reflexivity| |]; intros k Hk; apply H; apply in_or_app; [right|left]; exact Hk.
  - rewrite (IH1 em r a ob), (IH2 em r a ob); [reflexivity| |]; intros k Hk; apply H; apply in_or_app; [right|left]; exact Hk.
Qed.

Lemma each_problem_same : forall es r a ob,
  (forall k, In k (flat_map vx_consts es) -> same_side r a k) -> each_problem es r ob = each_problem es a ob.
Proof.
  induction es as [|e es IH]; intros r a ob H; [reflexivity|].
  unfold each_problem in *. cbn [existsb]. cbn [flat_map] in H.
  rewrite (vx_eval_same e false r a ob) by (intros k Hk; apply H; apply in_or_app; left; exact Hk).
  rewrite (IH r a ob) by (intros k Hk; apply H; apply in_or_app; right; exact Hk). reflexivity.
Qed.

Lemma listlevel_indep : forall e em a ob a' ob', vx_listlevel e = true -> vx_eval e em a ob = vx_eval e em a' ob'.
Proof.
  induction e; intros em a0 ob a' ob' H; cbn [vx_listlevel vx_eval] in *; try reflexivity; try discriminate.
  - rewrite (IHe em a0 ob a' ob' H). reflexivity.
  - apply andb_true_iff in H. destruct H as [H1 H2]. rewrite (IHe1 em a0 ob a' ob' H1), (IHe2 em a0 ob a' ob' H2). reflexivity.
  - apply andb_true_iff in H. destruct H as [H1 H2]. rewrite (IHe1 em a0 ob a' ob' H1), (IHe2 em a0 ob a' ob' H2). reflexivity.
Qed.

Lemma forallb_pointwise : forall (A:Type) (f g:A -> bool) l, (forall x, f x = g x) -> forallb f l = forallb g l.
Proof. intros A f g l H. induction l as [|x l IH]; [reflexivity|]. cbn [forallb]. rewrite H, IH. reflexivity. Qed.

Theorem validate_ok_sound : forall t, validate_ok t = true -> forall cs, tpl_conds_valid t cs = conds_valid cs.
Proof.
  intros t H cs. unfold validate_ok in H.
  repeat (apply andb_true_iff in H; destruct H as [H ?]).
  match goal with Hx : forallb _ (reps _) = true |- _ => rename Hx into Heach end.
  match goal with Hx : negb (existsb _ (vt_list t)) = true |- _ => rename Hx into Hne end.
  match goal with Hx : existsb (fun e => vx_eval e true 0 false) (vt_list t) = true |- _ => rename Hx into Hem end.
  unfold tpl_conds_valid, conds_valid. f_equal.
  - destruct cs as [|c cs]; cbn [is_nil].
    + rewrite Hem. reflexivity.
    + apply negb_true_iff in Hne. rewrite Hne. reflexivity.
  - apply forallb_pointwise. intros c.
    assert (E: each_problem (vt_each t) (c_arg c) (negb (op_valid (c_op c))) = negb ((c_arg c <=? 5) && negb (negb (op_valid (c_op c))))).
    { destruct (rep_exists (5 :: flat_map vx_consts (vt_each t)) (c_arg c)) as [r [Hr Hs]].
      rewrite forallb_forall in Heach. specialize (Heach r Hr). rewrite forallb_forall in Heach.
      assert (Hob: In (negb (op_valid (c_op c))) [true; false]) by (destruct (op_valid (c_op c)); cbn; auto).
      specialize (Heach _ Hob). apply Bool.eqb_prop in Heach.
      rewrite <- (each_problem_same (vt_each t) r (c_arg c)) by (intros k Hk; apply Hs; right; exact Hk).
      rewrite Heach. destruct (Hs 5 (or_introl eq_refl)) as [A B].
      destruct (cmp_via r 5) as [_ [_ ->]]. destruct (cmp_via (c_arg c) 5) as [_ [_ ->]]. rewrite A, B. reflexivity. }
    unfold each_problem in E. rewrite E. rewrite negb_involutive. rewrite negb_involutive. reflexivity.
Qed.

Definition expected_validate_template : validate_tpl :=
  {| vt_list := [VLenZero]; vt_each := [VOr (VArgLt 0) (VArgGt 5); VOpInvalid] |}.
Example expected_validate_ok : validate_ok expected_validate_template = true.
Proof. vm_compute. reflexivity. Qed.
(* variants that mean the same / something else *)
Example variant_ge6_ok : validate_ok {| vt_list := [VLenZero]; vt_each := [VNot (VAnd (VNot (VOpInvalid)) (VNot (VArgGe 6)))] |} = true.
Proof. vm_compute. reflexivity. Qed.
Example variant_gt6_bad : validate_ok {| vt_list := [VLenZero]; vt_each := [VArgGt 6; VOpInvalid] |} = false.
Proof. vm_compute. reflexivity. Qed.


(** ** Operation.valid as a regenerated template, and the Go-level reading of an Operation value *)
Inductive opvalid_tpl := OVMemberExact (list_name:string) | OVOther (src:string).

(** the model's operation of a Go Operation value (a string): one of the eight constants, or anything else *)
Definition documented_operations : list (string * op) :=
  [("Equal", OpEq); ("NotEqual", OpNe); ("GreaterThan", OpGt); ("LessThan", OpLt); ("GreaterOrEqual", OpGe);
   ("LessOrEqual", OpLe); ("BitsSet", OpSet); ("BitsNotSet", OpNSet)]%string.
Fixpoint assoc_op (l:list (string * op)) (s:string) : op :=
  match l with [] => OpOther | (k, o) :: r => if String.eqb s k then o else assoc_op r s end.
Definition op_of_go_string (s:string) : op := assoc_op documented_operations s.

Definition same_members (a b:list string) : bool :=
  forallb (fun x => existsb (String.eqb x) b) a && forallb (fun x => existsb (String.eqb x) a) b.

Lemma existsb_same_members : forall a b s, same_members a b = true -> existsb (String.eqb s) a = existsb (String.eqb s) b.
Proof.
  intros a b s H. apply andb_true_iff in H. destruct H as [H1 H2]. rewrite forallb_forall in H1, H2.
  destruct (existsb (String.eqb s) a) eqn:Ea.
  - apply existsb_exists in Ea. destruct Ea as [x [Hx E]]. apply String.eqb_eq in E. subst x. symmetry. exact (H1 s Hx).
  - destruct (existsb (String.eqb s) b) eqn:Eb; [|reflexivity].
    apply existsb_exists in Eb. destruct Eb as [x [Hx E]]. apply String.eqb_eq in E. subst x. rewrite (H2 s Hx) in Ea. discriminate.
Qed.

Lemma op_valid_documented : forall s, op_valid (op_of_go_string s) = existsb (String.eqb s) (map fst documented_operations).
Proof.
  intros s. unfold op_of_go_string, documented_operations. cbn [assoc_op map fst existsb].
  repeat match goal with |- context [String.eqb s ?k] => destruct (String.eqb s k); [reflexivity|] end. reflexivity.
Qed.

(** Operation.valid - membership in the regenerated list [ops] - says exactly "one of the eight constants" *)
Theorem member_exact_is_op_valid : forall ops, same_members ops (map fst documented_operations) = true ->
  forall s, existsb (String.eqb s) ops = op_valid (op_of_go_string s).
Proof. intros ops H s. rewrite op_valid_documented. apply existsb_same_members. exact H. Qed.
