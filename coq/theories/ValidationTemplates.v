(** * ValidationTemplates: the loops of SyscallGroup.toSyscallsWithConditions as REGENERATED decision templates
    (gen/GenCodegen.v: [names_loop_template], [nwc_loop_template]) and their meaning as transformers of the entry
    list and the "problem recorded" flag. The expected templates mean exactly [names_loop] / [nwc_loop] of Policy.v. *)
From Coq Require Import List NArith Bool String.
From Seccomp Require Import Words Machine Result Assembler Policy.
Import ListNotations.
Open Scope N_scope.
Open Scope list_scope.

Inductive vcond := VCFound | VCNoEntry | VCInvalid | VCEntryUnconditional | VCOther (src:string).
Inductive vstmt :=
| VLetMasked | VLetCheck | VLetInvalid | VLetSingleton          (* bindings: syscall, check, invalidArguments, conditions *)
| VAppendUnconditional | VAppendConditional | VAddAlternative
| VProblem | VContinue
| VIf (c:vcond) (a b:list vstmt)
| VUnknown (src:string).

Section Interp.
Variable fnd : option N.           (* g.arch.SyscallNames[name]: the number, if found *)
Variable masked : N.               (* uint32(num | g.arch.SeccompMask) *)
Variable conds : list cnd.         (* nc.Conditions (unused in the loop over g.Names) *)

Definition vcond_holds (c:vcond) (es:list entry) : option bool :=
  match c with
  | VCFound => Some (match fnd with Some _ => true | None => false end)
  | VCNoEntry => Some (match get_syscall es masked with None => true | Some _ => false end)
  | VCInvalid => Some (negb (conds_valid conds))
  | VCEntryUnconditional => Some (match get_syscall es masked with Some (EU _) => true | _ => false end)
  | VCOther _ => None
  end.

(** one iteration of a loop body: (entries, problem flag) -> (entries', flag', continue-d) *)
Fixpoint run_v (fuel:nat) (stmts:list vstmt) (es:list entry) (bad:bool) : option (list entry * bool * bool) :=
  match fuel with
  | O => None
  | S fuel' =>
    match stmts with
    | [] => Some (es, bad, false)
    | s :: rest =>
      match s with
      | VLetMasked | VLetCheck | VLetInvalid | VLetSingleton => run_v fuel' rest es bad
      | VAppendUnconditional => run_v fuel' rest (es ++ [EU masked]) bad
      | VAppendConditional => run_v fuel' rest (es ++ [EC masked [conds]]) bad
      | VAddAlternative => run_v fuel' rest (add_list es masked conds) bad
      | VProblem => run_v fuel' rest es true
      | VContinue => Some (es, bad, true)
      | VIf c a b =>
          match vcond_holds c es with
          | Some g => match run_v fuel' (if g then a else b) es bad with
                      | Some (es', bad', true) => Some (es', bad', true)
                      | Some (es', bad', false) => run_v fuel' rest es' bad'
                      | None => None
                      end
          | None => None
          end
      | VUnknown _ => None
      end
    end
  end.
End Interp.

Definition masked_of (ai:arch_info) (fnd:option N) : N := match fnd with Some num => sysnum ai num | None => 0 end.

Fixpoint names_by_template (ai:arch_info) (tpl:list vstmt) (names:list string) (es:list entry) (bad:bool) : option (list entry * bool) :=
  match names with
  | [] => Some (es, bad)
  | name :: rest =>
      let fnd := lookup_name (ai_table ai) name in
      match run_v fnd (masked_of ai fnd) [] 10 tpl es bad with
      | Some (es', bad', _) => names_by_template ai tpl rest es' bad'
      | None => None
      end
  end.

Fixpoint nwc_by_template (ai:arch_info) (tpl:list vstmt) (ncs:list nwc) (es:list entry) (bad:bool) : option (list entry * bool) :=
  match ncs with
  | [] => Some (es, bad)
  | nc :: rest =>
      let fnd := lookup_name (ai_table ai) (nc_name nc) in
      match run_v fnd (masked_of ai fnd) (nc_conds nc) 10 tpl es bad with
      | Some (es', bad', _) => nwc_by_template ai tpl rest es' bad'
      | None => None
      end
  end.

(** normal form produced by the translator: bindings left out, guard clauses and negated conditions rendered as if/else *)
Definition expected_names_template : list vstmt :=
  [VIf VCFound [VIf VCNoEntry [VAppendUnconditional] [VProblem]] [VProblem]].
Definition expected_nwc_template : list vstmt :=
  [VIf VCFound [VIf VCInvalid [VProblem] [VIf VCNoEntry [VAppendConditional] [VIf VCEntryUnconditional [VProblem] [VAddAlternative]]]] [VProblem]].

(** one-step unfolding equations (by computation); normalising [run_v] on a stuck condition would explore every branch *)
Section Steps.
Variables (fnd:option N) (mk:N) (conds:list cnd).
Lemma v_nil f es bad : run_v fnd mk conds (S f) [] es bad = Some (es, bad, false).
Proof. reflexivity. Qed.
Lemma v_if f c a b rest es bad g : vcond_holds fnd mk conds c es = Some g ->
  run_v fnd mk conds (S f) (VIf c a b :: rest) es bad =
  match run_v fnd mk conds f (if g then a else b) es bad with
  | Some (es', bad', true) => Some (es', bad', true)
  | Some (es', bad', false) => run_v fnd mk conds f rest es' bad'
  | None => None
  end.
Proof. intros H. cbn [run_v]. rewrite H. reflexivity. Qed.
Lemma v_let1 f rest es bad : run_v fnd mk conds (S f) (VLetMasked :: rest) es bad = run_v fnd mk conds f rest es bad.
Proof. reflexivity. Qed.
Lemma v_let2 f rest es bad : run_v fnd mk conds (S f) (VLetCheck :: rest) es bad = run_v fnd mk conds f rest es bad.
Proof. reflexivity. Qed.
Lemma v_let3 f rest es bad : run_v fnd mk conds (S f) (VLetInvalid :: rest) es bad = run_v fnd mk conds f rest es bad.
Proof. reflexivity. Qed.
Lemma v_let4 f rest es bad : run_v fnd mk conds (S f) (VLetSingleton :: rest) es bad = run_v fnd mk conds f rest es bad.
Proof. reflexivity. Qed.
Lemma v_app_u f rest es bad : run_v fnd mk conds (S f) (VAppendUnconditional :: rest) es bad = run_v fnd mk conds f rest (es ++ [EU mk]) bad.
Proof. reflexivity. Qed.
Lemma v_app_c f rest es bad : run_v fnd mk conds (S f) (VAppendConditional :: rest) es bad = run_v fnd mk conds f rest (es ++ [EC mk [conds]]) bad.
Proof. reflexivity. Qed.
Lemma v_add f rest es bad : run_v fnd mk conds (S f) (VAddAlternative :: rest) es bad = run_v fnd mk conds f rest (add_list es mk conds) bad.
Proof. reflexivity. Qed.
Lemma v_problem f rest es bad : run_v fnd mk conds (S f) (VProblem :: rest) es bad = run_v fnd mk conds f rest es true.
Proof. reflexivity. Qed.
Lemma v_continue f rest es bad : run_v fnd mk conds (S f) (VContinue :: rest) es bad = Some (es, bad, true).
Proof. reflexivity. Qed.
End Steps.

Ltac vstep :=
  repeat first [ rewrite v_nil | rewrite v_let1 | rewrite v_let2 | rewrite v_let3 | rewrite v_let4 | rewrite v_app_u | rewrite v_app_c
               | rewrite v_add | rewrite v_problem | rewrite v_continue ].

Theorem expected_names_is_names_loop ai : forall names es bad,
  names_by_template ai expected_names_template names es bad = Some (names_loop ai names es bad).
Proof.
  induction names as [|name rest IH]; intros es bad; [reflexivity|].
  cbn [names_by_template names_loop]. unfold expected_names_template.
  destruct (lookup_name (ai_table ai) name) as [num|].
  - cbn [masked_of]. rewrite (v_if _ _ _ _ _ _ _ _ _ _ true) by reflexivity.
    destruct (get_syscall es (sysnum ai num)) as [e|] eqn:G.
    + rewrite (v_if _ _ _ _ _ _ _ _ _ _ false) by (cbn [vcond_holds]; rewrite G; reflexivity). vstep. apply IH.
    + rewrite (v_if _ _ _ _ _ _ _ _ _ _ true) by (cbn [vcond_holds]; rewrite G; reflexivity). vstep. apply IH.
  - rewrite (v_if _ _ _ _ _ _ _ _ _ _ false) by reflexivity. vstep. apply IH.
Qed.

Theorem expected_nwc_is_nwc_loop ai : forall ncs es bad,
  nwc_by_template ai expected_nwc_template ncs es bad = Some (nwc_loop ai ncs es bad).
Proof.
  induction ncs as [|nc rest IH]; intros es bad; [reflexivity|].
  cbn [nwc_by_template nwc_loop]. unfold expected_nwc_template.
  destruct (lookup_name (ai_table ai) (nc_name nc)) as [num|].
  - cbn [masked_of]. rewrite (v_if _ _ _ _ _ _ _ _ _ _ true) by reflexivity.
    destruct (conds_valid (nc_conds nc)) eqn:V; cbn [negb].
    + rewrite (v_if _ _ _ _ _ _ _ _ _ _ false) by (cbn [vcond_holds]; rewrite V; reflexivity).
      destruct (get_syscall es (sysnum ai num)) as [[n0|n0 ls0]|] eqn:G.
      * rewrite (v_if _ _ _ _ _ _ _ _ _ _ false) by (cbn [vcond_holds]; rewrite G; reflexivity).
        rewrite (v_if _ _ _ _ _ _ _ _ _ _ true) by (cbn [vcond_holds]; rewrite G; reflexivity). vstep. apply IH.
      * rewrite (v_if _ _ _ _ _ _ _ _ _ _ false) by (cbn [vcond_holds]; rewrite G; reflexivity).
        rewrite (v_if _ _ _ _ _ _ _ _ _ _ false) by (cbn [vcond_holds]; rewrite G; reflexivity). vstep. apply IH.
      * rewrite (v_if _ _ _ _ _ _ _ _ _ _ true) by (cbn [vcond_holds]; rewrite G; reflexivity). vstep. apply IH.
    + rewrite (v_if _ _ _ _ _ _ _ _ _ _ true) by (cbn [vcond_holds]; rewrite V; reflexivity). vstep. apply IH.
  - rewrite (v_if _ _ _ _ _ _ _ _ _ _ false) by reflexivity. vstep. apply IH.
Qed.

(** toSyscallsWithConditions as a whole: both loops, then `if len(problems) > 0 { error }` *)
Definition to_syscalls_by_template (ai:arch_info) (ntpl wtpl:list vstmt) (g:group) : option (res (list entry)) :=
  match names_by_template ai ntpl (g_names g) [] false with
  | Some (es1, bad1) =>
      match nwc_by_template ai wtpl (g_nwc g) es1 bad1 with
      | Some (es2, bad2) => Some (if bad2 then Error EProblems else Ok es2)
      | None => None
      end
  | None => None
  end.

Theorem expected_templates_are_to_syscalls ai g :
  to_syscalls_by_template ai expected_names_template expected_nwc_template g = Some (to_syscalls ai g).
Proof.
  unfold to_syscalls_by_template, to_syscalls. rewrite expected_names_is_names_loop.
  destruct (names_loop ai (g_names g) [] false) as [es1 bad1]. rewrite expected_nwc_is_nwc_loop.
  destruct (nwc_loop ai (g_nwc g) es1 bad1) as [es2 bad2]. reflexivity.
Qed.
