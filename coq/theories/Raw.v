(** * Raw: struct sock_filter, the encoder of golang.org/x/net/bpf (v0.24.0) for the four instruction kinds
    the library emits, and the classic-BPF semantics of the raw opcodes involved. *)
From Coq Require Import List NArith Bool Lia.
From Seccomp Require Import Words Machine.
Import ListNotations.
Open Scope N_scope.

Record sock_filter := { sf_code : N; sf_jt : N; sf_jf : N; sf_k : N }.

(** opcodes (linux/bpf_common.h) *)
Definition BPF_LD_W_ABS : N := 32.   (* 0x20 *)
Definition BPF_JMP_JA : N := 5.      (* 0x05 *)
Definition BPF_JMP_JEQ_K : N := 21.  (* 0x15 *)
Definition BPF_JMP_JGT_K : N := 37.  (* 0x25 *)
Definition BPF_JMP_JGE_K : N := 53.  (* 0x35 *)
Definition BPF_JMP_JSET_K : N := 69. (* 0x45 *)
Definition BPF_RET_K : N := 6.       (* 0x06 *)

(** bpf.jumpToRaw: the raw opcode of a test and whether jt/jf are exchanged *)
Definition jump_raw (c:cond) : N * bool :=
  match c with
  | JEq => (BPF_JMP_JEQ_K, false) | JNe => (BPF_JMP_JEQ_K, true)
  | JGt => (BPF_JMP_JGT_K, false) | JLt => (BPF_JMP_JGE_K, true)
  | JGe => (BPF_JMP_JGE_K, false) | JLe => (BPF_JMP_JGT_K, true)
  | JSet => (BPF_JMP_JSET_K, false) | JNSet => (BPF_JMP_JSET_K, true)
  end.

(** bpf.Assemble on one instruction (LoadAbsolute{Size:4}, JumpIf, Jump, RetConstant); it cannot fail on these *)
Definition encode (i:instr) : sock_filter :=
  match i with
  | ILd off => {| sf_code := BPF_LD_W_ABS; sf_jt := 0; sf_jf := 0; sf_k := off |}
  | IJmpIf c k jt jf =>
      let '(code, flip) := jump_raw c in
      {| sf_code := code; sf_jt := if flip then jf else jt; sf_jf := if flip then jt else jf; sf_k := k |}
  | IJa s => {| sf_code := BPF_JMP_JA; sf_jt := 0; sf_jf := 0; sf_k := s |}
  | IRet v => {| sf_code := BPF_RET_K; sf_jt := 0; sf_jf := 0; sf_k := v |}
  end.

(** struct sock_fprog as LoadFilter builds it: Len is uint16(len(filter)) *)
Definition fprog_len (p:list instr) : N := N.of_nat (length p) mod 65536.

(** classic BPF semantics of the raw opcodes above; every other opcode is outside this model: fault *)
Section RunRaw.
Variable ld : N -> option N.

Fixpoint run_raw (p:list sock_filter) (k:N) (a:N) : out :=
  match p with
  | [] => OEnd (Skip k) a
  | i :: r =>
    if k =? 0 then
      let c := sf_code i in
      if c =? BPF_LD_W_ABS then match ld (sf_k i) with Some w => run_raw r 0 w | None => OFault end
      else if c =? BPF_JMP_JA then run_raw r (sf_k i) a
      else if c =? BPF_JMP_JEQ_K then run_raw r (if a =? sf_k i then sf_jt i else sf_jf i) a
      else if c =? BPF_JMP_JGT_K then run_raw r (if sf_k i <? a then sf_jt i else sf_jf i) a
      else if c =? BPF_JMP_JGE_K then run_raw r (if sf_k i <=? a then sf_jt i else sf_jf i) a
      else if c =? BPF_JMP_JSET_K then run_raw r (if negb (N.land a (sf_k i) =? 0) then sf_jt i else sf_jf i) a
      else if c =? BPF_RET_K then ORet (sf_k i)
      else OFault
    else run_raw r (N.pred k) a
  end.
End RunRaw.
