(** * ProfilerProofs: C17 (the cache of disassemblies is never trusted when incomplete) and
    C18 (the profile is (found - blacklisted) + allowed, sorted, duplicate-free, and decides as an allow-list)
    over the model of Profiler.v. *)
From Coq Require Import List NArith Bool String Ascii Permutation Sorting Lia.
From Seccomp Require Import Words Result Machine Policy Spec Tables CompileProofs CoreTheorems Profiler.
Import ListNotations.
Open Scope N_scope.
Open Scope list_scope.

(** * Byte strings *)
Lemma sapp_nil_r s : (s ++ "")%string = s.
Proof. induction s as [|c r IH]; cbn [append]; [reflexivity|rewrite IH; reflexivity]. Qed.
Lemma sapp_assoc a b c : ((a ++ b) ++ c)%string = (a ++ (b ++ c))%string.
Proof. induction a as [|x r IH]; cbn [append]; [reflexivity|rewrite IH; reflexivity]. Qed.
Lemma is_empty_spec s : is_empty s = true -> s = EmptyString.
Proof. destruct s; [reflexivity|discriminate]. Qed.
Lemma stake_sdrop n s : (stake n s ++ sdrop n s)%string = s.
Proof.
  revert n. induction s as [|c r IH]; intros n; cbn [stake sdrop]; [reflexivity|].
  destruct (n =? 0); cbn [append]; [reflexivity|rewrite IH; reflexivity].
Qed.
Lemma slen_app a b : slen (a ++ b) = slen a + slen b.
Proof. induction a as [|x r IH]; cbn [append slen]; [reflexivity|rewrite IH; lia]. Qed.
Lemma stake_exact a b : stake (slen a) (a ++ b) = a.
Proof.
  induction a as [|x r IH]; cbn [append slen].
  - destruct b; cbn [stake]; reflexivity.
  - cbn [stake]. replace (N.succ (slen r) =? 0) with false by (symmetry; apply N.eqb_neq; lia).
    rewrite N.pred_succ, IH. reflexivity.
Qed.
Lemma sconcat_app l1 l2 : sconcat (l1 ++ l2) = (sconcat l1 ++ sconcat l2)%string.
Proof. induction l1 as [|x r IH]; cbn [app sconcat append]; [reflexivity|rewrite IH, sapp_assoc; reflexivity]. Qed.

(** * The directory *)
Lemma fname_eqb_eq a b : fname_eqb a b = true <-> a = b.
Proof.
  destruct a as [p|p x], b as [q|q y]; cbn [fname_eqb]; split; intros H; try discriminate.
  - apply N.eqb_eq in H. congruence.
  - injection H as ->. apply N.eqb_refl.
  - apply andb_true_iff in H. destruct H as [H1 H2]. apply N.eqb_eq in H1, H2. congruence.
  - injection H as -> ->. rewrite !N.eqb_refl. reflexivity.
Qed.
Lemma fname_eqb_refl a : fname_eqb a a = true.
Proof. apply fname_eqb_eq. reflexivity. Qed.
Lemma fname_eqb_neq a b : a <> b -> fname_eqb a b = false.
Proof. intros H. destruct (fname_eqb a b) eqn:E; [apply fname_eqb_eq in E; contradiction|reflexivity]. Qed.

Lemma fs_get_remove d f g : fs_get (fs_remove d f) g = if fname_eqb f g then None else fs_get d g.
Proof.
  induction d as [|[h c] r IH]; cbn [fs_remove fs_get]; [destruct (fname_eqb f g); reflexivity|].
  destruct (fname_eqb h f) eqn:E1.
  - apply fname_eqb_eq in E1. subst h. rewrite IH. destruct (fname_eqb f g); reflexivity.
  - cbn [fs_get]. rewrite IH. destruct (fname_eqb h g) eqn:E2; [|reflexivity].
    apply fname_eqb_eq in E2. subst h. rewrite fname_eqb_neq; [reflexivity|].
    intros ->. rewrite fname_eqb_refl in E1. discriminate.
Qed.
Lemma fs_get_set d f c g : fs_get (fs_set d f c) g = if fname_eqb f g then Some c else fs_get d g.
Proof. unfold fs_set. cbn [fs_get]. rewrite fs_get_remove. destruct (fname_eqb f g); reflexivity. Qed.

(** operations that do not name a final cache file *)
Definition is_temp (f:fname) : Prop := match f with Temp _ _ => True | Final _ => False end.
Definition temp_only (o:op) : Prop :=
  match o with
  | OCreate f | OAppend f _ | ORemove f => is_temp f
  | ORename _ _ => False
  end.

Lemma temp_only_final d o p : temp_only o -> fs_get (apply_op d o) (Final p) = fs_get d (Final p).
Proof.
  destruct o as [f|f bs|a b|f]; cbn [temp_only apply_op]; intros H; try contradiction;
    destruct f as [q|q x]; cbn [is_temp] in H; try contradiction.
  - rewrite fs_get_set. reflexivity.
  - destruct (fs_get d (Temp q x)); [rewrite fs_get_set|]; reflexivity.
  - rewrite fs_get_remove. reflexivity.
Qed.
Lemma temp_only_ops_final ops : Forall temp_only ops -> forall d p, fs_get (apply_ops d ops) (Final p) = fs_get d (Final p).
Proof.
  unfold apply_ops. induction ops as [|o r IH]; intros H d p; [reflexivity|].
  inversion H as [|? ? Ho Hr]; subst. cbn [fold_left]. rewrite (IH Hr). apply temp_only_final. exact Ho.
Qed.
Lemma apply_ops_app d a b : apply_ops d (a ++ b) = apply_ops (apply_ops d a) b.
Proof. unfold apply_ops. apply fold_left_app. Qed.

(** * What an interruption can leave applied: a prefix of the operations, the last write possibly cut short *)
Inductive op_prefix : list op -> list op -> Prop :=
| PNil ops : op_prefix [] ops
| PCons o a b : op_prefix a b -> op_prefix (o :: a) (o :: b)
| PPart f bs n r : op_prefix [OAppend f (stake n bs)] (OAppend f bs :: r).

Lemma op_prefix_refl a : op_prefix a a.
Proof. induction a; constructor; assumption. Qed.
Lemma op_prefix_app_r a b c : op_prefix a b -> op_prefix a (b ++ c).
Proof. induction 1; cbn [app]; constructor; assumption. Qed.
Lemma op_prefix_app_l a b c : op_prefix b c -> op_prefix (a ++ b) (a ++ c).
Proof. induction a; cbn [app]; intros; [assumption|constructor; auto]. Qed.

Lemma op_prefix_split x a b : op_prefix x (a ++ b) -> op_prefix x a \/ exists y, x = a ++ y /\ op_prefix y b.
Proof.
  revert x. induction a as [|o a IH]; intros x H; cbn [app] in H.
  - right. exists x. split; [reflexivity|exact H].
  - inversion H as [|? x' ? Hx|]; subst.
    + left. constructor.
    + destruct (IH _ Hx) as [Hl|[y [-> Hy]]]; [left; constructor; exact Hl|right; exists y; split; [reflexivity|exact Hy]].
    + left. constructor.
Qed.

Lemma op_prefix_temp_only x a : op_prefix x a -> Forall temp_only a -> Forall temp_only x.
Proof.
  induction 1 as [|o a b H IH|f bs n r]; intros Ha; [constructor| |].
  - inversion Ha; subst. constructor; auto.
  - inversion Ha; subst. constructor; [assumption|constructor].
Qed.

Lemma cut_prefix i j ops : op_prefix (cut i j ops) ops.
Proof.
  unfold cut. revert i. induction ops as [|o r IH]; intros i.
  - destruct i; cbn; constructor.
  - destruct i as [|i]; cbn [firstn nth_error app].
    + destruct o; try constructor.
    + constructor. apply IH.
Qed.
Lemma cut_at_size_prefix lim ops : forall sz, op_prefix (cut_at_size lim sz ops) ops.
Proof.
  induction ops as [|o r IH]; intros sz; cbn [cut_at_size]; [constructor|].
  destruct o; try (constructor; apply IH).
  destruct (sz + slen bs <=? lim); constructor. apply IH.
Qed.

Section Cache.
Variable bufsize : N.
(** T1/H1: the complete disassembly of the binary with a given hash *)
Variable dump_of : string -> string.

(** * The writer loses nothing and invents nothing *)
Lemma bw_write_string_concat buf s ws b :
  bw_write_string bufsize buf s = (ws, b) -> (sconcat ws ++ b)%string = (buf ++ s)%string.
Proof.
  unfold bw_write_string. destruct (slen s <=? bufsize - slen buf).
  - intros H. injection H as <- <-. reflexivity.
  - destruct (is_empty buf) eqn:E.
    + intros H. injection H as <- <-. apply is_empty_spec in E. subst buf. cbn [sconcat append]. rewrite !sapp_nil_r. reflexivity.
    + destruct (slen (sdrop (bufsize - slen buf) s) <=? bufsize); intros H; injection H as <- <-; cbn [sconcat];
        rewrite ?sapp_nil_r, !sapp_assoc, ?stake_sdrop; reflexivity.
Qed.
Lemma bw_read_chunk_concat buf c ws b :
  bw_read_chunk bufsize buf c = (ws, b) -> (sconcat ws ++ b)%string = (buf ++ c)%string.
Proof.
  unfold bw_read_chunk. destruct (is_empty c) eqn:Ec.
  - intros H. injection H as <- <-. apply is_empty_spec in Ec. subst c. cbn [sconcat append]. rewrite sapp_nil_r. reflexivity.
  - destruct (is_empty buf) eqn:E.
    + intros H. injection H as <- <-. apply is_empty_spec in E. subst buf. cbn [sconcat append]. rewrite !sapp_nil_r. reflexivity.
    + destruct (slen c <? bufsize - slen buf); [intros H; injection H as <- <-; reflexivity|].
      destruct (is_empty (sdrop (bufsize - slen buf) c)) eqn:Er; intros H; injection H as <- <-; cbn [sconcat].
      * apply is_empty_spec in Er. rewrite !sapp_nil_r. rewrite <- (stake_sdrop (bufsize - slen buf) c) at 2. rewrite Er, sapp_nil_r. reflexivity.
      * rewrite !sapp_nil_r, sapp_assoc, stake_sdrop. reflexivity.
Qed.
Lemma bw_read_chunks_concat cs : forall buf ws b,
  bw_read_chunks bufsize buf cs = (ws, b) -> (sconcat ws ++ b)%string = (buf ++ sconcat cs)%string.
Proof.
  induction cs as [|c r IH]; intros buf ws b; cbn [bw_read_chunks sconcat].
  - intros H. injection H as <- <-. cbn [sconcat append]. rewrite sapp_nil_r. reflexivity.
  - destruct (bw_read_chunk bufsize buf c) as [w1 b1] eqn:E1. destruct (bw_read_chunks bufsize b1 r) as [w2 b2] eqn:E2.
    intros H. injection H as <- <-. rewrite sconcat_app, sapp_assoc, (IH _ _ _ E2), <- sapp_assoc, (bw_read_chunk_concat _ _ _ _ E1).
    apply sapp_assoc.
Qed.
Lemma bw_flush_concat b : sconcat (bw_flush b) = b.
Proof. unfold bw_flush. destruct (is_empty b) eqn:E; cbn [sconcat]; [apply is_empty_spec in E; auto|apply sapp_nil_r]. Qed.

(** everything the hash line and the disassembler supplied reaches the file once the buffer is flushed *)
Lemma writes_of_concat c ws b : r_tool c <> TMissing -> writes_of bufsize c = (ws, b) ->
  sconcat (ws ++ bw_flush b) = (hashline (r_hash c) ++ sconcat (r_chunks c))%string.
Proof.
  unfold writes_of. destruct (bw_write_string bufsize "" (hashline (r_hash c))) as [w1 b1] eqn:E1.
  intros Ht. destruct (bw_read_chunks bufsize b1 (r_chunks c)) as [w2 b2] eqn:E2.
  intros H. assert (H': ws = w1 ++ w2 /\ b = b2) by (destruct (r_tool c); [injection H as <- <-; auto|injection H as <- <-; auto|contradiction]).
  destruct H' as [-> ->]. rewrite !sconcat_app, bw_flush_concat, sapp_assoc, (bw_read_chunks_concat _ _ _ _ E2), <- sapp_assoc.
  rewrite (bw_write_string_concat _ _ _ _ E1). reflexivity.
Qed.

(** * Well-formed runs (assumptions H1 and T1) *)
Definition wf_cfg (c:run_cfg) : Prop :=
  slen (r_hash c) = 64 /\ (r_tool c = TOk -> sconcat (r_chunks c) = dump_of (r_hash c)).
Definition wf_hrun (h:hrun) : Prop := wf_cfg (hrun_cfg h).

Definition complete_dump (h:string) : string := (hashline h ++ dump_of h)%string.

(** * The invariant: every file under a final cache name is complete for the hash in its first line *)
Definition cache_ok (d:fs) : Prop :=
  forall p content, fs_get d (Final p) = Some content -> exists h, slen h = 64 /\ content = complete_dump h.

Lemma cache_ok_empty : cache_ok [].
Proof. intros p content H. discriminate H. Qed.

Lemma temp_only_ops_preserve ops d : Forall temp_only ops -> cache_ok d -> cache_ok (apply_ops d ops).
Proof. intros H Hd p content Hg. rewrite (temp_only_ops_final ops H) in Hg. exact (Hd p content Hg). Qed.

(** the content of the temporary file after CreateTemp and a list of writes *)
Lemma appends_content t ws : forall d c0, fs_get d t = Some c0 ->
  fs_get (apply_ops d (appends t ws)) t = Some (c0 ++ sconcat ws)%string.
Proof.
  unfold apply_ops, appends. induction ws as [|w r IH]; intros d c0 H; cbn [map fold_left sconcat].
  - rewrite sapp_nil_r. exact H.
  - cbn [apply_op]. rewrite H. rewrite (IH _ (c0 ++ w)%string); [rewrite sapp_assoc; reflexivity|].
    rewrite fs_get_set, fname_eqb_refl. reflexivity.
Qed.
Lemma appends_temp_only p x ws : Forall temp_only (appends (Temp p x) ws).
Proof. unfold appends. apply Forall_forall. intros o H. apply in_map_iff in H. destruct H as [w [<- _]]. exact I. Qed.

(** the shape of a run's operations *)
Lemma run_ops_shape c d :
  run_ops bufsize c d = [] \/
  let t := Temp (r_path c) (r_suffix c) in
  cache_hit d c = false /\ fs_get d t = None /\
  exists ws b, writes_of bufsize c = (ws, b) /\
    ((r_tool c = TOk /\ run_ops bufsize c d = (OCreate t :: appends t (ws ++ bw_flush b)) ++ [ORename t (Final (r_path c)); ORemove t]) \/
     (r_tool c <> TOk /\ run_ops bufsize c d = OCreate t :: appends t ws ++ [ORemove t])).
Proof.
  unfold run_ops. destruct (cache_hit d c); [left; reflexivity|].
  destruct (fs_get d (Temp (r_path c) (r_suffix c))) eqn:Et; [left; reflexivity|].
  right. cbn zeta. split; [reflexivity|]. split; [reflexivity|].
  destruct (writes_of bufsize c) as [ws b]. exists ws, b. split; [reflexivity|].
  destruct (r_tool c) eqn:E; [left|right|right]; (split; [congruence|]); cbn [app]; rewrite <- ?app_assoc; reflexivity.
Qed.

(** C17, one run: whatever prefix of a run's operations is applied (complete run, crash at any point, failing or
    missing disassembler), the invariant is preserved *)
Theorem run_prefix_preserves_inv c d ops' :
  wf_cfg c -> cache_ok d -> op_prefix ops' (run_ops bufsize c d) -> cache_ok (apply_ops d ops').
Proof.
  intros [Hh Ht] Hd Hp. destruct (run_ops_shape c d) as [E|[_ [Hnone [ws [b [Hw [[Hok E]|[Hne E]]]]]]]].
  - rewrite E in Hp. inversion Hp; subst. exact Hd.
  - (* successful disassembly *)
    rewrite E in Hp. set (t := Temp (r_path c) (r_suffix c)) in *.
    assert (Hpre: Forall temp_only (OCreate t :: appends t (ws ++ bw_flush b))) by (constructor; [exact I|apply appends_temp_only]).
    destruct (op_prefix_split _ _ _ Hp) as [Hl|[y [-> Hy]]].
    + apply temp_only_ops_preserve; [|exact Hd]. eapply op_prefix_temp_only; eauto.
    + rewrite apply_ops_app.
      set (d1 := apply_ops d (OCreate t :: appends t (ws ++ bw_flush b))).
      assert (Hd1: cache_ok d1) by (apply temp_only_ops_preserve; assumption).
      assert (Hc1: fs_get d1 t = Some (complete_dump (r_hash c))).
      { unfold d1. change (OCreate t :: appends t (ws ++ bw_flush b)) with ([OCreate t] ++ appends t (ws ++ bw_flush b)).
        rewrite apply_ops_app. rewrite (appends_content t _ _ EmptyString).
        - cbn [append]. rewrite (writes_of_concat c ws b); [|congruence|exact Hw]. rewrite (Ht Hok). reflexivity.
        - unfold apply_ops. cbn [fold_left apply_op]. rewrite fs_get_set, fname_eqb_refl. reflexivity. }
      inversion Hy as [|o a' b' Hy'|]; subst; [exact Hd1|].
      assert (Hd2: cache_ok (apply_op d1 (ORename t (Final (r_path c))))).
      { cbn [apply_op]. rewrite Hc1. intros p content Hg. rewrite fs_get_set in Hg.
        destruct (fname_eqb (Final (r_path c)) (Final p)) eqn:Ep.
        - injection Hg as <-. exists (r_hash c). split; [exact Hh|reflexivity].
        - rewrite fs_get_remove in Hg. cbn [fname_eqb] in Hg. exact (Hd1 p content Hg). }
      unfold apply_ops. cbn [fold_left]. fold (apply_ops (apply_op d1 (ORename t (Final (r_path c)))) a').
      apply temp_only_ops_preserve; [|exact Hd2].
      eapply op_prefix_temp_only; [exact Hy'|]. constructor; [exact I|constructor].
  - (* failing or missing disassembler: nothing but the temporary file is touched *)
    rewrite E in Hp. apply temp_only_ops_preserve; [|exact Hd]. eapply op_prefix_temp_only; [exact Hp|].
    constructor; [exact I|]. apply Forall_app. split; [apply appends_temp_only|constructor; [exact I|constructor]].
Qed.

Lemma killed_ops_prefix c d : op_prefix (killed_ops bufsize c d) (run_ops bufsize c d).
Proof.
  unfold killed_ops, run_ops. destruct (cache_hit d c); [constructor|].
  destruct (fs_get d (Temp (r_path c) (r_suffix c))); [constructor|].
  destruct (writes_of bufsize c) as [ws b]. cbn [fst]. destruct (r_tool c); constructor; unfold appends.
  - rewrite map_app, <- app_assoc. apply op_prefix_app_r. apply op_prefix_refl.
  - apply op_prefix_app_r. apply op_prefix_refl.
  - apply op_prefix_app_r. apply op_prefix_refl.
Qed.
Lemma crash_ops_prefix cp c d : op_prefix (crash_ops bufsize cp c d) (run_ops bufsize c d).
Proof. destruct cp; cbn [crash_ops]; [apply cut_prefix|apply cut_at_size_prefix|apply killed_ops_prefix]. Qed.

(** C17, one history element *)
Lemma exec_hrun_preserves_inv h d : wf_hrun h -> cache_ok d -> cache_ok (exec_hrun bufsize d h).
Proof.
  intros Hw Hd. destruct h as [c|c cp|c cp]; cbn [exec_hrun]; unfold wf_hrun in Hw; cbn [hrun_cfg] in Hw.
  - apply (run_prefix_preserves_inv c); [exact Hw|exact Hd|apply op_prefix_refl].
  - apply (run_prefix_preserves_inv c); [exact Hw|exact Hd|apply crash_ops_prefix].
  - rewrite apply_ops_app. apply temp_only_ops_preserve; [constructor; [exact I|constructor]|].
    apply (run_prefix_preserves_inv c); [exact Hw|exact Hd|apply crash_ops_prefix].
Qed.

(** C17, every history *)
Theorem history_preserves_inv hs : forall d, Forall wf_hrun hs -> cache_ok d -> cache_ok (exec_history bufsize d hs).
Proof.
  unfold exec_history. induction hs as [|h r IH]; intros d Hw Hd; [exact Hd|].
  inversion Hw; subst. cbn [fold_left]. apply IH; [assumption|]. apply exec_hrun_preserves_inv; assumption.
Qed.

(** a run on a directory that satisfies the invariant returns the complete dump of its binary, or fails *)
Theorem run_sound c d : wf_cfg c -> r_tool c = TOk -> cache_ok d ->
  snd (run_complete bufsize c d) = Dump (complete_dump (r_hash c)) \/ snd (run_complete bufsize c d) = Failed.
Proof.
  intros [Hh Ht] Hok Hd. unfold run_complete. cbn [snd]. unfold run_outcome.
  destruct (cache_hit d c) eqn:Ehit.
  - (* the cache is used *)
    unfold cache_hit in Ehit. destruct (fs_get d (Final (r_path c))) as [content|] eqn:Eg; [|discriminate].
    left. destruct (Hd _ _ Eg) as [h [Hl ->]]. f_equal.
    apply andb_true_iff in Ehit. destruct Ehit as [_ He]. apply String.eqb_eq in He.
    unfold complete_dump, hashline in He. rewrite sapp_assoc, <- Hl, stake_exact in He. rewrite He. reflexivity.
  - destruct (fs_get d (Temp (r_path c) (r_suffix c))) eqn:Et; [right; reflexivity|]. rewrite Hok.
    destruct (run_ops_shape c d) as [E|[_ [_ [ws [b [Hw [[_ E]|[Hne _]]]]]]]]; [|rewrite E|congruence].
    + unfold run_ops in E. rewrite Ehit, Et in E. destruct (writes_of bufsize c). rewrite Hok in E. discriminate E.
    + set (t := Temp (r_path c) (r_suffix c)) in *. rewrite apply_ops_app.
      set (d1 := apply_ops d (OCreate t :: appends t (ws ++ bw_flush b))).
      assert (Hc1: fs_get d1 t = Some (complete_dump (r_hash c))).
      { unfold d1. change (OCreate t :: appends t (ws ++ bw_flush b)) with ([OCreate t] ++ appends t (ws ++ bw_flush b)).
        rewrite apply_ops_app. rewrite (appends_content t _ _ EmptyString).
        - cbn [append]. rewrite (writes_of_concat c ws b); [|congruence|exact Hw]. rewrite (Ht Hok). reflexivity.
        - unfold apply_ops. cbn [fold_left apply_op]. rewrite fs_get_set, fname_eqb_refl. reflexivity. }
      left. unfold apply_ops. cbn [fold_left apply_op]. rewrite Hc1. rewrite fs_get_remove. cbn [fname_eqb].
      rewrite fs_get_set, fname_eqb_refl. reflexivity.
Qed.

(** a run with a cold cache (empty directory) succeeds with the complete dump *)
Theorem cold_run c : wf_cfg c -> r_tool c = TOk -> snd (run_complete bufsize c []) = Dump (complete_dump (r_hash c)).
Proof.
  intros Hw Hok. destruct (run_sound c [] Hw Hok cache_ok_empty) as [H|H]; [exact H|].
  exfalso. revert H. unfold run_complete. cbn [snd]. unfold run_outcome, cache_hit. cbn [fs_get]. rewrite Hok.
  destruct (run_ops_shape c []) as [E|[_ [_ [ws [b [Hw' [[_ E]|[Hne _]]]]]]]]; [| |congruence].
  - unfold run_ops, cache_hit in E. cbn [fs_get] in E. destruct (writes_of bufsize c). rewrite Hok in E. discriminate E.
  - rewrite E. set (t := Temp (r_path c) (r_suffix c)). rewrite apply_ops_app.
    destruct (fs_get (apply_ops [] (OCreate t :: appends t (ws ++ bw_flush b))) t) as [x|] eqn:Ex.
    + unfold apply_ops at 1. cbn [fold_left apply_op]. rewrite Ex, fs_get_remove. cbn [fname_eqb].
      rewrite fs_get_set, fname_eqb_refl. discriminate.
    + exfalso. change (OCreate t :: appends t (ws ++ bw_flush b)) with ([OCreate t] ++ appends t (ws ++ bw_flush b)) in Ex.
      rewrite apply_ops_app in Ex. rewrite (appends_content t _ _ EmptyString) in Ex; [discriminate|].
      unfold apply_ops. cbn [fold_left apply_op]. rewrite fs_get_set, fname_eqb_refl. reflexivity.
Qed.

(** C17: after ANY history of complete, failing, crashed and I/O-failed runs (arbitrary binaries, arbitrary crash
    points, arbitrary output prefixes of a failing disassembler), starting from an empty cache directory, a normal
    run returns what a run with a cold cache returns, or fails. *)
Theorem second_run_sound hs c : Forall wf_hrun hs -> wf_cfg c -> r_tool c = TOk ->
  let d := exec_history bufsize [] hs in
  snd (run_complete bufsize c d) = snd (run_complete bufsize c []) \/ snd (run_complete bufsize c d) = Failed.
Proof.
  intros Hhs Hw Hok d. rewrite (cold_run c Hw Hok). apply run_sound; [exact Hw|exact Hok|].
  apply history_preserves_inv; [exact Hhs|apply cache_ok_empty].
Qed.

(** the same for the profile: whatever function of the dump the extraction is *)
Definition profile_result {P:Type} (profile_of:string -> P) (o:outcome) : option P :=
  match o with Dump x => Some (profile_of x) | Failed => None end.

Corollary second_run_profile (P:Type) (profile_of:string -> P) hs c : Forall wf_hrun hs -> wf_cfg c -> r_tool c = TOk ->
  let d := exec_history bufsize [] hs in
  profile_result profile_of (snd (run_complete bufsize c d)) = profile_result profile_of (snd (run_complete bufsize c [])) \/
  profile_result profile_of (snd (run_complete bufsize c d)) = None.
Proof.
  intros Hhs Hw Hok d. destruct (second_run_sound hs c Hhs Hw Hok) as [H|H]; fold d in H; rewrite H; [left|right]; reflexivity.
Qed.
End Cache.

(** * The protocol before the repair violates the property (defect D13) *)
Definition h64 (c:ascii) : string := Eval vm_compute in
  (fix rep (n:nat) := match n with O => EmptyString | S k => String c (rep k) end) 64%nat.
Definition d13_dump (_:string) : string :=
  ("TEXT main.a(SB) /x.go" ++ String (ascii_of_N 10) ("  x.go:1 0x1 0f05 SYSCALL" ++ String (ascii_of_N 10)
   ("TEXT main.b(SB) /x.go" ++ String (ascii_of_N 10) ("  x.go:9 0x9 0f05 SYSCALL" ++ String (ascii_of_N 10) ""))))%string.
Definition d13_partial : string := ("TEXT main.a(SB) /x.go" ++ String (ascii_of_N 10) "  x.go:1 0x1 0f05 SYSCALL")%string.
Definition d13_normal : run_cfg :=
  {| r_path := 1; r_hash := h64 "a"; r_suffix := 2; r_chunks := [d13_dump ""%string]; r_tool := TOk |}.
Definition d13_crashing : run_cfg :=
  {| r_path := 1; r_hash := h64 "a"; r_suffix := 7; r_chunks := [d13_dump ""%string]; r_tool := TOk |}.
(** first run: the disassembler exits with a non-zero status after a part of its output *)
Definition d13_failing : run_cfg :=
  {| r_path := 1; r_hash := h64 "a"; r_suffix := 1; r_chunks := [d13_partial]; r_tool := TFail |}.

Theorem old_protocol_refuted :
  exists (dump_of:string -> string) (hs:list hrun) (c:run_cfg),
    Forall (wf_hrun dump_of) hs /\ wf_cfg dump_of c /\ r_tool c = TOk /\
    exists x, snd (old_run_complete go_bufsize c (old_exec_history go_bufsize [] hs)) = Dump x /\
              x <> complete_dump dump_of (r_hash c) /\
              snd (old_run_complete go_bufsize c []) = Dump (complete_dump dump_of (r_hash c)).
Proof.
  exists d13_dump, [Complete d13_failing], d13_normal. split; [|split; [|split]].
  - constructor; [|constructor]. split; [vm_compute; reflexivity|intros H; discriminate H].
  - split; vm_compute; reflexivity.
  - reflexivity.
  - exists (hashline (h64 "a") ++ d13_partial)%string. split; [vm_compute; reflexivity|]. split; [|vm_compute; reflexivity].
    vm_compute. intros H. discriminate H.
Qed.

(** ... and so does a crash in the middle of the old protocol's writes (here: after 100 bytes) *)
Theorem old_protocol_refuted_by_crash :
  exists (dump_of:string -> string) (hs:list hrun) (c:run_cfg),
    Forall (wf_hrun dump_of) hs /\ wf_cfg dump_of c /\ r_tool c = TOk /\
    exists x, snd (old_run_complete go_bufsize c (old_exec_history go_bufsize [] hs)) = Dump x /\
              x <> complete_dump dump_of (r_hash c).
Proof.
  exists d13_dump, [Crash d13_crashing (AtSize 100)], d13_normal. split; [|split; [|split]].
  - constructor; [|constructor]. split; vm_compute; reflexivity.
  - split; vm_compute; reflexivity.
  - reflexivity.
  - eexists. split; [vm_compute; reflexivity|]. vm_compute. intros H. discriminate H.
Qed.

(** the same two histories are harmless under the repaired protocol (instances of [second_run_sound], computed) *)
Example new_protocol_on_d13_histories :
  snd (run_complete go_bufsize d13_normal (exec_history go_bufsize [] [Complete d13_failing])) = Dump (complete_dump d13_dump (h64 "a")) /\
  snd (run_complete go_bufsize d13_normal (exec_history go_bufsize [] [Crash d13_crashing (AtSize 100)])) = Dump (complete_dump d13_dump (h64 "a")) /\
  (* the crash left the temporary file behind, the failing disassembler left nothing *)
  exec_history go_bufsize [] [Crash d13_crashing (AtSize 100)] = [(Temp 1 7, stake 100 (complete_dump d13_dump (h64 "a")))] /\
  exec_history go_bufsize [] [Complete d13_failing] = [].
Proof. repeat split; vm_compute; reflexivity. Qed.

(** non-vacuity: the cache IS used - after a complete run the same binary is served from the cache without any
    operation, and a changed binary (other hash, same path) is disassembled again *)
Example cache_is_reused :
  let d := exec_history go_bufsize [] [Complete d13_normal] in
  cache_ok d13_dump d /\ d = [(Final 1, complete_dump d13_dump (h64 "a"))] /\
  run_ops go_bufsize d13_normal d = [] /\
  snd (run_complete go_bufsize d13_normal d) = Dump (complete_dump d13_dump (h64 "a")) /\
  run_ops go_bufsize {| r_path := 1; r_hash := h64 "b"; r_suffix := 3; r_chunks := [d13_dump ""%string]; r_tool := TOk |} d <> [].
Proof.
  cbn zeta. split; [apply history_preserves_inv; [repeat constructor; vm_compute; reflexivity|apply cache_ok_empty]|].
  split; [vm_compute; reflexivity|]. split; [vm_compute; reflexivity|]. split; [vm_compute; reflexivity|].
  vm_compute. intros H. discriminate H.
Qed.

(** non-vacuity of the buffer model: with 4096 bytes of buffer nothing reaches the file before 4031 bytes of
    output followed the 65-byte hash line; from then on every chunk is written through *)
Example buffer_boundary :
  let big := (fix rep (n:nat) := match n with O => EmptyString | S k => String "x" (rep k) end) in
  fst (writes_of go_bufsize {| r_path := 1; r_hash := h64 "a"; r_suffix := 1; r_chunks := [big 4030%nat]; r_tool := TFail |}) = [] /\
  map slen (fst (writes_of go_bufsize {| r_path := 1; r_hash := h64 "a"; r_suffix := 1; r_chunks := [big 4031%nat; big 7%nat]; r_tool := TFail |})) = [4096; 7] /\
  map slen (fst (writes_of go_bufsize {| r_path := 1; r_hash := h64 "a"; r_suffix := 1; r_chunks := [big 4032%nat]; r_tool := TFail |})) = [4096; 1].
Proof. cbn zeta. split; [vm_compute; reflexivity|]. split; vm_compute; reflexivity. Qed.

(** * C18: the set pipeline *)
Lemma mem_str_spec s l : mem_str s l = true <-> In s l.
Proof.
  unfold mem_str. rewrite existsb_exists. split.
  - intros [x [Hin He]]. apply String.eqb_eq in He. subst x. exact Hin.
  - intros H. exists s. split; [exact H|apply String.eqb_refl].
Qed.
Lemma mem_str_false s l : mem_str s l = false <-> ~ In s l.
Proof. rewrite <- mem_str_spec. destruct (mem_str s l); split; congruence. Qed.

(** ** The Go map keyed by syscall number *)
Lemma map_set_in m k v : forall e, In e (map_set m k v) -> e = (k, v) \/ In e m.
Proof.
  induction m as [|[k' v'] r IH]; intros e; cbn [map_set].
  - intros [<-|[]]. left. reflexivity.
  - destruct (k' =? k).
    + intros [<-|H]; [left; reflexivity|right; right; exact H].
    + intros [<-|H]; [right; left; reflexivity|]. destruct (IH e H) as [H1|H1]; [left|right; right]; exact H1.
Qed.
Lemma map_set_keys m k v x : In x (map fst (map_set m k v)) <-> x = k \/ In x (map fst m).
Proof.
  induction m as [|[k' v'] r IH]; cbn [map_set map fst In].
  - split; intros [H|[]]; left; congruence.
  - destruct (N.eqb_spec k' k) as [->|Hne]; cbn [map fst In].
    + split; [intros [H|H]; [left; congruence|right; right; exact H]|intros [H|[H|H]]; [left; congruence|left; exact H|right; exact H]].
    + rewrite IH. split; [intros [H|[H|H]]; auto|intros [H|[H|H]]; auto].
Qed.
Lemma map_set_nodup m k v : NoDup (map fst m) -> NoDup (map fst (map_set m k v)).
Proof.
  induction m as [|[k' v'] r IH]; cbn [map_set map fst]; intros H.
  - constructor; [intros []|constructor].
  - inversion H as [|? ? Hn Hr]; subst. destruct (N.eqb_spec k' k) as [->|Hne]; cbn [map fst].
    + constructor; assumption.
    + constructor; [|apply IH; exact Hr]. rewrite map_set_keys. intros [E|E]; [congruence|contradiction].
Qed.

Definition dedup_step (m:list (N * string)) (s:N * string) := map_set m (fst s) (snd s).
Lemma dedup_acc_nodup found : forall m, NoDup (map fst m) -> NoDup (map fst (fold_left dedup_step found m)).
Proof. induction found as [|s r IH]; intros m H; cbn [fold_left]; [exact H|]. apply IH. apply map_set_nodup. exact H. Qed.
Lemma dedup_acc_in found : forall m e, In e (fold_left dedup_step found m) -> In e found \/ In e m.
Proof.
  induction found as [|s r IH]; intros m e; cbn [fold_left]; [right; assumption|].
  intros H. destruct (IH _ _ H) as [H1|H1]; [left; right; exact H1|].
  destruct (map_set_in _ _ _ _ H1) as [->|H2]; [left; left; destruct s; reflexivity|right; exact H2].
Qed.
Lemma dedup_acc_keys found : forall m x, In x (map fst (fold_left dedup_step found m)) <-> In x (map fst found) \/ In x (map fst m).
Proof.
  induction found as [|s r IH]; intros m x; cbn [fold_left map In]; [split; [right; assumption|intros [[]|H]; exact H]|].
  rewrite IH. unfold dedup_step. rewrite map_set_keys.
  split; [intros [H|[H|H]]; auto|intros [[H|H]|H]; auto].
Qed.

Definition found_ok (t:table) (found:list (N * string)) : Prop := Forall (fun e => In e t) found.

Lemma table_fun t : NoDup (nums t) -> forall n s s', In (n, s) t -> In (n, s') t -> s = s'.
Proof. intros H n s s' H1 H2. pose proof (lookup_num_in t H n s H1) as E1. pose proof (lookup_num_in t H n s' H2) as E2. congruence. Qed.
Lemma table_inj t : NoDup (names t) -> forall n n' s, In (n, s) t -> In (n', s) t -> n = n'.
Proof. intros H n n' s H1 H2. pose proof (lookup_name_in t H n s H1) as E1. pose proof (lookup_name_in t H n' s H2) as E2. congruence. Qed.

Lemma dedup_sub t found : found_ok t found -> forall e, In e (dedup_by_num found) -> In e t.
Proof.
  intros Hf e He. unfold dedup_by_num in He. destruct (dedup_acc_in found [] e He) as [H|[]].
  unfold found_ok in Hf. rewrite Forall_forall in Hf. exact (Hf e H).
Qed.
Lemma dedup_names t found : NoDup (nums t) -> found_ok t found ->
  forall s, In s (map snd (dedup_by_num found)) <-> In s (map snd found).
Proof.
  intros Hn Hf s. split; intros H; apply in_map_iff in H; destruct H as [[n s'] [E H]]; cbn [snd] in E; subst s'.
  - destruct (dedup_acc_in found [] _ H) as [H1|[]]. apply in_map_iff. exists (n, s). split; [reflexivity|exact H1].
  - assert (Hk: In n (map fst (dedup_by_num found))).
    { unfold dedup_by_num. apply (dedup_acc_keys found [] n). left. apply in_map_iff. exists (n, s). split; [reflexivity|exact H]. }
    apply in_map_iff in Hk. destruct Hk as [[n' s'] [E Hd]]. cbn [fst] in E. subst n'.
    assert (s' = s).
    { apply (table_fun t Hn n); [exact (dedup_sub t found Hf _ Hd)|]. unfold found_ok in Hf. rewrite Forall_forall in Hf. exact (Hf _ H). }
    subst s'. apply in_map_iff. exists (n, s). split; [reflexivity|exact Hd].
Qed.
Lemma nodup_names_of_sub t l : NoDup (names t) -> NoDup (map fst l) -> (forall e, In e l -> In e t) -> NoDup (map snd l).
Proof.
  intros Ht. induction l as [|[n s] r IH]; cbn [map fst snd]; intros Hk Hsub; [constructor|].
  inversion Hk as [|? ? Hn Hr]; subst. constructor.
  - intros Hin. apply in_map_iff in Hin. destruct Hin as [[n' s'] [E Hin]]. cbn [snd] in E. subst s'.
    assert (n = n') by (apply (table_inj t Ht n n' s); apply Hsub; [left; reflexivity|right; exact Hin]). subst n'.
    apply Hn. apply in_map_iff. exists (n, s). split; [reflexivity|exact Hin].
  - apply IH; [exact Hr|]. intros e He. apply Hsub. right. exact He.
Qed.

(** ** String sets *)
Lemma set_add_in m s x : In x (set_add m s) <-> x = s \/ In x m.
Proof.
  unfold set_add. destruct (mem_str s m) eqn:E.
  - apply mem_str_spec in E. split; [intros H; right; exact H|intros [->|H]; assumption].
  - rewrite in_app_iff. cbn [In]. split; [intros [H|[H|[]]]; auto|intros [H|H]; auto].
Qed.
Lemma set_add_nodup m s : NoDup m -> NoDup (set_add m s).
Proof.
  intros H. unfold set_add. destruct (mem_str s m) eqn:E; [exact H|]. apply mem_str_false in E.
  apply (Permutation_NoDup (Permutation_cons_append m s)). constructor; assumption.
Qed.
Lemma fold_set_add_in l : forall m x, In x (fold_left set_add l m) <-> In x l \/ In x m.
Proof.
  induction l as [|s r IH]; intros m x; cbn [fold_left In]; [split; [right; assumption|intros [[]|H]; exact H]|].
  rewrite IH, set_add_in. split; [intros [H|[H|H]]; auto|intros [[H|H]|H]; auto].
Qed.
Lemma fold_set_add_nodup l : forall m, NoDup m -> NoDup (fold_left set_add l m).
Proof. induction l as [|s r IH]; intros m H; cbn [fold_left]; [exact H|]. apply IH. apply set_add_nodup. exact H. Qed.

Lemma lookup_name_some_iff t x : lookup_name t x <> None <-> In x (names t).
Proof.
  pose proof (lookup_name_none t x) as H. destruct (lookup_name t x) eqn:E.
  - split; [intros _|intros _; discriminate]. destruct (in_dec string_dec x (names t)) as [Hi|Hn]; [exact Hi|].
    apply H in Hn. discriminate Hn.
  - split; [intros C; contradiction|]. intros Hi. destruct H as [H _]. exfalso. exact (H eq_refl Hi).
Qed.

Definition aw_step (t:table) (m:list string) (s:string) := match lookup_name t s with Some _ => set_add m s | None => m end.
Lemma aw_in t al : forall m x, In x (fold_left (aw_step t) al m) <-> (In x al /\ In x (names t)) \/ In x m.
Proof.
  induction al as [|s r IH]; intros m x; cbn [fold_left In]; [split; [right; assumption|intros [[[] _]|H]; exact H]|].
  rewrite IH. unfold aw_step. destruct (lookup_name t s) eqn:E.
  - rewrite set_add_in. assert (Hs: In s (names t)) by (apply lookup_name_some_iff; congruence).
    split; [intros [[H1 H2]|[H|H]]; auto; subst; auto|intros [[[H|H] H2]|H]; auto].
  - assert (Hs: ~ In s (names t)) by (apply lookup_name_none; exact E).
    split; [intros [[H1 H2]|H]; auto|intros [[[H|H] H2]|H]; auto]. subst x. contradiction.
Qed.
Lemma aw_nodup t al : forall m, NoDup m -> NoDup (fold_left (aw_step t) al m).
Proof.
  induction al as [|s r IH]; intros m H; cbn [fold_left]; [exact H|]. apply IH. unfold aw_step.
  destruct (lookup_name t s); [apply set_add_nodup|]; exact H.
Qed.
Lemma add_whitelist_in t al names0 x : In x (add_whitelist t al names0) <-> In x names0 \/ (In x al /\ In x (names t)).
Proof.
  unfold add_whitelist. change (fun m s => match lookup_name t s with Some _ => set_add m s | None => m end) with (aw_step t).
  rewrite aw_in. unfold set_of. rewrite fold_set_add_in. cbn [In]. split; [intros [H|[H|[]]]; auto|intros [H|H]; auto].
Qed.
Lemma add_whitelist_nodup t al names0 : NoDup (add_whitelist t al names0).
Proof.
  unfold add_whitelist. change (fun m s => match lookup_name t s with Some _ => set_add m s | None => m end) with (aw_step t).
  apply aw_nodup. unfold set_of. apply fold_set_add_nodup. constructor.
Qed.

(** ** sort.Strings *)
Definition sle (a b:string) : Prop := String.leb a b = true.

Lemma leb_compare a b : String.leb a b = true <-> String.compare a b <> Gt.
Proof. unfold String.leb. destruct (String.compare a b); split; congruence. Qed.

Lemma compare_le_trans s1 : forall s2 s3, String.compare s1 s2 <> Gt -> String.compare s2 s3 <> Gt -> String.compare s1 s3 <> Gt.
Proof.
  induction s1 as [|a r IH]; intros [|b s2] [|c s3]; cbn [String.compare]; try congruence.
  unfold Ascii.compare.
  destruct (N.compare_spec (N_of_ascii a) (N_of_ascii b)) as [E1|L1|G1]; try congruence;
    destruct (N.compare_spec (N_of_ascii b) (N_of_ascii c)) as [E2|L2|G2]; try congruence;
    destruct (N.compare_spec (N_of_ascii a) (N_of_ascii c)) as [E3|L3|G3]; try congruence; try lia.
  apply IH.
Qed.
Lemma sle_trans : Relations_1.Transitive sle.
Proof. intros a b c H1 H2. unfold sle in *. rewrite leb_compare in *. eapply compare_le_trans; eauto. Qed.
Lemma sle_total a b : sle a b \/ sle b a.
Proof. apply String.leb_total. Qed.
Lemma sle_antisym a b : sle a b -> sle b a -> a = b.
Proof. apply String.leb_antisym. Qed.

Lemma insert_perm s l : Permutation (insert_str s l) (s :: l).
Proof.
  induction l as [|x r IH]; cbn [insert_str]; [apply Permutation_refl|].
  destruct (String.leb s x); [apply Permutation_refl|].
  eapply Permutation_trans; [apply perm_skip; exact IH|apply perm_swap].
Qed.
Lemma sort_perm l : Permutation (sort_strings l) l.
Proof.
  unfold sort_strings. induction l as [|x r IH]; cbn [fold_right]; [constructor|].
  eapply Permutation_trans; [apply insert_perm|apply perm_skip; exact IH].
Qed.
Lemma hdrel_insert x s r : HdRel sle x r -> sle x s -> HdRel sle x (insert_str s r).
Proof. intros H Hs. destruct r as [|y r]; cbn [insert_str]; [constructor; exact Hs|]. destruct (String.leb s y); constructor; [exact Hs|inversion H; assumption]. Qed.
Lemma insert_sorted s l : Sorted sle l -> Sorted sle (insert_str s l).
Proof.
  induction l as [|x r IH]; intros H; cbn [insert_str]; [repeat constructor|].
  destruct (String.leb s x) eqn:E.
  - constructor; [exact H|constructor; exact E].
  - inversion H as [|? ? Hr Hh]; subst. constructor; [apply IH; exact Hr|].
    apply hdrel_insert; [exact Hh|]. destruct (sle_total s x) as [C|C]; [unfold sle in C; congruence|exact C].
Qed.
Lemma sort_sorted l : Sorted sle (sort_strings l).
Proof. unfold sort_strings. induction l as [|x r IH]; cbn [fold_right]; [constructor|apply insert_sorted; exact IH]. Qed.

Lemma sorted_unique l : forall l', StronglySorted sle l -> StronglySorted sle l' -> Permutation l l' -> l = l'.
Proof.
  induction l as [|a r IH]; intros [|a' r'] H1 H2 Hp.
  - reflexivity.
  - exfalso. exact (Permutation_nil_cons Hp).
  - exfalso. exact (Permutation_nil_cons (Permutation_sym Hp)).
  - apply StronglySorted_inv in H1. apply StronglySorted_inv in H2. destruct H1 as [S1 F1], H2 as [S2 F2].
    rewrite Forall_forall in F1, F2.
    assert (E: a = a').
    { assert (Ha: In a (a' :: r')) by (eapply Permutation_in; [exact Hp|left; reflexivity]).
      assert (Ha': In a' (a :: r)) by (eapply Permutation_in; [apply Permutation_sym; exact Hp|left; reflexivity]).
      destruct Ha as [Ha|Ha]; [congruence|]. destruct Ha' as [Ha'|Ha']; [congruence|].
      apply sle_antisym; [apply F1; exact Ha'|apply F2; exact Ha]. }
    subst a'. f_equal. apply IH; [exact S1|exact S2|]. eapply Permutation_cons_inv. exact Hp.
Qed.

(** ** The pipeline *)
Definition is_shuffle {A:Type} (sh:list A -> list A) : Prop := forall l, Permutation (sh l) l.

(** the list handed to sort.Strings *)
Definition presort (sh1:list (N * string) -> list (N * string)) (sh2:list string -> list string)
           (t:table) (found:list (N * string)) (bl al:list string) : list string :=
  let names0 := map snd (sh1 (dedup_by_num found)) in
  let names1 := match bl with [] => names0 | _ => filter_blacklist bl names0 end in
  match al with [] => names1 | _ => sh2 (add_whitelist t al names1) end.

Lemma profile_names_presort sh1 sh2 t found bl al :
  profile_names sh1 sh2 t found bl al = sort_strings (presort sh1 sh2 t found bl al).
Proof. reflexivity. Qed.

Lemma names0_in sh1 t found : is_shuffle sh1 -> NoDup (nums t) -> found_ok t found ->
  forall s, In s (map snd (sh1 (dedup_by_num found))) <-> In s (map snd found).
Proof.
  intros Hs Hn Hf s. rewrite <- (dedup_names t found Hn Hf s).
  split; apply Permutation_in; [|apply Permutation_sym]; apply Permutation_map; apply Hs.
Qed.
Lemma names0_nodup sh1 t found : is_shuffle sh1 -> NoDup (names t) -> found_ok t found ->
  NoDup (map snd (sh1 (dedup_by_num found))).
Proof.
  intros Hs Hn Hf. eapply Permutation_NoDup; [apply Permutation_sym; apply Permutation_map; apply Hs|].
  apply (nodup_names_of_sub t); [exact Hn| |apply dedup_sub; exact Hf].
  unfold dedup_by_num. apply (dedup_acc_nodup found []). constructor.
Qed.
Lemma filter_blacklist_in bl l s : In s (filter_blacklist bl l) <-> In s l /\ ~ In s bl.
Proof. unfold filter_blacklist. rewrite filter_In, negb_true_iff, mem_str_false. reflexivity. Qed.

Lemma presort_in sh1 sh2 t found bl al : is_shuffle sh1 -> is_shuffle sh2 -> NoDup (nums t) -> found_ok t found ->
  forall s, In s (presort sh1 sh2 t found bl al) <-> (In s (map snd found) /\ ~ In s bl) \/ (In s al /\ In s (names t)).
Proof.
  intros H1 H2 Hn Hf s. unfold presort.
  set (names0 := map snd (sh1 (dedup_by_num found))).
  set (names1 := match bl with [] => names0 | _ => filter_blacklist bl names0 end).
  assert (E1: In s names1 <-> In s (map snd found) /\ ~ In s bl).
  { unfold names1. destruct bl as [|b bl'].
    - unfold names0. rewrite (names0_in sh1 t found H1 Hn Hf). cbn [In]. split; [intros H; split; [exact H|intros []]|intros [H _]; exact H].
    - rewrite filter_blacklist_in. unfold names0. rewrite (names0_in sh1 t found H1 Hn Hf). reflexivity. }
  destruct al as [|a al'].
  - rewrite E1. cbn [In]. split; [intros H; left; exact H|intros [H|[[] _]]; exact H].
  - rewrite <- E1, <- add_whitelist_in. split; apply Permutation_in; [|apply Permutation_sym]; apply H2.
Qed.
Lemma presort_nodup sh1 sh2 t found bl al : is_shuffle sh1 -> is_shuffle sh2 -> NoDup (names t) -> found_ok t found ->
  NoDup (presort sh1 sh2 t found bl al).
Proof.
  intros H1 H2 Hn Hf. unfold presort.
  assert (N1: NoDup (match bl with [] => map snd (sh1 (dedup_by_num found)) | _ => filter_blacklist bl (map snd (sh1 (dedup_by_num found))) end)).
  { destruct bl; [|apply NoDup_filter]; apply (names0_nodup sh1 t found H1 Hn Hf). }
  destruct al; [exact N1|]. eapply Permutation_NoDup; [apply Permutation_sym; apply H2|apply add_whitelist_nodup].
Qed.

(** C18: the emitted list is sorted (byte-wise, as sort.Strings) ... *)
Theorem profile_sorted sh1 sh2 t found bl al : Sorted sle (profile_names sh1 sh2 t found bl al).
Proof. rewrite profile_names_presort. apply sort_sorted. Qed.

(** ... free of duplicates ... *)
Theorem profile_nodup sh1 sh2 t found bl al :
  is_shuffle sh1 -> is_shuffle sh2 -> NoDup (names t) -> found_ok t found ->
  NoDup (profile_names sh1 sh2 t found bl al).
Proof.
  intros H1 H2 Hn Hf. rewrite profile_names_presort.
  eapply Permutation_NoDup; [apply Permutation_sym; apply sort_perm|apply presort_nodup; assumption].
Qed.

(** ... and contains exactly: the found names that are not blacklisted, and the allow-listed names that exist for
    the architecture. This holds for ALL flag values: a name that is both blacklisted and allow-listed is in the
    profile (addWhitelist runs after the filter). *)
Theorem profile_members sh1 sh2 t found bl al :
  is_shuffle sh1 -> is_shuffle sh2 -> NoDup (nums t) -> found_ok t found ->
  forall s, In s (profile_names sh1 sh2 t found bl al) <->
            (In s (map snd found) /\ ~ In s bl) \/ (In s al /\ In s (names t)).
Proof.
  intros H1 H2 Hn Hf s. rewrite profile_names_presort. rewrite <- (presort_in sh1 sh2 t found bl al H1 H2 Hn Hf s).
  split; apply Permutation_in; [|apply Permutation_sym]; apply sort_perm.
Qed.

(** for disjoint flag sets, as the property words it: (found + allowed-for-the-architecture) - blacklisted
    = (found - blacklisted) + allowed-for-the-architecture *)
Corollary profile_members_disjoint sh1 sh2 t found bl al :
  is_shuffle sh1 -> is_shuffle sh2 -> NoDup (nums t) -> found_ok t found ->
  (forall x, In x bl -> ~ In x al) ->
  forall s, In s (profile_names sh1 sh2 t found bl al) <->
            (In s (map snd found) \/ (In s al /\ In s (names t))) /\ ~ In s bl.
Proof.
  intros H1 H2 Hn Hf Hd s. rewrite (profile_members sh1 sh2 t found bl al H1 H2 Hn Hf s).
  split.
  - intros [[Ha Hb]|[Ha Hb]]; (split; [auto|]); [exact Hb|]. intros Hbl. exact (Hd s Hbl Ha).
  - intros [[Ha|[Ha Hb]] Hn']; [left; split; assumption|right; split; assumption].
Qed.

(** overlapping flag sets: allowed wins *)
Corollary profile_allow_wins sh1 sh2 t found bl al :
  is_shuffle sh1 -> is_shuffle sh2 -> NoDup (nums t) -> found_ok t found ->
  forall s, In s al -> In s (names t) -> In s (profile_names sh1 sh2 t found bl al).
Proof. intros H1 H2 Hn Hf s Ha Ht. apply (profile_members sh1 sh2 t found bl al H1 H2 Hn Hf s). right. split; assumption. Qed.

(** every emitted name is valid for the architecture *)
Theorem profile_in_table sh1 sh2 t found bl al :
  is_shuffle sh1 -> is_shuffle sh2 -> NoDup (nums t) -> found_ok t found ->
  forall s, In s (profile_names sh1 sh2 t found bl al) -> In s (names t).
Proof.
  intros H1 H2 Hn Hf s H. apply (profile_members sh1 sh2 t found bl al H1 H2 Hn Hf s) in H.
  destruct H as [[H _]|[_ H]]; [|exact H]. apply in_map_iff in H. destruct H as [[n s'] [E H]]. cbn [snd] in E. subst s'.
  unfold found_ok in Hf. rewrite Forall_forall in Hf. apply in_map_iff. exists (n, s). split; [reflexivity|exact (Hf _ H)].
Qed.

(** the profile does not depend on the iteration order of either Go map *)
Theorem profile_perm_invariant sh1 sh2 t found bl al :
  is_shuffle sh1 -> is_shuffle sh2 -> NoDup (nums t) -> NoDup (names t) -> found_ok t found ->
  profile_names sh1 sh2 t found bl al = profile_names_id t found bl al.
Proof.
  intros H1 H2 Hn Hm Hf.
  assert (Hid1: is_shuffle (fun l:list (N * string) => l)) by (intros l; apply Permutation_refl).
  assert (Hid2: is_shuffle (fun l:list string => l)) by (intros l; apply Permutation_refl).
  apply sorted_unique.
  - apply Sorted_StronglySorted; [exact sle_trans|apply profile_sorted].
  - apply Sorted_StronglySorted; [exact sle_trans|apply profile_sorted].
  - apply NoDup_Permutation.
    + apply profile_nodup; assumption.
    + unfold profile_names_id. apply profile_nodup; assumption.
    + intros s. unfold profile_names_id.
      rewrite (profile_members sh1 sh2 t found bl al H1 H2 Hn Hf s).
      rewrite (profile_members _ _ t found bl al Hid1 Hid2 Hn Hf s). reflexivity.
Qed.

(** ** The profile as a policy *)
Lemma listed_spec ai names0 nr :
  listed ai names0 nr = true <->
  exists name num, In name names0 /\ lookup_name (ai_table ai) name = Some num /\ nr = sysnum ai num.
Proof.
  unfold listed. rewrite existsb_exists. split.
  - intros [name [Hin H]]. destruct (lookup_name (ai_table ai) name) as [num|] eqn:E; [|discriminate].
    exists name, num. repeat split; auto. apply N.eqb_eq. exact H.
  - intros [name [num [Hin [Hl Hnr]]]]. exists name. split; [exact Hin|]. rewrite Hl. apply N.eqb_eq. exact Hnr.
Qed.

(** C18: the compiled profile allows exactly the syscalls whose names it lists and answers errno (with EPERM) to
    every other syscall of the architecture *)
Theorem profile_decides le k allow ai names0 p ev :
  allow <> k_errno k ->
  compile le k ai (profile_policy k allow names0) = Ok p -> N.of_nat (List.length p) < two32 ->
  native_event k ai ev ->
  run_event le p ev = ORet (if listed ai names0 (ev_nr ev) then allow else N.lor (k_errno k) (k_eperm k)).
Proof.
  intros Ha Hc Hl Hn. rewrite (first_matching_group le k ai _ p ev Hc Hl Hn).
  unfold profile_policy. cbn [p_groups p_default first_group]. unfold group_matches. cbn [g_names g_nwc g_action existsb].
  rewrite orb_false_r. unfold listed, name_matches.
  destruct (existsb _ names0); cbn [g_action]; [rewrite (ret_word_other k allow Ha)|rewrite ret_word_errno]; reflexivity.
Qed.

(** * Non-vacuity of C18 *)
Lemma rev_is_shuffle (A:Type) : is_shuffle (@rev A).
Proof. intros l. apply Permutation_sym. apply Permutation_rev. Qed.

Definition px_table : table := [(0, "read"); (1, "write"); (2, "open"); (39, "getpid"); (60, "exit")]%string.
Definition px_found : list (N * string) := [(39, "getpid"); (1, "write"); (39, "getpid"); (0, "read"); (1, "write")]%string.

(** five sites, three distinct syscalls; "write" blacklisted; "exit" both blacklisted and allowed (allowed wins);
    "bogus" allowed but unknown to the architecture (ignored); both maps iterated in reverse order *)
Example profile_example :
  found_ok px_table px_found /\ NoDup (nums px_table) /\ NoDup (names px_table) /\
  profile_names (@rev _) (@rev _) px_table px_found ["write"; "exit"]%string ["exit"; "bogus"; "open"]%string
  = ["exit"; "getpid"; "open"; "read"]%string /\
  profile_names_id px_table px_found ["write"; "exit"]%string ["exit"; "bogus"; "open"]%string
  = ["exit"; "getpid"; "open"; "read"]%string /\
  profile_names_id px_table px_found [] [] = ["getpid"; "read"; "write"]%string /\
  flag_values ["write,exit"; " a;;b	c "; ""]%string = ["write"; "exit"; "a"; "b"; "c"]%string.
Proof.
  split; [repeat constructor; cbn; tauto|]. split; [apply nodup_N_spec; reflexivity|]. split; [apply nodup_S_spec; reflexivity|].
  repeat split; vm_compute; reflexivity.
Qed.

Definition px_consts : consts :=
  {| k_named_actions := [0; 2147483648; 196608; 327680; 2146435072; 2147221504; 2147418112];
     k_errno := 327680; k_eperm := 1; k_enosys := 38; k_x32mask := 1073741824; k_x86_64_id := 3221225534 |}.
Definition px_arch : arch_info := {| ai_name := "x86_64"; ai_id := 3221225534; ai_mask := 0; ai_table := px_table |}.
Definition px_event (nr:N) : event := {| ev_nr := nr; ev_arch := 3221225534; ev_ip := 0; ev_args := [0; 0; 0; 0; 0; 0] |}.
Definition px_prog : list instr :=
  match compile true px_consts px_arch (profile_policy px_consts 2147418112 ["exit"; "getpid"; "open"; "read"]%string) with
  | Ok p => p | Error _ => [] end.

(** the hypotheses of [profile_decides] are satisfiable, and the compiled profile of the example answers as stated *)
Example profile_decides_example :
  compile true px_consts px_arch (profile_policy px_consts 2147418112 ["exit"; "getpid"; "open"; "read"]%string) = Ok px_prog /\
  px_prog <> [] /\ N.of_nat (List.length px_prog) < two32 /\ native_event px_consts px_arch (px_event 1) /\
  map (fun nr => run_event true px_prog (px_event nr)) [0; 1; 2; 39; 60; 61; 4294967295 - 3221225472]
  = [ORet 2147418112; ORet 327681; ORet 2147418112; ORet 2147418112; ORet 2147418112; ORet 327681; ORet 327681].
Proof.
  split; [vm_compute; reflexivity|]. split; [vm_compute; discriminate|]. split; [vm_compute; reflexivity|].
  split; [split; [reflexivity|intros _; vm_compute; reflexivity]|]. vm_compute. reflexivity.
Qed.

(** an empty profile (nothing found) compiles to a filter that answers errno to everything *)
Example empty_profile_denies_all :
  match compile true px_consts px_arch (profile_policy px_consts 2147418112 []) with
  | Ok p => map (fun nr => run_event true p (px_event nr)) [0; 39] = [ORet 327681; ORet 327681]
  | Error _ => False
  end.
Proof. vm_compute. reflexivity. Qed.

(** ** List flags (C18): an occurrence that names nothing neither adds nor removes a name, wherever it stands, and
    the names of the occurrences accumulate in order *)
Lemma flag_values_app a b : flag_values (a ++ b) = flag_values a ++ flag_values b.
Proof. unfold flag_values. apply flat_map_app. Qed.

Lemma flag_values_nameless a v b : flag_fields v = [] -> flag_values (a ++ v :: b) = flag_values (a ++ b).
Proof.
  intro H. rewrite !flag_values_app. unfold flag_values at 2. cbn [flat_map]. rewrite H. reflexivity.
Qed.

Lemma fields_aux_seps s : (forall c, In c (list_ascii_of_string s) -> is_sep c = true) -> fields_aux s EmptyString = [].
Proof.
  induction s as [|c r IH]; intro H; [reflexivity|].
  cbn [fields_aux]. rewrite (H c (or_introl eq_refl)). apply IH. intros c' Hc'. apply H. right. exact Hc'.
Qed.
