(** * Skeleton: the statement language in which the translator (/verif/translator/skeleton.go) re-emits the
    orchestrating functions of /repo on every run (gen/GenSkeletons.v), and an interpreter for it.

    The language is deliberately small. Whatever the extractor does not understand becomes
    [SUnknown "<source>"] (statements) or [EOther "<source>"] (expressions); executing the former, or
    branching on the latter, makes the interpreter STUCK, so a theorem about a function whose source gained an
    unknown construct fails to check instead of silently ignoring it.

    Semantics in one paragraph. Values are a small universe (numbers, booleans, strings, nil, errno-valued
    and other errors, lists, struct literals, external values of a type [X] chosen by the user of the
    interpreter). A call is resolved in this order: the user's [handler] (external effects over a world [W];
    it sees the callee expression, the evaluated receiver and arguments), then the table [funs] of regenerated
    functions (the body is interpreted, `defer`red calls run at return in LIFO order), then a few pure
    standard functions ([std_pure]); otherwise the run is stuck. [tick] is applied to the world before every
    statement (the Loader uses it for the goroutine scheduler). Every handled call is appended to the trace. *)
From Coq Require Import List NArith Bool String Ascii.
Import ListNotations.
Open Scope N_scope.
Open Scope string_scope.

(** ** syntax *)
Inductive ex :=
| ENil | ETrue | EFalse
| ENum (n:N)
| EStr (s:string)
| EId (name:string)
| ESel (x:ex) (field:string)                 (* x.field, also package-qualified names: syscall.EINVAL *)
| EUn (op:string) (x:ex)                     (* "!" "&" "*" "-" "^" *)
| EBin (op:string) (x y:ex)
| EConv (f:string) (args:list ex)            (* builtins and conversions: len, uint16, uintptr, string,
                                                unsafe.Pointer, make, new, append, cap; "zeros" and "copy"
                                                are produced by the translator for `var a [n]T` and copy() *)
| EIdx (x i:ex)
| EStruct (typ:string) (fields:list (string * ex))   (* T{f: e, ...} *)
| EOther (src:string).

Inductive sk :=
| SCall (def:bool) (lhs:list string) (callee:ex) (args:list ex)   (* lhs := / = callee(args); lhs may be [] *)
| SAssign (def:bool) (lhs:ex) (rhs:ex)                             (* rhs contains no effectful call *)
| SDecl (name:string) (typ:string) (zero:ex)                       (* var name typ *)
| SIf (cond:ex) (then_ else_:list sk)
| SBlock (body:list sk)                                            (* scope of an if/else-if init statement *)
| SReturn (exprs:list ex)
| SDefer (callee:ex) (args:list ex)
| SExit (code:ex)                                                  (* os.Exit(code); after log.Fatal*: 1 *)
| SUnknown (src:string)
| SPop (n:nat).          (* INTERNAL to the interpreter (end of a block: keep the n outermost locals);
                            never produced by the translator *)

Record skfun := { fn_name : string; fn_params : list string; fn_variadic : bool; fn_body : list sk }.

(** dotted path of an identifier / selector chain *)
Fixpoint ex_path (e:ex) : option string :=
  match e with
  | EId n => Some n
  | ESel x f => match ex_path x with Some p => Some (p ++ "." ++ f) | None => None end
  | _ => None
  end.

(** last component of a callee: the function or method name *)
Definition callee_name (e:ex) : string :=
  match e with EId n => n | ESel _ f => f | _ => "" end.

(** no unknown statement anywhere *)
Fixpoint sk_known (s:sk) : bool :=
  match s with
  | SUnknown _ => false
  | SIf _ t e => forallb sk_known t && forallb sk_known e
  | SBlock b => forallb sk_known b
  | _ => true
  end.
Definition all_known (l:list sk) : bool := forallb sk_known l.

(** the calls that occur syntactically (callee paths, in source order, all branches) *)
Fixpoint sk_calls (s:sk) : list string :=
  match s with
  | SCall _ _ c _ => match ex_path c with Some p => [p] | None => ["?"] end
  | SDefer c _ => match ex_path c with Some p => [("defer " ++ p)] | None => ["defer ?"] end
  | SIf _ t e => flat_map sk_calls t ++ flat_map sk_calls e
  | SBlock b => flat_map sk_calls b
  | _ => []
  end.
Definition calls_of (l:list sk) : list string := flat_map sk_calls l.

Fixpoint find_fun (funs:list skfun) (name:string) : option skfun :=
  match funs with
  | [] => None
  | f :: r => if String.eqb (fn_name f) name then Some f else find_fun r name
  end.

(** ** values and expression evaluation *)
Section Interp.
Variable X : Type.                      (* external values (programs, policies, ...) *)
Variable ext_len : X -> option N.       (* len() of an external value *)

Inductive value :=
| VNil
| VNum (n:N)
| VBool (b:bool)
| VStr (s:string)
| VErrno (e:N)                          (* a syscall.Errno; as an `error` it is non-nil even when 0 *)
| VError (what:string)                  (* any other non-nil error *)
| VList (l:list value)
| VStruct (typ:string) (fields:list (string * value))
| VExt (x:X)
| VOpaque (src:string).                 (* a value the interpreter knows nothing about *)

Definition env := list (string * value).

Fixpoint lookup {A} (e:list (string * A)) (n:string) : option A :=
  match e with
  | [] => None
  | (k, v) :: r => if String.eqb k n then Some v else lookup r n
  end.

(** replace the first binding of [n]; None if there is none *)
Fixpoint update {A} (e:list (string * A)) (n:string) (v:A) : option (list (string * A)) :=
  match e with
  | [] => None
  | (k, w) :: r => if String.eqb k n then Some ((k, v) :: r)
                   else match update r n v with Some r' => Some ((k, w) :: r') | None => None end
  end.

Definition num_of (v:value) : option N :=
  match v with VNum n => Some n | VErrno e => Some e | _ => None end.

(** equality of numbers in [veq]; a separate constant so that symbolic evaluation can keep comparisons of
    undetermined numbers folded ([lazy -[num_eqb]]) while every other computation on N proceeds *)
Definition num_eqb (x y:N) : bool := N.eqb x y.

(** == ; None when the comparison is not understood *)
Definition veq (a b:value) : option bool :=
  match a, b with
  | VNil, VNil => Some true
  | VNil, (VErrno _ | VError _ | VStruct _ _ | VExt _ | VList _) => Some false
  | (VErrno _ | VError _ | VStruct _ _ | VExt _ | VList _), VNil => Some false
  | VNum x, VNum y => Some (num_eqb x y)
  | VErrno x, VErrno y => Some (num_eqb x y)
  | VErrno x, VNum y => Some (num_eqb x y)
  | VNum x, VErrno y => Some (num_eqb x y)
  | VError _, VErrno _ => Some false
  | VErrno _, VError _ => Some false
  | VBool x, VBool y => Some (Bool.eqb x y)
  | VStr x, VStr y => Some (String.eqb x y)
  | _, _ => None
  end.

Definition pow2 (k:N) : N := N.shiftl 1 k.

Definition bin (op:string) (a b:value) : value :=
  let opaque := VOpaque op in
  let cmp (f:N -> N -> bool) := match num_of a, num_of b with Some x, Some y => VBool (f x y) | _, _ => opaque end in
  let ari (f:N -> N -> N) := match num_of a, num_of b with Some x, Some y => VNum (f x y) | _, _ => opaque end in
  if String.eqb op "==" then match veq a b with Some t => VBool t | None => opaque end
  else if String.eqb op "!=" then match veq a b with Some t => VBool (negb t) | None => opaque end
  else if String.eqb op "&&" then match a, b with VBool x, VBool y => VBool (x && y) | _, _ => opaque end
  else if String.eqb op "||" then match a, b with VBool x, VBool y => VBool (x || y) | _, _ => opaque end
  else if String.eqb op "<" then cmp N.ltb
  else if String.eqb op "<=" then cmp N.leb
  else if String.eqb op ">" then cmp (fun x y => N.ltb y x)
  else if String.eqb op ">=" then cmp (fun x y => N.leb y x)
  else if String.eqb op "&" then ari N.land
  else if String.eqb op "|" then ari N.lor
  else if String.eqb op "^" then ari N.lxor
  else if String.eqb op "&^" then ari N.ldiff
  else if String.eqb op "+" then
    match a, b with
    | VStr x, VStr y => VStr (x ++ y)
    | _, _ => ari N.add
    end
  else if String.eqb op "*" then ari N.mul
  else if String.eqb op "/" then match num_of b with Some 0 => opaque | _ => ari N.div end
  else if String.eqb op "<<" then ari N.shiftl
  else if String.eqb op ">>" then ari N.shiftr
  else opaque.

Definition un (op:string) (a:value) : value :=
  if String.eqb op "!" then match a with VBool b => VBool (negb b) | _ => VOpaque op end
  else if String.eqb op "&" then a          (* pointers are transparent *)
  else if String.eqb op "*" then a
  else VOpaque op.

Definition unsigned (k:N) (args:list value) : value :=
  match args with
  | [v] => match num_of v with Some n => VNum (n mod pow2 k) | None => v end
  | _ => VOpaque "conversion"
  end.

Definition conv (f:string) (args:list value) : value :=
  if String.eqb f "len" then
    match args with
    | [VList l] => VNum (N.of_nat (List.length l))
    | [VStr s] => VNum (N.of_nat (String.length s))
    | [VExt x] => match ext_len x with Some n => VNum n | None => VOpaque "len" end
    | _ => VOpaque "len"
    end
  else if String.eqb f "uint8" then unsigned 8 args
  else if String.eqb f "uint16" then unsigned 16 args
  else if String.eqb f "uint32" then unsigned 32 args
  else if String.eqb f "uint64" then unsigned 64 args
  else if String.eqb f "uint" then unsigned 64 args
  else if String.eqb f "uintptr" then unsigned 64 args        (* of a pointer: the pointer itself *)
  else if String.eqb f "unsafe.Pointer" || String.eqb f "string" || String.eqb f "[]byte" then
    match args with [v] => v | _ => VOpaque f end
  else if String.eqb f "zeros" then
    match args with [VNum n] => VList (repeat (VNum 0) (N.to_nat n)) | _ => VOpaque f end
  else if String.eqb f "copy" then
    (* the array dst after copy(dst[:], src) *)
    match args with
    | [VList d; VList s] => VList (firstn (List.length d) s ++ skipn (List.length s) d)
    | _ => VOpaque f
    end
  else VOpaque f.

Variable consts : string -> option value.   (* package-level constants, by dotted path *)

Definition lookup2 (loc glob:env) (n:string) : option value :=
  match lookup loc n with
  | Some v => Some v
  | None => match lookup glob n with Some v => Some v | None => consts n end
  end.

Section Eval.
Variables (loc glob:env).

Fixpoint eval (e:ex) : value :=
  match e with
  | ENil => VNil
  | ETrue => VBool true
  | EFalse => VBool false
  | ENum n => VNum n
  | EStr s => VStr s
  | EId n => match lookup2 loc glob n with Some v => v | None => VOpaque n end
  | ESel x f =>
      match (match ex_path e with Some p => lookup2 loc glob p | None => None end) with
      | Some v => v
      | None =>
        match eval x with
        | VStruct _ fs => match lookup fs f with Some v => v | None => VOpaque f end
        | _ => VOpaque f
        end
      end
  | EUn op x =>
      match op, x with
      | "&", EIdx a (ENum 0) => eval a       (* &a[0]: the address of an array is the array *)
      | _, _ => un op (eval x)
      end
  | EBin op x y => bin op (eval x) (eval y)
  | EConv f args => conv f (map eval args)
  | EIdx x i =>
      match eval x, eval i with
      | VList l, VNum n => nth (N.to_nat n) l (VOpaque "index out of range")
      | _, _ => VOpaque "index"
      end
  | EStruct typ fs => VStruct typ ((fix go (l:list (string * ex)) : list (string * value) :=
                                      match l with
                                      | [] => []
                                      | (k, x) :: r => (k, eval x) :: go r
                                      end) fs)
  | EOther s => VOpaque s
  end.
End Eval.

(** ** statements *)
Variable W : Type.
Inductive hres := HNone | HStuck (why:string) | HOk (w:W) (vals:list value).
Variable handler : W -> ex -> value -> list value -> hres.   (* world, callee, receiver, arguments *)
Variable tick : W -> W.
Variable funs : list skfun.

Record call_event := { ce_callee : string; ce_args : list value; ce_results : list value }.

Record cfg := {
  c_world : W;
  c_loc : env;                                        (* local variables, innermost first *)
  c_glob : env;                                       (* package-level variables that were assigned *)
  c_defers : list (ex * value * list value);          (* pending deferred calls, newest first *)
  c_trace : list call_event
}.

Definition set_world (c:cfg) (w:W) : cfg :=
  {| c_world := w; c_loc := c_loc c; c_glob := c_glob c; c_defers := c_defers c; c_trace := c_trace c |}.
Definition set_loc (c:cfg) (l:env) : cfg :=
  {| c_world := c_world c; c_loc := l; c_glob := c_glob c; c_defers := c_defers c; c_trace := c_trace c |}.
Definition set_glob (c:cfg) (g:env) : cfg :=
  {| c_world := c_world c; c_loc := c_loc c; c_glob := g; c_defers := c_defers c; c_trace := c_trace c |}.
Definition set_defers (c:cfg) (d:list (ex * value * list value)) : cfg :=
  {| c_world := c_world c; c_loc := c_loc c; c_glob := c_glob c; c_defers := d; c_trace := c_trace c |}.
Definition add_event (c:cfg) (e:call_event) : cfg :=
  {| c_world := c_world c; c_loc := c_loc c; c_glob := c_glob c; c_defers := c_defers c; c_trace := c_trace c ++ [e] |}.

Definition ceval (c:cfg) (e:ex) : value := eval (c_loc c) (c_glob c) e.

(** x := v *)
Definition define (c:cfg) (n:string) (v:value) : cfg :=
  if String.eqb n "_" then c else set_loc c ((n, v) :: c_loc c).

(** x = v : innermost local, else package level *)
Definition assign_name (c:cfg) (n:string) (v:value) : cfg :=
  if String.eqb n "_" then c else
  match update (c_loc c) n v with
  | Some l => set_loc c l
  | None => match update (c_glob c) n v with
            | Some g => set_glob c g
            | None => set_glob c ((n, v) :: c_glob c)
            end
  end.

Definition bind (def:bool) (c:cfg) (n:string) (v:value) : cfg :=
  if def then define c n v else assign_name c n v.

Fixpoint bind_all (def:bool) (c:cfg) (ns:list string) (vs:list value) : option cfg :=
  match ns, vs with
  | [], [] => Some c
  | n :: ns', v :: vs' => bind_all def (bind def c n v) ns' vs'
  | _, _ => None
  end.

(** assignment to an identifier, to a field of a struct-valued variable, or to a path kept as a flat key *)
Definition assign_ex (def:bool) (c:cfg) (lhs:ex) (v:value) : option cfg :=
  match lhs with
  | EId n => Some (bind def c n v)
  | ESel (EId r) f =>
      match lookup2 (c_loc c) (c_glob c) r with
      | Some (VStruct t fs) =>
          let fs' := match update fs f v with Some l => l | None => (f, v) :: fs end in
          Some (assign_name c r (VStruct t fs'))
      | _ => Some (assign_name c (r ++ "." ++ f) v)
      end
  | _ => match ex_path lhs with
         | Some p => Some (assign_name c p v)
         | None => None
         end
  end.

Definition bind_params (f:skfun) (args:list value) : option env :=
  let n := List.length (fn_params f) in
  if fn_variadic f then
    match n with
    | O => None
    | S m =>
      if Nat.leb m (List.length args) then
        Some (rev (combine (fn_params f) (firstn m args ++ [VList (skipn m args)])))
      else None
    end
  else if Nat.eqb n (List.length args) then Some (rev (combine (fn_params f) args)) else None.

(** pure functions of the standard library that appear in the skeletons *)
Definition std_pure (path:string) (args:list value) : option (list value) :=
  if String.eqb path "fmt.Errorf" then
    Some [VError (match args with VStr s :: _ => s | _ => "fmt.Errorf" end)]
  else if String.eqb path "errors.New" then
    Some [VError (match args with VStr s :: _ => s | _ => "errors.New" end)]
  else if existsb (String.eqb path)
            ["strconv.FormatUint"; "strconv.FormatInt"; "strconv.Itoa"; "strconv.Quote"; "fmt.Sprintf"; "fmt.Sprint";
             "fmt.Sprintln"; "strings.Join"; "strings.TrimSpace"; "strings.ToLower"; "strings.ToUpper"; "strings.Repeat"] then
    (* pure text formatting: the text itself is never inspected (it ends up in messages); a decision that depended
       on it would be undetermined and the run stuck *)
    Some [VOpaque path]
  else None.

(** *** the machine
    The statements are executed by a small abstract machine with an explicit stack of frames (continuation
    passing), so that evaluating a run whose inputs are partly symbolic yields a DECISION TREE over the
    undetermined conditions with fully determined leaves, instead of a term that is stuck half way. *)
Inductive result :=
| RReturn (vals:list value)
| RExit (code:value)
| RStuck (why:string).

Inductive frame :=
| FCall (rest:list sk) (loc:env) (defers:list (ex * value * list value)) (def:bool) (lhs:list string)
      (* a call is in progress: afterwards restore loc/defers, bind the results to lhs, continue with rest *)
| FDefer (vals:list value) (loc:env) (defers:list (ex * value * list value)).
      (* a deferred call is in progress while the function returns vals; the remaining deferred calls *)

Inductive mode :=
| MRun (code:list sk)
| MRet (vals:list value).      (* the current function returns vals: run its deferred calls, then pop *)

Inductive next :=
| NGo (m:mode) (c:cfg) (st:list frame)
| NStop (c:cfg) (r:result).

(** hand the results of a finished call to the frame on top of the stack *)
Definition deliver (vals:list value) (c:cfg) (st:list frame) : next :=
  match st with
  | [] => NStop c (RReturn vals)
  | FCall rest loc defers def lhs :: st' =>
      let c1 := set_defers (set_loc c loc) defers in
      match lhs with
      | [] => NGo (MRun rest) c1 st'
      | _ => match bind_all def c1 lhs vals with
             | Some c2 => NGo (MRun rest) c2 st'
             | None => NStop c1 (RStuck "number of results")
             end
      end
  | FDefer rv loc defers :: st' => NGo (MRet rv) (set_defers (set_loc c loc) defers) st'
  end.

(** a call; [st] already contains the frame that receives the results *)
Definition do_call (c:cfg) (callee:ex) (recv:value) (args:list value) (st:list frame) : next :=
  match ex_path callee with
  | None => NStop c (RStuck "callee is not a name")
  | Some path =>
    match handler (c_world c) callee recv args with
    | HOk w vals =>
        deliver vals (add_event (set_world c w) {| ce_callee := path; ce_args := args; ce_results := vals |}) st
    | HStuck why => NStop c (RStuck why)
    | HNone =>
      match find_fun funs path with
      | Some f =>
        match bind_params f args with
        | None => NStop c (RStuck ("arity of " ++ path))
        | Some env0 => NGo (MRun (fn_body f)) (set_defers (set_loc c env0) []) st
        end
      | None =>
        match std_pure path args with
        | Some vals => deliver vals c st
        | None => NStop c (RStuck ("unknown callee: " ++ path))
        end
      end
    end
  end.

Definition recv_of (c:cfg) (callee:ex) : value :=
  match callee with ESel x _ => ceval c x | _ => VNil end.

(** one transition, except for [SIf] (handled in [machine] so that the two continuations are separate runs) *)
Definition step (m:mode) (c:cfg) (st:list frame) : next :=
  match m with
  | MRet vals =>
      match c_defers c with
      | (callee, recv, args) :: ds => do_call (set_defers c ds) callee recv args (FDefer vals (c_loc c) ds :: st)
      | [] => deliver vals c st
      end
  | MRun [] => NGo (MRet []) c st
  | MRun (s :: rest) =>
      let c := set_world c (tick (c_world c)) in
      match s with
      | SCall def lhs callee args =>
          do_call c callee (recv_of c callee) (map (ceval c) args) (FCall rest (c_loc c) (c_defers c) def lhs :: st)
      | SAssign def lhs rhs =>
          match assign_ex def c lhs (ceval c rhs) with
          | Some c' => NGo (MRun rest) c' st
          | None => NStop c (RStuck "assignment target")
          end
      | SDecl n _ zero => NGo (MRun rest) (define c n (ceval c zero)) st
      | SIf _ _ _ => NStop c (RStuck "if")                       (* not reached: see [machine] *)
      | SBlock b => NGo (MRun (b ++ SPop (List.length (c_loc c)) :: rest)) c st
      | SPop n => NGo (MRun rest) (set_loc c (skipn (List.length (c_loc c) - n) (c_loc c))) st
      | SReturn es => NGo (MRet (map (ceval c) es)) c st
      | SDefer callee args =>
          NGo (MRun rest) (set_defers c ((callee, recv_of c callee, map (ceval c) args) :: c_defers c)) st
      | SExit code => NStop c (RExit (ceval c code))
      | SUnknown src => NStop c (RStuck ("unknown statement: " ++ src))
      end
  end.

Fixpoint machine (fuel:nat) (m:mode) (c:cfg) (st:list frame) {struct fuel} : cfg * result :=
  match fuel with
  | O => (c, RStuck "out of fuel")
  | S fuel' =>
    match m with
    | MRun (SIf cond t e :: rest) =>
        let c := set_world c (tick (c_world c)) in
        let n := List.length (c_loc c) in
        match ceval c cond with
        | VBool b =>
            if b then machine fuel' (MRun (t ++ SPop n :: rest)) c st
            else machine fuel' (MRun (e ++ SPop n :: rest)) c st
        | _ => (c, RStuck "condition not understood")
        end
    | _ =>
        match step m c st with
        | NGo m' c' st' => machine fuel' m' c' st'
        | NStop c' r => (c', r)
        end
    end
  end.

Definition start (w:W) : cfg := {| c_world := w; c_loc := []; c_glob := []; c_defers := []; c_trace := [] |}.

(** ** running a function of the table (or one the handler answers) *)
Definition run_fun (fuel:nat) (w:W) (name:string) (args:list value) : W * list call_event * result :=
  let '(c, r) :=
    match do_call (start w) (EId name) VNil args [] with
    | NGo m c st => machine fuel m c st
    | NStop c r => (c, r)
    end in
  (c_world c, c_trace c, r).

(** running a bare statement list (a `main`): falling off the end is a return *)
Definition run_sk (fuel:nat) (w:W) (body:list sk) : W * list call_event * result :=
  let '(c, r) := machine fuel (MRun body) (start w) [] in
  (c_world c, c_trace c, r).

End Interp.

Arguments VNil {X}.
Arguments VNum {X} n.
Arguments VBool {X} b.
Arguments VStr {X} s.
Arguments VErrno {X} e.
Arguments VError {X} what.
Arguments VList {X} l.
Arguments VStruct {X} typ fields.
Arguments VExt {X} x.
Arguments VOpaque {X} src.
Arguments HNone {X W}.
Arguments HStuck {X W} why.
Arguments HOk {X W} w vals.
Arguments RReturn {X} vals.
Arguments RExit {X} code.
Arguments RStuck {X} why.

(** ** the simplest instance: an oracle that decides the outcome of the k-th call of each callee
    (k counts from 0). The world is the list of callee paths called so far. *)
Section Oracle.
Variable X : Type.
Variable oracle : string -> list (value X) -> nat -> option (list (value X)).

Definition oracle_handler (w:list string) (callee:ex) (recv:value X) (args:list (value X))
  : hres X (list string) :=
  match ex_path callee with
  | None => HNone
  | Some p =>
    match oracle p args (List.length (filter (String.eqb p) w)) with
    | Some vals => HOk (p :: w) vals
    | None => HNone
    end
  end.

Definition run_sk_oracle (consts:string -> option (value X)) (funs:list skfun) (fuel:nat) (body:list sk)
  : list (call_event X) * result X :=
  let '(_, tr, r) := run_sk X (fun _ => None) consts (list string) oracle_handler (fun w => w) funs fuel [] body in
  (tr, r).
End Oracle.
