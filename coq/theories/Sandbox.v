(** * Sandbox: cmd/sandbox/main.go as the interpretation of its REGENERATED skeleton
    (gen/GenSkeletons.v: sk_sandbox_main, sk_sandbox_parsePolicy) over an OUTCOME ORACLE.

    Nothing of the control flow of main() or parsePolicy() is written in this file. The file says
      - what the external calls answer ([sb_handler]): the oracle decides which of them fail;
      - how a trace of the interpreter is read ([abstract]): every call becomes one abstract event, message
        texts are dropped, methods are recognised by their name and not by the name of the local variable that
        holds the receiver (so that renaming a local or rewording a message changes nothing);
      - the REFERENCE behaviour [ref_run]: what the command must do for each oracle.
    The per-run file coq/properties/SandboxInst.v proves, for the skeleton of the current tree,
        forall o, sandbox_run sandbox_funs sk_sandbox_main tsync o = ref_run tsync o
    by case analysis on the oracle (2 shapes of the argument list x 2^4 outcomes, strings symbolic) and
    evaluation of the interpreter; SandboxProofs.v derives the C15 theorems from [ref_run] once and for all.

    A statement the extractor did not understand is an [SUnknown]: the interpreter is stuck on it, the abstract
    result is [AStuck] and the equation with [ref_run] (which is never stuck) fails. A call the handler does not
    know and that is neither a regenerated function nor fmt.Errorf/errors.New is stuck as well.

    What the oracle ranges over (the outcome space of one run of the command):
      o_args     the non-flag command line arguments (flag.Args()): the target command and its arguments
      o_yaml     yaml.NewConfigWithFile(policyFile)  - missing file, directory, unreadable, malformed YAML ...
      o_unpack   conf.Unpack(&config)                - wrong types, unknown action, ... (go-ucfg)
      o_load     seccomp.LoadFilter(filter)          - unknown syscall, oversize program, EACCES, refused sync ...
      o_run      cmd.Run()                           - target missing, target exits non-zero, killed ...
    The values of the two flag variables are not part of the oracle: they stay the symbolic values
    [VOpaque "policyFile"] / [VOpaque "noNewPrivs"], so the theorems show WHICH variable reaches which call. *)
From Coq Require Import List NArith Bool String Ascii.
From Seccomp Require Import Skeleton.
Import ListNotations.
Open Scope N_scope.
Open Scope string_scope.
Open Scope list_scope.

Inductive outcome := Succeeds | Fails (msg:string).

Definition succeeds (x:outcome) : bool := match x with Succeeds => true | Fails _ => false end.

Record oracle := {
  o_args : list string;
  o_yaml : outcome;
  o_unpack : outcome;
  o_load : outcome;
  o_run : outcome
}.

(** no external values are needed: everything the command handles is a string, a flag variable or opaque *)
Definition X := unit.
Definition sval := value X.

(** the component of a dotted path after the last '.' (method or function name) *)
Fixpoint last_comp_from (s acc:string) : string :=
  match s with
  | EmptyString => acc
  | String c r => if Ascii.eqb c "."%char then last_comp_from r EmptyString
                  else last_comp_from r (acc ++ String c EmptyString)%string
  end.
Definition last_comp (s:string) : string := last_comp_from s EmptyString.

(** the value yaml.NewConfigWithFile returns and the value exec.Command returns: struct values, so that the
    methods called on them are recognised by the RECEIVER, whatever the local variable is called *)
Definition conf_value : sval := VStruct "ucfg.Config" [].
Definition cmd_value (path:sval) : sval := VStruct "exec.Cmd" [("Path", path)].

Definition is_struct (typ:string) (v:sval) : bool :=
  match v with VStruct t _ => String.eqb t typ | _ => false end.

Definition answer (x:outcome) (ok:list sval) (bad:string -> list sval) : hres X unit :=
  match x with Succeeds => HOk tt ok | Fails m => HOk tt (bad m) end.

(** the external calls of the command *)
Definition sb_handler (o:oracle) (w:unit) (callee:ex) (recv:sval) (args:list sval) : hres X unit :=
  match ex_path callee with
  | None => HNone
  | Some p =>
    if String.eqb p "flag.StringVar" || String.eqb p "flag.BoolVar" || String.eqb p "flag.Parse" then HOk tt []
    else if String.eqb p "flag.Args" then HOk tt [VList (map (fun s => VStr s) (o_args o))]
    else if String.eqb p "fmt.Fprintf" || String.eqb p "fmt.Fprintln" || String.eqb p "fmt.Fprint" then
      HOk tt [VNum 0; VNil]
    else if String.eqb p "yaml.NewConfigWithFile" then
      answer (o_yaml o) [conf_value; VNil] (fun m => [VNil; VError m])
    else if String.eqb p "seccomp.LoadFilter" then
      answer (o_load o) [VNil] (fun m => [VError m])
    else if String.eqb p "exec.Command" then
      HOk tt [cmd_value (match args with a :: _ => a | [] => VNil end)]
    else if String.eqb (callee_name callee) "Unpack" && is_struct "ucfg.Config" recv then
      answer (o_unpack o) [VNil] (fun m => [VError m])
    else if String.eqb (callee_name callee) "Run" && is_struct "exec.Cmd" recv then
      answer (o_run o) [VNil] (fun m => [VError m])
    else HNone
  end.

(** package-level names the command reads: only the thread-sync flag constant (its value is regenerated,
    gen/GenConsts.v, and passed in as [tsync]) *)
Definition sb_consts (tsync:N) (n:string) : option sval :=
  if String.eqb n "seccomp.FilterFlagTSync" then Some (VNum tsync) else None.

Definition FUEL : nat := 400.

(** one run of the command: the calls answered by the handler, in order, and how the run ended *)
Definition sandbox_trace (funs:list skfun) (main:list sk) (tsync:N) (o:oracle)
  : list (call_event X) * result X :=
  let '(_, tr, r) := run_sk X (fun _ => None) (sb_consts tsync) unit (sb_handler o) (fun w => w) funs FUEL tt main in
  (tr, r).

(** ** reading a trace *)
Inductive aev :=
| AFlagString (var:sval) (name default:string)   (* flag.StringVar(&var, name, default, _) *)
| AFlagBool (var:sval) (name:string) (default:bool)
| AParse                                          (* flag.Parse() *)
| AArgs                                           (* flag.Args() *)
| APrint                                          (* a message on stderr *)
| AYaml (file:sval) (ok:bool)                     (* yaml.NewConfigWithFile(file) *)
| AUnpack (ok:bool)                               (* <conf>.Unpack(&config) *)
| ALoad (filter:list sval) (ok:bool)              (* seccomp.LoadFilter(filter) *)
| ACommand (path:sval)                            (* exec.Command(path, ...) *)
| ARun (path:sval) (ok:bool)                      (* <cmd>.Run() of the command created for [path] *)
| AOther (callee:string).

Inductive ares :=
| AExit (code:N)          (* os.Exit(code) *)
| AReturn                 (* main returned: exit status 0 *)
| AStuck.                 (* the interpreter could not continue, or exit with a non-numeric code *)

(** the error result of a call is its last result *)
Definition ok_of (vals:list sval) : bool :=
  match last vals (VOpaque "none") with VNil => true | _ => false end.

Definition abstract_event (e:call_event X) : aev :=
  let c := ce_callee _ e in
  if String.eqb c "flag.StringVar" then
    match ce_args _ e with [v; VStr n; VStr d; _] => AFlagString v n d | _ => AOther c end
  else if String.eqb c "flag.BoolVar" then
    match ce_args _ e with [v; VStr n; VBool d; _] => AFlagBool v n d | _ => AOther c end
  else if String.eqb c "flag.Parse" then AParse
  else if String.eqb c "flag.Args" then AArgs
  else if String.eqb c "fmt.Fprintf" || String.eqb c "fmt.Fprintln" || String.eqb c "fmt.Fprint" then APrint
  else if String.eqb c "yaml.NewConfigWithFile" then
    match ce_args _ e with [f] => AYaml f (ok_of (ce_results _ e)) | _ => AOther c end
  else if String.eqb c "seccomp.LoadFilter" then ALoad (ce_args _ e) (ok_of (ce_results _ e))
  else if String.eqb c "exec.Command" then
    match ce_args _ e with a :: _ => ACommand a | [] => AOther c end
  else if String.eqb (last_comp c) "Unpack" then AUnpack (ok_of (ce_results _ e))
  else if String.eqb (last_comp c) "Run" then ARun (VOpaque "cmd") (ok_of (ce_results _ e))
  else AOther c.

(** [Run] events carry the path of the most recent exec.Command *)
Fixpoint link_runs (cur:sval) (l:list aev) : list aev :=
  match l with
  | [] => []
  | ACommand p :: r => ACommand p :: link_runs p r
  | ARun _ ok :: r => ARun cur ok :: link_runs cur r
  | a :: r => a :: link_runs cur r
  end.

Definition abstract_result (r:result X) : ares :=
  match r with
  | RExit (VNum c) => AExit c
  | RReturn [] => AReturn
  | _ => AStuck
  end.

Definition sandbox_run (funs:list skfun) (main:list sk) (tsync:N) (o:oracle) : list aev * ares :=
  let '(tr, r) := sandbox_trace funs main tsync o in
  (link_runs (VOpaque "no command") (map abstract_event tr), abstract_result r).

(** ** the reference behaviour *)
Definition flag_policy_var : sval := VOpaque "policyFile".
Definition flag_nnp_var : sval := VOpaque "noNewPrivs".

(** the value main() hands to LoadFilter: NoNewPrivs is the variable bound to -no-new-privs, Flag the
    thread-sync constant, Policy what parsePolicy returned - the field Seccomp of the struct given to Unpack *)
Definition filter_value (tsync:N) : sval :=
  VStruct "seccomp.Filter"
    [("Flag", VNum tsync); ("NoNewPrivs", flag_nnp_var); ("Policy", VOpaque "Seccomp")].

Definition ref_prefix : list aev :=
  [AFlagString flag_policy_var "policy" "seccomp.yml"; AFlagBool flag_nnp_var "no-new-privs" true; AParse; AArgs].

Definition ref_run (tsync:N) (o:oracle) : list aev * ares :=
  match o_args o with
  | [] => (ref_prefix ++ [APrint], AExit 1)
  | a0 :: _ =>
    let y := AYaml flag_policy_var (succeeds (o_yaml o)) in
    if negb (succeeds (o_yaml o)) then (ref_prefix ++ [y; APrint], AExit 1) else
    let u := AUnpack (succeeds (o_unpack o)) in
    if negb (succeeds (o_unpack o)) then (ref_prefix ++ [y; u; APrint], AExit 1) else
    let l := ALoad [filter_value tsync] (succeeds (o_load o)) in
    if negb (succeeds (o_load o)) then (ref_prefix ++ [y; u; l; APrint], AExit 1) else
    let c := ACommand (VStr a0) in
    let r := ARun (VStr a0) (succeeds (o_run o)) in
    if negb (succeeds (o_run o)) then (ref_prefix ++ [y; u; l; c; r; APrint], AExit 1)
    else (ref_prefix ++ [y; u; l; c; r], AReturn)
  end.

(** ** the per-run proof: case analysis on the oracle, evaluation, comparison *)
Ltac prove_sandbox_ref :=
  let o := fresh "o" in
  intro o; destruct o as [args yaml unpack load run];
  destruct args as [|a0 args]; destruct yaml; destruct unpack; destruct load; destruct run;
  vm_compute; reflexivity.
