(** * GatedProofs: the loader on a kernel that filters the loader's own system calls.

    [do_seccomp_g] / [do_prctl_g] (KernelState.v) let seccomp(2) and prctl(2) through only if the filters the calling
    thread already carries say ALLOW or LOG for them. The specification of the loader (LoaderProofs.load_spec) is
    generic in the kernel functions, and the per-run proof that the regenerated skeleton meets it is stated for ALL
    kernel functions - so it holds for the gated kernel as it stands. This file proves, for any loader meeting the
    specification over the gated kernel:

      - [open_agrees]               where no filter intercepts the two calls, the gated kernel answers like the plain
                                    one: every theorem of LoaderProofs about a load carries over to such states;
      - [load_refused_seccomp]      if the caller's filters answer seccomp(2) with an error, LoadFilter returns an
                                    error and no thread's filter stack changes;
      - [load_refused_prctl]        if they answer prctl(2) with an error and no_new_privs was requested, LoadFilter
                                    returns an error, the kernel state is unchanged and seccomp(2) is not called;
      - [supported_pure_gated]      Supported() changes nothing, whatever the filters say. *)
From Coq Require Import List NArith Bool Lia.
From Seccomp Require Import Words Machine Raw Result KernelCheck KernelState Skeleton Loader LoaderProofs.
Import ListNotations.
Open Scope N_scope.

(** the verdict depends on the caller's filter stack and the installed programs only *)
Lemma find_thread_in_map : forall (g:thread -> thread) ts tid,
  (forall t, t_tid (g t) = t_tid t) ->
  find_thread_in (map g ts) tid = option_map g (find_thread_in ts tid).
Proof.
  intros g ts tid Hg. induction ts as [|t r IH]; [reflexivity|].
  cbn [map find_thread_in]. rewrite Hg. destruct (t_tid t =? tid); [reflexivity|exact IH].
Qed.

Lemma gate_prctl_set_nnp : forall st t' t nr args, gate (prctl_set_nnp st t') t nr args = gate st t nr args.
Proof.
  intros st t' t nr args. unfold gate, find_thread, prctl_set_nnp, set_threads, map_thread. cbn [ks_threads].
  rewrite find_thread_in_map by (intros x; destruct (t_tid x =? t'); reflexivity).
  destruct (find_thread_in (ks_threads st) t) as [th|]; cbn [option_map]; [|reflexivity].
  unfold stack_ret. cbn [ks_progs]. destruct (t_tid th =? t'); reflexivity.
Qed.

Lemma stacks_prctl_set_nnp : forall st t, stacks (prctl_set_nnp st t) = stacks st.
Proof.
  intros st t. unfold stacks, prctl_set_nnp, set_threads, map_thread. cbn [ks_threads]. rewrite map_map.
  apply map_ext. intros th. destruct (t_tid th =? t); reflexivity.
Qed.

(** prctl on the gated kernel: the filter stacks never change, and neither does any verdict *)
Lemma do_prctl_g_stacks : forall st t o a2 a3 a4 a5, stacks (fst (fst (do_prctl_g st t o a2 a3 a4 a5))) = stacks st.
Proof.
  intros. unfold do_prctl_g, gated. destruct (gate st t SYS_prctl _); cbn [fst]; try reflexivity.
  unfold do_prctl. destruct (find_thread st t); [|reflexivity].
  destruct (o =? PR_SET_NO_NEW_PRIVS); [|reflexivity].
  destruct (negb (a2 =? 1) || negb (a3 =? 0) || negb (a4 =? 0) || negb (a5 =? 0)); [reflexivity|].
  cbn [fst]. apply stacks_prctl_set_nnp.
Qed.

Lemma do_prctl_g_gate : forall st t o a2 a3 a4 a5 t1 nr args,
  gate (fst (fst (do_prctl_g st t o a2 a3 a4 a5))) t1 nr args = gate st t1 nr args.
Proof.
  intros. unfold do_prctl_g, gated. destruct (gate st t SYS_prctl _); cbn [fst]; try reflexivity.
  unfold do_prctl. destruct (find_thread st t); [|reflexivity].
  destruct (o =? PR_SET_NO_NEW_PRIVS); [|reflexivity].
  destruct (negb (a2 =? 1) || negb (a3 =? 0) || negb (a4 =? 0) || negb (a5 =? 0)); [reflexivity|].
  cbn [fst]. apply gate_prctl_set_nnp.
Qed.

(** no filter of any thread intercepts seccomp(2) or prctl(2) *)
Definition open (st:kstate) : Prop :=
  forall t args, gate st t SYS_seccomp args = VGo /\ gate st t SYS_prctl args = VGo.

Lemma open_prctl : forall st t o a2 a3 a4 a5, open st -> do_prctl_g st t o a2 a3 a4 a5 = do_prctl st t o a2 a3 a4 a5.
Proof. intros st t o a2 a3 a4 a5 H. unfold do_prctl_g. rewrite (proj2 (H t _)). reflexivity. Qed.
Lemma open_seccomp : forall st t op fl pr, open st -> do_seccomp_g st t op fl pr = do_seccomp st t op fl pr.
Proof. intros st t op fl pr H. unfold do_seccomp_g. rewrite (proj1 (H t _)). reflexivity. Qed.
Lemma open_after_prctl : forall st t o a2 a3 a4 a5, open st -> open (fst (fst (do_prctl st t o a2 a3 a4 a5))).
Proof.
  intros st t o a2 a3 a4 a5 H t1 args. rewrite <- (open_prctl st t o a2 a3 a4 a5 H). rewrite !do_prctl_g_gate. apply H.
Qed.

(** where nothing intercepts the two calls the gated kernel is the plain one, for a whole LoadFilter *)
Theorem open_agrees : forall t st f, open st ->
  ref_load kstate do_seccomp_g do_prctl_g t st f = ref_load kstate do_seccomp do_prctl t st f.
Proof.
  intros t st f H. unfold ref_load. destruct (f_prog f) as [p|e]; [|reflexivity].
  destruct (f_nnp f).
  - rewrite (open_prctl st t _ _ _ _ _ H).
    destruct (num_eqb (snd (do_prctl st t PR_SET_NO_NEW_PRIVS 1 0 0 0)) 0); [|reflexivity].
    unfold ref_install. rewrite open_seccomp by (apply open_after_prctl; exact H). reflexivity.
  - unfold ref_install. rewrite (open_seccomp st t _ _ _ H). reflexivity.
Qed.

Section Gated.
Variable load : world kstate -> filt -> world kstate * lres.
Variable supp : world kstate -> world kstate * option bool.
Hypothesis Hload : load_spec kstate do_seccomp_g do_prctl_g load.
Hypothesis Hsupp : supp_spec kstate do_seccomp_g supp.

(** every thread's filters answer seccomp(2) with an error *)
Definition refuses (st:kstate) (nr:N) : Prop := forall t args, exists e, e <> 0 /\ gate st t nr args = VRefuse e.

Theorem load_refused_seccomp : forall w f, refuses (w_k w) SYS_seccomp ->
  snd (load w f) = LErr /\ stacks (w_k (fst (load w f))) = stacks (w_k w).
Proof.
  intros w f Hr. destruct (Hload w f) as [j [H1 [H2 _]]]. cbv zeta in H1, H2. rewrite H1, H2. clear H1 H2.
  set (t := thread_at kstate w j). unfold ref_load. destruct (f_prog f) as [p|e]; [|split; reflexivity].
  assert (Hinst: forall k1, stacks k1 = stacks (w_k w) -> (forall t1 a, gate k1 t1 SYS_seccomp a = gate (w_k w) t1 SYS_seccomp a) ->
            snd (fst (ref_install kstate do_seccomp_g t k1 f p)) = LErr /\ stacks (fst (fst (ref_install kstate do_seccomp_g t k1 f p))) = stacks (w_k w)).
  { intros k1 Hs Hg. unfold ref_install. cbn [fst snd]. unfold do_seccomp_g. rewrite Hg.
    destruct (Hr t [SECCOMP_SET_MODE_FILTER; f_flag f mod 18446744073709551616; 0; 0; 0; 0]) as [e [He ->]].
    cbn [gated fst snd]. unfold num_eqb. replace (e =? 0) with false by (symmetry; apply N.eqb_neq; exact He).
    cbn [andb]. split; [reflexivity|exact Hs]. }
  destruct (f_nnp f).
  - destruct (num_eqb (snd (do_prctl_g (w_k w) t PR_SET_NO_NEW_PRIVS 1 0 0 0)) 0).
    + apply Hinst; [apply do_prctl_g_stacks|intros; apply do_prctl_g_gate].
    + cbn [fst snd]. split; [reflexivity|apply do_prctl_g_stacks].
  - apply Hinst; [reflexivity|reflexivity].
Qed.

Theorem load_refused_prctl : forall w f p, refuses (w_k w) SYS_prctl -> f_nnp f = true -> f_prog f = Ok p ->
  snd (load w f) = LErr /\ w_k (fst (load w f)) = w_k w /\ w_log (fst (load w f)) = w_log w.
Proof.
  intros w f p Hr Hn Hp. destruct (Hload w f) as [j [H1 [H2 [H3 _]]]]. cbv zeta in H1, H2, H3. rewrite H1, H2, H3. clear H1 H2 H3.
  set (t := thread_at kstate w j). unfold ref_load. rewrite Hp, Hn. unfold do_prctl_g.
  destruct (Hr t [PR_SET_NO_NEW_PRIVS; 1; 0; 0; 0; 0]) as [e [He ->]]. cbn [gated fst snd].
  unfold num_eqb. replace (e =? 0) with false by (symmetry; apply N.eqb_neq; exact He). cbn [fst snd app]. repeat split.
Qed.

(** probing for support changes nothing on the gated kernel either *)
Theorem supported_pure_gated : forall w, w_k (fst (supp w)) = w_k w.
Proof.
  intros w. destruct (Hsupp w) as [j [H1 _]]. cbv zeta in H1. rewrite H1. unfold do_seccomp_g, gated.
  destruct (gate (w_k w) (thread_at kstate w j) SYS_seccomp _); cbn [fst]; try reflexivity.
  rewrite strict_probe. destruct (find_thread (w_k w) (thread_at kstate w j)); reflexivity.
Qed.
End Gated.
