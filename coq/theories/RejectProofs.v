(** * RejectProofs: which policies the compiler rejects, and that it accepts all the others (C07).

    - [group_defect] is the specification of the defects of a syscall group, written against the
      policy as the user wrote it and independent of the loops of toSyscallsWithConditions.
    - [to_syscalls_reject_iff]: toSyscallsWithConditions reports problems exactly for the groups
      with a defect.
    - [gen_group_assembles]: Program.Assemble cannot fail on the code generated for a group.
    - [compile_reject_iff], [compile_error_class], [compile_accepts]: Policy.Assemble. *)
From Coq Require Import List NArith PeanoNat Bool Lia String.
From Seccomp Require Import Words Machine Result Assembler AssemblerProofs Policy Spec CompileProofs.
Import ListNotations.
Open Scope N_scope.
Open Scope list_scope.

(** ** A. The specification of group defects *)

(** the number the compiler uses for a name: uint32(num | SeccompMask); [None]: unknown name *)
Definition num_of (ai:arch_info) (name:string) : option N :=
  match lookup_name (ai_table ai) name with
  | Some num => Some (sysnum ai num)
  | None => None
  end.

Definition unknown_name (ai:arch_info) (names:list string) : Prop :=
  exists a, In a names /\ num_of ai a = None.

Definition unknown_cond_name (ai:arch_info) (ncs:list nwc) : Prop :=
  exists nc, In nc ncs /\ num_of ai (nc_name nc) = None.

(** two different positions of the list of names resolve to the same number
    (the same name twice, or two aliases of one number) *)
Definition duplicate_name (ai:arch_info) (names:list string) : Prop :=
  exists (i j:nat) a b sc, i <> j /\ nth_error names i = Some a /\ nth_error names j = Some b /\
    num_of ai a = Some sc /\ num_of ai b = Some sc.

Definition cond_and_uncond (ai:arch_info) (names:list string) (ncs:list nwc) : Prop :=
  exists a nc sc, In a names /\ In nc ncs /\ num_of ai a = Some sc /\ num_of ai (nc_name nc) = Some sc.

Definition bad_arg (ncs:list nwc) : Prop :=
  exists nc c, In nc ncs /\ In c (nc_conds nc) /\ 5 < c_arg c.

Definition bad_op (ncs:list nwc) : Prop :=
  exists nc c, In nc ncs /\ In c (nc_conds nc) /\ op_valid (c_op c) = false.

Definition no_conds (ncs:list nwc) : Prop :=
  exists nc, In nc ncs /\ nc_conds nc = [].

Definition group_defect (ai:arch_info) (g:group) : Prop :=
  unknown_name ai (g_names g) \/
  unknown_cond_name ai (g_nwc g) \/
  duplicate_name ai (g_names g) \/
  cond_and_uncond ai (g_names g) (g_nwc g) \/
  bad_arg (g_nwc g) \/
  bad_op (g_nwc g) \/
  no_conds (g_nwc g).

(** ** B. toSyscallsWithConditions rejects exactly the groups with a defect *)

(** the same with ordered positions *)
Definition dup_lt (ai:arch_info) (names:list string) : Prop :=
  exists (i j:nat) a b sc, (i < j)%nat /\ nth_error names i = Some a /\ nth_error names j = Some b /\
    num_of ai a = Some sc /\ num_of ai b = Some sc.

Lemma duplicate_name_lt ai names : duplicate_name ai names <-> dup_lt ai names.
Proof.
  split.
  - intros (i & j & a & b & sc & Hij & Hi & Hj & Na & Nb).
    assert (L: (i < j \/ j < i)%nat) by lia. destruct L as [L|L].
    + exists i, j, a, b, sc. repeat split; assumption.
    + exists j, i, b, a, sc. repeat split; try assumption; try lia.
  - intros (i & j & a & b & sc & Hij & Hi & Hj & Na & Nb).
    exists i, j, a, b, sc. repeat split; try assumption; try lia.
Qed.

Definition has (es:list entry) (sc:N) : bool := is_some (get_syscall es sc).
Definition is_eu (es:list entry) (sc:N) : bool :=
  match get_syscall es sc with Some (EU _) => true | _ => false end.
Definition eu_entry (e:entry) : Prop := match e with EU _ => True | EC _ _ => False end.

Lemma get_syscall_snoc es e sc :
  get_syscall (es ++ [e]) sc =
  match get_syscall es sc with Some x => Some x | None => if entry_num e =? sc then Some e else None end.
Proof.
  induction es as [|x r IH]; cbn [app get_syscall]; [reflexivity|].
  destruct (entry_num x =? sc); [reflexivity|exact IH].
Qed.

Lemma has_snoc es e sc : has (es ++ [e]) sc = has es sc || (entry_num e =? sc).
Proof.
  unfold has. rewrite get_syscall_snoc. destruct (get_syscall es sc); [reflexivity|].
  destruct (entry_num e =? sc); reflexivity.
Qed.

Lemma is_eu_snoc_ec es n ls sc : is_eu (es ++ [EC n ls]) sc = is_eu es sc.
Proof.
  unfold is_eu. rewrite get_syscall_snoc. destruct (get_syscall es sc); [reflexivity|].
  cbn [entry_num]. destruct (n =? sc); reflexivity.
Qed.

Lemma is_eu_add_list es sc' cs sc : is_eu (add_list es sc' cs) sc = is_eu es sc.
Proof.
  unfold is_eu. induction es as [|e r IH]; cbn [add_list get_syscall]; [reflexivity|].
  destruct (entry_num e =? sc') eqn:E'.
  - destruct e as [n|n ls]; cbn [get_syscall entry_num]; destruct (n =? sc); reflexivity.
  - cbn [get_syscall]. destruct (entry_num e =? sc); [reflexivity|exact IH].
Qed.

Lemma eu_is_eu es sc : Forall eu_entry es -> is_eu es sc = has es sc.
Proof.
  unfold is_eu, has. induction 1 as [|e r He Hr IH]; cbn [get_syscall]; [reflexivity|].
  destruct (entry_num e =? sc); [|exact IH]. destruct e; [reflexivity|destruct He].
Qed.

(** the loops in terms of [num_of] *)
Lemma names_loop_cons ai name rest es bad :
  names_loop ai (name :: rest) es bad =
  match num_of ai name with
  | Some sc => match get_syscall es sc with
               | None => names_loop ai rest (es ++ [EU sc]) bad
               | Some _ => names_loop ai rest es true
               end
  | None => names_loop ai rest es true
  end.
Proof. unfold num_of. cbn [names_loop]. destruct (lookup_name (ai_table ai) name); reflexivity. Qed.

Lemma nwc_loop_cons ai nc rest es bad :
  nwc_loop ai (nc :: rest) es bad =
  match num_of ai (nc_name nc) with
  | Some sc =>
      if negb (conds_valid (nc_conds nc)) then nwc_loop ai rest es true
      else match get_syscall es sc with
           | None => nwc_loop ai rest (es ++ [EC sc [nc_conds nc]]) bad
           | Some (EU _) => nwc_loop ai rest es true
           | Some (EC _ _) => nwc_loop ai rest (add_list es sc (nc_conds nc)) bad
           end
  | None => nwc_loop ai rest es true
  end.
Proof. unfold num_of. cbn [nwc_loop]. destruct (lookup_name (ai_table ai) (nc_name nc)); reflexivity. Qed.

(** first loop: when a problem is recorded *)
Lemma names_loop_bad ai names : forall es bad es' bad',
  names_loop ai names es bad = (es', bad') ->
  (bad' = true <->
   bad = true \/ unknown_name ai names \/
   (exists a sc, In a names /\ num_of ai a = Some sc /\ has es sc = true) \/
   dup_lt ai names).
Proof.
  induction names as [|name rest IH]; intros es bad es' bad' H.
  - cbn [names_loop] in H. injection H as <- <-. split; [auto|].
    intros [Hb|[(a & [] & _)|[(a & sc & [] & _)|D]]]; [exact Hb|].
    destruct D as (i & j & a & b & sc & Hij & Hi & _). destruct i; discriminate.
  - rewrite names_loop_cons in H. destruct (num_of ai name) as [sc|] eqn:Nn.
    + destruct (get_syscall es sc) as [e|] eqn:G.
      * apply IH in H. split; intros _.
        -- right; right; left. exists name, sc. split; [left; reflexivity|]. split; [exact Nn|].
           unfold has. rewrite G. reflexivity.
        -- apply H. left. reflexivity.
      * apply IH in H. rewrite H. clear H IH. split.
        -- intros [Hb|[(a & Ha & Na)|[(a & sc' & Ha & Na & Hh)|D]]].
           ++ left; exact Hb.
           ++ right; left. exists a. split; [right; exact Ha|exact Na].
           ++ rewrite has_snoc in Hh. apply orb_true_iff in Hh. destruct Hh as [Hh|Hh].
              ** right; right; left. exists a, sc'. split; [right; exact Ha|]. split; assumption.
              ** cbn [entry_num] in Hh. apply N.eqb_eq in Hh. subst sc'. right; right; right.
                 destruct (In_nth_error _ _ Ha) as [j Hj].
                 exists 0%nat, (S j), name, a, sc. repeat split; try assumption; try lia.
           ++ right; right; right. destruct D as (i & j & a & b & sc' & Hij & Hi & Hj & Na & Nb).
              exists (S i), (S j), a, b, sc'. repeat split; try assumption; try lia.
        -- intros [Hb|[(a & [<-|Ha] & Na)|[(a & sc' & [<-|Ha] & Na & Hh)|D]]].
           ++ left; exact Hb.
           ++ congruence.
           ++ right; left. exists a. split; assumption.
           ++ assert (sc' = sc) by congruence. subst sc'. unfold has in Hh. rewrite G in Hh. discriminate.
           ++ right; right; left. exists a, sc'. split; [exact Ha|]. split; [exact Na|].
              rewrite has_snoc, Hh. reflexivity.
           ++ destruct D as (i & j & a & b & sc' & Hij & Hi & Hj & Na & Nb).
              destruct i as [|i].
              ** cbn [nth_error] in Hi. injection Hi as <-. destruct j as [|j]; [lia|].
                 cbn [nth_error] in Hj. apply nth_error_In in Hj.
                 assert (sc' = sc) by congruence. subst sc'.
                 right; right; left. exists b, sc. split; [exact Hj|]. split; [exact Nb|].
                 rewrite has_snoc. cbn [entry_num]. rewrite N.eqb_refl. apply orb_true_r.
              ** destruct j as [|j]; [lia|]. cbn [nth_error] in Hi, Hj.
                 right; right; right. exists i, j, a, b, sc'. repeat split; try assumption; try lia.
    + apply IH in H. split; intros _.
      * right; left. exists name. split; [left; reflexivity|exact Nn].
      * apply H. left. reflexivity.
Qed.

(** first loop: the entries it leaves *)
Lemma names_loop_has ai names : forall es bad es' bad',
  names_loop ai names es bad = (es', bad') -> Forall eu_entry es ->
  Forall eu_entry es' /\
  forall sc, has es' sc = true <-> has es sc = true \/ exists a, In a names /\ num_of ai a = Some sc.
Proof.
  induction names as [|name rest IH]; intros es bad es' bad' H Heu.
  - cbn [names_loop] in H. injection H as <- <-. split; [exact Heu|]. intros sc. split; [auto|].
    intros [Hh|(a & [] & _)]. exact Hh.
  - rewrite names_loop_cons in H. destruct (num_of ai name) as [sc0|] eqn:Nn.
    + destruct (get_syscall es sc0) as [e|] eqn:G.
      * destruct (IH _ _ _ _ H Heu) as [I1 I2]. split; [exact I1|]. intros sc. rewrite I2. split.
        -- intros [Hh|(a & Ha & Na)]; [left; exact Hh|right; exists a; split; [right; exact Ha|exact Na]].
        -- intros [Hh|(a & [<-|Ha] & Na)]; [left; exact Hh| |right; exists a; split; assumption].
           left. assert (sc = sc0) by congruence. subst sc. unfold has. rewrite G. reflexivity.
      * assert (Heu': Forall eu_entry (es ++ [EU sc0])).
        { apply Forall_app. split; [exact Heu|]. constructor; [exact I|constructor]. }
        destruct (IH _ _ _ _ H Heu') as [I1 I2]. split; [exact I1|]. intros sc. rewrite I2, has_snoc.
        cbn [entry_num]. split.
        -- intros [Hh|(a & Ha & Na)].
           ++ apply orb_true_iff in Hh. destruct Hh as [Hh|Hh]; [left; exact Hh|].
              apply N.eqb_eq in Hh. subst sc. right. exists name. split; [left; reflexivity|exact Nn].
           ++ right. exists a. split; [right; exact Ha|exact Na].
        -- intros [Hh|(a & [<-|Ha] & Na)].
           ++ left. rewrite Hh. reflexivity.
           ++ left. assert (sc = sc0) by congruence. subst sc. rewrite N.eqb_refl. apply orb_true_r.
           ++ right. exists a. split; assumption.
    + destruct (IH _ _ _ _ H Heu) as [I1 I2]. split; [exact I1|]. intros sc. rewrite I2. split.
      * intros [Hh|(a & Ha & Na)]; [left; exact Hh|right; exists a; split; [right; exact Ha|exact Na]].
      * intros [Hh|(a & [<-|Ha] & Na)]; [left; exact Hh|congruence|right; exists a; split; assumption].
Qed.

(** second loop: when a problem is recorded *)
Lemma nwc_loop_bad ai ncs : forall es bad es' bad',
  nwc_loop ai ncs es bad = (es', bad') ->
  (bad' = true <->
   bad = true \/ unknown_cond_name ai ncs \/
   (exists nc, In nc ncs /\ conds_valid (nc_conds nc) = false) \/
   (exists nc sc, In nc ncs /\ num_of ai (nc_name nc) = Some sc /\ is_eu es sc = true)).
Proof.
  induction ncs as [|nc rest IH]; intros es bad es' bad' H.
  - cbn [nwc_loop] in H. injection H as <- <-. split; [auto|].
    intros [Hb|[(a & [] & _)|[(a & [] & _)|(a & sc & [] & _)]]]. exact Hb.
  - rewrite nwc_loop_cons in H. destruct (num_of ai (nc_name nc)) as [sc|] eqn:Nn.
    + destruct (conds_valid (nc_conds nc)) eqn:V; cbn [negb] in H.
      * assert (Hsame: forall es1, (forall sc', is_eu es1 sc' = is_eu es sc') -> is_eu es sc = false ->
                  nwc_loop ai rest es1 bad = (es', bad') ->
                  (bad' = true <->
                   bad = true \/ unknown_cond_name ai (nc :: rest) \/
                   (exists nc0, In nc0 (nc :: rest) /\ conds_valid (nc_conds nc0) = false) \/
                   (exists nc0 sc0, In nc0 (nc :: rest) /\ num_of ai (nc_name nc0) = Some sc0 /\ is_eu es sc0 = true))).
        { intros es1 Hsame Hno H1. apply IH in H1. rewrite H1. clear H1. split.
          - intros [Hb|[(a & Ha & Na)|[(a & Ha & Va)|(a & sc' & Ha & Na & Ea)]]].
            + left; exact Hb.
            + right; left. exists a. split; [right; exact Ha|exact Na].
            + right; right; left. exists a. split; [right; exact Ha|exact Va].
            + right; right; right. exists a, sc'. split; [right; exact Ha|]. split; [exact Na|].
              rewrite <- Hsame. exact Ea.
          - intros [Hb|[(a & [<-|Ha] & Na)|[(a & [<-|Ha] & Va)|(a & sc' & [<-|Ha] & Na & Ea)]]].
            + left; exact Hb.
            + congruence.
            + right; left. exists a. split; assumption.
            + congruence.
            + right; right; left. exists a. split; assumption.
            + assert (sc' = sc) by congruence. subst sc'. congruence.
            + right; right; right. exists a, sc'. split; [exact Ha|]. split; [exact Na|].
              rewrite Hsame. exact Ea. }
        destruct (get_syscall es sc) as [[n0|n0 ls0]|] eqn:G.
        -- apply IH in H. split; intros _.
           ++ right; right; right. exists nc, sc. split; [left; reflexivity|]. split; [exact Nn|].
              unfold is_eu. rewrite G. reflexivity.
           ++ apply H. left. reflexivity.
        -- eapply Hsame; [|unfold is_eu; rewrite G; reflexivity|exact H].
           intros sc'. apply is_eu_add_list.
        -- eapply Hsame; [|unfold is_eu; rewrite G; reflexivity|exact H].
           intros sc'. apply is_eu_snoc_ec.
      * apply IH in H. split; intros _.
        -- right; right; left. exists nc. split; [left; reflexivity|exact V].
        -- apply H. left. reflexivity.
    + apply IH in H. split; intros _.
      * right; left. exists nc. split; [left; reflexivity|exact Nn].
      * apply H. left. reflexivity.
Qed.

(** ArgumentConditions.Validate reports a problem *)
Lemma conds_valid_false cs :
  conds_valid cs = false <->
  cs = [] \/ (exists c, In c cs /\ 5 < c_arg c) \/ (exists c, In c cs /\ op_valid (c_op c) = false).
Proof.
  unfold conds_valid. split.
  - intros H. apply andb_false_iff in H. destruct H as [H|H].
    + left. destruct cs; [reflexivity|discriminate].
    + right. induction cs as [|c r IH]; [discriminate|]. cbn [forallb] in H.
      apply andb_false_iff in H. destruct H as [H|H].
      * apply andb_false_iff in H. destruct H as [H|H].
        -- left. exists c. split; [left; reflexivity|]. apply N.leb_gt in H. exact H.
        -- right. exists c. split; [left; reflexivity|exact H].
      * destruct (IH H) as [(c' & Hc & Hx)|(c' & Hc & Hx)].
        -- left. exists c'. split; [right; exact Hc|exact Hx].
        -- right. exists c'. split; [right; exact Hc|exact Hx].
  - intros [->|[(c & Hc & Hx)|(c & Hc & Hx)]]; [reflexivity| |].
    + apply andb_false_iff. right.
      destruct (forallb (fun c0 => (c_arg c0 <=? 5) && op_valid (c_op c0)) cs) eqn:F; [|reflexivity].
      rewrite forallb_forall in F. specialize (F c Hc). apply andb_true_iff in F. destruct F as [F _].
      apply N.leb_le in F. lia.
    + apply andb_false_iff. right.
      destruct (forallb (fun c0 => (c_arg c0 <=? 5) && op_valid (c_op c0)) cs) eqn:F; [|reflexivity].
      rewrite forallb_forall in F. specialize (F c Hc). apply andb_true_iff in F. destruct F as [_ F].
      congruence.
Qed.

Lemma loops_bad_iff ai g es1 bad1 es2 bad2 :
  names_loop ai (g_names g) [] false = (es1, bad1) ->
  nwc_loop ai (g_nwc g) es1 bad1 = (es2, bad2) ->
  (bad2 = true <-> group_defect ai g).
Proof.
  intros N1 N2.
  pose proof (names_loop_bad _ _ _ _ _ _ N1) as B1.
  destruct (names_loop_has _ _ _ _ _ _ N1 (Forall_nil _)) as [Heu Hhas].
  pose proof (nwc_loop_bad _ _ _ _ _ _ N2) as B2.
  rewrite B2, B1. clear B1 B2. unfold group_defect. rewrite duplicate_name_lt. split.
  - intros [[Hb|[U|[(a & sc & Ha & Na & Hh)|D]]]|[U|[(nc & Hnc & V)|(nc & sc & Hnc & Nnc & E)]]].
    + discriminate.
    + left; exact U.
    + discriminate.
    + right; right; left; exact D.
    + right; left; exact U.
    + apply conds_valid_false in V. destruct V as [V|[(c & Hc & Hx)|(c & Hc & Hx)]].
      * right; right; right; right; right; right. exists nc. split; assumption.
      * right; right; right; right; left. exists nc, c. repeat split; assumption.
      * right; right; right; right; right; left. exists nc, c. repeat split; assumption.
    + rewrite (eu_is_eu _ _ Heu) in E. apply Hhas in E. destruct E as [E|(a & Ha & Na)]; [discriminate|].
      right; right; right; left. exists a, nc, sc. repeat split; assumption.
  - intros [U|[U|[D|[(a & nc & sc & Ha & Hnc & Na & Nnc)|[(nc & c & Hnc & Hc & Hx)|[(nc & c & Hnc & Hc & Hx)|(nc & Hnc & Hx)]]]]]].
    + left; right; left; exact U.
    + right; left; exact U.
    + left; right; right; right; exact D.
    + right; right; right. exists nc, sc. split; [exact Hnc|]. split; [exact Nnc|].
      rewrite (eu_is_eu _ _ Heu). apply Hhas. right. exists a. split; assumption.
    + right; right; left. exists nc. split; [exact Hnc|]. apply conds_valid_false. right; left. exists c. split; assumption.
    + right; right; left. exists nc. split; [exact Hnc|]. apply conds_valid_false. right; right. exists c. split; assumption.
    + right; right; left. exists nc. split; [exact Hnc|]. apply conds_valid_false. left. exact Hx.
Qed.

Theorem to_syscalls_reject_iff ai g : to_syscalls ai g = Error EProblems <-> group_defect ai g.
Proof.
  unfold to_syscalls.
  destruct (names_loop ai (g_names g) [] false) as [es1 bad1] eqn:N1.
  destruct (nwc_loop ai (g_nwc g) es1 bad1) as [es2 bad2] eqn:N2.
  rewrite <- (loops_bad_iff ai g _ _ _ _ N1 N2).
  destruct bad2; split; intros H; try reflexivity; discriminate.
Qed.
Print Assumptions to_syscalls_reject_iff.

Theorem to_syscalls_total ai g : exists es, to_syscalls ai g = Ok es \/ to_syscalls ai g = Error EProblems.
Proof.
  unfold to_syscalls.
  destruct (names_loop ai (g_names g) [] false) as [es1 bad1].
  destruct (nwc_loop ai (g_nwc g) es1 bad1) as [es2 bad2].
  exists es2. destruct bad2; [right|left]; reflexivity.
Qed.
Print Assumptions to_syscalls_total.

Corollary to_syscalls_accept_iff ai g : (exists es, to_syscalls ai g = Ok es) <-> ~ group_defect ai g.
Proof.
  rewrite <- to_syscalls_reject_iff. destruct (to_syscalls_total ai g) as [es [H|H]]; rewrite H.
  - split; [intros _; discriminate|intros _; exists es; reflexivity].
  - split; [intros [es' E]; discriminate|intros N; exfalso; apply N; reflexivity].
Qed.

(** ** C. Program.Assemble cannot fail on the code generated for a group *)

(** the label has a marker ahead / a marker ahead with at least one real instruction in between *)
Definition ahead (l:label) (r:list item) : Prop := dist l r <> None.
Definition ahead1 (l:label) (r:list item) : Prop := exists d, dist l r = Some d /\ d <> 0.

(** what Assemble demands of a conditional jump in front of [r] (apart from the reach) *)
Definition jump_ok (tl fl:label) (r:list item) : Prop :=
  ahead tl r /\ ahead fl r /\ (ahead1 tl r \/ ahead1 fl r).

Fixpoint wf_jumps (its:list item) : Prop :=
  match its with
  | [] => True
  | TJmpIf _ _ tl fl :: r => jump_ok tl fl r /\ wf_jumps r
  | TJaL l :: r => ahead l r /\ wf_jumps r
  | _ :: r => wf_jumps r
  end.

Lemma dist_real it r l : is_real it = true -> dist l (it :: r) = option_map N.succ (dist l r).
Proof. destruct it; cbn [is_real]; intros H; try discriminate; reflexivity. Qed.

Lemma dist_label l l' r : dist l (TLabel l' :: r) = if l' =? l then Some 0 else dist l r.
Proof. reflexivity. Qed.

Lemma ahead1_ahead l r : ahead1 l r -> ahead l r.
Proof. intros (d & H & _). unfold ahead. rewrite H. discriminate. Qed.

Lemma ahead_label_same l r : ahead l (TLabel l :: r).
Proof. unfold ahead. cbn [dist]. rewrite N.eqb_refl. discriminate. Qed.

Lemma ahead_cons l it r : ahead l r -> ahead l (it :: r).
Proof.
  unfold ahead. intros H. destruct it; cbn [dist]; try (destruct (dist l r); [discriminate|congruence]).
  destruct (l0 =? l); [discriminate|exact H].
Qed.

Lemma ahead_app l x r : ahead l r -> ahead l (x ++ r).
Proof. intros H. induction x as [|it x IH]; [exact H|]. cbn [app]. apply ahead_cons. exact IH. Qed.

Lemma ahead1_real l it r : is_real it = true -> ahead l r -> ahead1 l (it :: r).
Proof.
  unfold ahead, ahead1. intros Hr H. rewrite (dist_real _ _ _ Hr).
  destruct (dist l r) as [d|]; [|congruence]. exists (N.succ d). split; [reflexivity|lia].
Qed.

Lemma ahead1_label l l' r : l' <> l -> ahead1 l r -> ahead1 l (TLabel l' :: r).
Proof.
  unfold ahead1. intros Hne H. cbn [dist]. apply N.eqb_neq in Hne. rewrite Hne. exact H.
Qed.

Lemma ahead1_app l x r : ~ In l (markers x) -> ahead1 l r -> ahead1 l (x ++ r).
Proof.
  intros Hn H. induction x as [|it x IH]; [exact H|]. cbn [app].
  destruct it; try (apply ahead1_real; [reflexivity|]; apply ahead_app; apply ahead1_ahead; exact H).
  apply ahead1_label.
  - intros ->. apply Hn. simpl. auto.
  - apply IH. intro Hi. apply Hn. simpl. auto.
Qed.

Ltac ahead_tac :=
  first [ assumption
        | apply ahead_label_same
        | apply ahead1_ahead; assumption
        | apply ahead_cons; ahead_tac
        | apply ahead_app; ahead_tac ].
Ltac ahead1_tac :=
  first [ assumption
        | apply ahead1_label; [lia|ahead1_tac]
        | apply ahead1_real; [first [reflexivity|apply tramp_real]|ahead_tac] ].
Ltac jump_tac :=
  first [ assumption
        | split; [ahead_tac|split; [ahead_tac|first [assumption|left; ahead1_tac|right; ahead1_tac]]] ].
Ltac wf_tac :=
  repeat lazymatch goal with
  | |- jump_ok _ _ _ /\ _ => split; [jump_tac|]
  | |- ahead _ _ /\ _ => split; [ahead_tac|]
  end; try assumption.

(** *** the generators *)
Lemma gen_cond_wf le c mt nm n r :
  mt < n -> nm < n -> op_valid (c_op c) = true ->
  jump_ok mt nm r -> wf_jumps r ->
  wf_jumps (fst (gen_cond le c mt nm n) ++ r).
Proof.
  intros Hmt Hnm Hop Hj Hr. pose proof Hj as (Amt & Anm & Aor).
  unfold gen_cond, jmp_if_true.
  destruct (c_op c); try discriminate; cbn [fst app wf_jumps]; wf_tac.
Qed.

Lemma gen_cond_real le c mt nm n :
  op_valid (c_op c) = true ->
  exists it x, fst (gen_cond le c mt nm n) = it :: x /\ is_real it = true.
Proof.
  intros Hop. unfold gen_cond. destruct (c_op c); try discriminate; cbn [fst];
  eexists; eexists; (split; [reflexivity|reflexivity]).
Qed.

Lemma gen_conds_real le cs action nm n :
  cs <> [] -> Forall cnd_ok cs ->
  exists it x, fst (gen_conds le cs action nm n) = it :: x /\ is_real it = true.
Proof.
  intros Hne Hok. destruct cs as [|c rest]; [congruence|]. inversion Hok as [|? ? [_ Hop] _]; subst.
  cbn [gen_conds].
  destruct (gen_cond_real le c (match rest with [] => action | _ => n end) nm (n+1) Hop) as (it & x & E & R).
  destruct (gen_cond le c _ nm (n+1)) as [code n1]. cbn [fst] in E. subst code.
  destruct (gen_conds le rest action nm n1) as [more n2]. cbn [fst app]. eauto.
Qed.

Lemma gen_conds_cons_ne le c rest action nm n :
  rest <> [] ->
  gen_conds le (c :: rest) action nm n =
  let '(code, n1) := gen_cond le c n nm (n+1) in
  let '(more, n2) := gen_conds le rest action nm n1 in
  (code ++ TLabel n :: more, n2).
Proof. intros H. destruct rest; [congruence|reflexivity]. Qed.

Lemma gen_conds_wf le cs : forall action nm n r,
  Forall cnd_ok cs -> action < n -> nm < n ->
  jump_ok action nm r -> wf_jumps r ->
  wf_jumps (fst (gen_conds le cs action nm n) ++ r).
Proof.
  induction cs as [|c rest IH]; intros action nm n r Hok Ha Hn Hj Hr; [exact Hr|].
  inversion Hok as [|? ? [_ Hop] Hrest]; subst.
  pose proof Hj as (Aa & Anm & Aor).
  assert (Hcase: rest = [] \/ rest <> []) by (destruct rest; [left; reflexivity|right; discriminate]).
  destruct Hcase as [->|Hne].
  - cbn [gen_conds].
    pose proof (gen_cond_wf le c action nm (n+1)) as W.
    destruct (gen_cond le c action nm (n+1)) as [code n1]. cbn [fst snd app] in *.
    rewrite <- app_assoc. cbn [app]. apply W; [lia|lia|exact Hop| |exact Hr].
    destruct Aor as [A1|A1]; jump_tac.
  - rewrite (gen_conds_cons_ne le c rest action nm n Hne).
    pose proof (gen_cond_fresh le c n nm (n+1)) as [F1 _].
    pose proof (gen_cond_wf le c n nm (n+1)) as W.
    destruct (gen_cond le c n nm (n+1)) as [code n1]. cbn [fst snd] in F1, W.
    specialize (IH action nm n1 r Hrest).
    destruct (gen_conds_real le rest action nm n1 Hne Hrest) as (it & x & E & R).
    destruct (gen_conds le rest action nm n1) as [more n2]. cbn [fst snd] in IH, E |- *. subst more.
    rewrite <- app_assoc. cbn [app]. apply W; [lia|lia|exact Hop| |].
    + split; [ahead_tac|split; [ahead_tac|]]. right.
      apply ahead1_label; [lia|]. apply ahead1_real; [exact R|ahead_tac].
    + cbn [wf_jumps]. apply IH; [lia|lia|exact Hj|exact Hr].
Qed.

Lemma gen_list_wf le cs action n r :
  list_ok cs -> action < n -> ahead1 action r -> wf_jumps r ->
  wf_jumps (fst (gen_list le cs action n) ++ r).
Proof.
  intros [Hne Hok] Ha A1 Hr. unfold gen_list.
  pose proof (gen_conds_wf le cs action n (n+1) (TLabel n :: r) Hok) as W.
  destruct (gen_conds le cs action n (n+1)) as [code n1]. cbn [fst snd] in *.
  rewrite <- app_assoc. cbn [app]. apply W; [lia|lia| |exact Hr]. jump_tac.
Qed.

Lemma gen_lists_wf le ls : forall action n r,
  Forall list_ok ls -> action < n -> ahead1 action r -> wf_jumps r ->
  wf_jumps (fst (gen_lists le ls action n) ++ r).
Proof.
  induction ls as [|cs rest IH]; intros action n r Hok Ha A1 Hr; [exact Hr|].
  inversion Hok as [|? ? Hcs Hrest]; subst. cbn [gen_lists].
  pose proof (gen_list_fresh le cs action n) as [F1 _].
  pose proof (gen_list_wf le cs action n) as W.
  destruct (gen_list le cs action n) as [code n1]. cbn [fst snd] in *.
  pose proof (gen_lists_fresh le rest action n1) as [_ G2].
  specialize (IH action n1 r Hrest).
  destruct (gen_lists le rest action n1) as [more n2]. cbn [fst snd] in *.
  rewrite <- app_assoc. apply W; [exact Hcs|exact Ha| |apply IH; [lia|exact A1|exact Hr]].
  apply ahead1_app; [|exact A1]. intro Hi. apply G2 in Hi. lia.
Qed.

Lemma gen_ent_wf le e action n r :
  entry_ok e -> action < n -> ahead1 action r -> wf_jumps r ->
  wf_jumps (fst (gen_ent le e action n) ++ r).
Proof.
  intros Hok Ha A1 Hr. destruct e as [num|num ls]; cbn [gen_ent].
  - unfold jmp_if_true. cbn [fst app wf_jumps]. wf_tac.
  - destruct Hok as [_ Hok].
    pose proof (gen_lists_fresh le ls action (n+2)) as [_ G2].
    pose proof (gen_lists_wf le ls action (n+2) (TLd 0 :: TLabel n :: r) Hok) as W.
    destruct (gen_lists le ls action (n+2)) as [code n1]. cbn [fst snd] in *.
    unfold jmp_if_true. rewrite <- !app_assoc. cbn [app wf_jumps]. split.
    + split; [|split; [ahead_tac|left]].
      * apply ahead_cons. apply ahead_app. ahead_tac.
      * apply ahead1_label; [lia|]. apply ahead1_app; [intro Hi; apply G2 in Hi; lia|]. ahead1_tac.
    + apply W; [lia|ahead1_tac|exact Hr].
Qed.

Lemma gen_ents_wf le es : forall action n r,
  Forall entry_ok es -> action < n -> ahead1 action r -> wf_jumps r ->
  wf_jumps (fst (gen_ents le es action n) ++ r).
Proof.
  induction es as [|e rest IH]; intros action n r Hok Ha A1 Hr; [exact Hr|].
  inversion Hok as [|? ? He Hrest]; subst. cbn [gen_ents].
  pose proof (gen_ent_fresh le e action n) as [F1 _].
  pose proof (gen_ent_wf le e action n) as W.
  destruct (gen_ent le e action n) as [code n1]. cbn [fst snd] in *.
  pose proof (gen_ents_fresh le rest action n1) as [_ G2].
  specialize (IH action n1 r Hrest).
  destruct (gen_ents le rest action n1) as [more n2]. cbn [fst snd] in *.
  rewrite <- app_assoc. apply W; [exact He|exact Ha| |apply IH; [lia|exact A1|exact Hr]].
  apply ahead1_app; [|exact A1]. intro Hi. apply G2 in Hi. lia.
Qed.

Lemma gen_group_wf le es w : Forall entry_ok es -> wf_jumps (fst (gen_group le es w)).
Proof.
  intros Hok. unfold gen_group.
  pose proof (gen_ents_fresh le es 2 3) as [G1 _].
  pose proof (gen_ents_wf le es 2 3) as W.
  destruct (gen_ents le es 2 3) as [code n1]. cbn [fst snd] in *.
  apply W; [exact Hok|lia| |].
  - apply ahead1_real; [reflexivity|]. apply ahead_label_same.
  - cbn [wf_jumps]. split; [|exact I].
    apply ahead_cons. apply ahead_cons. apply ahead_label_same.
Qed.

(** *** the bridges *)
Lemma relax_dist its : forall f l d,
  l < f -> dist l its = Some d ->
  exists d', dist l (fst (relax its f)) = Some d' /\ d <= d'.
Proof.
  induction its as [|it r IH]; intros f l d Hl Hd; [discriminate|]. cbn [relax].
  pose proof (relax_fresh_mono r f) as Hmono.
  assert (IH': forall d0, dist l r = Some d0 -> exists d', dist l (fst (relax r f)) = Some d' /\ d0 <= d')
    by (intros d0 H0; apply IH; assumption).
  clear IH. destruct (relax r f) as [r' f'] eqn:E. cbn [fst snd] in *.
  assert (Nf: (f' =? l) = false) by (apply N.eqb_neq; lia).
  assert (Nf1: (f' + 1 =? l) = false) by (apply N.eqb_neq; lia).
  assert (Hreal: forall it, is_real it = true -> dist l (it :: r) = Some d ->
            exists d', option_map N.succ (dist l r') = Some d' /\ d <= d').
  { intros it0 R H0. rewrite (dist_real _ _ _ R) in H0.
    destruct (dist l r) as [d0|]; [|discriminate]. cbn [option_map] in H0. injection H0 as <-.
    destruct (IH' d0 eq_refl) as (d' & D' & L'). rewrite D'. exists (N.succ d'). split; [reflexivity|lia]. }
  destruct it.
  - cbn [fst]. rewrite dist_real by reflexivity. eapply Hreal; [|exact Hd]. reflexivity.
  - cbn [fst]. rewrite dist_real by reflexivity. eapply Hreal; [|exact Hd]. reflexivity.
  - destruct (Hreal (TJmpIf c k tl fl) eq_refl Hd) as (d' & D' & L').
    destruct (dist l r') as [d0|] eqn:D0; [|discriminate]. cbn [option_map] in D'. injection D' as <-.
    unfold fix_jump.
    destruct (far (dist tl r') || is255 (dist tl r') && far (dist fl r')),
             (far (dist fl r') || is255 (dist fl r') && far (dist tl r')); cbn [fst].
    + rewrite dist_real by reflexivity. rewrite dist_label, Nf, dist_tramp, dist_label, Nf1, dist_tramp, D0. cbn [option_map].
      eexists. split; [reflexivity|]. cbn [option_map]. lia.
    + rewrite dist_real by reflexivity. rewrite dist_label, Nf, dist_tramp, D0. cbn [option_map].
      eexists. split; [reflexivity|]. cbn [option_map]. lia.
    + rewrite dist_real by reflexivity. rewrite dist_label, Nf, dist_tramp, D0. cbn [option_map].
      eexists. split; [reflexivity|]. cbn [option_map]. lia.
    + rewrite dist_real by reflexivity. rewrite D0. cbn [option_map]. eexists. split; [reflexivity|]. lia.
  - cbn [fst]. rewrite dist_real by reflexivity. eapply Hreal; [|exact Hd]. reflexivity.
  - cbn [fst]. cbn [dist] in *. destruct (l0 =? l).
    + injection Hd as <-. exists 0. split; [reflexivity|lia].
    + apply IH'. exact Hd.
Qed.

Lemma ahead_relax its f l : l < f -> ahead l its -> ahead l (fst (relax its f)).
Proof.
  unfold ahead. intros Hl H. destruct (dist l its) as [d|] eqn:D; [|congruence].
  destruct (relax_dist its f l d Hl D) as (d' & D' & _). rewrite D'. discriminate.
Qed.

Lemma ahead1_relax its f l : l < f -> ahead1 l its -> ahead1 l (fst (relax its f)).
Proof.
  intros Hl (d & D & Hd). destruct (relax_dist its f l d Hl D) as (d' & D' & L').
  exists d'. split; [exact D'|lia].
Qed.

Lemma tramp_wf l r x : ahead l x -> wf_jumps x -> wf_jumps (tramp l r :: x).
Proof.
  intros A W. destruct (tramp_cases l r) as [[v E]|E]; rewrite E; cbn [wf_jumps]; [exact W|split; assumption].
Qed.

Lemma label_wf l x : wf_jumps x -> wf_jumps (TLabel l :: x).
Proof. intros H. exact H. Qed.

Lemma fix_jump_wf c k tl fl r f :
  tl < f -> fl < f -> jump_ok tl fl r -> wf_jumps r ->
  wf_jumps (fst (fix_jump c k tl fl r f)).
Proof.
  intros Ht Hf Hj Hr. pose proof Hj as (At & Af & Aor). unfold fix_jump.
  destruct (far (dist tl r) || is255 (dist tl r) && far (dist fl r)),
           (far (dist fl r) || is255 (dist fl r) && far (dist tl r)); cbn [fst].
  - split; [jump_tac|]. apply label_wf, tramp_wf; [ahead_tac|]. apply label_wf, tramp_wf; assumption.
  - split; [jump_tac|]. apply label_wf, tramp_wf; assumption.
  - split; [jump_tac|]. apply label_wf, tramp_wf; assumption.
  - split; assumption.
Qed.

Lemma relax_wf its : forall f, below f its -> wf_jumps its -> wf_jumps (fst (relax its f)).
Proof.
  induction its as [|it r IH]; intros f Hb Hw; [exact I|]. cbn [relax].
  pose proof (below_tail _ _ _ Hb) as Hbr.
  pose proof (relax_fresh_mono r f) as Hmono.
  pose proof (fun l => ahead_relax r f l) as AR.
  pose proof (fun l => ahead1_relax r f l) as AR1.
  specialize (IH f Hbr).
  destruct (relax r f) as [r' f'] eqn:E. cbn [fst snd] in *.
  destruct it; cbn [fst wf_jumps] in *; try (apply IH; exact Hw).
  - destruct Hw as [(At & Af & Aor) Hw].
    assert (Ht: tl < f) by (eapply Hb; [left; reflexivity|simpl; auto]).
    assert (Hf: fl < f) by (eapply Hb; [left; reflexivity|simpl; auto]).
    apply fix_jump_wf; [lia|lia| |apply IH; exact Hw].
    split; [apply AR; assumption|split; [apply AR; assumption|]].
    destruct Aor as [A|A]; [left|right]; apply AR1; assumption.
  - destruct Hw as [A Hw].
    assert (Hl: l < f) by (eapply Hb; [left; reflexivity|simpl; auto]).
    split; [apply AR; assumption|apply IH; exact Hw].
Qed.

(** *** the two phases of Assemble *)
Lemma wf_resolvable its : wf_jumps its -> jumps_resolvable its = true.
Proof.
  induction its as [|it r IH]; intros Hw; [reflexivity|].
  destruct it; cbn [wf_jumps jumps_resolvable] in *; try (apply IH; exact Hw).
  - destruct Hw as [(At & Af & _) Hw]. unfold ahead in *.
    destruct (dist tl r); [|congruence]. destruct (dist fl r); [|congruence]. cbn. apply IH. exact Hw.
  - apply IH. apply Hw.
Qed.

Lemma wf_resolve its :
  wf_jumps its -> reach_ok its -> check_jumps its = None /\ exists p, resolve its = Some p.
Proof.
  induction its as [|it r IH]; intros Hw Hr; [split; [reflexivity|exists []; reflexivity]|].
  destruct it; cbn [wf_jumps reach_ok check_jumps resolve] in *.
  - destruct (IH Hw Hr) as [C [p P]]. split; [exact C|]. rewrite P. eexists. reflexivity.
  - destruct (IH Hw Hr) as [C [p P]]. split; [exact C|]. rewrite P. eexists. reflexivity.
  - destruct Hw as [(At & Af & Aor) Hw]. destruct Hr as (Rt & Rf & Hr).
    destruct (IH Hw Hr) as [C [p P]]. unfold ahead in At, Af.
    destruct (dist tl r) as [dt|] eqn:Dt; [|congruence].
    destruct (dist fl r) as [df|] eqn:Df; [|congruence].
    cbn [nearq] in Rt, Rf.
    assert (Hnz: (dt =? 0) && (df =? 0) = false).
    { apply andb_false_iff.
      destruct Aor as [(d & D & Hd)|(d & D & Hd)]; [left|right]; apply N.eqb_neq; congruence. }
    replace (255 <? dt) with false by (symmetry; apply N.ltb_ge; lia).
    replace (255 <? df) with false by (symmetry; apply N.ltb_ge; lia).
    replace (dt <=? 255) with true by (symmetry; apply N.leb_le; lia).
    replace (df <=? 255) with true by (symmetry; apply N.leb_le; lia).
    rewrite Hnz, P. cbn [orb andb negb]. split; [exact C|]. eexists. reflexivity.
  - destruct Hw as [A Hw]. destruct (IH Hw Hr) as [C [p P]]. split; [exact C|]. unfold ahead in A.
    destruct (dist l r) as [d|]; [|congruence]. rewrite P. eexists. reflexivity.
  - apply IH; assumption.
Qed.

(** Assemble succeeds on every program whose jumps all have their labels set ahead and none of
    which is useless *)
Theorem assemble_wf its f : below f its -> wf_jumps its -> exists p, assemble its f = Ok p.
Proof.
  intros Hb Hw. unfold assemble. rewrite (wf_resolvable _ Hw). cbn [negb].
  destruct (wf_resolve _ (relax_wf its f Hb Hw) (relax_reach its f Hb)) as [C [p P]].
  rewrite C, P. exists p. reflexivity.
Qed.

Theorem gen_group_assembles le es w :
  Forall entry_ok es ->
  let '(its, n) := gen_group le es w in exists p, assemble its n = Ok p.
Proof.
  intros Hok.
  pose proof (gen_group_below le es w) as Hb.
  pose proof (gen_group_wf le es w Hok) as Hw.
  destruct (gen_group le es w) as [its n]. cbn [fst snd] in *.
  apply assemble_wf; assumption.
Qed.
Print Assumptions gen_group_assembles.

(** ** D. Policy.Assemble: rejection *)

(** a group that lists nothing has no defect (the compiler skips it without validating it) *)
Lemma empty_group_no_defect ai g : g_names g = [] -> g_nwc g = [] -> ~ group_defect ai g.
Proof.
  intros En Ew. unfold group_defect, unknown_name, unknown_cond_name, duplicate_name, cond_and_uncond,
    bad_arg, bad_op, no_conds. rewrite En, Ew.
  intros [(a & [] & _)|[(a & [] & _)|[(i & j & a & b & sc & _ & Hi & _)|[(a & nc & sc & [] & _)|
          [(nc & c & [] & _)|[(nc & c & [] & _)|(nc & [] & _)]]]]]].
  destruct i; discriminate.
Qed.

(** [group_defect] is decidable: toSyscallsWithConditions decides it *)
Lemma group_defect_dec ai g : {group_defect ai g} + {~ group_defect ai g}.
Proof.
  destruct (to_syscalls ai g) as [es|e] eqn:T.
  - right. rewrite <- to_syscalls_reject_iff, T. discriminate.
  - left. apply to_syscalls_reject_iff. destruct (to_syscalls_total ai g) as [es [H|H]]; congruence.
Qed.

(** the same in positive form: what a user has to make sure of *)
Definition cnd_clean (c:cnd) : Prop := c_arg c <= 5 /\ op_valid (c_op c) = true.
Definition group_clean (ai:arch_info) (g:group) : Prop :=
  (forall a, In a (g_names g) -> num_of ai a <> None) /\
  (forall nc, In nc (g_nwc g) -> num_of ai (nc_name nc) <> None) /\
  NoDup (map (num_of ai) (g_names g)) /\
  (forall a nc, In a (g_names g) -> In nc (g_nwc g) -> num_of ai a <> num_of ai (nc_name nc)) /\
  (forall nc, In nc (g_nwc g) -> nc_conds nc <> [] /\ Forall cnd_clean (nc_conds nc)).

Lemma group_clean_iff ai g : group_clean ai g <-> ~ group_defect ai g.
Proof.
  split.
  - intros (K1 & K2 & K3 & K4 & K5)
      [(a & Ha & Na)|[(nc & Hnc & Nnc)|[(i & j & a & b & sc & Hij & Hi & Hj & Na & Nb)|
       [(a & nc & sc & Ha & Hnc & Na & Nnc)|[(nc & c & Hnc & Hc & Hx)|[(nc & c & Hnc & Hc & Hx)|(nc & Hnc & Hx)]]]]]].
    + exact (K1 a Ha Na).
    + exact (K2 nc Hnc Nnc).
    + apply Hij. rewrite NoDup_nth_error in K3. apply K3.
      * rewrite map_length. apply nth_error_Some. rewrite Hi. discriminate.
      * rewrite (map_nth_error _ _ _ Hi), (map_nth_error _ _ _ Hj). congruence.
    + apply (K4 a nc Ha Hnc). congruence.
    + destruct (K5 nc Hnc) as [_ F]. rewrite Forall_forall in F. destruct (F c Hc) as [A _]. lia.
    + destruct (K5 nc Hnc) as [_ F]. rewrite Forall_forall in F. destruct (F c Hc) as [_ A]. congruence.
    + destruct (K5 nc Hnc) as [A _]. congruence.
  - intros Hnd. repeat split.
    + intros a Ha Na. apply Hnd. left. exists a. split; assumption.
    + intros nc Hnc Nnc. apply Hnd. right; left. exists nc. split; assumption.
    + apply NoDup_nth_error. intros i j Hi E.
      destruct (Nat.eq_dec i j) as [Eij|Nij]; [exact Eij|]. exfalso.
      rewrite map_length in Hi. apply nth_error_Some in Hi.
      destruct (nth_error (g_names g) i) as [a|] eqn:Ei; [|congruence].
      rewrite (map_nth_error _ _ _ Ei) in E. symmetry in E.
      destruct (nth_error (g_names g) j) as [b|] eqn:Ej.
      * rewrite (map_nth_error _ _ _ Ej) in E. injection E as E.
        destruct (num_of ai a) as [sc|] eqn:Na.
        -- apply Hnd. right; right; left. exists i, j, a, b, sc. repeat split; assumption.
        -- apply Hnd. left. exists a. split; [eapply nth_error_In; exact Ei|exact Na].
      * assert (Hlen: (j < List.length (map (num_of ai) (g_names g)))%nat)
          by (apply nth_error_Some; rewrite E; discriminate).
        rewrite map_length in Hlen. apply nth_error_Some in Hlen. congruence.
    + intros a nc Ha Hnc E. destruct (num_of ai a) as [sc|] eqn:Na.
      * apply Hnd. right; right; right; left. exists a, nc, sc. repeat split; try assumption. congruence.
      * apply Hnd. left. exists a. split; assumption.
    + intros E. apply Hnd. right; right; right; right; right; right. exists nc. split; assumption.
    + apply Forall_forall. intros c Hc. split.
      * destruct (N.le_gt_cases (c_arg c) 5) as [L|L]; [exact L|]. exfalso.
        apply Hnd. right; right; right; right; left. exists nc, c. repeat split; assumption.
      * destruct (op_valid (c_op c)) eqn:O; [reflexivity|]. exfalso.
        apply Hnd. right; right; right; right; right; left. exists nc, c. repeat split; assumption.
Qed.

Section Compile.
Variable le : bool.
Variable k : consts.
Variable ai : arch_info.

Definition some_event : event := {| ev_nr := 0; ev_arch := 0; ev_ip := 0; ev_args := [] |}.

(** one group: a defect gives the error "problems", no defect gives a program; nothing else happens *)
Lemma compile_group_cases g :
  (group_defect ai g /\ compile_group le k ai g = Error EProblems) \/
  (~ group_defect ai g /\ exists p, compile_group le k ai g = Ok p).
Proof.
  assert (Hgen: forall es, to_syscalls ai g = Ok es ->
            exists p, (let '(its, n) := gen_group le es (ret_word k (g_action g)) in assemble its n) = Ok p).
  { intros es T. destruct (to_syscalls_spec ai some_event g es T) as [Hok _].
    pose proof (gen_group_assembles le es (ret_word k (g_action g)) Hok) as A.
    destruct (gen_group le es (ret_word k (g_action g))) as [its n]. exact A. }
  destruct (to_syscalls_total ai g) as [es [T|T]].
  - right. split; [rewrite <- to_syscalls_reject_iff, T; discriminate|].
    unfold compile_group. destruct (g_names g) as [|n0 ns].
    + destruct (g_nwc g) as [|w0 ws]; [exists []; reflexivity|]. rewrite T. apply Hgen. exact T.
    + rewrite T. apply Hgen. exact T.
  - left. pose proof (proj1 (to_syscalls_reject_iff ai g) T) as Hd. split; [exact Hd|].
    unfold compile_group. destruct (g_names g) as [|n0 ns] eqn:En.
    + destruct (g_nwc g) as [|w0 ws] eqn:Ew.
      * exfalso. exact (empty_group_no_defect ai g En Ew Hd).
      * rewrite T. reflexivity.
    + rewrite T. reflexivity.
Qed.

Lemma compile_groups_cases gs :
  ((exists g, In g gs /\ group_defect ai g) /\ compile_groups le k ai gs = Error EProblems) \/
  ((forall g, In g gs -> ~ group_defect ai g) /\ exists p, compile_groups le k ai gs = Ok p).
Proof.
  induction gs as [|g rest IH]; cbn [compile_groups].
  - right. split; [intros g []|exists []; reflexivity].
  - destruct (compile_group_cases g) as [[Hd Hc]|[Hn [p Hc]]]; rewrite Hc.
    + left. split; [exists g; split; [left; reflexivity|exact Hd]|reflexivity].
    + destruct IH as [[(g' & Hin & Hd) Hr]|[Hall [q Hr]]]; rewrite Hr.
      * left. split; [exists g'; split; [right; exact Hin|exact Hd]|reflexivity].
      * right. split; [|exists (p ++ q); reflexivity].
        intros g' [<-|Hin]; [exact Hn|apply Hall; exact Hin].
Qed.

(** which error comes out: the default action is checked first, then the presence of groups,
    then the groups themselves; there is no other error *)
Theorem compile_error_class pol e :
  compile le k ai pol = Error e <->
  (is_named k (p_default pol) = false /\ e = EDefaultAction) \/
  (is_named k (p_default pol) = true /\ p_groups pol = [] /\ e = ENoSyscalls) \/
  (is_named k (p_default pol) = true /\ p_groups pol <> [] /\
   (exists g, In g (p_groups pol) /\ group_defect ai g) /\ e = EProblems).
Proof.
  unfold compile. destruct (is_named k (p_default pol)) eqn:Hn; cbn [negb].
  - destruct (p_groups pol) as [|g0 gs0] eqn:Eg.
    + split.
      * intros H. injection H as <-. right; left. repeat split; reflexivity.
      * intros [[H _]|[(_ & _ & ->)|(_ & H & _)]]; [discriminate|reflexivity|congruence].
    + destruct (compile_groups_cases (g0 :: gs0)) as [[Hd Hc]|[Hall [p Hc]]]; rewrite Hc.
      * split.
        -- intros H. injection H as <-. right; right. repeat split; [discriminate|exact Hd].
        -- intros [[H _]|[(_ & H & _)|(_ & _ & _ & ->)]]; [discriminate|discriminate|reflexivity].
      * split; [discriminate|].
        intros [[H _]|[(_ & H & _)|(_ & _ & (g & Hin & Hd) & _)]]; [discriminate|discriminate|].
        exfalso. exact (Hall g Hin Hd).
  - split.
    + intros H. injection H as <-. left. split; reflexivity.
    + intros [[_ ->]|[(H & _)|(H & _)]]; [reflexivity|discriminate|discriminate].
Qed.

(** the policies the compiler rejects *)
Theorem compile_reject_iff pol :
  (exists e, compile le k ai pol = Error e) <->
  is_named k (p_default pol) = false \/ p_groups pol = [] \/
  exists g, In g (p_groups pol) /\ group_defect ai g.
Proof.
  split.
  - intros [e H]. apply compile_error_class in H.
    destruct H as [[H _]|[(_ & H & _)|(_ & _ & H & _)]]; auto.
  - intros H. destruct (is_named k (p_default pol)) eqn:Hn.
    + destruct H as [H|[H|H]]; [discriminate| |].
      * exists ENoSyscalls. apply compile_error_class. right; left. repeat split; assumption.
      * exists EProblems. apply compile_error_class. right; right. repeat split; try assumption.
        destruct H as (g & Hin & _). intro E. rewrite E in Hin. destruct Hin.
    + exists EDefaultAction. apply compile_error_class. left. split; [assumption|reflexivity].
Qed.

(** the variant with the side condition that the group lists something: the same statement,
    because a group that lists nothing has no defect *)
Corollary compile_reject_iff_nonempty pol :
  (exists e, compile le k ai pol = Error e) <->
  is_named k (p_default pol) = false \/ p_groups pol = [] \/
  exists g, In g (p_groups pol) /\ (g_names g <> [] \/ g_nwc g <> []) /\ group_defect ai g.
Proof.
  rewrite compile_reject_iff. split.
  - intros [H|[H|(g & Hin & Hd)]]; [left; exact H|right; left; exact H|right; right].
    exists g. split; [exact Hin|]. split; [|exact Hd].
    destruct (g_names g) eqn:En; [|left; discriminate].
    destruct (g_nwc g) eqn:Ew; [|right; discriminate].
    exfalso. exact (empty_group_no_defect ai g En Ew Hd).
  - intros [H|[H|(g & Hin & _ & Hd)]]; [left; exact H|right; left; exact H|right; right].
    exists g. split; assumption.
Qed.

(** ** E. Policy.Assemble: acceptance *)
Theorem compile_accepts pol :
  is_named k (p_default pol) = true -> p_groups pol <> [] ->
  (forall g, In g (p_groups pol) -> ~ group_defect ai g) ->
  exists p, compile le k ai pol = Ok p.
Proof.
  intros Hn Hg Hall. destruct (compile le k ai pol) as [p|e] eqn:C; [exists p; reflexivity|].
  exfalso. assert (H: exists e, compile le k ai pol = Error e) by (exists e; exact C).
  apply compile_reject_iff in H. destruct H as [H|[H|(g & Hin & Hd)]]; [congruence|congruence|].
  exact (Hall g Hin Hd).
Qed.

(** acceptance and rejection are complementary *)
Corollary compile_accept_iff pol :
  (exists p, compile le k ai pol = Ok p) <->
  is_named k (p_default pol) = true /\ p_groups pol <> [] /\
  forall g, In g (p_groups pol) -> ~ group_defect ai g.
Proof.
  split.
  - intros [p C].
    assert (N: ~ exists e, compile le k ai pol = Error e) by (intros [e E]; congruence).
    rewrite compile_reject_iff in N. repeat split.
    + destruct (is_named k (p_default pol)); [reflexivity|]. exfalso. apply N. left. reflexivity.
    + intro E. apply N. right; left. exact E.
    + intros g Hin Hd. apply N. right; right. exists g. split; assumption.
  - intros (Hn & Hg & Hall). apply compile_accepts; assumption.
Qed.

End Compile.
Print Assumptions compile_error_class.
Print Assumptions compile_reject_iff.
Print Assumptions compile_accepts.

(** every policy with a named default action, at least one group, and clean groups is accepted *)
Corollary compile_accepts_clean le k ai pol :
  is_named k (p_default pol) = true -> p_groups pol <> [] ->
  (forall g, In g (p_groups pol) -> group_clean ai g) ->
  exists p, compile le k ai pol = Ok p.
Proof.
  intros Hn Hg Hall. apply compile_accepts; [exact Hn|exact Hg|].
  intros g Hin. apply group_clean_iff. apply Hall. exact Hin.
Qed.
Print Assumptions compile_accepts_clean.

(** ** F. Non-vacuity: one policy per kind of defect, on a small architecture *)
Module Examples.
Open Scope string_scope.

(** "creat" is listed under the number of "open": two names of one number *)
Definition ai0 : arch_info :=
  {| ai_name := "toy"; ai_id := 3221225534; ai_mask := 0;
     ai_table := [(0, "read"); (1, "write"); (2, "open"); (2, "creat")] |}.

Definition k0 : consts :=
  {| k_named_actions := [0; 196608; 327680; 2147418112];
     k_errno := 327680; k_eperm := 1; k_enosys := 38;
     k_x32mask := 1073741824; k_x86_64_id := 3221225534 |}.

Definition allow : N := 2147418112.
Definition c_ok1 : cnd := {| c_arg := 0; c_op := OpEq; c_val := 5 |}.
Definition c_ok2 : cnd := {| c_arg := 5; c_op := OpSet; c_val := 18446744073709551615 |}.
Definition c_arg6 : cnd := {| c_arg := 6; c_op := OpEq; c_val := 5 |}.
Definition c_other : cnd := {| c_arg := 1; c_op := OpOther; c_val := 5 |}.

Definition grp (names:list string) (ncs:list nwc) : group :=
  {| g_names := names; g_nwc := ncs; g_action := allow |}.
Definition pol1 (g:group) : policy := {| p_default := 327680; p_groups := [g] |}.

Definition comp (pol:policy) := compile true k0 ai0 pol.

Example ex_bad_default :
  comp {| p_default := 99; p_groups := [grp ["read"] []] |} = Error EDefaultAction.
Proof. vm_compute. reflexivity. Qed.

(** the default action is checked before everything else *)
Example ex_bad_default_first :
  comp {| p_default := 99; p_groups := [] |} = Error EDefaultAction.
Proof. vm_compute. reflexivity. Qed.

Example ex_no_groups : comp {| p_default := 327680; p_groups := [] |} = Error ENoSyscalls.
Proof. vm_compute. reflexivity. Qed.

Example ex_unknown_name : comp (pol1 (grp ["read"; "nope"] [])) = Error EProblems.
Proof. vm_compute. reflexivity. Qed.

Example ex_unknown_cond_name :
  comp (pol1 (grp ["read"] [{| nc_name := "nope"; nc_conds := [c_ok1] |}])) = Error EProblems.
Proof. vm_compute. reflexivity. Qed.

Example ex_duplicate : comp (pol1 (grp ["read"; "write"; "read"] [])) = Error EProblems.
Proof. vm_compute. reflexivity. Qed.

Example ex_duplicate_alias : comp (pol1 (grp ["open"; "creat"] [])) = Error EProblems.
Proof. vm_compute. reflexivity. Qed.

Example ex_cond_and_uncond :
  comp (pol1 (grp ["read"] [{| nc_name := "read"; nc_conds := [c_ok1] |}])) = Error EProblems.
Proof. vm_compute. reflexivity. Qed.

Example ex_bad_arg :
  comp (pol1 (grp ["read"] [{| nc_name := "write"; nc_conds := [c_ok1; c_arg6] |}])) = Error EProblems.
Proof. vm_compute. reflexivity. Qed.

Example ex_bad_op :
  comp (pol1 (grp ["read"] [{| nc_name := "write"; nc_conds := [c_other; c_ok1] |}])) = Error EProblems.
Proof. vm_compute. reflexivity. Qed.

Example ex_no_conds :
  comp (pol1 (grp ["read"] [{| nc_name := "write"; nc_conds := [] |}])) = Error EProblems.
Proof. vm_compute. reflexivity. Qed.

(** a defect in a later group is found as well *)
Example ex_second_group :
  comp {| p_default := 327680; p_groups := [grp ["read"] []; grp ["nope"] []] |} = Error EProblems.
Proof. vm_compute. reflexivity. Qed.

(** the defects of these groups, at the level of the specification *)
Example ex_defect_duplicate : group_defect ai0 (grp ["open"; "creat"] []).
Proof.
  right; right; left. exists 0%nat, 1%nat, "open", "creat", 2. repeat split. discriminate.
Qed.

Example ex_defect_bad_op : group_defect ai0 (grp ["read"] [{| nc_name := "write"; nc_conds := [c_other; c_ok1] |}]).
Proof.
  right; right; right; right; right; left. eexists; exists c_other. repeat split; [left; reflexivity|left; reflexivity].
Qed.

(** a policy without defects: an entry with two conditions, the same name twice as alternatives *)
Definition good_group : group :=
  grp ["read"] [{| nc_name := "write"; nc_conds := [c_ok1; c_ok2] |};
                {| nc_name := "open"; nc_conds := [c_ok2] |};
                {| nc_name := "write"; nc_conds := [c_ok2] |}].

Example ex_accepted : exists p, comp (pol1 good_group) = Ok p /\ List.length p = 29%nat.
Proof. eexists. split; vm_compute; reflexivity. Qed.

Example ex_good_no_defect : ~ group_defect ai0 good_group.
Proof. rewrite <- to_syscalls_reject_iff. vm_compute. discriminate. Qed.

(** [gen_group_assembles] needs its hypothesis: for an entry that toSyscallsWithConditions would not
    produce (a condition with an unknown operation behind a valid one: no code is generated for it,
    so both branches of the preceding jump go to the next instruction) Assemble reports a useless jump *)
Example ex_entry_ok_needed :
  (let '(its, n) := gen_group true [EC 1 [[c_ok1; c_other]]] allow in assemble its n) = Error EUseless.
Proof. vm_compute. reflexivity. Qed.

(** a group that lists nothing is compiled to nothing *)
Example ex_empty_group : exists p, comp (pol1 (grp [] [])) = Ok p.
Proof. eexists. vm_compute. reflexivity. Qed.
End Examples.
