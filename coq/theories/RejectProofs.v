(** * RejectProofs: which policies the compiler rejects, and that it accepts all the others (C07).

    - [group_defect] is the specification of the defects of a syscall group, written against the
      policy as the user wrote it and independent of the loops of toSyscallsWithConditions.
    - [to_syscalls_reject_iff]: toSyscallsWithConditions reports problems exactly for the groups
      with a defect.
    - [gen_group_assembles]: Program.Assemble cannot fail on the code generated for a group.
    - [compile_reject_iff], [compile_error_class], [compile_accepts]: Policy.Assemble. *)
From Coq Require Import List NArith Bool Lia String.
From Seccomp Require Import Words Machine Result Assembler AssemblerProofs Policy Spec CompileProofs.
Import ListNotations.
Open Scope N_scope.
Open Scope list_scope.

(** ** A. The specification of group defects *)

(** the number the compiler uses for a name: uint32(num | SeccompMask); [None]: unknown name *)
Definition num_of (ai:arch_info) (name:string) : option N :=
  match lookup_name (ai_table ai) name with
  | Some num => Some (sysnum ai num)
  | None => None
  end.

Definition unknown_name (ai:arch_info) (names:list string) : Prop :=
  exists a, In a names /\ num_of ai a = None.

Definition unknown_cond_name (ai:arch_info) (ncs:list nwc) : Prop :=
  exists nc, In nc ncs /\ num_of ai (nc_name nc) = None.

(** two different positions of the list of names resolve to the same number
    (the same name twice, or two aliases of one number) *)
Definition duplicate_name (ai:arch_info) (names:list string) : Prop :=
  exists (i j:nat) a b sc, i <> j /\ nth_error names i = Some a /\ nth_error names j = Some b /\
    num_of ai a = Some sc /\ num_of ai b = Some sc.

Definition cond_and_uncond (ai:arch_info) (names:list string) (ncs:list nwc) : Prop :=
  exists a nc sc, In a names /\ In nc ncs /\ num_of ai a = Some sc /\ num_of ai (nc_name nc) = Some sc.

Definition bad_arg (ncs:list nwc) : Prop :=
  exists nc c, In nc ncs /\ In c (nc_conds nc) /\ 5 < c_arg c.

Definition bad_op (ncs:list nwc) : Prop :=
  exists nc c, In nc ncs /\ In c (nc_conds nc) /\ op_valid (c_op c) = false.

Definition no_conds (ncs:list nwc) : Prop :=
  exists nc, In nc ncs /\ nc_conds nc = [].

Definition group_defect (ai:arch_info) (g:group) : Prop :=
  unknown_name ai (g_names g) \/
  unknown_cond_name ai (g_nwc g) \/
  duplicate_name ai (g_names g) \/
  cond_and_uncond ai (g_names g) (g_nwc g) \/
  bad_arg (g_nwc g) \/
  bad_op (g_nwc g) \/
  no_conds (g_nwc g).

(** ** B. toSyscallsWithConditions rejects exactly the groups with a defect *)

(** the same with ordered positions *)
Definition dup_lt (ai:arch_info) (names:list string) : Prop :=
  exists (i j:nat) a b sc, (i < j)%nat /\ nth_error names i = Some a /\ nth_error names j = Some b /\
    num_of ai a = Some sc /\ num_of ai b = Some sc.

Lemma duplicate_name_lt ai names : duplicate_name ai names <-> dup_lt ai names.
Proof.
  split.
  - intros (i & j & a & b & sc & Hij & Hi & Hj & Na & Nb).
    assert (L: (i < j \/ j < i)%nat) by lia. destruct L as [L|L].
    + exists i, j, a, b, sc. repeat split; assumption.
    + exists j, i, b, a, sc. repeat split; try assumption; try lia.
  - intros (i & j & a & b & sc & Hij & Hi & Hj & Na & Nb).
    exists i, j, a, b, sc. repeat split; try assumption; try lia.
Qed.

Definition has (es:list entry) (sc:N) : bool := is_some (get_syscall es sc).
Definition is_eu (es:list entry) (sc:N) : bool :=
  match get_syscall es sc with Some (EU _) => true | _ => false end.
Definition eu_entry (e:entry) : Prop := match e with EU _ => True | EC _ _ => False end.

Lemma get_syscall_snoc es e sc :
  get_syscall (es ++ [e]) sc =
  match get_syscall es sc with Some x => Some x | None => if entry_num e =? sc then Some e else None end.
Proof.
  induction es as [|x r IH]; cbn [app get_syscall]; [reflexivity|].
  destruct (entry_num x =? sc); [reflexivity|exact IH].
Qed.

Lemma has_snoc es e sc : has (es ++ [e]) sc = has es sc || (entry_num e =? sc).
Proof.
  unfold has. rewrite get_syscall_snoc. destruct (get_syscall es sc); [reflexivity|].
  destruct (entry_num e =? sc); reflexivity.
Qed.

Lemma is_eu_snoc_ec es n ls sc : is_eu (es ++ [EC n ls]) sc = is_eu es sc.
Proof.
  unfold is_eu. rewrite get_syscall_snoc. destruct (get_syscall es sc); [reflexivity|].
  cbn [entry_num]. destruct (n =? sc); reflexivity.
Qed.

Lemma is_eu_add_list es sc' cs sc : is_eu (add_list es sc' cs) sc = is_eu es sc.
Proof.
  unfold is_eu. induction es as [|e r IH]; cbn [add_list get_syscall]; [reflexivity|].
  destruct (entry_num e =? sc') eqn:E'.
  - destruct e as [n|n ls]; cbn [get_syscall entry_num]; destruct (n =? sc); reflexivity.
  - cbn [get_syscall]. destruct (entry_num e =? sc); [reflexivity|exact IH].
Qed.

Lemma eu_is_eu es sc : Forall eu_entry es -> is_eu es sc = has es sc.
Proof.
  unfold is_eu, has. induction 1 as [|e r He Hr IH]; cbn [get_syscall]; [reflexivity|].
  destruct (entry_num e =? sc); [|exact IH]. destruct e; [reflexivity|destruct He].
Qed.

(** the loops in terms of [num_of] *)
Lemma names_loop_cons ai name rest es bad :
  names_loop ai (name :: rest) es bad =
  match num_of ai name with
  | Some sc => match get_syscall es sc with
               | None => names_loop ai rest (es ++ [EU sc]) bad
               | Some _ => names_loop ai rest es true
               end
  | None => names_loop ai rest es true
  end.
Proof. unfold num_of. cbn [names_loop]. destruct (lookup_name (ai_table ai) name); reflexivity. Qed.

Lemma nwc_loop_cons ai nc rest es bad :
  nwc_loop ai (nc :: rest) es bad =
  match num_of ai (nc_name nc) with
  | Some sc =>
      if negb (conds_valid (nc_conds nc)) then nwc_loop ai rest es true
      else match get_syscall es sc with
           | None => nwc_loop ai rest (es ++ [EC sc [nc_conds nc]]) bad
           | Some (EU _) => nwc_loop ai rest es true
           | Some (EC _ _) => nwc_loop ai rest (add_list es sc (nc_conds nc)) bad
           end
  | None => nwc_loop ai rest es true
  end.
Proof. unfold num_of. cbn [nwc_loop]. destruct (lookup_name (ai_table ai) (nc_name nc)); reflexivity. Qed.

(** first loop: when a problem is recorded *)
Lemma names_loop_bad ai names : forall es bad es' bad',
  names_loop ai names es bad = (es', bad') ->
  (bad' = true <->
   bad = true \/ unknown_name ai names \/
   (exists a sc, In a names /\ num_of ai a = Some sc /\ has es sc = true) \/
   dup_lt ai names).
Proof.
  induction names as [|name rest IH]; intros es bad es' bad' H.
  - cbn [names_loop] in H. injection H as <- <-. split; [auto|].
    intros [Hb|[(a & [] & _)|[(a & sc & [] & _)|D]]]; [exact Hb|].
    destruct D as (i & j & a & b & sc & Hij & Hi & _). destruct i; discriminate.
  - rewrite names_loop_cons in H. destruct (num_of ai name) as [sc|] eqn:Nn.
    + destruct (get_syscall es sc) as [e|] eqn:G.
      * apply IH in H. split; intros _.
        -- right; right; left. exists name, sc. split; [left; reflexivity|]. split; [exact Nn|].
           unfold has. rewrite G. reflexivity.
        -- apply H. left. reflexivity.
      * apply IH in H. rewrite H. clear H IH. split.
        -- intros [Hb|[(a & Ha & Na)|[(a & sc' & Ha & Na & Hh)|D]]].
           ++ left; exact Hb.
           ++ right; left. exists a. split; [right; exact Ha|exact Na].
           ++ rewrite has_snoc in Hh. apply orb_true_iff in Hh. destruct Hh as [Hh|Hh].
              ** right; right; left. exists a, sc'. split; [right; exact Ha|]. split; assumption.
              ** cbn [entry_num] in Hh. apply N.eqb_eq in Hh. subst sc'. right; right; right.
                 destruct (In_nth_error _ _ Ha) as [j Hj].
                 exists 0%nat, (S j), name, a, sc. repeat split; try assumption; try lia.
           ++ right; right; right. destruct D as (i & j & a & b & sc' & Hij & Hi & Hj & Na & Nb).
              exists (S i), (S j), a, b, sc'. repeat split; try assumption; try lia.
        -- intros [Hb|[(a & [<-|Ha] & Na)|[(a & sc' & [<-|Ha] & Na & Hh)|D]]].
           ++ left; exact Hb.
           ++ congruence.
           ++ right; left. exists a. split; assumption.
           ++ assert (sc' = sc) by congruence. subst sc'. unfold has in Hh. rewrite G in Hh. discriminate.
           ++ right; right; left. exists a, sc'. split; [exact Ha|]. split; [exact Na|].
              rewrite has_snoc, Hh. reflexivity.
           ++ destruct D as (i & j & a & b & sc' & Hij & Hi & Hj & Na & Nb).
              destruct i as [|i].
              ** cbn [nth_error] in Hi. injection Hi as <-. destruct j as [|j]; [lia|].
                 cbn [nth_error] in Hj. apply nth_error_In in Hj.
                 assert (sc' = sc) by congruence. subst sc'.
                 right; right; left. exists b, sc. split; [exact Hj|]. split; [exact Nb|].
                 rewrite has_snoc. cbn [entry_num]. rewrite N.eqb_refl. apply orb_true_r.
              ** destruct j as [|j]; [lia|]. cbn [nth_error] in Hi, Hj.
                 right; right; right. exists i, j, a, b, sc'. repeat split; try assumption; try lia.
    + apply IH in H. split; intros _.
      * right; left. exists name. split; [left; reflexivity|exact Nn].
      * apply H. left. reflexivity.
Qed.

(** first loop: the entries it leaves *)
Lemma names_loop_has ai names : forall es bad es' bad',
  names_loop ai names es bad = (es', bad') -> Forall eu_entry es ->
  Forall eu_entry es' /\
  forall sc, has es' sc = true <-> has es sc = true \/ exists a, In a names /\ num_of ai a = Some sc.
Proof.
  induction names as [|name rest IH]; intros es bad es' bad' H Heu.
  - cbn [names_loop] in H. injection H as <- <-. split; [exact Heu|]. intros sc. split; [auto|].
    intros [Hh|(a & [] & _)]. exact Hh.
  - rewrite names_loop_cons in H. destruct (num_of ai name) as [sc0|] eqn:Nn.
    + destruct (get_syscall es sc0) as [e|] eqn:G.
      * destruct (IH _ _ _ _ H Heu) as [I1 I2]. split; [exact I1|]. intros sc. rewrite I2. split.
        -- intros [Hh|(a & Ha & Na)]; [left; exact Hh|right; exists a; split; [right; exact Ha|exact Na]].
        -- intros [Hh|(a & [<-|Ha] & Na)]; [left; exact Hh| |right; exists a; split; assumption].
           left. assert (sc = sc0) by congruence. subst sc. unfold has. rewrite G. reflexivity.
      * assert (Heu': Forall eu_entry (es ++ [EU sc0])).
        { apply Forall_app. split; [exact Heu|]. constructor; [exact I|constructor]. }
        destruct (IH _ _ _ _ H Heu') as [I1 I2]. split; [exact I1|]. intros sc. rewrite I2, has_snoc.
        cbn [entry_num]. split.
        -- intros [Hh|(a & Ha & Na)].
           ++ apply orb_true_iff in Hh. destruct Hh as [Hh|Hh]; [left; exact Hh|].
              apply N.eqb_eq in Hh. subst sc. right. exists name. split; [left; reflexivity|exact Nn].
           ++ right. exists a. split; [right; exact Ha|exact Na].
        -- intros [Hh|(a & [<-|Ha] & Na)].
           ++ left. rewrite Hh. reflexivity.
           ++ left. assert (sc = sc0) by congruence. subst sc. rewrite N.eqb_refl. apply orb_true_r.
           ++ right. exists a. split; assumption.
    + destruct (IH _ _ _ _ H Heu) as [I1 I2]. split; [exact I1|]. intros sc. rewrite I2. split.
      * intros [Hh|(a & Ha & Na)]; [left; exact Hh|right; exists a; split; [right; exact Ha|exact Na]].
      * intros [Hh|(a & [<-|Ha] & Na)]; [left; exact Hh|congruence|right; exists a; split; assumption].
Qed.

(** second loop: when a problem is recorded *)
Lemma nwc_loop_bad ai ncs : forall es bad es' bad',
  nwc_loop ai ncs es bad = (es', bad') ->
  (bad' = true <->
   bad = true \/ unknown_cond_name ai ncs \/
   (exists nc, In nc ncs /\ conds_valid (nc_conds nc) = false) \/
   (exists nc sc, In nc ncs /\ num_of ai (nc_name nc) = Some sc /\ is_eu es sc = true)).
Proof.
  induction ncs as [|nc rest IH]; intros es bad es' bad' H.
  - cbn [nwc_loop] in H. injection H as <- <-. split; [auto|].
    intros [Hb|[(a & [] & _)|[(a & [] & _)|(a & sc & [] & _)]]]. exact Hb.
  - rewrite nwc_loop_cons in H. destruct (num_of ai (nc_name nc)) as [sc|] eqn:Nn.
    + destruct (conds_valid (nc_conds nc)) eqn:V; cbn [negb] in H.
      * assert (Hsame: forall es1, (forall sc', is_eu es1 sc' = is_eu es sc') -> is_eu es sc = false ->
                  nwc_loop ai rest es1 bad = (es', bad') ->
                  (bad' = true <->
                   bad = true \/ unknown_cond_name ai (nc :: rest) \/
                   (exists nc0, In nc0 (nc :: rest) /\ conds_valid (nc_conds nc0) = false) \/
                   (exists nc0 sc0, In nc0 (nc :: rest) /\ num_of ai (nc_name nc0) = Some sc0 /\ is_eu es sc0 = true))).
        { intros es1 Hsame Hno H1. apply IH in H1. rewrite H1. clear H1. split.
          - intros [Hb|[(a & Ha & Na)|[(a & Ha & Va)|(a & sc' & Ha & Na & Ea)]]].
            + left; exact Hb.
            + right; left. exists a. split; [right; exact Ha|exact Na].
            + right; right; left. exists a. split; [right; exact Ha|exact Va].
            + right; right; right. exists a, sc'. split; [right; exact Ha|]. split; [exact Na|].
              rewrite <- Hsame. exact Ea.
          - intros [Hb|[(a & [<-|Ha] & Na)|[(a & [<-|Ha] & Va)|(a & sc' & [<-|Ha] & Na & Ea)]]].
            + left; exact Hb.
            + congruence.
            + right; left. exists a. split; assumption.
            + congruence.
            + right; right; left. exists a. split; assumption.
            + assert (sc' = sc) by congruence. subst sc'. congruence.
            + right; right; right. exists a, sc'. split; [exact Ha|]. split; [exact Na|].
              rewrite Hsame. exact Ea. }
        destruct (get_syscall es sc) as [[n0|n0 ls0]|] eqn:G.
        -- apply IH in H. split; intros _.
           ++ right; right; right. exists nc, sc. split; [left; reflexivity|]. split; [exact Nn|].
              unfold is_eu. rewrite G. reflexivity.
           ++ apply H. left. reflexivity.
        -- eapply Hsame; [|unfold is_eu; rewrite G; reflexivity|exact H].
           intros sc'. apply is_eu_add_list.
        -- eapply Hsame; [|unfold is_eu; rewrite G; reflexivity|exact H].
           intros sc'. apply is_eu_snoc_ec.
      * apply IH in H. split; intros _.
        -- right; right; left. exists nc. split; [left; reflexivity|exact V].
        -- apply H. left. reflexivity.
    + apply IH in H. split; intros _.
      * right; left. exists nc. split; [left; reflexivity|exact Nn].
      * apply H. left. reflexivity.
Qed.

(** ArgumentConditions.Validate reports a problem *)
Lemma conds_valid_false cs :
  conds_valid cs = false <->
  cs = [] \/ (exists c, In c cs /\ 5 < c_arg c) \/ (exists c, In c cs /\ op_valid (c_op c) = false).
Proof.
  unfold conds_valid. split.
  - intros H. apply andb_false_iff in H. destruct H as [H|H].
    + left. destruct cs; [reflexivity|discriminate].
    + right. induction cs as [|c r IH]; [discriminate|]. cbn [forallb] in H.
      apply andb_false_iff in H. destruct H as [H|H].
      * apply andb_false_iff in H. destruct H as [H|H].
        -- left. exists c. split; [left; reflexivity|]. apply N.leb_gt in H. exact H.
        -- right. exists c. split; [left; reflexivity|exact H].
      * destruct (IH H) as [(c' & Hc & Hx)|(c' & Hc & Hx)].
        -- left. exists c'. split; [right; exact Hc|exact Hx].
        -- right. exists c'. split; [right; exact Hc|exact Hx].
  - intros [->|[(c & Hc & Hx)|(c & Hc & Hx)]]; [reflexivity| |].
    + apply andb_false_iff. right.
      destruct (forallb (fun c0 => (c_arg c0 <=? 5) && op_valid (c_op c0)) cs) eqn:F; [|reflexivity].
      rewrite forallb_forall in F. specialize (F c Hc). apply andb_true_iff in F. destruct F as [F _].
      apply N.leb_le in F. lia.
    + apply andb_false_iff. right.
      destruct (forallb (fun c0 => (c_arg c0 <=? 5) && op_valid (c_op c0)) cs) eqn:F; [|reflexivity].
      rewrite forallb_forall in F. specialize (F c Hc). apply andb_true_iff in F. destruct F as [_ F].
      congruence.
Qed.

Lemma loops_bad_iff ai g es1 bad1 es2 bad2 :
  names_loop ai (g_names g) [] false = (es1, bad1) ->
  nwc_loop ai (g_nwc g) es1 bad1 = (es2, bad2) ->
  (bad2 = true <-> group_defect ai g).
Proof.
  intros N1 N2.
  pose proof (names_loop_bad _ _ _ _ _ _ N1) as B1.
  destruct (names_loop_has _ _ _ _ _ _ N1 (Forall_nil _)) as [Heu Hhas].
  pose proof (nwc_loop_bad _ _ _ _ _ _ N2) as B2.
  rewrite B2, B1. clear B1 B2. unfold group_defect. rewrite duplicate_name_lt. split.
  - intros [[Hb|[U|[(a & sc & Ha & Na & Hh)|D]]]|[U|[(nc & Hnc & V)|(nc & sc & Hnc & Nnc & E)]]].
    + discriminate.
    + left; exact U.
    + discriminate.
    + right; right; left; exact D.
    + right; left; exact U.
    + apply conds_valid_false in V. destruct V as [V|[(c & Hc & Hx)|(c & Hc & Hx)]].
      * right; right; right; right; right; right. exists nc. split; assumption.
      * right; right; right; right; left. exists nc, c. repeat split; assumption.
      * right; right; right; right; right; left. exists nc, c. repeat split; assumption.
    + rewrite (eu_is_eu _ _ Heu) in E. apply Hhas in E. destruct E as [E|(a & Ha & Na)]; [discriminate|].
      right; right; right; left. exists a, nc, sc. repeat split; assumption.
  - intros [U|[U|[D|[(a & nc & sc & Ha & Hnc & Na & Nnc)|[(nc & c & Hnc & Hc & Hx)|[(nc & c & Hnc & Hc & Hx)|(nc & Hnc & Hx)]]]]]].
    + left; right; left; exact U.
    + right; left; exact U.
    + left; right; right; right; exact D.
    + right; right; right. exists nc, sc. split; [exact Hnc|]. split; [exact Nnc|].
      rewrite (eu_is_eu _ _ Heu). apply Hhas. right. exists a. split; assumption.
    + right; right; left. exists nc. split; [exact Hnc|]. apply conds_valid_false. right; left. exists c. split; assumption.
    + right; right; left. exists nc. split; [exact Hnc|]. apply conds_valid_false. right; right. exists c. split; assumption.
    + right; right; left. exists nc. split; [exact Hnc|]. apply conds_valid_false. left. exact Hx.
Qed.

Theorem to_syscalls_reject_iff ai g : to_syscalls ai g = Error EProblems <-> group_defect ai g.
Proof.
  unfold to_syscalls.
  destruct (names_loop ai (g_names g) [] false) as [es1 bad1] eqn:N1.
  destruct (nwc_loop ai (g_nwc g) es1 bad1) as [es2 bad2] eqn:N2.
  rewrite <- (loops_bad_iff ai g _ _ _ _ N1 N2).
  destruct bad2; split; intros H; try reflexivity; discriminate.
Qed.
Print Assumptions to_syscalls_reject_iff.

Theorem to_syscalls_total ai g : exists es, to_syscalls ai g = Ok es \/ to_syscalls ai g = Error EProblems.
Proof.
  unfold to_syscalls.
  destruct (names_loop ai (g_names g) [] false) as [es1 bad1].
  destruct (nwc_loop ai (g_nwc g) es1 bad1) as [es2 bad2].
  exists es2. destruct bad2; [right|left]; reflexivity.
Qed.
Print Assumptions to_syscalls_total.

Corollary to_syscalls_accept_iff ai g : (exists es, to_syscalls ai g = Ok es) <-> ~ group_defect ai g.
Proof.
  rewrite <- to_syscalls_reject_iff. destruct (to_syscalls_total ai g) as [es [H|H]]; rewrite H.
  - split; [intros _; discriminate|intros _; exists es; reflexivity].
  - split; [intros [es' E]; discriminate|intros N; exfalso; apply N; reflexivity].
Qed.
