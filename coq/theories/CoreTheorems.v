(** * CoreTheorems: the statements of C01-C04 as corollaries of [compile_correct]. *)
From Coq Require Import List NArith Bool Lia.
From Seccomp Require Import Words Machine Result Assembler AssemblerProofs Policy Spec CompileProofs.
Import ListNotations.
Open Scope N_scope.
Open Scope list_scope.

(** an event of the policy's architecture that does not carry the x32 bit on x86_64 *)
Definition native_event (k:consts) (ai:arch_info) (ev:event) : Prop :=
  ev_arch ev = ai_id ai /\ (ai_id ai = k_x86_64_id k -> ev_nr ev < k_x32mask k).

Lemma decide_native k ai pol ev :
  native_event k ai ev ->
  decide k ai pol ev = match first_group ai ev (p_groups pol) with
                       | Some g => ret_word k (g_action g)
                       | None => ret_word k (p_default pol)
                       end.
Proof.
  intros [Ha Hx]. unfold decide. rewrite Ha, N.eqb_refl. cbn [negb].
  destruct (ai_id ai =? k_x86_64_id k) eqn:E; cbn [andb]; [|reflexivity].
  apply N.eqb_eq in E. specialize (Hx E).
  replace (k_x32mask k <=? ev_nr ev) with false by (symmetry; apply N.leb_gt; exact Hx). reflexivity.
Qed.

(** C01 *)
Theorem first_matching_group le k ai pol p ev :
  compile le k ai pol = Ok p -> N.of_nat (length p) < two32 ->
  native_event k ai ev ->
  run_event le p ev = ORet (match first_group ai ev (p_groups pol) with
                            | Some g => ret_word k (g_action g)
                            | None => ret_word k (p_default pol)
                            end).
Proof. intros H L N. rewrite (compile_correct le k ai ev pol p H L). rewrite decide_native by exact N. reflexivity. Qed.

Lemma ret_word_errno k : ret_word k (k_errno k) = N.lor (k_errno k) (k_eperm k).
Proof. unfold ret_word. rewrite N.eqb_refl. reflexivity. Qed.
Lemma ret_word_other k a : a <> k_errno k -> ret_word k a = a.
Proof. intros H. unfold ret_word. apply N.eqb_neq in H. rewrite H. reflexivity. Qed.

(** what "the first group that lists the syscall number" means for groups of plain names *)
Lemma group_matches_names ai ev g :
  g_nwc g = [] ->
  group_matches ai ev g = true <->
  exists name num, In name (g_names g) /\ lookup_name (ai_table ai) name = Some num /\ ev_nr ev = sysnum ai num.
Proof.
  intros Hn. unfold group_matches. rewrite Hn. cbn [existsb]. rewrite orb_false_r. rewrite existsb_exists. split.
  - intros [name [Hin Hm]]. unfold name_matches in Hm.
    destruct (lookup_name (ai_table ai) name) as [num|] eqn:E; [|discriminate].
    exists name, num. repeat split; auto. apply N.eqb_eq. exact Hm.
  - intros [name [num [Hin [Hl Hnr]]]]. exists name. split; [exact Hin|].
    unfold name_matches. rewrite Hl. apply N.eqb_eq. exact Hnr.
Qed.

Lemma first_group_spec ai ev gs g :
  first_group ai ev gs = Some g <->
  exists pre post, gs = pre ++ g :: post /\ group_matches ai ev g = true /\
                   Forall (fun g' => group_matches ai ev g' = false) pre.
Proof.
  induction gs as [|g0 r IH]; cbn [first_group].
  - split; [discriminate|]. intros [pre [post [H _]]]. destruct pre; discriminate.
  - destruct (group_matches ai ev g0) eqn:M.
    + split.
      * intros H. injection H as <-. exists [], r. repeat split; auto.
      * intros [pre [post [H [Hm Hp]]]]. destruct pre as [|x pre].
        -- injection H as -> _. reflexivity.
        -- injection H as -> _. inversion Hp; subst. congruence.
    + rewrite IH. split.
      * intros [pre [post [H [Hm Hp]]]]. exists (g0 :: pre), post. subst. repeat split; auto.
      * intros [pre [post [H [Hm Hp]]]]. destruct pre as [|x pre].
        -- injection H as <- _. congruence.
        -- injection H as -> ->. inversion Hp; subst. exists pre, post. repeat split; auto.
Qed.

Lemma first_group_none ai ev gs :
  first_group ai ev gs = None <-> Forall (fun g => group_matches ai ev g = false) gs.
Proof.
  induction gs as [|g r IH]; cbn [first_group]; [split; auto|].
  destruct (group_matches ai ev g) eqn:M.
  - split; [discriminate|]. intros H. inversion H; congruence.
  - rewrite IH. split; [intros; constructor; auto|intros H; inversion H; auto].
Qed.

(** C02 at policy level: one group, one conditional entry, one condition *)
Definition single_cond_policy (d action:N) (name:String.string) (c:cnd) : policy :=
  {| p_default := d; p_groups := [ {| g_names := []; g_nwc := [ {| nc_name := name; nc_conds := [c] |} ]; g_action := action |} ] |}.

Theorem single_condition_exact le k ai d action name c num p ev :
  compile le k ai (single_cond_policy d action name c) = Ok p -> N.of_nat (length p) < two32 ->
  lookup_name (ai_table ai) name = Some num ->
  native_event k ai ev -> ev_nr ev = sysnum ai num ->
  run_event le p ev = ORet (if rel (c_op c) (arg ev (c_arg c)) (c_val c) then ret_word k action else ret_word k d).
Proof.
  intros H L Hl N Hnr. rewrite (first_matching_group le k ai _ p ev H L N).
  unfold single_cond_policy. cbn [p_groups p_default first_group]. unfold group_matches.
  cbn [g_names g_nwc g_action existsb]. unfold nwc_matches. cbn [nc_name nc_conds].
  unfold name_matches, list_holds, cond_holds. cbn [forallb]. rewrite Hl, Hnr, N.eqb_refl. cbn [andb orb].
  rewrite andb_true_r, orb_false_r. destruct (rel (c_op c) (arg ev (c_arg c)) (c_val c)); reflexivity.
Qed.

(** C03: a matched group contains a rule written for the event's own syscall number that matches it *)
Theorem match_is_for_own_syscall ai ev g :
  group_matches ai ev g = true ->
  (exists name num, In name (g_names g) /\ lookup_name (ai_table ai) name = Some num /\ ev_nr ev = sysnum ai num) \/
  (exists nc num, In nc (g_nwc g) /\ lookup_name (ai_table ai) (nc_name nc) = Some num /\ ev_nr ev = sysnum ai num /\
                  forall c, In c (nc_conds nc) -> rel (c_op c) (arg ev (c_arg c)) (c_val c) = true).
Proof.
  unfold group_matches. intros H. apply orb_true_iff in H. destruct H as [H|H]; apply existsb_exists in H.
  - left. destruct H as [name [Hin Hm]]. unfold name_matches in Hm.
    destruct (lookup_name (ai_table ai) name) as [num|] eqn:E; [|discriminate].
    exists name, num. repeat split; auto. apply N.eqb_eq; exact Hm.
  - right. destruct H as [nc [Hin Hm]]. unfold nwc_matches, name_matches in Hm. apply andb_true_iff in Hm.
    destruct Hm as [Hm Hc]. destruct (lookup_name (ai_table ai) (nc_name nc)) as [num|] eqn:E; [|discriminate].
    exists nc, num. repeat split; auto; [apply N.eqb_eq; exact Hm|].
    unfold list_holds in Hc. rewrite forallb_forall in Hc. exact Hc.
Qed.

(** ... and conversely such a rule makes the group match (AND within a list, OR across entries) *)
Theorem conditional_entry_matches ai ev g nc num :
  In nc (g_nwc g) -> lookup_name (ai_table ai) (nc_name nc) = Some num -> ev_nr ev = sysnum ai num ->
  (forall c, In c (nc_conds nc) -> rel (c_op c) (arg ev (c_arg c)) (c_val c) = true) ->
  group_matches ai ev g = true.
Proof.
  intros Hin Hl Hnr Hc. unfold group_matches. apply orb_true_iff. right. apply existsb_exists.
  exists nc. split; [exact Hin|]. unfold nwc_matches, name_matches. rewrite Hl, Hnr, N.eqb_refl. cbn [andb].
  unfold list_holds. apply forallb_forall. exact Hc.
Qed.

(** C03: an entry that does not match the event might as well be absent *)
Definition remove_nwc (g:group) (i:nat) : group :=
  {| g_names := g_names g; g_nwc := firstn i (g_nwc g) ++ skipn (S i) (g_nwc g); g_action := g_action g |}.

Lemma existsb_remove {A} (f:A -> bool) l i x :
  nth_error l i = Some x -> f x = false -> existsb f (firstn i l ++ skipn (S i) l) = existsb f l.
Proof.
  revert i. induction l as [|y r IH]; intros i Hn Hf; destruct i; cbn in *; try discriminate.
  - injection Hn as ->. rewrite Hf. reflexivity.
  - rewrite (IH i Hn Hf). reflexivity.
Qed.

Theorem unmatched_entry_as_absent ai ev g i nc :
  nth_error (g_nwc g) i = Some nc -> nwc_matches ai ev nc = false ->
  group_matches ai ev (remove_nwc g i) = group_matches ai ev g.
Proof.
  intros Hn Hm. unfold group_matches, remove_nwc. cbn [g_names g_nwc].
  rewrite (existsb_remove _ _ _ _ Hn Hm). reflexivity.
Qed.

Fixpoint replace_group (gs:list group) (j:nat) (g':group) : list group :=
  match gs, j with
  | [], _ => []
  | _ :: r, O => g' :: r
  | g :: r, S j' => g :: replace_group r j' g'
  end.

Lemma first_group_replace ai ev gs : forall j g g',
  nth_error gs j = Some g -> group_matches ai ev g' = group_matches ai ev g -> g_action g' = g_action g ->
  option_map g_action (first_group ai ev (replace_group gs j g')) = option_map g_action (first_group ai ev gs).
Proof.
  induction gs as [|g0 r IH]; intros j g g' Hn Hm Ha; destruct j; cbn in *; try discriminate.
  - injection Hn as ->. rewrite Hm. destruct (group_matches ai ev g); cbn; [congruence|reflexivity].
  - destruct (group_matches ai ev g0); [reflexivity|]. eapply IH; eauto.
Qed.

(** the decision of the whole policy is unchanged when an unmatched conditional entry is removed, so no
    argument values can make the entry influence later entries, later groups or the default *)
Theorem decide_unmatched_entry_as_absent k ai pol ev j g i nc :
  nth_error (p_groups pol) j = Some g -> nth_error (g_nwc g) i = Some nc -> nwc_matches ai ev nc = false ->
  decide k ai {| p_default := p_default pol; p_groups := replace_group (p_groups pol) j (remove_nwc g i) |} ev
  = decide k ai pol ev.
Proof.
  intros Hg Hn Hm. unfold decide. cbn [p_default p_groups].
  pose proof (first_group_replace ai ev (p_groups pol) j g (remove_nwc g i) Hg
                (unmatched_entry_as_absent ai ev g i nc Hn Hm) eq_refl) as E.
  destruct (first_group ai ev (replace_group (p_groups pol) j (remove_nwc g i))) as [g1|],
           (first_group ai ev (p_groups pol)) as [g2|]; cbn in E; try discriminate; try reflexivity.
  injection E as ->. reflexivity.
Qed.

(** C04 *)
Theorem foreign_arch_default le k ai pol p ev :
  compile le k ai pol = Ok p -> N.of_nat (length p) < two32 ->
  ev_arch ev <> ai_id ai ->
  run_event le p ev = ORet (ret_word k (p_default pol)).
Proof.
  intros H L Hne. rewrite (compile_correct le k ai ev pol p H L). unfold decide.
  apply N.eqb_neq in Hne. rewrite Hne. reflexivity.
Qed.

Theorem x32_enosys le k ai pol p ev :
  compile le k ai pol = Ok p -> N.of_nat (length p) < two32 ->
  ai_id ai = k_x86_64_id k -> ev_arch ev = ai_id ai -> k_x32mask k <= ev_nr ev ->
  run_event le p ev = ORet (N.lor (k_errno k) (k_enosys k)).
Proof.
  intros H L Hx Ha Hn. rewrite (compile_correct le k ai ev pol p H L). unfold decide.
  rewrite Ha, N.eqb_refl. cbn [negb]. rewrite Hx, N.eqb_refl. cbn [andb].
  apply N.leb_le in Hn. rewrite Hn. reflexivity.
Qed.

(** neither kind of event is compared against a rule: the answer does not depend on the groups *)
Theorem foreign_independent_of_rules le k ai pol pol' p p' ev :
  compile le k ai pol = Ok p -> compile le k ai pol' = Ok p' ->
  N.of_nat (length p) < two32 -> N.of_nat (length p') < two32 ->
  p_default pol = p_default pol' ->
  ev_arch ev <> ai_id ai \/ (ai_id ai = k_x86_64_id k /\ k_x32mask k <= ev_nr ev) ->
  run_event le p ev = run_event le p' ev.
Proof.
  intros H H' L L' Hd [Hne|[Hx Hn]].
  - rewrite (foreign_arch_default le k ai pol p ev H L Hne), (foreign_arch_default le k ai pol' p' ev H' L' Hne).
    rewrite Hd. reflexivity.
  - destruct (N.eq_dec (ev_arch ev) (ai_id ai)) as [Ha|Ha].
    + rewrite (x32_enosys le k ai pol p ev H L Hx Ha Hn), (x32_enosys le k ai pol' p' ev H' L' Hx Ha Hn). reflexivity.
    + rewrite (foreign_arch_default le k ai pol p ev H L Ha), (foreign_arch_default le k ai pol' p' ev H' L' Ha).
      rewrite Hd. reflexivity.
Qed.

(** the eight relations as four complementary pairs over one total unsigned order (C02) *)
Lemma rel_partition a v :
  rel OpNe a v = negb (rel OpEq a v) /\ rel OpLe a v = negb (rel OpGt a v) /\ rel OpGe a v = negb (rel OpLt a v) /\
  rel OpNSet a v = negb (rel OpSet a v) /\
  rel OpGe a v = rel OpGt a v || rel OpEq a v /\ rel OpLe a v = rel OpLt a v || rel OpEq a v /\
  (if rel OpLt a v then 1 else 0) + (if rel OpEq a v then 1 else 0) + (if rel OpGt a v then 1 else 0) = 1.
Proof.
  unfold rel.
  destruct (N.eqb_spec a v) as [E|E]; destruct (N.ltb_spec v a) as [G|G]; destruct (N.ltb_spec a v) as [L|L];
    destruct (N.leb_spec v a) as [GE|GE]; destruct (N.leb_spec a v) as [LE|LE];
    try lia; rewrite ?negb_involutive; repeat split; reflexivity.
Qed.

(** [group_matches] characterised completely (C03): a group lists an event IFF some unconditional name of the
    group resolves to the event's number, or some conditional entry of the group resolves to the event's number and
    EVERY condition of that one entry holds - AND inside an entry, OR across entries, and nothing else *)
Lemma group_matches_iff ai ev g :
  group_matches ai ev g = true <->
  ((exists name num, In name (g_names g) /\ lookup_name (ai_table ai) name = Some num /\ ev_nr ev = sysnum ai num) \/
   (exists nc num, In nc (g_nwc g) /\ lookup_name (ai_table ai) (nc_name nc) = Some num /\ ev_nr ev = sysnum ai num /\
                   forall c, In c (nc_conds nc) -> rel (c_op c) (arg ev (c_arg c)) (c_val c) = true)).
Proof.
  split.
  - exact (match_is_for_own_syscall ai ev g).
  - intros [[name [num [Hin [Hl He]]]]|[nc [num [Hin [Hl [He Hc]]]]]].
    + unfold group_matches. apply orb_true_iff. left. apply existsb_exists. exists name. split; [exact Hin|].
      unfold name_matches. rewrite Hl. apply N.eqb_eq. exact He.
    + exact (conditional_entry_matches ai ev g nc num Hin Hl He Hc).
Qed.

(** one condition that does not hold blocks its own entry - whatever the other conditions of the entry say *)
Lemma failing_condition_blocks_entry ai ev nc c :
  In c (nc_conds nc) -> rel (c_op c) (arg ev (c_arg c)) (c_val c) = false -> nwc_matches ai ev nc = false.
Proof.
  intros Hin Hf. unfold nwc_matches. apply andb_false_iff. right.
  destruct (list_holds ev (nc_conds nc)) eqn:E; [|reflexivity].
  unfold list_holds in E. rewrite forallb_forall in E. specialize (E c Hin). unfold cond_holds in E. congruence.
Qed.
