#!/usr/bin/env python3
"""Rewrites the per-property status table in DESIGN.md (between the STATUSTABLE markers) from MANIFEST.json and the
evidence files of the last runs."""
import json
import os
import re

VERIF = os.path.dirname(os.path.dirname(os.path.abspath(__file__)))
m = json.load(open(os.path.join(VERIF, "MANIFEST.json")))
rows = ["| property | claim | theorems (discharged) | quick run: cases explored / non-trivial | wall s | technique |", "|---|---|---|---|---|---|"]
for c in m["checks"]:
    pid = c["property_id"]
    ev = {}
    p = os.path.join(VERIF, "evidence", pid + ".json")
    if os.path.exists(p):
        ev = json.load(open(p))
    cov = ev.get("coverage", {})
    partial = "partial proof" if c["level_claimed"]["text"].startswith("PARTIAL") else "proof"
    rows.append("| %s | %s | %s/%s | %s / %s | %s | %s |" % (pid, partial, cov.get("discharged", "?"), cov.get("obligations", "?"), cov.get("evaluations", "?"),
                                                         cov.get("distinct_nontrivial", "?"), int(ev.get("wall_s", 0)), c.get("technique", "")[:160].replace("|", "/")))
table = "<!-- STATUSTABLE -->\n" + "\n".join(rows) + "\n<!-- /STATUSTABLE -->"
p = os.path.join(VERIF, "DESIGN.md")
s = open(p).read()
if "<!-- STATUSTABLE -->" in s:
    s = re.sub(r"<!-- STATUSTABLE -->.*?<!-- /STATUSTABLE -->", lambda _: table, s, flags=re.S)
else:
    s = s.replace("### 12.5 Seeded changes", "### 12.4a Status per property (from MANIFEST.json and the evidence of the last quick runs)\n\n" + table + "\n\n### 12.5 Seeded changes", 1)
open(p, "w").write(s)
print(len(rows) - 2, "properties")
