#!/usr/bin/env python3
"""Confirms a seeded change (patch + demonstration) in a scratch worktree of /repo and runs checks against it.

  tools/try_seed.py <dir with patchN.diff demoN_test.go metaN.json> <N> <name under /verif/seeded> <Cxx> [<Cyy> ...]

1. scratch worktree of /repo HEAD (under /dev/shm, removed at the end);
2. the demonstration passes on the unchanged tree;
3. with the patch: the library builds, the unedited suite passes, the demonstration FAILS;
4. every named check is run with VERIF_REPO pointing at the patched worktree; VIOLATION lines are recorded;
5. patch.diff, the demonstration and meta.json (with what was run and seen) are stored in /verif/seeded/<name>/.
Nothing is ever applied to /repo itself."""
import json
import os
import re
import shutil
import subprocess
import sys

VERIF = os.path.dirname(os.path.dirname(os.path.abspath(__file__)))
ENV = dict(os.environ, GOFLAGS="-mod=mod", GOPROXY="off", GOSUMDB="off", GOTOOLCHAIN="local")


def sh(cmd, cwd=None, env=None, timeout=1800):
    r = subprocess.run(cmd, cwd=cwd, env=env or ENV, shell=isinstance(cmd, str), capture_output=True, text=True, timeout=timeout)
    return r.returncode, r.stdout + r.stderr


def pkg_dir(demo_text):
    m = re.search(r"^package\s+(\w+)", demo_text, re.M)
    pkg = m.group(1) if m else "seccomp"
    if pkg.startswith("seccomp"):
        return "."
    if pkg.startswith("arch"):
        return "arch"
    if pkg.startswith("disasm"):
        return "cmd/seccomp-profiler/disasm"
    if pkg == "main":
        if "seccomp-profiler" in demo_text.split("package main")[0] or "doObjdump" in demo_text or "cachedDumpFile" in demo_text:
            return "cmd/seccomp-profiler"
        return "cmd/sandbox" if "cmd/sandbox" in demo_text else "cmd/seccomp-profiler"
    if pkg.startswith("unix"):
        return "internal/unix"
    if re.match(r"^c\d\ddemo\d*(_test)?$", pkg):
        return re.sub(r"_test$", "", pkg)        # a package of its own inside the module (new directory)
    return "."


def main():
    src, n, name = sys.argv[1], sys.argv[2], sys.argv[3]
    props = sys.argv[4:]
    patch = os.path.join(src, "patch%s.diff" % n)
    demo = os.path.join(src, "demo%s_test.go" % n)
    meta_in = os.path.join(src, "meta%s.json" % n)
    wt = "/dev/shm/seedwt-%s" % name
    sh(["git", "-C", "/repo", "worktree", "remove", "--force", wt])
    rc, out = sh(["git", "-C", "/repo", "worktree", "add", "--detach", wt, "HEAD"])
    if rc != 0:
        print("worktree failed", out)
        return 2
    result = dict(name=name, confirmed=False, checks={})
    try:
        demo_text = open(demo).read()
        d = pkg_dir(demo_text)
        tags = ["-tags", "verif"] if "verif" in demo_text else []
        if "go test -race" in demo_text:
            tags.append("-race")
        os.makedirs(os.path.join(wt, d), exist_ok=True)
        dst = os.path.join(wt, d, "zz_seed_demo_test.go")
        shutil.copy(demo, dst)
        tests = re.findall(r"^func (Test\w+)\(", demo_text, re.M)
        runpat = "^(" + "|".join(tests) + ")$"
        # demonstrations that say they must run for another target
        denv = ENV
        if re.search(r"^//\s*GOARCH=386 go test", demo_text, re.M):
            denv = dict(ENV, GOARCH="386")
        if re.search(r"^//go:build !linux", demo_text, re.M):
            goroot = subprocess.run(["go", "env", "GOROOT"], capture_output=True, text=True, env=ENV).stdout.strip()
            denv = dict(ENV, GOOS="js", GOARCH="wasm")
            helper = os.path.join(goroot, "lib", "wasm", "go_js_wasm_exec")
            if not os.path.exists(helper):
                helper = os.path.join(goroot, "misc", "wasm", "go_js_wasm_exec")
            tags = tags + ["-exec", helper]
        rc0, out0 = sh(["go", "test"] + tags + ["-vet=off", "-count=1", "-run", runpat, "./" + d], cwd=wt, env=denv)
        os.remove(dst)
        rca, outa = sh(["git", "apply", patch], cwd=wt)
        if rca != 0:
            print("patch does not apply:", outa)
            result["error"] = "patch does not apply"
            return 2
        rcb, outb = sh("go build ./... && go test -vet=off -count=1 ./...", cwd=wt)
        shutil.copy(demo, dst)
        rc1, out1 = sh(["go", "test"] + tags + ["-vet=off", "-count=1", "-run", runpat, "./" + d], cwd=wt, env=denv)
        os.remove(dst)
        result.update(demo_passes_without=(rc0 == 0), suite_passes_with=(rcb == 0), demo_fails_with=(rc1 != 0))
        result["confirmed"] = rc0 == 0 and rcb == 0 and rc1 != 0
        print("confirm: demo without patch rc=%d, suite with patch rc=%d, demo with patch rc=%d => %s" %
              (rc0, rcb, rc1, "CONFIRMED" if result["confirmed"] else "NOT CONFIRMED"))
        if not result["confirmed"]:
            print(out0[-800:], outb[-800:], out1[-800:])
        for p in props:
            env = dict(ENV, VERIF_REPO=wt)
            rc, out = sh([os.path.join(VERIF, "check"), p], cwd=VERIF, env=env, timeout=3600)
            vio = [ln for ln in out.splitlines() if ln.startswith("VIOLATION")]
            result["checks"][p] = dict(exit=rc, violations=vio)
            print("check %s: exit %d %s" % (p, rc, "; ".join(vio)[:400]))
            # keep the replay files of self-tests out of the way
            for v in vio:
                m = re.search(r"replay=(\S+)", v)
                if m and os.path.exists(m.group(1)):
                    tgt = os.path.join(VERIF, "seeded", name, "replays")
                    os.makedirs(tgt, exist_ok=True)
                    shutil.move(m.group(1), os.path.join(tgt, p + "-" + os.path.basename(m.group(1))))
        out_dir = os.path.join(VERIF, "seeded", name)
        os.makedirs(out_dir, exist_ok=True)
        shutil.copy(patch, os.path.join(out_dir, "patch.diff"))
        shutil.copy(demo, os.path.join(out_dir, "demo_test.go.txt"))
        meta = {}
        if os.path.exists(meta_in):
            try:
                meta = json.load(open(meta_in))
            except Exception:      # noqa: BLE001
                meta = dict(raw=open(meta_in).read())
        meta["demo_package_dir"] = d
        meta["confirmation"] = dict(demo_passes_without_patch=rc0 == 0, suite_passes_with_patch=rcb == 0, demo_fails_with_patch=rc1 != 0,
                                    how="tools/try_seed.py in a scratch worktree of /repo HEAD (go test -vet=off -count=1 ./...; demonstration copied into %s)" % d)
        meta["checks_run_against_it"] = result["checks"]
        meta["caught_by"] = [p for p, r in result["checks"].items() if r["exit"] != 0 and r["violations"]]
        with open(os.path.join(out_dir, "meta.json"), "w") as f:
            json.dump(meta, f, indent=1)
            f.write("\n")
        return 0
    finally:
        sh(["git", "-C", "/repo", "worktree", "remove", "--force", wt])
        # (evidence is not written in self-test runs: see Ctx.write_evidence)
        pass


if __name__ == "__main__":
    sys.exit(main())
