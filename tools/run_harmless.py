#!/usr/bin/env python3
"""Runs every stored behaviour-preserving refactoring (harmless/<area>/hrN.diff) against the checks of its area.
   tools/run_harmless.py [area ...]      one line per (refactoring, check) on stdout"""
import glob
import os
import subprocess
import sys

VERIF = os.path.dirname(os.path.dirname(os.path.abspath(__file__)))
AREA_CHECKS = {
    "A": ["C01", "C02", "C03", "C04", "C05", "C07"],      # code generator (filter.go)
    "B": ["C07", "C14", "C03"],                            # validation / text functions
    "C": ["C06", "C05", "C01"],                            # assembler
    "D": ["C08", "C09", "C10", "C11"],                     # loader
    "E": ["C12", "C13", "C19", "C04"],                     # arch/info.go
    "F": ["C15"],                                          # cmd/sandbox
    "G": ["C17", "C18"],                                   # profiler
    "H": ["C16"],                                          # disassembly parser
}
areas = sys.argv[1:] or sorted(AREA_CHECKS)
for a in areas:
    for diff in sorted(glob.glob(os.path.join(VERIF, "harmless", a, "hr*.diff"))):
        if int(os.path.basename(diff)[2:-5]) < int(os.environ.get("HR_MIN", "1")):
            continue
        label = "%s-%s" % (a, os.path.basename(diff)[:-5])
        r = subprocess.run([sys.executable, os.path.join(VERIF, "tools", "try_harmless.py"), diff, label] + AREA_CHECKS[a],
                           capture_output=True, text=True)
        sys.stdout.write(r.stdout)
        sys.stdout.flush()
