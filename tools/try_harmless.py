#!/usr/bin/env python3
"""Applies a behaviour-preserving refactoring (a diff) to a scratch worktree of /repo and runs checks against it.
   tools/try_harmless.py <diff> <label> <Cxx> [<Cyy> ...]
Prints one line per check: PASS | no-failing-input-found (tolerated, listed) | COUNTEREXAMPLE (a false alarm to repair)."""
import os
import re
import shutil
import subprocess
import sys

VERIF = os.path.dirname(os.path.dirname(os.path.abspath(__file__)))
ENV = dict(os.environ, GOFLAGS="-mod=mod", GOPROXY="off", GOSUMDB="off", GOTOOLCHAIN="local")


def sh(cmd, cwd=None, env=None, timeout=3600):
    r = subprocess.run(cmd, cwd=cwd, env=env or ENV, shell=isinstance(cmd, str), capture_output=True, text=True, timeout=timeout)
    return r.returncode, r.stdout + r.stderr


def main():
    diff, label = sys.argv[1], sys.argv[2]
    props = sys.argv[3:]
    wt = "/dev/shm/hrwt-" + re.sub(r"[^A-Za-z0-9]", "", label)
    sh(["git", "-C", "/repo", "worktree", "remove", "--force", wt])
    rc, out = sh(["git", "-C", "/repo", "worktree", "add", "--detach", wt, "HEAD"])
    try:
        rc, out = sh(["git", "apply", diff], cwd=wt)
        if rc != 0:
            print(label, "DOES-NOT-APPLY", out[:200])
            return 2
        rc, out = sh("go build ./... && go test -vet=off -count=1 ./...", cwd=wt)
        if rc != 0:
            print(label, "SUITE-FAILS", out[-300:])
            return 2
        for p in props:
            rc, out = sh([os.path.join(VERIF, "check"), p], cwd=VERIF, env=dict(ENV, VERIF_REPO=wt))
            vio = [ln for ln in out.splitlines() if ln.startswith("VIOLATION")]
            if rc == 0:
                verdict = "PASS"
            elif vio and all("no-failing-input-found" in v for v in vio):
                verdict = "no-failing-input-found"
            else:
                verdict = "COUNTEREXAMPLE " + "; ".join(vio)[:300]
            print("%s %s %s" % (label, p, verdict), flush=True)
            for v in vio:
                m = re.search(r"replay=(\S+)", v)
                if m and os.path.exists(m.group(1)):
                    d = os.path.join("/dev/shm/w/hr-replays", label)
                    os.makedirs(d, exist_ok=True)
                    shutil.move(m.group(1), os.path.join(d, p + "-" + os.path.basename(m.group(1))))
        return 0
    finally:
        sh(["git", "-C", "/repo", "worktree", "remove", "--force", wt])


if __name__ == "__main__":
    sys.exit(main())
