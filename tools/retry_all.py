#!/usr/bin/env python3
"""Re-runs every stored seeded change against the current checks (tools/retry_seed.py), N at a time.
   tools/retry_all.py [N=3] [prefix]      prints one line per change: name, confirmed?, per check: counterexample | nfi | MISSED"""
import json
import os
import subprocess
import sys
from concurrent.futures import ThreadPoolExecutor

VERIF = os.path.dirname(os.path.dirname(os.path.abspath(__file__)))
n = int(sys.argv[1]) if len(sys.argv) > 1 else 3
prefix = sys.argv[2] if len(sys.argv) > 2 else ""
names = sorted(d for d in os.listdir(os.path.join(VERIF, "seeded")) if d.startswith(prefix) and os.path.exists(os.path.join(VERIF, "seeded", d, "meta.json")))


def one(name):
    r = subprocess.run([sys.executable, os.path.join(VERIF, "tools", "retry_seed.py"), name], capture_output=True, text=True)
    try:
        m = json.load(open(os.path.join(VERIF, "seeded", name, "meta.json")))
    except Exception as e:      # noqa: BLE001
        return "%s ERROR %s" % (name, e)
    conf = m.get("confirmation", {})
    ok = conf.get("demo_passes_without_patch") and conf.get("suite_passes_with_patch") and conf.get("demo_fails_with_patch")
    res = []
    for c, v in m.get("checks_run_against_it", {}).items():
        vio = v.get("violations", [])
        res.append("%s:%s" % (c, "MISSED" if not vio else ("counterexample" if any("no-failing-input-found" not in x for x in vio) else "nfi")))
    return "%s %s %s" % (name, "confirmed" if ok else "NOT-CONFIRMED", " ".join(res))


with ThreadPoolExecutor(max_workers=n) as ex:
    for line in ex.map(one, names):
        print(line, flush=True)
