#!/usr/bin/env python3
"""Writes the brief for one seeding sub-agent per property (rare-trigger round).
   tools/mk_seed_prompts.py <wave dir, e.g. /tmp/seed6> Cxx [Cyy ...]
The brief holds the property's text from properties.jsonl and the ideas already stored under seeded/ (title + trigger),
nothing else from /verif. The agent works in <wave dir>/<Cxx> (a worktree of /repo HEAD made here) and writes to
<wave dir>/out/<Cxx>."""
import glob
import json
import os
import subprocess
import sys

TEMPLATE = 'You are a software engineer helping to test a verification effort by *seeding realistic defects*. You have a scratch git worktree of the Go library elastic/go-seccomp-bpf at @WT@ (work ONLY there and in @OUT@; do not look at or use anything under /verif or /repo — they are off limits, your work must be independent of them). The library compiles seccomp policies (allow/deny lists with 64-bit argument conditions) to classic BPF and installs them. Build/test offline with: `cd @WT@ && export GOFLAGS=-mod=mod GOPROXY=off GOSUMDB=off GOTOOLCHAIN=local && go build ./... && go test -vet=off -count=1 ./...` (the existing suite: about 400 tests, ~10 s; it must still PASS with your change, unedited).\n\nThe semantic property you must break (file @OUT@.txt holds the same text):\n\n@TEXT@\n\nIMPORTANT - the following ideas were ALREADY used by earlier engineers for this property (listed with what each needed in order to manifest); use DIFFERENT mechanisms, locations and triggers:\n@USED@\nThis round is about RARE TRIGGERS: make each change manifest only under a narrow, specific condition that a randomised test generator producing a few hundred typical inputs would be unlikely to hit by chance - e.g. an exact size or distance (not just \'more than 255\'), a particular combination of two features, a specific position (first/last/only element), a value with a particular bit pattern, a particular order of operations, a particular byte count at a buffer boundary. State the trigger precisely in needs_to_manifest, and estimate how likely a random valid input is to hit it.\n\n\nTask: produce THREE different, independent changes (deliver fewer only if, after a serious attempt, you cannot find more that satisfy all conditions) to the library source (each a small plausible edit a developer could make by mistake or as a misguided "cleanup"/"optimisation" — not sabotage comments, not dead giveaways), each of which\n  (1) still compiles and passes the whole existing test suite unchanged,\n  (2) makes the library violate the property above,\n  (3) needs something SPECIFIC to manifest — an unusual input, a particular size/boundary (e.g. program length across 255/256, a specific operand pattern, a particular group order), a multi-step sequence, a particular byte order/architecture, or two cooperating sites that each look fine alone — i.e. NOT something that ordinary use or a trivial smoke test would expose at once,\n  (4) uses a different mechanism/location than the other change.\nFor each change i in {1,2,3} write into @OUT@/:\n  - patch<i>.diff  : `git diff` of the worktree for that change alone (apply cleanly to a clean checkout with `git apply`; make change 1, save diff, `git checkout -- .`, then make change 2),\n  - demo<i>_test.go : a Go test (state in a header comment which package directory it must be copied into) that PASSES on the unchanged library and FAILS with the change applied, demonstrating the property violation (use only the public API plus, if really necessary, package-internal access by being in the same package; the hidden hook functions `SetArchVerif`, `SetNativeEndianVerif` exist under the build tag `verif` in verif_hooks.go — you may use them with `-tags verif` and say so),\n  - meta<i>.json : {"property": "@PID@", "title": short name, "files": [...], "what_it_breaks": one paragraph, "needs_to_manifest": the specific condition, "commands_run": [the commands you ran and their outcome: suite passes with patch, demo passes without patch, demo fails with patch]}.\nVerify all of (1)-(3) yourself by actually running the commands. Leave the worktree clean at the end (`git checkout -- . && git status --short` empty; remove test files you copied in). Final answer: a SHORT summary (under 300 words; never paste files or long listings into your replies - write them with your tools) and confirmation of what you ran.\n\nProcess rules: do not use `git stash`; never kill processes by name (only by PID you started); when you run anything that installs a seccomp filter or may hang, wrap it in `timeout -s KILL 60`. Keep each demonstration test under ~150 lines.\n'

VERIF = os.path.dirname(os.path.dirname(os.path.abspath(__file__)))
wave = sys.argv[1]
props = {}
for line in open(os.path.join(VERIF, "properties.jsonl")):
    j = json.loads(line)
    props[j["id"]] = j
os.makedirs(os.path.join(wave, "out"), exist_ok=True)
for pid in sys.argv[2:]:
    p = props[pid]
    wt = os.path.join(wave, pid)
    out = os.path.join(wave, "out", pid)
    os.makedirs(out, exist_ok=True)
    if not os.path.exists(wt):
        subprocess.run(["git", "-C", "/repo", "worktree", "add", "--detach", wt, "HEAD"], check=True, capture_output=True)
    used = []
    for m in sorted(glob.glob(os.path.join(VERIF, "seeded", "*", "meta.json"))):
        j = json.load(open(m))
        if j.get("property") == pid or os.path.basename(os.path.dirname(m)).startswith(pid + "-"):
            used.append(" - %s: %s" % (str(j.get("title", os.path.basename(os.path.dirname(m))))[:160], str(j.get("needs_to_manifest", ""))[:230]))
    text = "%s — %s\n\nStatement: %s\n\nQuantifier: %s\n\nAnchors: %s\n" % (pid, p["title"], p["statement"], p["quantifier"]["text"], json.dumps(p["anchors"]))
    open(os.path.join(wave, "out", pid + ".txt"), "w").write(text)
    brief = TEMPLATE.replace("@WT@", wt).replace("@OUT@", out).replace("@PID@", pid).replace("@TEXT@", text).replace("@USED@", "\n".join(used) or " (none)")
    open(os.path.join(wave, "prompt_%s.txt" % pid), "w").write(brief)
    print(pid, len(used), "earlier ideas")
