#!/usr/bin/env python3
"""Rewrites the table of seeded changes in DESIGN.md (between the SEEDTABLE markers) from seeded/*/meta.json."""
import json
import os
import re

VERIF = os.path.dirname(os.path.dirname(os.path.abspath(__file__)))
rows = ["| seeded change | breaks | needs, to manifest | caught by | not flagged by |", "|---|---|---|---|---|"]
for name in sorted(os.listdir(os.path.join(VERIF, "seeded"))):
    mp = os.path.join(VERIF, "seeded", name, "meta.json")
    if not os.path.exists(mp):
        continue
    m = json.load(open(mp))
    checks = m.get("checks_run_against_it", {})
    caught, missed = [], []
    for p, r in sorted(checks.items()):
        if r["exit"] != 0 and r["violations"]:
            nf = all("no-failing-input-found" in v for v in r["violations"])
            caught.append(p + (" (no-failing-input-found)" if nf else ""))
        else:
            missed.append(p)
    need = str(m.get("needs_to_manifest", ""))
    need = re.sub(r"\s+", " ", need)[:230]
    rows.append("| `%s` | %s | %s | %s | %s |" % (name, m.get("property", "?"), need.replace("|", "/"), ", ".join(caught) or "**none**", ", ".join(missed) or "-"))
table = "<!-- SEEDTABLE -->\n" + "\n".join(rows) + "\n<!-- /SEEDTABLE -->"
p = os.path.join(VERIF, "DESIGN.md")
s = open(p).read()
if "@SEEDTABLE@" in s:
    s = s.replace("@SEEDTABLE@", table)
else:
    s = re.sub(r"<!-- SEEDTABLE -->.*?<!-- /SEEDTABLE -->", lambda _: table, s, flags=re.S)
open(p, "w").write(s)
print(len(rows) - 2, "seeded changes listed")
