#!/usr/bin/env python3
"""Runs tools/try_seed.py for every patch<N>.diff of a seeding wave directory that has not been tried yet.
   tools/run_wave.py <wave dir, e.g. /tmp/seed4/out> [Cxx ...]"""
import json
import os
import re
import subprocess
import sys

VERIF = os.path.dirname(os.path.dirname(os.path.abspath(__file__)))
wave = sys.argv[1]
only = set(sys.argv[2:])
done_log = os.path.join(wave, "tried.json")
done = json.load(open(done_log)) if os.path.exists(done_log) else {}
for pid in sorted(os.listdir(wave)):
    d = os.path.join(wave, pid)
    if not os.path.isdir(d) or (only and pid not in only):
        continue
    for n in ("1", "2", "3"):
        patch = os.path.join(d, "patch%s.diff" % n)
        demo = os.path.join(d, "demo%s_test.go" % n)
        meta = os.path.join(d, "meta%s.json" % n)
        key = pid + "/" + n
        if key in done or not (os.path.exists(patch) and os.path.exists(demo)):
            continue
        title = pid + "-w4-" + n
        try:
            m = json.load(open(meta))
            t = re.sub(r"[^a-z0-9]+", "-", str(m.get("title", "")).lower()).strip("-")[:48]
            if t:
                title = "%s-%s" % (pid, t)
        except Exception:      # noqa: BLE001
            pass
        r = subprocess.run([sys.executable, os.path.join(VERIF, "tools", "try_seed.py"), d, n, title, pid], capture_output=True, text=True)
        tail = [ln for ln in r.stdout.splitlines() if ln.startswith("confirm") or ln.startswith("check")]
        print(key, title, " | ".join(x[:160] for x in tail), flush=True)
        done[key] = dict(title=title, out=tail)
        json.dump(done, open(done_log, "w"), indent=1)
