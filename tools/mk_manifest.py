#!/usr/bin/env python3
"""Writes /verif/MANIFEST.json from the table below (one entry per claimed property) so that the file is
always complete and valid. Run after changing a claim:  python3 tools/mk_manifest.py"""
import json
import os
import sys

VERIF = os.path.dirname(os.path.dirname(os.path.abspath(__file__)))
sys.path.insert(0, os.path.join(VERIF, "lib"))

ALL = ["C%02d" % i for i in range(1, 20)]

COMMON_NOTE = ("Trusted: Coq 8.16.1 kernel (vm_compute only), extraction with ExtrOcamlBasic, the OCaml driver, the Go harness and the "
               "seeded generators; every theorem is 'Closed under the global context'. The theorem is unbounded; the tie between model and "
               "code is differential (instruction-exact on sampled inputs) and, where stated, regeneration by /verif/translator.")

CLAIMS = {
    "C01": dict(
        text="Kernel-checked theorem compile_correct and its corollaries (coq/properties/C01.v): for every accepted policy, table, byte order and native event the compiled program returns the word of the first matching group, else of the default; errno carries EPERM, other actions are verbatim. Induction over groups and entries, no bound on sizes. The model of Policy.Assemble is tied to the code by instruction-exact comparison on generated policies for all four tables, and every emitted program is run against the extracted specification.",
        technique="Rocq proof (induction over entry and group lists, label-machine simulation) + model/implementation correspondence + direct search against the extracted decide",
        ref="DESIGN.md 6 (C01)"),
    "C02": dict(
        text="Kernel-checked theorems (coq/properties/C02.v): each 64-bit relation equals its lowering to two 32-bit compares (lia / bit extensionality), LdHi/LdLo read the high/low half for both byte orders, the code of one condition leaves to match iff the relation holds (all eight operations), and a one-condition policy returns its action iff the relation holds. Tied to the code by instruction-exact comparison of single-condition policies (8 ops x 6 indices x boundary operands x both byte orders).",
        technique="Rocq proof (word arithmetic lemmas, per-operation symbolic execution of the label machine) + correspondence + direct search",
        ref="DESIGN.md 6 (C02)"),
    "C03": dict(
        text="Kernel-checked theorems (coq/properties/C03.v): the compiled program equals decide; a group matches only through a rule for the event's own number whose conditions all hold (AND), any satisfied list suffices (OR), and removing an unmatched entry changes neither decide nor the compiled program's answer. Tied to the code by instruction-exact comparison on mixed conditional policies and a search with argument words equal to other entries' numbers and operands.",
        technique="Rocq proof (corollaries of compile_correct; accumulator-restoring entry lemma) + correspondence + direct search",
        ref="DESIGN.md 6 (C03)"),
    "C04": dict(
        text="Kernel-checked theorems (coq/properties/C04.v): foreign-architecture events get the default action and x32-bit numbers on x86_64 get ERRNO|ENOSYS for every accepted policy and program size (both encodings of the architecture jump, explicit mod 256), independent of the rules. Correspondence is scoped to the prologue, the landing instruction and the x32 guard; the search runs only foreign and x32 events.",
        technique="Rocq proof (prologue lemma for both jump encodings, run_skip_app) + scoped correspondence + direct search",
        ref="DESIGN.md 6 (C04)"),
    "C05": dict(
        text="Kernel-checked theorems (coq/properties/C05.v): every compiled program of at most 4096 instructions passes kernel_check (a Coq port of bpf_check_classic + seccomp_check_filter), its jumps fit a byte, raw encoding preserves meaning, its return set is closed, and it returns decide on every event; kernel_check is proved a sound checker for any raw program. The extracted checker judges every program the implementation emits, and the verifier model is validated against the running kernel on emitted and systematically damaged programs.",
        technique="Rocq proof (jump-closedness invariant through resolve/relax, certified checker) + correspondence + kernel_check of every emitted program + differential validation against seccomp(2)",
        ref="DESIGN.md 6 (C05)"),
    "C06": dict(
        text="Kernel-checked theorems (coq/properties/C06.v): for every sequence of builder calls, if Assemble succeeds the instruction list has the outcome of the label-level program on every input; bridges never change a path; no branch is ever left out of reach. The model of Program.Assemble is tied to the code by instruction-exact comparison on generated builder programs.",
        technique="Rocq proof by induction over label programs (relax/resolve simulation) + model/implementation correspondence",
        ref="DESIGN.md 6 (C06)"),
    "C07": dict(
        text="Kernel-checked theorems (coq/properties/C07.v): Policy.Assemble errs exactly for an unnamed default action, no groups, or a group with a defect (unknown name, duplicate, conditional+unconditional, argument index > 5, unknown operation, empty condition list), with the stated error class; every defect-free policy is accepted (the assembler cannot fail on generated code); accepted policies decide as written; GOARCHs without tables give unsupported-arch over the regenerated alias list. Tied to the code by comparing accept/error class/panic on valid policies and policies with one injected defect.",
        technique="Rocq proof (loop invariants of toSyscallsWithConditions, well-formed-jump invariant through the generators and relax) + correspondence on the accept/error projection + direct search against the property text",
        ref="DESIGN.md 6 (C07)"),
    "C12": dict(
        text="Kernel-checked theorems over the tables and records REGENERATED from arch/*.go on every run (coq/properties/C12.v): no number or name twice in any of the five tables (reflection), lookups mutually inverse, map inversion independent of iteration order, agreement with vendored UAPI / x/sys / Go syscall oracles, audit ids equal AUDIT_ARCH_*, aliases case-insensitive and paired, unsupported architectures rejected. The runtime package is read back in fresh processes and compared with the regenerated data inside Coq.",
        technique="Rocq proof by reflection (vm_compute over regenerated finite tables, lifted by forallb_forall) + generic table lemmas + translator cross-check against the running package",
        ref="DESIGN.md 6 (C12)"),
    "C17": dict(
        text="PARTIAL proof. Kernel-checked theorems (coq/properties/C17.v) over an executable file-system state machine of doObjdump: the invariant 'every file under a final cache name is complete for the hash in its first line' is preserved by every prefix of a run (crash after any step or inside any write, failing or missing disassembler, I/O error, changing binaries, any buffer size), hence after ANY history the next complete run returns the cold-cache dump or an error; the pre-fix protocol is refuted inside Coq (witness by vm_compute, defect D13). Tied to the real profiler binary by SIGKILL / failing-tool / missing-tool / RLIMIT_FSIZE / planted-file histories whose directory contents and profiles are compared with the extracted model.",
        technique="Rocq proof (invariant by induction over operation prefixes and histories) + extraction-based correspondence with the built profiler + direct search over crash points",
        note="Partial: the file system (atomic rename, a file is only what was written to it, sequential runs), the tool's exit status and SHA-256 are assumptions; the model cannot exhibit concurrent profiler processes, loss or reordering of unsynced data at power failure, a temp-name collision, or a cache directory written by other software (a truncated cache planted under the final name with the right hash line is trusted - by the code and by the model). Trusted besides: Coq kernel, extraction (ExtrOcamlBasic), profdriver.ml, the Python history generator.",
        ref="DESIGN.md 6 (C17)"),
    "C18": dict(
        text="Kernel-checked theorems (coq/properties/C18.v): for every order of both Go map iterations, found multiset, blacklist and allow list the emitted list is sorted, duplicate-free, a subset of the table and has exactly the members (found and not blacklisted) or (allowed and in the table) - allowed wins over blacklisted; the profile policy compiles to a filter answering ALLOW exactly for those numbers and ERRNO|EPERM otherwise (corollary of compile_correct), instantiated on the regenerated tables and constants. Tied to the code by running the built profiler on synthetic disassemblies x flag values x both output formats, loading the YAML through the configuration path and evaluating the compiled program over the whole table.",
        technique="Rocq proof (Permutation/Sorted lemmas over an arbitrary-shuffle model of Go maps; corollary of compile_correct) + correspondence with the built profiler + exhaustive table sweep",
        note="Trusted: Coq kernel, translator (tables, constants), extraction, drivers, generators. yaml.v2, go-ucfg and text/template are exercised (the whole amd64 and 386 tables pass through both emitters on every run), not modelled; arm profiles cannot be produced (the disassembly parser refuses arm).",
        ref="DESIGN.md 6 (C18)"),
}

NOT_YET = "check under construction in this session (not yet registered)"


def main():
    try:
        import registry
        have = set(registry.CHECKS)
    except Exception as e:      # noqa: BLE001
        print("registry import failed:", e)
        have = set()
    extra = os.path.join(VERIF, "tools", "claims_extra.json")
    claims = dict(CLAIMS)
    if os.path.exists(extra):
        with open(extra) as f:
            claims.update(json.load(f))
    checks = []
    na = []
    for pid in ALL:
        c = claims.get(pid)
        if c and pid in have and not c.get("not_applicable"):
            checks.append({
                "property_id": pid,
                "quick_cmd": "./check %s --tier quick" % pid,
                "thorough_cmd": "./check %s --tier thorough" % pid,
                "evidence_file": "/verif/evidence/%s.json" % pid,
                "replay_cmd_template": "./check %s --replay {path}" % pid,
                "engine": "rocq-proof+correspondence",
                "level_claimed": {"category": "proof", "text": c["text"], "design_ref": c.get("ref", "DESIGN.md 6")},
                "level_note": c.get("note", COMMON_NOTE),
                "technique": c["technique"],
            })
        else:
            na.append({"property_id": pid, "reason": (c or {}).get("not_applicable") or NOT_YET})
    with open(os.path.join(VERIF, "MANIFEST.json")) as f:
        old = json.load(f)
    m = {
        "version": 1,
        "setup_cmd": "make -C /verif framework",
        "hooks": old["hooks"],
        "engines": [{
            "name": "rocq-proof+correspondence",
            "path": "/verif/check",
            "serves_properties": [c["property_id"] for c in checks],
            "kind_free_text": "Coq 8.16.1 theorems over an executable model (hand-written theories + files regenerated from /repo by /verif/translator); model tied to /repo by a Go harness + extracted-model differential check and a direct search of the implementation's output against the extracted specification",
        }],
        "checks": checks,
        "not_applicable": na,
        "notes": "See DESIGN.md. known_findings.json lists repaired defects (fixed:) and open findings.",
    }
    with open(os.path.join(VERIF, "MANIFEST.json"), "w") as f:
        json.dump(m, f, indent=1)
        f.write("\n")
    print("claimed:", [c["property_id"] for c in checks])
    print("not claimed:", [x["property_id"] for x in na])


if __name__ == "__main__":
    main()
