#!/usr/bin/env python3
"""Writes /verif/MANIFEST.json from the table below (one entry per claimed property) so that the file is
always complete and valid. Run after changing a claim:  python3 tools/mk_manifest.py"""
import json
import os
import sys

VERIF = os.path.dirname(os.path.dirname(os.path.abspath(__file__)))
sys.path.insert(0, os.path.join(VERIF, "lib"))

ALL = ["C%02d" % i for i in range(1, 20)]

COMMON_NOTE = ("Trusted: Coq 8.16.1 kernel (vm_compute only), extraction with ExtrOcamlBasic, the OCaml driver, the Go harness and the "
               "seeded generators; every theorem is 'Closed under the global context'. The theorem is unbounded; the tie between model and "
               "code is differential (instruction-exact on sampled inputs) and, where stated, regeneration by /verif/translator.")

CLAIMS = {
    "C01": dict(
        text="Kernel-checked theorem compile_correct and its corollaries (coq/properties/C01.v): for every accepted policy, table, byte order and native event the compiled program returns the word of the first matching group, else of the default; errno carries EPERM, other actions are verbatim. Induction over groups and entries, no bound on sizes. The model of Policy.Assemble is tied to the code by instruction-exact comparison on generated policies for all four tables, and every emitted program is run against the extracted specification.",
        technique="Rocq proof (induction over entry and group lists, label-machine simulation) + model/implementation correspondence + direct search against the extracted decide",
        ref="DESIGN.md 6 (C01)"),
    "C02": dict(
        text="Kernel-checked theorems (coq/properties/C02.v): each 64-bit relation equals its lowering to two 32-bit compares (lia / bit extensionality), LdHi/LdLo read the high/low half for both byte orders, the code of one condition leaves to match iff the relation holds (all eight operations), and a one-condition policy returns its action iff the relation holds. Tied to the code by instruction-exact comparison of single-condition policies (8 ops x 6 indices x boundary operands x both byte orders).",
        technique="Rocq proof (word arithmetic lemmas, per-operation symbolic execution of the label machine) + correspondence + direct search",
        ref="DESIGN.md 6 (C02)"),
    "C03": dict(
        text="Kernel-checked theorems (coq/properties/C03.v): the compiled program equals decide; a group matches only through a rule for the event's own number whose conditions all hold (AND), any satisfied list suffices (OR), and removing an unmatched entry changes neither decide nor the compiled program's answer. Tied to the code by instruction-exact comparison on mixed conditional policies and a search with argument words equal to other entries' numbers and operands.",
        technique="Rocq proof (corollaries of compile_correct; accumulator-restoring entry lemma) + correspondence + direct search",
        ref="DESIGN.md 6 (C03)"),
    "C04": dict(
        text="Kernel-checked theorems (coq/properties/C04.v): foreign-architecture events get the default action and x32-bit numbers on x86_64 get ERRNO|ENOSYS for every accepted policy and program size (both encodings of the architecture jump, explicit mod 256), independent of the rules. Correspondence is scoped to the prologue, the landing instruction and the x32 guard; the search runs only foreign and x32 events.",
        technique="Rocq proof (prologue lemma for both jump encodings, run_skip_app) + scoped correspondence + direct search",
        ref="DESIGN.md 6 (C04)"),
    "C05": dict(
        text="Kernel-checked theorems (coq/properties/C05.v): every compiled program of at most 4096 instructions passes kernel_check (a Coq port of bpf_check_classic + seccomp_check_filter), its jumps fit a byte, raw encoding preserves meaning, its return set is closed, and it returns decide on every event; kernel_check is proved a sound checker for any raw program. The extracted checker judges every program the implementation emits, and the verifier model is validated against the running kernel on emitted and systematically damaged programs.",
        technique="Rocq proof (jump-closedness invariant through resolve/relax, certified checker) + correspondence + kernel_check of every emitted program + differential validation against seccomp(2)",
        ref="DESIGN.md 6 (C05)"),
    "C06": dict(
        text="Kernel-checked theorems (coq/properties/C06.v): for every sequence of builder calls, if Assemble succeeds the instruction list has the outcome of the label-level program on every input; bridges never change a path; no branch is ever left out of reach. The model of Program.Assemble is tied to the code by instruction-exact comparison on generated builder programs.",
        technique="Rocq proof by induction over label programs (relax/resolve simulation) + model/implementation correspondence",
        ref="DESIGN.md 6 (C06)"),
    "C07": dict(
        text="Kernel-checked theorems (coq/properties/C07.v): Policy.Assemble errs exactly for an unnamed default action, no groups, or a group with a defect (unknown name, duplicate, conditional+unconditional, argument index > 5, unknown operation, empty condition list), with the stated error class; every defect-free policy is accepted (the assembler cannot fail on generated code); accepted policies decide as written; GOARCHs without tables give unsupported-arch over the regenerated alias list. Tied to the code by comparing accept/error class/panic on valid policies and policies with one injected defect.",
        technique="Rocq proof (loop invariants of toSyscallsWithConditions, well-formed-jump invariant through the generators and relax) + correspondence on the accept/error projection + direct search against the property text",
        ref="DESIGN.md 6 (C07)"),
    "C08": dict(
        text="PARTIAL proof. Kernel-checked theorems (coq/properties/C08.v) over the kernel state model and the loader/sockFilter regenerated from seccomp_linux.go (per-run symbolic execution): the sock_fprog handed to seccomp(2) is (uint16 length, raw encoding) of the compiled program, field by field; a program over 4096 instructions is refused whatever its truncated 16-bit length (no proper prefix of a compiled program passes the verifier: prefix_rejected), so truncation can never install a different filter; after a nil load the installed program is the compiled one and returns decide on every event, on every thread with thread-sync. Tied to the real kernel by loading generated policies through the real LoadFilter in throw-away children, comparing the captured sock_fprog instruction for instruction with the model, and judging ~6000 raw probe syscalls (arbitrary 64-bit registers; errno / allow / log / trace / trap / kill_process; flags 0..3; with and without no_new_privs; other threads) against decide.",
        technique="Rocq proof over the kernel model and regenerated loader skeletons + captured-program comparison + real-kernel probe syscalls judged against the extracted decide",
        note="Partial: that Linux interprets classic BPF, the byte order of seccomp_data and the return words (errno, SIGSYS, allow) as run_raw says is validated on the host kernel 6.18 by experiment (about 6000 probes per quick run), not proved; kill_thread is not probed. Trusted: Coq kernel, translator (skeletons, constants), extraction and drivers, harness/kenforce.go, generators.",
        ref="DESIGN.md 6 (C08)"),
    "C09": dict(
        text="PARTIAL proof. LoadFilter, Supported, SetNoNewPrivs, prctl and seccomp are REGENERATED from seccomp_linux.go as statement skeletons on every run and given a semantics over a kernel state model (per-thread filter stacks, no_new_privs, privileges; do_seccomp with the kernel's observable check order) by an interpreter in Coq; a per-run symbolic execution re-proves the loader's specification (load_spec) for the current source. Kernel-checked theorems (coq/properties/C09.v) over EVERY history of loads, probes, thread creation/exit and privilege drops: nil implies the new filter is on top of the calling thread's stack (every thread's with thread-sync) and is the compiled program; whenever the kernel leaves the state unchanged the result is an error (unknown flags, oversize, EACCES, rejected program, refused thread-sync returning a thread id); a failing Assemble has no effect; Supported changes nothing. Tied to the real code by replaying real load histories (child processes on the running kernel) step by step inside Coq and by a direct search on the observations.",
        technique="Rocq proof over a kernel state model with the loader regenerated from source (skeleton interpreter, per-run symbolic execution) + step-wise replay of real histories inside Coq + direct search on /proc observations",
        note="Partial: the Linux kernel is a model (check order and errnos validated on the host kernel 6.18 by experiment; the ENOMEM path-length threshold is approximate; 'already strict' cannot be observed); real memory faults and kernel bugs cannot be exhibited. Trusted: Coq kernel, translator/skeleton.go, harness/loader.go, the history generator.",
        ref="DESIGN.md 6 (C09)"),
    "C10": dict(
        text="PARTIAL proof. Kernel-checked theorems (coq/properties/C10.v) over the kernel state model and the loader regenerated from source: when thread-sync is requested and the load returns nil, a fresh filter is on top of EVERY live thread's stack right after the load and stays in every thread's stack - including threads created later by any thread - for every continuation of the history; without thread-sync other threads' stacks are untouched; the flags word passed to seccomp(2) is Filter.Flag unmodified and the program passed is the compiled one. Tied to the real code by histories with 1..64 OS threads (spinning, sleeping, blocked in read, spawning) probed after an atomic 'load returned' flag, per-thread /proc status and the installation hook recording the flags word.",
        technique="Rocq proof (invariant 'filter in every live stack' by induction over histories) over a kernel state model + replay of real multi-threaded histories + direct search",
        note="Partial: thread-sync is ONE atomic step of the model (the kernel holds siglock; read from the kernel source, not measured) and inheritance on clone is assumed; real interleavings with up to 64 threads are sampled, not enumerated. Trusted as for C09.",
        ref="DESIGN.md 6 (C10)"),
    "C11": dict(
        text="PARTIAL proof. Kernel-checked theorems (coq/properties/C11.v): the Go scheduler is an oracle that may move an unpinned goroutine to any live thread at every statement boundary of the regenerated skeleton; because the skeleton pins the goroutine (runtime.LockOSThread before prctl, released on return), for EVERY oracle the thread that enters seccomp(2) has no_new_privs set when it was requested, so an unprivileged load of a valid filter returns nil; when not requested no bit changes (except the kernel's own copy on thread-sync) and an unprivileged load fails without attaching anything; with the two pin statements stripped from the skeleton the theorem is refuted inside Coq (a migrating oracle: defect D8). Tied to the real code by unprivileged child processes with a forced migration attempt at the schedule-point hook.",
        technique="Rocq proof quantifying over scheduler oracles on the loader regenerated from source (+ refutation of the unpinned variant) + replay of real privileged/unprivileged histories with forced migration attempts",
        note="Partial: the Go scheduler is an oracle over statement boundaries; preemption inside a statement, signals and cgo threads are not modelled; on the pinned code a migration can be attempted (GOMAXPROCS(1), busy goroutine, blocking sleeps at the hook) but not forced. Kernel model as for C09.",
        ref="DESIGN.md 6 (C11)"),
    "C12": dict(
        text="Kernel-checked theorems over the tables and records REGENERATED from arch/*.go on every run (coq/properties/C12.v): no number or name twice in any of the five tables (reflection), lookups mutually inverse, map inversion independent of iteration order, agreement with vendored UAPI / x/sys / Go syscall oracles, audit ids equal AUDIT_ARCH_*, aliases case-insensitive and paired, unsupported architectures rejected. The runtime package is read back in fresh processes and compared with the regenerated data inside Coq.",
        technique="Rocq proof by reflection (vm_compute over regenerated finite tables, lifted by forallb_forall) + generic table lemmas + translator cross-check against the running package",
        ref="DESIGN.md 6 (C12)"),
    "C13": dict(
        text="PARTIAL proof. The model's compile is a Gallina function of (byte order, constants, architecture record, policy) - determinism and purity hold of it by construction; kernel-checked theorems (coq/properties/C13.v) show that every place where the Go code iterates over a map cannot leak the iteration order: arch.invert and Action.Unpack give the same result for every permutation of the regenerated tables, the label sweep of updateIndices is order-independent, flag text is computed bit by bit, the cached architecture equals the looked-up one. Tied to the code by compiling generated policies repeatedly, from 16 goroutines on copies sharing slices (harness built with -race) and in several processes, comparing programs byte-wise and the policy before/after.",
        technique="Rocq proof (permutation invariance of map folds over regenerated tables) + repeated / concurrent / cross-process differential runs under the Go race detector",
        note="Partial: data-race freedom of the Go execution is observed by the race detector on sampled interleavings of up to 16 goroutines, not proved; the theorems cover order-independence of the map iterations and the functional character of the model. Trusted: Coq kernel, translator, Go race detector, harness.",
        ref="DESIGN.md 6 (C13)"),
    "C14": dict(
        text="Kernel-checked theorems over the name tables, operation list, constants and struct tags REGENERATED from filter.go (coq/properties/C14.v): every documented action name in any letter case parses to exactly the kernel constant, anything else is rejected, printing then parsing a named value gives it back, Unpack is independent of map order, the eight operations behave likewise, and for every field of the policy types the yaml/json keys equal the configuration key. The configuration path (go-ucfg, yaml.v2, encoding/json) is exercised, not modelled: generated policies written as YAML, and marshalled to YAML/JSON, are read back as cmd/sandbox does and must compile to the in-memory policy's program.",
        technique="Rocq proof over regenerated tables (lookup lemmas, reflection for the tag table) + model-vs-implementation evaluation inside Coq on observed parser outputs + configuration round-trip differential",
        note="Trusted: Coq kernel, translator, harness. strings.ToLower is modelled for ASCII (non-ASCII inputs are judged against Go's simple case mapping in the search only); go-ucfg, yaml.v2 and encoding/json are third-party code exercised by round trips, not modelled.",
        ref="DESIGN.md 6 (C14)"),
    "C15": dict(
        text="PARTIAL proof. main and parsePolicy of cmd/sandbox are REGENERATED as statement skeletons on every run and interpreted over EVERY outcome oracle (command line, YAML load, unpack, LoadFilter, target run); a per-run proof shows the skeleton equals a reference behaviour, and kernel-checked theorems (coq/properties/C15.v) show: the target command is created and run only after the policy file was read, unpacked and the filter loaded, all successfully; any failure before that exits non-zero with no target effect; the filter passed to LoadFilter requests thread-sync and the command-line no_new_privs; composed with the loader and kernel models, the program on top of a cloned (exec'd) thread is the compiled one and decides as decide. Tied to the real code by running the built sandbox binary on invalid policy files of every kind (missing, empty, malformed, wrong types, unknown names/actions, duplicates, oversize, directory, unprivileged without no_new_privs) and on generated valid ones with a separate probe target whose marker file and per-probe errno are judged.",
        technique="Rocq proof by exhaustive oracle analysis of the regenerated skeleton (reflection) + composition with the loader/kernel models + built-binary runs with a probe target",
        note="Partial: the model has one process image plus clone; execve keeping the filter stack and no_new_privs is a kernel assumption (E1); go-ucfg / yaml and the flag package are oracle outcomes (a `names:` mapping is unpacked by go-ucfg into an empty list - a legal empty group - which is recorded, not judged); real fork/exec across two processes is observed by experiment. Trusted: Coq kernel, translator/skeleton.go, harness/probetarget, generators.",
        ref="DESIGN.md 6 (C15)"),
    "C16": dict(
        text="Kernel-checked theorems (coq/properties/C16.v) over an executable model of disasm.go: for every text, architecture record and reader behaviour ExtractSyscalls returns a list or an error and never panics; it returns an error, never a list, when the reader fails after any prefix, the file cannot be opened or a line has 65536 bytes or more; the syscalls found after a function marker do not depend on the text in front of it; appending text at a line boundary keeps every syscall found before; every reported (Num, Name) is an entry of the table of the regenerated record passed in (x32 and all other records without a parser are refused). Tied to the code by record-exact comparison with disasm.ExtractSyscalls on generated files and by comparing the models of bufio.Scanner, regexp, ParseInt and Fields with the library.",
        technique="Rocq proof over a total Gallina model of the scanner and parser (loop decomposition lemma, checked slice operations for totality) + model/implementation correspondence + site-model oracle search",
        note="Trusted: Coq kernel, translator (tables), extraction (ExtrOcamlBasic), disasm_driver.ml, harness/disasm.go and generators. Go library functions (bufio.Scanner, regexp, strconv.ParseInt, strings.Fields) are modelled and compared on ~5000 cases per run, not verified. Read failures in mid-file are covered by the theorem only; the implementation run covers a directory, a missing file and scanner errors at every position.",
        ref="DESIGN.md 6 (C16)"),
    "C17": dict(
        text="PARTIAL proof. Kernel-checked theorems (coq/properties/C17.v) over an executable file-system state machine of doObjdump: the invariant 'every file under a final cache name is complete for the hash in its first line' is preserved by every prefix of a run (crash after any step or inside any write, failing or missing disassembler, I/O error, changing binaries, any buffer size), hence after ANY history the next complete run returns the cold-cache dump or an error; the pre-fix protocol is refuted inside Coq (witness by vm_compute, defect D13). Tied to the real profiler binary by SIGKILL / failing-tool / missing-tool / RLIMIT_FSIZE / planted-file histories whose directory contents and profiles are compared with the extracted model.",
        technique="Rocq proof (invariant by induction over operation prefixes and histories) + extraction-based correspondence with the built profiler + direct search over crash points",
        note="Partial: the file system (atomic rename, a file is only what was written to it, sequential runs), the tool's exit status and SHA-256 are assumptions; the model cannot exhibit concurrent profiler processes, loss or reordering of unsynced data at power failure, a temp-name collision, or a cache directory written by other software (a truncated cache planted under the final name with the right hash line is trusted - by the code and by the model). Trusted besides: Coq kernel, extraction (ExtrOcamlBasic), profdriver.ml, the Python history generator.",
        ref="DESIGN.md 6 (C17)"),
    "C18": dict(
        text="Kernel-checked theorems (coq/properties/C18.v): for every order of both Go map iterations, found multiset, blacklist and allow list the emitted list is sorted, duplicate-free, a subset of the table and has exactly the members (found and not blacklisted) or (allowed and in the table) - allowed wins over blacklisted; the profile policy compiles to a filter answering ALLOW exactly for those numbers and ERRNO|EPERM otherwise (corollary of compile_correct), instantiated on the regenerated tables and constants. Tied to the code by running the built profiler on synthetic disassemblies x flag values x both output formats, loading the YAML through the configuration path and evaluating the compiled program over the whole table.",
        technique="Rocq proof (Permutation/Sorted lemmas over an arbitrary-shuffle model of Go maps; corollary of compile_correct) + correspondence with the built profiler + exhaustive table sweep",
        note="Trusted: Coq kernel, translator (tables, constants), extraction, drivers, generators. yaml.v2, go-ucfg and text/template are exercised (the whole amd64 and 386 tables pass through both emitters on every run), not modelled; arm profiles cannot be produced (the disassembly parser refuses arm).",
        ref="DESIGN.md 6 (C18)"),
    "C19": dict(
        text="Kernel-checked theorems over the per-target constant records REGENERATED by type-checking package seccomp under every GOOS/GOARCH of `go tool dist list` (coq/properties/C19.v): the package type-checks everywhere; actions, flags, prctl option, seccomp operations and EPERM equal the vendored UAPI values on every target and ENOSYS is the kernel's value for that CPU (89 on Linux/mips*, else 38) - 38 wherever a syscall table exists, so the constant record and hence compile is the same on every target with tables; on every non-Linux target the three loader functions of the package as built for THAT target (regenerated per target, whatever files its build constraints select) contain no call expression and Supported returns false; targets without tables get unsupported-arch. Finite domain, decided by reflection.",
        technique="Rocq proof by reflection over records regenerated with go/types per build context + cross-check of the running build's constants + go build (and vet in the thorough tier) per target + run-time compilation on js/wasm (node) and linux/386",
        note="Trusted: Coq kernel, the translator and the Go type checker (go/types with the source importer) it calls, vendored UAPI values (linux-libc-dev 6.1; re-read from /usr/include when present). Non-Linux binaries cannot be run here: the stubs are inspected syntactically per target (no call expression, returned literal); the one table-less target this host can execute (js/wasm under node) is RUN: 84 policies through the public API must all fail, with linux/386 as control.",
        ref="DESIGN.md 6 (C19)"),
}

NOT_YET = "check under construction in this session (not yet registered)"


def main():
    try:
        import registry
        have = set(registry.CHECKS)
    except Exception as e:      # noqa: BLE001
        print("registry import failed:", e)
        have = set()
    extra = os.path.join(VERIF, "tools", "claims_extra.json")
    claims = dict(CLAIMS)
    if os.path.exists(extra):
        with open(extra) as f:
            claims.update(json.load(f))
    checks = []
    na = []
    for pid in ALL:
        c = claims.get(pid)
        if c and pid in have and not c.get("not_applicable"):
            checks.append({
                "property_id": pid,
                "quick_cmd": "./check %s --tier quick" % pid,
                "thorough_cmd": "./check %s --tier thorough" % pid,
                "evidence_file": "/verif/evidence/%s.json" % pid,
                "replay_cmd_template": "./check %s --replay {path}" % pid,
                "engine": "rocq-proof+correspondence",
                "level_claimed": {"category": "proof", "text": c["text"], "design_ref": c.get("ref", "DESIGN.md 6")},
                "level_note": c.get("note", COMMON_NOTE),
                "technique": c["technique"],
            })
        else:
            na.append({"property_id": pid, "reason": (c or {}).get("not_applicable") or NOT_YET})
    with open(os.path.join(VERIF, "MANIFEST.json")) as f:
        old = json.load(f)
    m = {
        "version": 1,
        "setup_cmd": "make -C /verif framework",
        "hooks": old["hooks"],
        "engines": [{
            "name": "rocq-proof+correspondence",
            "path": "/verif/check",
            "serves_properties": [c["property_id"] for c in checks],
            "kind_free_text": "Coq 8.16.1 theorems over an executable model (hand-written theories + files regenerated from /repo by /verif/translator); model tied to /repo by a Go harness + extracted-model differential check and a direct search of the implementation's output against the extracted specification",
        }],
        "checks": checks,
        "not_applicable": na,
        "notes": "See DESIGN.md. known_findings.json lists repaired defects (fixed:) and open findings.",
    }
    with open(os.path.join(VERIF, "MANIFEST.json"), "w") as f:
        json.dump(m, f, indent=1)
        f.write("\n")
    print("claimed:", [c["property_id"] for c in checks])
    print("not claimed:", [x["property_id"] for x in na])


if __name__ == "__main__":
    main()
