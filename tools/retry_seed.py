#!/usr/bin/env python3
"""Re-runs a stored seeded change (seeded/<name>/) against the current checks:  tools/retry_seed.py <name> [Cxx ...]
(default: the checks recorded in its meta.json)."""
import json
import os
import shutil
import subprocess
import sys
import tempfile

VERIF = os.path.dirname(os.path.dirname(os.path.abspath(__file__)))
name = sys.argv[1]
d = os.path.join(VERIF, "seeded", name)
meta = json.load(open(os.path.join(d, "meta.json")))
checks = sys.argv[2:] or list(meta.get("checks_run_against_it", {}).keys())
tmp = tempfile.mkdtemp(prefix="retry-", dir="/dev/shm")
try:
    shutil.copy(os.path.join(d, "patch.diff"), os.path.join(tmp, "patch1.diff"))
    shutil.copy(os.path.join(d, "demo_test.go.txt"), os.path.join(tmp, "demo1_test.go"))
    keep = {k: v for k, v in meta.items() if k not in ("confirmation", "checks_run_against_it", "caught_by", "demo_package_dir")}
    json.dump(keep, open(os.path.join(tmp, "meta1.json"), "w"))
    r = subprocess.run([sys.executable, os.path.join(VERIF, "tools", "try_seed.py"), tmp, "1", name] + checks)
    sys.exit(r.returncode)
finally:
    shutil.rmtree(tmp, ignore_errors=True)
