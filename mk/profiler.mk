# Build products of the profiler component (C17, C18): the extracted model of coq/theories/Profiler.v and its driver.
EXTRA_TARGETS += coq/extract/profdriver

coq/extract/profmodel.ml: coq/.theories.stamp coq/extract/ExtractProfiler.v
	cd coq/extract && timeout 600 coqc -Q ../theories Seccomp ExtractProfiler.v >/dev/null

coq/extract/profdriver: coq/extract/profmodel.ml coq/extract/profdriver.ml
	cd coq/extract && ocamlfind ocamlopt -w -a profmodel.mli profmodel.ml profdriver.ml -o profdriver
