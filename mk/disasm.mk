# C16: extraction of the disassembly-parser model (coq/theories/Disasm.v) and its OCaml driver.
EXTRA_TARGETS += coq/extract/disasm_driver

coq/extract/disasm_model.ml: coq/.theories.stamp coq/extract/ExtractDisasm.v
	cd coq/extract && timeout 600 coqc -Q ../theories Seccomp ExtractDisasm.v >/dev/null

coq/extract/disasm_driver: coq/extract/disasm_model.ml coq/extract/disasm_driver.ml
	cd coq/extract && ocamlfind ocamlopt -w -a disasm_model.mli disasm_model.ml disasm_driver.ml -o disasm_driver
