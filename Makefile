# Builds the parts of the framework that do not depend on /repo: the hand-written Coq theories (full .vo),
# the extraction of the executable model and the OCaml driver. Used by MANIFEST.setup_cmd and re-run
# (a no-op when up to date) by every check.
# files named in coq/WIP (one per line) are under construction and not part of the build
WIP := $(shell cat coq/WIP 2>/dev/null)
COQSRC := $(filter-out $(addprefix coq/theories/,$(WIP)),$(wildcard coq/theories/*.v))

.PHONY: framework clean
# component makefiles (mk/*.mk) add their own build products to EXTRA_TARGETS
EXTRA_TARGETS :=
-include mk/*.mk
framework: coq/extract/driver coq/oracle/.oracle.stamp $(EXTRA_TARGETS)

# the coq_makefile project lists every file of coq/theories (dependencies are found by coqdep)
coq/_CoqProject: $(COQSRC)
	(echo "-Q theories Seccomp"; for f in $(COQSRC); do echo $${f#coq/}; done) > $@

coq/Makefile: coq/_CoqProject
	cd coq && coq_makefile -f _CoqProject -o Makefile >/dev/null

coq/.theories.stamp: coq/Makefile $(COQSRC)
	cd coq && timeout 3000 $(MAKE) -j16 -s
	touch $@

coq/oracle/.oracle.stamp: coq/oracle/OracleTables.v coq/oracle/OracleConsts.v coq/oracle/OracleAudit.v
	cd coq/oracle && timeout 600 coqc -Q . Oracle OracleTables.v && timeout 600 coqc -Q . Oracle OracleConsts.v && timeout 600 coqc -Q . Oracle OracleAudit.v
	touch $@

coq/extract/model.ml: coq/.theories.stamp coq/extract/Extract.v
	cd coq/extract && timeout 600 coqc -Q ../theories Seccomp Extract.v >/dev/null

coq/extract/driver: coq/extract/model.ml coq/extract/driver.ml
	cd coq/extract && ocamlfind ocamlopt -w -a model.mli model.ml driver.ml -o driver

clean:
	-cd coq && [ -f Makefile ] && $(MAKE) -s clean
	rm -f coq/Makefile coq/Makefile.conf coq/.Makefile.d coq/.theories.stamp coq/oracle/.oracle.stamp coq/extract/model.ml coq/extract/model.mli coq/extract/driver
	find coq -name '*.vo' -o -name '*.vok' -o -name '*.vos' -o -name '*.glob' -o -name '*.aux' -o -name '*.cm[iox]' -o -name '*.o' | xargs rm -f
